(** C13 — Data scope: child overlays parent, locked sections are atomic.
    Only statements; every proof is [exact <lemma of Proofs/Data.v or Proofs/DataMore.v>].
    First part: the original theorems.  Second part (after the first examples): the theorems of the
    proof audit, which state the clauses over whole histories, whole locked sections and systems
    in which the locked sections run among ARBITRARY other goroutines.

    A chain is a list of maps, innermost child first; scope [j] is level [j], its ancestors are
    the levels [> j]; value [0] is Go's nil.  [final_chain st0 ops] is the chain after an
    arbitrary history of SetValue / Value / Keys / locker operations on arbitrary levels.
    The concurrent model ([init st progs], [step], [run sched]) has one atomic step per
    lock-protected region of data.go / child.go / locker.go; threads are arbitrary programs over
    {Value, SetValue, LockData, locker.Value, locker.SetValue, Commit} (plus the two
    read-modify-write forms) on arbitrary levels. *)
From GC Require Import Common.Base Model.Data Model.DataMore Proofs.Data Proofs.DataMore.

(** Overlay, any depth, after any history: a scope answers with its own binding when it has one
    and otherwise with what its parent answers NOW; beyond the root the answer is nil. *)
Theorem C13_overlay : forall st0 ops j m k,
  let st := final_chain st0 ops in
  nth_error st j = Some m ->
  value_at st j k = match lookup k m with Some v => v | None => value_at st (S j) k end.
Proof. exact overlay_hist. Qed.
Print Assumptions C13_overlay.

Theorem C13_overlay_root : forall st0 ops j k,
  let st := final_chain st0 ops in nth_error st j = None -> value_at st j k = 0.
Proof. exact root_miss_hist. Qed.
Print Assumptions C13_overlay_root.

(** ... in particular a child without an own binding sees a value written to its parent afterwards. *)
Theorem C13_overlay_parent_current : forall st j k v m,
  nth_error st j = Some m -> lookup k m = None -> (S j < length st)%nat ->
  value_at (set_at st (S j) k v) j k = v.
Proof. exact child_sees_parent_write. Qed.
Print Assumptions C13_overlay_parent_current.

(** SetValue on a scope never changes what any ancestor answers (values and key sets), and the
    scope itself then answers with the new value, other keys unchanged. *)
Theorem C13_child_set_local : forall st j k v i k',
  (j < i)%nat ->
  value_at (set_at st j k v) i k' = value_at st i k' /\ keys_at (set_at st j k v) i = keys_at st i.
Proof. exact child_set_local. Qed.
Print Assumptions C13_child_set_local.

Theorem C13_set_then_value : forall st j k v k',
  (j < length st)%nat ->
  value_at (set_at st j k v) j k = v /\ (k <> k' -> value_at (set_at st j k v) j k' = value_at st j k').
Proof. exact set_then_value. Qed.
Print Assumptions C13_set_then_value.

(** Exclusive access, all programs, all schedules.  In every reachable state: a thread between its
    LockData on scope [j] and its Commit owns [j]; while [o] owns [j], (a) every step of anybody
    that goes through [j]'s mutex — Value, SetValue, LockData on [j], or a Value walking up
    through [j] — is disabled, and (b) no step of another thread changes [j]'s map or [j]'s owner. *)
Theorem C13_exclusive : forall st progs sched,
  let s := run sched (init st progs) in
  (forall o t j, nth_error (ths s) o = Some t -> held t = Some j -> own s j = Some o) /\
  (forall j o, own s j = Some o ->
     (exists t, nth_error (ths s) o = Some t /\ held t = Some j) /\
     (forall u th, nth_error (ths s) u = Some th -> touches th = Some j -> step u s = None) /\
     (forall u s', u <> o -> step u s = Some s' ->
        nth_error (maps s') j = nth_error (maps s) j /\ own s' j = Some o)).
Proof. exact exclusive. Qed.
Print Assumptions C13_exclusive.

(** Read-modify-write under the lock is never lost: [n] threads each doing
    [l := LockData(); v := l.Value(k); l.SetValue(k, v+1); l.Commit()] on scope [j] of any chain
    (the key may live in the scope or in an ancestor), any schedule: when all are done the value
    is the initial one plus [n]; at every moment it is the initial one plus the number of writes
    performed; and the system never deadlocks. *)
Theorem C13_rmw : forall st0 j k n sched,
  (j < length st0)%nat ->
  let s := run sched (counter_sys st0 j k n) in
  all_done s = true -> value_at (maps s) j k = value_at st0 j k + N.of_nat n.
Proof. intros st0 j k n sched H. exact (rmw_final st0 j k n H sched). Qed.
Print Assumptions C13_rmw.

Theorem C13_rmw_every_moment : forall st0 j k n sched,
  (j < length st0)%nat ->
  let s := run sched (counter_sys st0 j k n) in
  value_at (maps s) j k = value_at st0 j k + N.of_nat (GC.Proofs.Locks.sumf ccnt (ths s)).
Proof. intros st0 j k n sched H. exact (rmw_progress_count st0 j k n H sched). Qed.
Print Assumptions C13_rmw_every_moment.

Theorem C13_rmw_no_deadlock : forall st0 j k n sched,
  (j < length st0)%nat ->
  let s := run sched (counter_sys st0 j k n) in
  all_done s = false -> exists i, step i s <> None.
Proof. intros st0 j k n sched H. exact (rmw_no_deadlock st0 j k n H sched). Qed.
Print Assumptions C13_rmw_no_deadlock.

(** Get-or-create exactly as coded in tasks.Unit.FromScope, envs.Unit.Envs and
    waits.WaitManager.ForScope (lock; read; create and store when nil; commit): any number of
    callers, each with its own candidate instance [v <> nil], any schedule: all callers that have
    returned got the same non-nil instance, which is the one the scope now answers with. *)
Theorem C13_get_or_create : forall st0 j k vs sched a b ta tb,
  (j < length st0)%nat -> Forall (fun v => v <> 0) vs ->
  let s := run sched (goc_sys st0 j k vs) in
  nth_error (ths s) a = Some ta -> prog ta = [] ->
  nth_error (ths s) b = Some tb -> prog tb = [] ->
  reg ta = reg tb /\ reg ta <> 0 /\ reg ta = value_at (maps s) j k.
Proof. intros st0 j k vs sched a b ta tb H1 H2. exact (goc_one_instance st0 j k vs H1 H2 sched a b ta tb). Qed.
Print Assumptions C13_get_or_create.

Theorem C13_get_or_create_no_deadlock : forall st0 j k vs sched,
  (j < length st0)%nat -> Forall (fun v => v <> 0) vs ->
  let s := run sched (goc_sys st0 j k vs) in
  all_done s = false -> exists i, step i s <> None.
Proof. intros st0 j k vs sched H1 H2. exact (goc_no_deadlock st0 j k vs H1 H2 sched). Qed.
Print Assumptions C13_get_or_create_no_deadlock.

(** Non-vacuity / what a regression looks like: the same two idioms WITHOUT the lock lose an
    update, resp. hand out two instances, on a 4-resp. 6-step schedule. *)
Theorem C13_unlocked_rmw_refuted :
  let s := run [0; 1; 0; 1]%nat (init [[(7, 10)]] [unlocked_counter 0 7; unlocked_counter 0 7]) in
  all_done s = true /\ value_at (maps s) 0 7 = 11.
Proof. exact unlocked_rmw_refuted. Qed.
Print Assumptions C13_unlocked_rmw_refuted.

Theorem C13_unlocked_get_or_create_refuted :
  let s := run [0; 0; 1; 1; 0; 1]%nat (init [[]] [unlocked_goc 0 7 100; unlocked_goc 0 7 200]) in
  all_done s = true /\ map reg (ths s) = [100; 200].
Proof. exact unlocked_goc_refuted. Qed.
Print Assumptions C13_unlocked_get_or_create_refuted.

(** Non-vacuity of the positive theorems: concrete runs evaluated by the model. *)
Definition ex_chain : chain := [[(1, 5)]; [(2, 7)]; [(1, 9); (3, 4)]].
Example C13_ex_overlay :
  (value_at ex_chain 0 1, value_at ex_chain 0 2, value_at ex_chain 0 3, value_at ex_chain 1 1,
   value_at ex_chain 0 8, value_at (set_at ex_chain 1 3 6) 0 3, value_at (set_at ex_chain 0 3 6) 2 3)
  = (5, 7, 4, 9, 0, 6, 4).
Proof. vm_compute. reflexivity. Qed.
(** three counters on the middle scope, key 3 lives in the root: an interleaved schedule with
    blocked attempts in between; all done, value 4 + 3, root untouched *)
Example C13_ex_rmw :
  let s := run [0;1;0;2;0;0;1;0;1;1;2;1;1;1;2;2;2;2;2]%nat (counter_sys ex_chain 1 3 3) in
  (all_done s, value_at (maps s) 1 3, value_at (maps s) 2 3) = (true, 7, 4).
Proof. vm_compute. reflexivity. Qed.
Example C13_ex_exclusive :
  let s := run [0]%nat (init ex_chain [counter_prog 1 3; [ORead 0 2]; [OWrite 1 5 5]; [ORead 0 1]]) in
  (own s 1%nat, step 1%nat (run [1]%nat s), step 2%nat s, match step 3%nat s with Some _ => true | None => false end)
  = (Some 0%nat, None, None, true).
Proof. vm_compute. reflexivity. Qed.
Example C13_ex_goc :
  let s := run [1;1;0;1;2;1;1;1;0;0;2;0;0;2;2;2;2]%nat (goc_sys [[]; [(9, 1)]] 0 7 [100; 200; 300]) in
  (all_done s, map reg (ths s), value_at (maps s) 0 7) = (true, [200; 200; 200], 200).
Proof. vm_compute. reflexivity. Qed.

(** * Second part: proof audit *)

(** ** Histories.  [C13_overlay] speaks about the chain a history leaves; the three theorems below
    speak about the history itself.  What the implementation answers at position [length ops1] of
    any history is computed from the chain left by the operations before it ... *)
Theorem C13_history_observation : forall st0 ops1 o ops2,
  nth_error (snd (sexec_all st0 (ops1 ++ o :: ops2))) (length ops1)
  = Some (snd (sexec (final_chain st0 ops1) o)).
Proof. exact obs_at_prefix. Qed.
Print Assumptions C13_history_observation.

(** ... and a Value there is the most recent store (plain or through a locker) on the nearest
    scope, own first and then towards the root, that has the key at all - stored by the history or
    present initially - and nil when no scope up to the root has it.  Any depth, any history.
    (Supersedes C13_overlay / C13_overlay_root / C13_set_then_value as a functional description.) *)
Theorem C13_history_value : forall st0 ops j k,
  value_at (final_chain st0 ops) j k
  = first_bound (fun l => bound_after st0 ops l k) j (length st0 - j).
Proof. exact history_value. Qed.
Print Assumptions C13_history_value.

(** Setting values in descendants never changes an ancestor, over whole histories: every
    observation (Value, Keys, plain or through a locker) on scope [i] or above, at any point of
    any history, is what it would have been had the operations on the scopes below [i] never
    happened.  (Supersedes the one-step C13_child_set_local.) *)
Theorem C13_history_ancestors_unaffected : forall st0 ops i o,
  (i <= sop_level o)%nat ->
  snd (sexec (final_chain st0 ops) o) = snd (sexec (final_chain st0 (filter (on_or_above i) ops)) o).
Proof. exact history_ancestors_unaffected. Qed.
Print Assumptions C13_history_ancestors_unaffected.

(** ** Whole locked sections.  [C13_exclusive] is about one step; this is the section: from any
    reachable state in which [o] holds scope [j], let the OTHER threads run for as long as they
    like ([sched'] without [o], any length, any programs): scope [j]'s map is exactly as the holder
    left it, [o] still owns [j], and the holder's own state (its register, what it is about to do)
    is untouched. *)
Theorem C13_section_isolated : forall st progs sched sched' j o,
  let s := run sched (init st progs) in
  own s j = Some o -> ~ In o sched' ->
  let s' := run sched' s in
  nth_error (maps s') j = nth_error (maps s) j /\ own s' j = Some o /\
  nth_error (ths s') o = nth_error (ths s) o.
Proof. exact section_isolated. Qed.
Print Assumptions C13_section_isolated.

(** ... and nobody can keep the holder from using its locker: SetValue, the own level of Value and
    Commit are enabled in every state (exclusive access is access). *)
Theorem C13_holder_enabled : forall s o t j,
  nth_error (ths s) o = Some t -> held t = Some j -> locker_own_op t = true -> step o s <> None.
Proof. exact holder_enabled. Qed.
Print Assumptions C13_holder_enabled.

(** No read, write or lock of another goroutine on a locked scope takes effect, stated without the
    auxiliary [touches]: while [o] holds [j], whatever any other thread can do it does identically
    when scope [j]'s map is replaced by an arbitrary map [m] (same enabledness, same register, same
    effect on every other scope), and it leaves the replaced map in place.  So the others can
    neither observe nor change what the holder has done so far. *)
Theorem C13_locked_scope_invisible : forall st progs sched j o u m,
  let s := run sched (init st progs) in
  own s j = Some o -> u <> o ->
  step u (with_level s j m) = option_map (fun s' => with_level s' j m) (step u s).
Proof. exact locked_scope_invisible. Qed.
Print Assumptions C13_locked_scope_invisible.

(** ** Read-modify-write under the lock among ARBITRARY other goroutines.  Goroutine [i < length cs]
    does [nth i cs] locked increments of key [k] on scope [j] (the harness's counter goroutines);
    [others] are arbitrary programs - plain reads and writes on any scope, lockers on any scope
    including [j], committed or not - restricted only in that they do not themselves store under
    [k] into [j] or an ancestor of [j] ([quiet]; plain stores of [k] into descendants are allowed).
    Every schedule, every moment: the value plus the increments still to come is the initial value
    plus all increments - no update is lost, whatever the others do.
    (Supersedes C13_rmw_every_moment and C13_rmw, which are the case others = [], cs = 1,...,1.) *)
Theorem C13_rmw_mixed_every_moment : forall st0 j k cs others sched,
  (j < length st0)%nat -> forallb (quiet j k) others = true ->
  let s := run sched (mixed_sys st0 j k cs others) in
  value_at (maps s) j k + N.of_nat (GC.Proofs.Locks.sumf (adds_left k) (ths s))
  = value_at st0 j k + N.of_nat (list_sum cs).
Proof. intros st0 j k cs others sched H1 H2. exact (rmw_mixed_every_moment st0 j k cs others H1 H2 sched). Qed.
Print Assumptions C13_rmw_mixed_every_moment.

Theorem C13_rmw_mixed : forall st0 j k cs others sched,
  (j < length st0)%nat -> forallb (quiet j k) others = true ->
  let s := run sched (mixed_sys st0 j k cs others) in
  (forall i t, (i < length cs)%nat -> nth_error (ths s) i = Some t -> prog t = []) ->
  value_at (maps s) j k = value_at st0 j k + N.of_nat (list_sum cs).
Proof. intros st0 j k cs others sched H1 H2. exact (rmw_mixed_final st0 j k cs others H1 H2 sched). Qed.
Print Assumptions C13_rmw_mixed.

(** the counter goroutines of the correspondence check (several increments each) never deadlock *)
Theorem C13_rmw_loops_no_deadlock : forall st0 j k cs sched,
  (j < length st0)%nat ->
  let s := run sched (mixed_sys st0 j k cs []) in
  all_done s = false -> exists i, step i s <> None.
Proof. exact rmw_loops_no_deadlock. Qed.
Print Assumptions C13_rmw_loops_no_deadlock.

(** Get-or-create among arbitrary other goroutines (same [quiet] restriction): all callers that
    have returned got the same non-nil instance, the one the scope answers with.
    (Supersedes C13_get_or_create, the case others = [].) *)
Theorem C13_get_or_create_mixed : forall st0 j k vs others sched a b ta tb,
  (j < length st0)%nat -> Forall (fun v => v <> 0) vs -> forallb (quiet j k) others = true ->
  let s := run sched (goc_mixed_sys st0 j k vs others) in
  (a < length vs)%nat -> nth_error (ths s) a = Some ta -> prog ta = [] ->
  (b < length vs)%nat -> nth_error (ths s) b = Some tb -> prog tb = [] ->
  reg ta = reg tb /\ reg ta <> 0 /\ reg ta = value_at (maps s) j k.
Proof.
  intros st0 j k vs others sched a b ta tb H1 H2 H3.
  exact (goc_mixed_one_instance st0 j k vs others H1 H2 H3 sched a b ta tb).
Qed.
Print Assumptions C13_get_or_create_mixed.

(** ** Lock order.  ANY programs that take lockers one at a time, commit each, and while holding
    the locker of scope [j] go only through scopes strictly above [j] (which is what the locker's
    own Value does when it falls back to the parent) never deadlock, under any schedule.
    (Supersedes C13_rmw_no_deadlock and C13_get_or_create_no_deadlock: both idioms are [upward].)
    The order matters: a holder of the parent's locker that reads the child, against a holder of
    the child's locker whose Value falls back to the parent, is stuck after three steps - in the
    model and (checked with a throw-away test) in the Go code; that is a caller's lock-order
    inversion, none of the services does it. *)
Theorem C13_lock_order_no_deadlock : forall st progs sched,
  forallb upward progs = true ->
  let s := run sched (init st progs) in
  all_done s = false -> exists i, step i s <> None.
Proof. exact upward_no_deadlock. Qed.
Print Assumptions C13_lock_order_no_deadlock.

Theorem C13_lock_order_deadlock_refuted :
  let s := run [0; 1; 0]%nat (init [[]; [(9, 1)]] [[OLock 0; OLRead 7; OCommit]; [OLock 1; ORead 0 7; OCommit]]) in
  all_done s = false /\ step 0%nat s = None /\ step 1%nat s = None.
Proof. exact lock_order_deadlock. Qed.
Print Assumptions C13_lock_order_deadlock_refuted.

(** Non-vacuity of the second part. *)
Definition ex_hist : list sop :=
  [SSet 0 3 8; SLSet 2 3 6; SSet 1 1 2; SGet 0 3; SLSet 0 3 1; SSet 2 2 9; SKeys 1; SLSet 1 4 4].
(** Value on the leaf / the middle scope for keys 1..4 after the history, as computed by the model
    and as given by the last-store description; the stored values are visible in both *)
Example C13_ex_history_value :
  (map (value_at (final_chain ex_chain ex_hist) 0) [1; 2; 3; 4; 5],
   map (fun k => first_bound (fun l => bound_after ex_chain ex_hist l k) 1 2) [1; 2; 3; 4; 5])
  = ([5; 7; 1; 4; 0], [2; 7; 6; 4; 0]).
Proof. vm_compute. reflexivity. Qed.
Example C13_ex_history_observation :
  nth_error (snd (sexec_all ex_chain ex_hist)) 3 = Some (SVal 8).
Proof. vm_compute. reflexivity. Qed.
(** the root's answers with and without everything done below it (5 of the 8 operations dropped) *)
Example C13_ex_history_ancestors :
  (length (filter (on_or_above 2) ex_hist),
   snd (sexec (final_chain ex_chain ex_hist) (SGet 2 3)),
   snd (sexec (final_chain ex_chain (filter (on_or_above 2) ex_hist)) (SGet 2 3)),
   snd (sexec (final_chain ex_chain (filter (on_or_above 2) ex_hist)) (SKeys 2)))
  = (2%nat, SVal 6, SVal 6, SKeyset [1; 3; 2]).
Proof. vm_compute. reflexivity. Qed.

(** thread 0 holds the middle scope and has written 5 -> its section stays open while the others
    take 7 scheduled turns (5 of them are real steps: a read of the leaf, reads and a write of the
    root; the read through the middle scope and the write to it stay blocked) *)
Definition ex_open : cstate :=
  run [0; 0; 0; 0]%nat (init ex_chain [counter_prog 1 3; [ORead 0 2]; [OWrite 1 5 5]; [ORead 0 1; ORead 2 3; OWrite 2 3 0]]).
Example C13_ex_section_isolated :
  let s' := run [1; 3; 2; 3; 1; 3; 3]%nat ex_open in
  (own ex_open 1%nat, nth_error (maps ex_open) 1, nth_error (maps s') 1,
   map (fun t => length (prog t)) (ths s'), value_at (maps s') 2 3,
   match step 0%nat s' with Some _ => true | None => false end)
  = (Some 0%nat, Some [(2, 7); (3, 5)], Some [(2, 7); (3, 5)], [1; 1; 1; 0]%nat, 0, true).
Proof. vm_compute. reflexivity. Qed.
(** replacing the locked scope's map changes nothing for thread 3 (enabled, reads the leaf) nor
    for thread 2 (blocked both times) *)
Example C13_ex_invisible :
  (option_map (fun s => (maps s, map reg (ths s))) (step 3%nat (with_level ex_open 1 [(1, 99)])),
   option_map (fun s => (maps s, map reg (ths s))) (step 3%nat ex_open),
   step 2%nat (with_level ex_open 1 [(1, 99)]), step 2%nat ex_open)
  = (Some ([[(1, 5)]; [(1, 99)]; [(1, 9); (3, 4)]], [4; 0; 0; 5]),
     Some ([[(1, 5)]; [(2, 7); (3, 5)]; [(1, 9); (3, 4)]], [4; 0; 0; 5]), None, None).
Proof. vm_compute. reflexivity. Qed.

(** two counters (2 and 1 increments) on the middle scope, key 3 lives in the root, among a plain
    reader/writer of the leaf under the same key, a goroutine that takes the middle scope's locker
    itself for another key, and one that writes the root under another key and then holds the
    root's locker: all [quiet]; an interleaved schedule; everybody done; 4 + 3 *)
Definition ex_others : list (list op) :=
  [[ORead 0 3; OWrite 0 3 50; ORead 0 3]; [OLock 1; OLWrite 8 8; OLRead 3; OCommit];
   [OWrite 2 1 77; OLock 2; OLRead 1; OCommit]].
Example C13_ex_rmw_mixed :
  let s := run [0;3;1;4;0;2;0;0;1;0;1;1;2;3;3;4;4;1;1;1;2;2;2;2;2;0;0;0;0;1;1;1;1;3;3;3;4;4;4;2;2;3]%nat
               (mixed_sys ex_chain 1 3 [2; 1]%nat ex_others) in
  (forallb (quiet 1 3) ex_others, all_done s, value_at (maps s) 1 3, map reg (ths s), maps s)
  = (true, true, 7, [6; 5; 50; 7; 77],
     [[(1, 5); (3, 50)]; [(2, 7); (3, 7); (8, 8)]; [(1, 77); (3, 4)]]).
Proof. vm_compute. reflexivity. Qed.
(** the restriction on the others is needed: a plain store under the same key into the same scope
    between two sections is a legitimate overwrite, and the sum is then no longer the count *)
Example C13_ex_rmw_mixed_not_quiet :
  let s := run [0;0;0;0;1;0;0;0;0]%nat (mixed_sys [[(7, 10)]] 0 7 [2]%nat [[OWrite 0 7 0]]) in
  (quiet 0 7 [OWrite 0 7 0], all_done s, value_at (maps s) 0 7) = (false, true, 1).
Proof. vm_compute. reflexivity. Qed.
Example C13_ex_goc_mixed :
  let s := run ([1;3;1;0;1;2;3;1;1;3;0;2;1] ++ concat (repeat [0;3;2;1] 14))%nat
               (goc_mixed_sys [[]; [(9, 1)]] 0 7 [100; 200; 300]
                  [[ORead 0 7; OWrite 1 9 2; OLock 0; OLRead 7; OCommit]]) in
  (all_done s, map reg (ths s), value_at (maps s) 0 7, maps s)
  = (true, [200; 200; 200; 200], 200, [[(7, 200)]; [(9, 2)]]).
Proof. vm_compute. reflexivity. Qed.
(** programs that obey the order: the two idioms, a section on the leaf that reads and writes the
    root, plain users; the inverted pair of the refutation does not *)
Example C13_ex_upward :
  (forallb upward [counter_prog 1 3; goc_prog 0 7 100; counter_loop 2 3 3;
                   [OLock 0; OLRead 3; ORead 2 3; OWrite 2 3 1; OCommit; OWrite 0 1 1; OLock 1; OLAdd 2 1; OCommit];
                   [ORead 0 1; OWrite 1 2 3]],
   upward [OLock 1; ORead 0 7; OCommit], upward [OLock 0; OLock 1; OCommit; OCommit], upward [OLock 0])
  = (true, false, false, false).
Proof. vm_compute. reflexivity. Qed.
Example C13_ex_upward_run :
  let s := run ([0;1;0;1;0;1;1;0;0;0;1;1;1] ++ concat (repeat [0;1] 6))%nat
             (init ex_chain [[OLock 0; OLRead 3; ORead 2 3; OWrite 2 3 1; OCommit]; [OLock 1; OLRead 3; OLAdd 3 1; OCommit]]) in
  (all_done s, maps s) = (true, [[(1, 5)]; [(2, 7); (3, 5)]; [(1, 9); (3, 1)]]).
Proof. vm_compute. reflexivity. Qed.
