(** C13 — Data scope: child overlays parent, locked sections are atomic.
    Only statements; every proof is [exact <lemma of Proofs/Data.v>].

    A chain is a list of maps, innermost child first; scope [j] is level [j], its ancestors are
    the levels [> j]; value [0] is Go's nil.  [final_chain st0 ops] is the chain after an
    arbitrary history of SetValue / Value / Keys / locker operations on arbitrary levels.
    The concurrent model ([init st progs], [step], [run sched]) has one atomic step per
    lock-protected region of data.go / child.go / locker.go; threads are arbitrary programs over
    {Value, SetValue, LockData, locker.Value, locker.SetValue, Commit} (plus the two
    read-modify-write forms) on arbitrary levels. *)
From GC Require Import Common.Base Model.Data Proofs.Data.

(** Overlay, any depth, after any history: a scope answers with its own binding when it has one
    and otherwise with what its parent answers NOW; beyond the root the answer is nil. *)
Theorem C13_overlay : forall st0 ops j m k,
  let st := final_chain st0 ops in
  nth_error st j = Some m ->
  value_at st j k = match lookup k m with Some v => v | None => value_at st (S j) k end.
Proof. exact overlay_hist. Qed.
Print Assumptions C13_overlay.

Theorem C13_overlay_root : forall st0 ops j k,
  let st := final_chain st0 ops in nth_error st j = None -> value_at st j k = 0.
Proof. exact root_miss_hist. Qed.
Print Assumptions C13_overlay_root.

(** ... in particular a child without an own binding sees a value written to its parent afterwards. *)
Theorem C13_overlay_parent_current : forall st j k v m,
  nth_error st j = Some m -> lookup k m = None -> (S j < length st)%nat ->
  value_at (set_at st (S j) k v) j k = v.
Proof. exact child_sees_parent_write. Qed.
Print Assumptions C13_overlay_parent_current.

(** SetValue on a scope never changes what any ancestor answers (values and key sets), and the
    scope itself then answers with the new value, other keys unchanged. *)
Theorem C13_child_set_local : forall st j k v i k',
  (j < i)%nat ->
  value_at (set_at st j k v) i k' = value_at st i k' /\ keys_at (set_at st j k v) i = keys_at st i.
Proof. exact child_set_local. Qed.
Print Assumptions C13_child_set_local.

Theorem C13_set_then_value : forall st j k v k',
  (j < length st)%nat ->
  value_at (set_at st j k v) j k = v /\ (k <> k' -> value_at (set_at st j k v) j k' = value_at st j k').
Proof. exact set_then_value. Qed.
Print Assumptions C13_set_then_value.

(** Exclusive access, all programs, all schedules.  In every reachable state: a thread between its
    LockData on scope [j] and its Commit owns [j]; while [o] owns [j], (a) every step of anybody
    that goes through [j]'s mutex — Value, SetValue, LockData on [j], or a Value walking up
    through [j] — is disabled, and (b) no step of another thread changes [j]'s map or [j]'s owner. *)
Theorem C13_exclusive : forall st progs sched,
  let s := run sched (init st progs) in
  (forall o t j, nth_error (ths s) o = Some t -> held t = Some j -> own s j = Some o) /\
  (forall j o, own s j = Some o ->
     (exists t, nth_error (ths s) o = Some t /\ held t = Some j) /\
     (forall u th, nth_error (ths s) u = Some th -> touches th = Some j -> step u s = None) /\
     (forall u s', u <> o -> step u s = Some s' ->
        nth_error (maps s') j = nth_error (maps s) j /\ own s' j = Some o)).
Proof. exact exclusive. Qed.
Print Assumptions C13_exclusive.

(** Read-modify-write under the lock is never lost: [n] threads each doing
    [l := LockData(); v := l.Value(k); l.SetValue(k, v+1); l.Commit()] on scope [j] of any chain
    (the key may live in the scope or in an ancestor), any schedule: when all are done the value
    is the initial one plus [n]; at every moment it is the initial one plus the number of writes
    performed; and the system never deadlocks. *)
Theorem C13_rmw : forall st0 j k n sched,
  (j < length st0)%nat ->
  let s := run sched (counter_sys st0 j k n) in
  all_done s = true -> value_at (maps s) j k = value_at st0 j k + N.of_nat n.
Proof. intros st0 j k n sched H. exact (rmw_final st0 j k n H sched). Qed.
Print Assumptions C13_rmw.

Theorem C13_rmw_every_moment : forall st0 j k n sched,
  (j < length st0)%nat ->
  let s := run sched (counter_sys st0 j k n) in
  value_at (maps s) j k = value_at st0 j k + N.of_nat (GC.Proofs.Locks.sumf ccnt (ths s)).
Proof. intros st0 j k n sched H. exact (rmw_progress_count st0 j k n H sched). Qed.
Print Assumptions C13_rmw_every_moment.

Theorem C13_rmw_no_deadlock : forall st0 j k n sched,
  (j < length st0)%nat ->
  let s := run sched (counter_sys st0 j k n) in
  all_done s = false -> exists i, step i s <> None.
Proof. intros st0 j k n sched H. exact (rmw_no_deadlock st0 j k n H sched). Qed.
Print Assumptions C13_rmw_no_deadlock.

(** Get-or-create exactly as coded in tasks.Unit.FromScope, envs.Unit.Envs and
    waits.WaitManager.ForScope (lock; read; create and store when nil; commit): any number of
    callers, each with its own candidate instance [v <> nil], any schedule: all callers that have
    returned got the same non-nil instance, which is the one the scope now answers with. *)
Theorem C13_get_or_create : forall st0 j k vs sched a b ta tb,
  (j < length st0)%nat -> Forall (fun v => v <> 0) vs ->
  let s := run sched (goc_sys st0 j k vs) in
  nth_error (ths s) a = Some ta -> prog ta = [] ->
  nth_error (ths s) b = Some tb -> prog tb = [] ->
  reg ta = reg tb /\ reg ta <> 0 /\ reg ta = value_at (maps s) j k.
Proof. intros st0 j k vs sched a b ta tb H1 H2. exact (goc_one_instance st0 j k vs H1 H2 sched a b ta tb). Qed.
Print Assumptions C13_get_or_create.

Theorem C13_get_or_create_no_deadlock : forall st0 j k vs sched,
  (j < length st0)%nat -> Forall (fun v => v <> 0) vs ->
  let s := run sched (goc_sys st0 j k vs) in
  all_done s = false -> exists i, step i s <> None.
Proof. intros st0 j k vs sched H1 H2. exact (goc_no_deadlock st0 j k vs H1 H2 sched). Qed.
Print Assumptions C13_get_or_create_no_deadlock.

(** Non-vacuity / what a regression looks like: the same two idioms WITHOUT the lock lose an
    update, resp. hand out two instances, on a 4-resp. 6-step schedule. *)
Theorem C13_unlocked_rmw_refuted :
  let s := run [0; 1; 0; 1]%nat (init [[(7, 10)]] [unlocked_counter 0 7; unlocked_counter 0 7]) in
  all_done s = true /\ value_at (maps s) 0 7 = 11.
Proof. exact unlocked_rmw_refuted. Qed.
Print Assumptions C13_unlocked_rmw_refuted.

Theorem C13_unlocked_get_or_create_refuted :
  let s := run [0; 0; 1; 1; 0; 1]%nat (init [[]] [unlocked_goc 0 7 100; unlocked_goc 0 7 200]) in
  all_done s = true /\ map reg (ths s) = [100; 200].
Proof. exact unlocked_goc_refuted. Qed.
Print Assumptions C13_unlocked_get_or_create_refuted.

(** Non-vacuity of the positive theorems: concrete runs evaluated by the model. *)
Definition ex_chain : chain := [[(1, 5)]; [(2, 7)]; [(1, 9); (3, 4)]].
Example C13_ex_overlay :
  (value_at ex_chain 0 1, value_at ex_chain 0 2, value_at ex_chain 0 3, value_at ex_chain 1 1,
   value_at ex_chain 0 8, value_at (set_at ex_chain 1 3 6) 0 3, value_at (set_at ex_chain 0 3 6) 2 3)
  = (5, 7, 4, 9, 0, 6, 4).
Proof. vm_compute. reflexivity. Qed.
(** three counters on the middle scope, key 3 lives in the root: an interleaved schedule with
    blocked attempts in between; all done, value 4 + 3, root untouched *)
Example C13_ex_rmw :
  let s := run [0;1;0;2;0;0;1;0;1;1;2;1;1;1;2;2;2;2;2]%nat (counter_sys ex_chain 1 3 3) in
  (all_done s, value_at (maps s) 1 3, value_at (maps s) 2 3) = (true, 7, 4).
Proof. vm_compute. reflexivity. Qed.
Example C13_ex_exclusive :
  let s := run [0]%nat (init ex_chain [counter_prog 1 3; [ORead 0 2]; [OWrite 1 5 5]; [ORead 0 1]]) in
  (own s 1%nat, step 1%nat (run [1]%nat s), step 2%nat s, match step 3%nat s with Some _ => true | None => false end)
  = (Some 0%nat, None, None, true).
Proof. vm_compute. reflexivity. Qed.
Example C13_ex_goc :
  let s := run [1;1;0;1;2;1;1;1;0;0;2;0;0;2;2;2;2]%nat (goc_sys [[]; [(9, 1)]] 0 7 [100; 200; 300]) in
  (all_done s, map reg (ths s), value_at (maps s) 0 7) = (true, [200; 200; 200], 200).
Proof. vm_compute. reflexivity. Qed.
