(** C14 — Pipeline tasks honour wait lists and never run after a failed prerequisite.
    Statements only; every proof is [exact <lemma of Proofs/Runner.v>].
    The system is OPEN: a schedule is any list of labels — [LCreate sb c] (a submission from outside:
    the task graph is whatever the schedule submits, in whatever context), [LTask n] (next atomic
    action of the runner goroutine of task n; nested submissions happen inside), [LAbort n] (the
    read-execute loop of n notices its context is done), [LFailCtx c] (an error appended to context c
    from outside).  [run false sched (init root)] is the state after the schedule (flag [false] = the
    repaired TaskManager.Create).  The log is newest-first: in [a ++ e :: b], [b] is what happened
    before [e]. *)
From GC Require Import Common.Base Model.Runner Proofs.Runner Proofs.Runner2.
Local Open Scope nat_scope.

(** BodyBegin of a task is preceded by [Finished u true] for every [u] of its wait list
    (the event carries the wait list of the task, first conjunct). *)
Theorem C14_after_prereqs : forall root sched a n ws b,
  log (run false sched (init root)) = a ++ EBodyBegin n ws :: b ->
  (exists t, find_task n (tasks (run false sched (init root))) = Some t /\ t_waits t = ws) /\
  forall u, In u ws -> In (EFinished u true) b.
Proof. exact after_prereqs. Qed.
Print Assumptions C14_after_prereqs.

(** If some task of t's wait list finished with an error, t's body never begins, none of its
    commands runs, and whenever t is finished it is failed. *)
Theorem C14_failed_prereq : forall root sched n t u,
  let s := run false sched (init root) in
  find_task n (tasks s) = Some t -> In u (t_waits t) -> In (EFinished u false) (log s) ->
  (forall ws, ~ In (EBodyBegin n ws) (log s)) /\ (forall i, ~ In (ECmdBegin n i) (log s))
  /\ (forall ok, t_st t = Finished ok -> ok = false).
Proof. exact failed_prereq. Qed.
Print Assumptions C14_failed_prereq.

(** When command j of a body begins, exactly the commands 0..j-1 of that body began before,
    each ended without error, and no command of the body ended with an error. *)
Theorem C14_sequential_body : forall root sched a n j b,
  log (run false sched (init root)) = a ++ ECmdBegin n j :: b ->
  (forall i, i < j -> In (ECmdBegin n i) b /\ In (ECmdEnd n i true) b) /\
  (forall i, In (ECmdBegin n i) b -> i < j) /\
  (forall i, ~ In (ECmdEnd n i false) b).
Proof. exact sequential_body. Qed.
Print Assumptions C14_sequential_body.

(** Commands run only inside a begun body. *)
Theorem C14_cmd_in_body : forall root sched n j,
  let s := run false sched (init root) in
  In (ECmdBegin n j) (log s) ->
  exists t, find_task n (tasks s) = Some t /\ In (EBodyBegin n (t_waits t)) (log s).
Proof. exact cmd_after_bodybegin. Qed.
Print Assumptions C14_cmd_in_body.

(** An accepted submission names only tasks that are already registered (and not itself) ... *)
Theorem C14_accept_existing : forall sb c p s s',
  create false sb c p s = (s', true) ->
  forall u, In u (s_waits sb) -> registered u (tasks s) = true /\ u <> s_name sb.
Proof. exact create_accepted_waits. Qed.
Print Assumptions C14_accept_existing.

(** ... so in every reachable state the wait relation is a DAG ordered by creation, names are
    unique and the manager counter counts the unfinished tasks. *)
Theorem C14_accept_dag : forall root sched,
  let s := run false sched (init root) in
  (forall a t b, tasks s = a ++ t :: b ->
     forall u, In u (t_waits t) -> registered u a = true /\ u <> t_name t)
  /\ NoDup (map t_name (tasks s)) /\ counter s = unfinished (tasks s).
Proof. intros root sched. destruct (Inv2_run root sched) as [A B C]. exact (conj A (conj B C)). Qed.
Print Assumptions C14_accept_dag.

(** No deadlock: in every reachable state in which some registered task is unfinished, some
    runner goroutine has an enabled step.  Premise: nested submissions have empty wait lists
    (pip:run restricts nested wait names to siblings, which have finished when the next pip:run of
    the same body runs; through the Go API a nested task may name its own spawner and then the
    two wait for each other: [C14_nested_wait_deadlock]). *)
Theorem C14_accept_finishes_no_deadlock : forall root sched,
  flat_sched sched ->
  let s := run false sched (init root) in
  all_finished s = false -> exists n, step false (LTask n) s <> None.
Proof. exact no_deadlock. Qed.
Print Assumptions C14_accept_finishes_no_deadlock.

(** Terminating bodies: every runner step strictly decreases [work]; hence along any schedule of
    runner steps from a reachable state at most [work s] steps are executed — every maximal run
    stops, and by no-deadlock it stops only when all accepted tasks are finished. *)
Theorem C14_accept_finishes_measure : forall root sched l s',
  let s := run false sched (init root) in
  runner_label l = true -> step false l s = Some s' -> work s' < work s.
Proof.
  intros root sched l s' s Hl E. destruct (Inv2_run root sched) as [_ B _].
  exact (step_work l s s' B Hl E).
Qed.
Print Assumptions C14_accept_finishes_measure.

Theorem C14_accept_finishes_bounded : forall root sched sched',
  let s := run false sched (init root) in
  forallb runner_label sched' = true ->
  effective sched' s + work (run false sched' s) <= work s.
Proof.
  intros root sched sched' s H. destruct (Inv2_run root sched) as [_ B _].
  exact (runner_steps_bounded sched' s B H).
Qed.
Print Assumptions C14_accept_finishes_bounded.

(** A submission adds at most its own cost to the remaining work. *)
Theorem C14_create_cost : forall sb c p s,
  work (fst (create false sb c p s)) <= work s + subm_cost (s_waits sb) (s_body sb).
Proof. exact create_work. Qed.
Print Assumptions C14_create_cost.

(** TaskManager.Wait is enabled iff every registered task finished; it reports an error iff some
    registered task has errors ... *)
Theorem C14_manager_wait : forall root sched,
  let s := run false sched (init root) in
  (mgr_wait s <> None <-> all_finished s = true) /\
  (forall r, mgr_wait s = Some r ->
     (r = true <-> exists t, In t (tasks s) /\ task_has_errors s t = true)).
Proof. exact manager_wait. Qed.
Print Assumptions C14_manager_wait.

(** ... and, when no error is appended to a context from outside, iff some task finished failed. *)
Theorem C14_manager_wait_closed : forall root sched r,
  no_ext_fail sched ->
  let s := run false sched (init root) in
  mgr_wait s = Some r ->
  (r = true <-> exists t, In t (tasks s) /\ t_st t = Finished false).
Proof. exact manager_wait_closed. Qed.
Print Assumptions C14_manager_wait_closed.

(** F21 (code before the fix, flag [true]): one rejected submission stays registered, and
    TaskManager.Wait is never enabled again, whatever happens afterwards. *)
Theorem C14_F21_refuted :
  let s0 := run true [LCreate f21_sub 7%N] (init 0%N) in
  log s0 = [ESubmitted 1%N false]
  /\ registered 1%N (tasks s0) = true
  /\ counter s0 = 0
  /\ forall sched, mgr_wait (run true sched s0) = None
                   /\ registered 1%N (tasks (run true sched s0)) = true.
Proof. exact F21_refuted. Qed.
Print Assumptions C14_F21_refuted.

Theorem C14_F21_fixed :
  let s0 := run false [LCreate f21_sub 7%N] (init 0%N) in
  tasks s0 = [] /\ mgr_wait s0 = Some false.
Proof. exact F21_fixed. Qed.
Print Assumptions C14_F21_fixed.

(** * Non-vacuity *)

Definition sA : subm := {| s_name := 1%N; s_waits := []; s_body := [COk; CSpawn 3%N [] [COk; CFail]; COk] |}.
Definition sB : subm := {| s_name := 2%N; s_waits := [1%N]; s_body := [COk] |}.
Definition sC : subm := {| s_name := 4%N; s_waits := []; s_body := [COk; COk] |}.
Definition sD : subm := {| s_name := 5%N; s_waits := [4%N]; s_body := [COk] |}.
Definition rr (n : N) (k : nat) : list label := repeat (LTask n) k.
Definition demo : list label :=
  [LCreate sA 11%N; LCreate sB 12%N; LCreate sC 13%N; LCreate sD 14%N]
  ++ rr 1 5 ++ rr 4 2 ++ rr 3 6 ++ rr 1 3 ++ rr 4 5 ++ rr 2 3 ++ rr 5 6.

(** task 1 spawns 3, which fails: 1 fails, 2 (waiting for 1) never runs and fails; 4 and 5 succeed *)
Example demo_final :
  let s := run false demo (init 0%N) in
  map (fun t => (t_name t, t_st t)) (tasks s)
  = [(1%N, Finished false); (2%N, Finished false); (4%N, Finished true); (5%N, Finished true); (3%N, Finished false)]
  /\ mgr_wait s = Some true /\ work s = 0.
Proof. vm_compute. repeat split; reflexivity. Qed.

Ltac find_in := repeat (first [left; reflexivity | right]).
Example demo_events :
  let s := run false demo (init 0%N) in
  In (EBodyBegin 5%N [4%N]) (log s) /\ In (EFinished 1%N false) (log s) /\ In (ECmdBegin 4%N 1) (log s)
  /\ In (EFinished 4%N true) (log s).
Proof. vm_compute. repeat split; find_in. Qed.

Example demo_flat : flat_sched demo /\ no_ext_fail demo /\ forallb runner_label (skipn 4 demo) = true.
Proof.
  split; [|split; [|vm_compute; reflexivity]].
  - intros sb c H. unfold demo in H. simpl in H.
    repeat (destruct H as [H|H]; [first [inversion H; subst; reflexivity | discriminate]|]). contradiction.
  - intros l H. unfold demo in H. simpl in H.
    repeat (destruct H as [H|H]; [subst; exact I|]). contradiction.
Qed.

Example demo_create_accepted :
  snd (create false sB 12%N None (fst (create false sA 11%N None (init 0%N)))) = true.
Proof. vm_compute. reflexivity. Qed.

(** Through the Go API (not through pip:run) a nested task can name its spawner: accepted, and
    then both wait for ever — the hypothesis of no-deadlock is needed. *)
Example C14_nested_wait_deadlock :
  let s := run false [LCreate {| s_name := 1%N; s_waits := []; s_body := [CSpawn 2%N [1%N] [COk]] |} 11%N;
                      LTask 1%N; LTask 1%N; LTask 1%N] (init 0%N) in
  map (fun t => (t_name t, t_st t)) (tasks s) = [(1%N, Running 0 (PSpawned 2%N)); (2%N, Waiting 0)]
  /\ step false (LTask 1%N) s = None /\ step false (LTask 2%N) s = None.
Proof. repeat split; vm_compute; reflexivity. Qed.
