(** C14 — Pipeline tasks honour wait lists and never run after a failed prerequisite.
    Statements only; every proof is [exact <lemma of Proofs/Runner.v>].
    The system is OPEN: a schedule is any list of labels — [LCreate sb c] (a submission from outside:
    the task graph is whatever the schedule submits, in whatever context), [LTask n] (next atomic
    action of the runner goroutine of task n; nested submissions happen inside), [LAbort n] (the
    read-execute loop of n notices its context is done), [LFailCtx c] (an error appended to context c
    from outside).  [run false sched (init root)] is the state after the schedule (flag [false] = the
    repaired TaskManager.Create).  The log is newest-first: in [a ++ e :: b], [b] is what happened
    before [e]. *)
From GC Require Import Common.Base Model.Runner Proofs.Runner Proofs.Runner2 Proofs.C14More.
Local Open Scope nat_scope.

(** BodyBegin of a task is preceded by [Finished u true] for every [u] of its wait list
    (the event carries the wait list of the task, first conjunct). *)
Theorem C14_after_prereqs : forall root sched a n ws b,
  log (run false sched (init root)) = a ++ EBodyBegin n ws :: b ->
  (exists t, find_task n (tasks (run false sched (init root))) = Some t /\ t_waits t = ws) /\
  forall u, In u ws -> In (EFinished u true) b.
Proof. exact after_prereqs. Qed.
Print Assumptions C14_after_prereqs.

(** If some task of t's wait list finished with an error, t's body never begins, none of its
    commands runs, and whenever t is finished it is failed. *)
Theorem C14_failed_prereq : forall root sched n t u,
  let s := run false sched (init root) in
  find_task n (tasks s) = Some t -> In u (t_waits t) -> In (EFinished u false) (log s) ->
  (forall ws, ~ In (EBodyBegin n ws) (log s)) /\ (forall i, ~ In (ECmdBegin n i) (log s))
  /\ (forall ok, t_st t = Finished ok -> ok = false).
Proof. exact failed_prereq. Qed.
Print Assumptions C14_failed_prereq.

(** When command j of a body begins, exactly the commands 0..j-1 of that body began before,
    each ended without error, and no command of the body ended with an error. *)
Theorem C14_sequential_body : forall root sched a n j b,
  log (run false sched (init root)) = a ++ ECmdBegin n j :: b ->
  (forall i, i < j -> In (ECmdBegin n i) b /\ In (ECmdEnd n i true) b) /\
  (forall i, In (ECmdBegin n i) b -> i < j) /\
  (forall i, ~ In (ECmdEnd n i false) b).
Proof. exact sequential_body. Qed.
Print Assumptions C14_sequential_body.

(** Commands run only inside a begun body. *)
Theorem C14_cmd_in_body : forall root sched n j,
  let s := run false sched (init root) in
  In (ECmdBegin n j) (log s) ->
  exists t, find_task n (tasks s) = Some t /\ In (EBodyBegin n (t_waits t)) (log s).
Proof. exact cmd_after_bodybegin. Qed.
Print Assumptions C14_cmd_in_body.

(** An accepted submission names only tasks that are already registered (and not itself) ... *)
Theorem C14_accept_existing : forall sb c p s s',
  create false sb c p s = (s', true) ->
  forall u, In u (s_waits sb) -> registered u (tasks s) = true /\ u <> s_name sb.
Proof. exact create_accepted_waits. Qed.
Print Assumptions C14_accept_existing.

(** ... so in every reachable state the wait relation is a DAG ordered by creation, names are
    unique and the manager counter counts the unfinished tasks. *)
Theorem C14_accept_dag : forall root sched,
  let s := run false sched (init root) in
  (forall a t b, tasks s = a ++ t :: b ->
     forall u, In u (t_waits t) -> registered u a = true /\ u <> t_name t)
  /\ NoDup (map t_name (tasks s)) /\ counter s = unfinished (tasks s).
Proof. intros root sched. destruct (Inv2_run root sched) as [A B C]. exact (conj A (conj B C)). Qed.
Print Assumptions C14_accept_dag.

(** No deadlock: in every reachable state in which some registered task is unfinished, some
    runner goroutine has an enabled step.  Premise: nested submissions have empty wait lists
    (pip:run restricts nested wait names to siblings, which have finished when the next pip:run of
    the same body runs; through the Go API a nested task may name its own spawner and then the
    two wait for each other: [C14_nested_wait_deadlock]). *)
Theorem C14_accept_finishes_no_deadlock : forall root sched,
  flat_sched sched ->
  let s := run false sched (init root) in
  all_finished s = false -> exists n, step false (LTask n) s <> None.
Proof. exact no_deadlock. Qed.
Print Assumptions C14_accept_finishes_no_deadlock.

(** Terminating bodies: every runner step strictly decreases [work]; hence along any schedule of
    runner steps from a reachable state at most [work s] steps are executed — every maximal run
    stops, and by no-deadlock it stops only when all accepted tasks are finished. *)
Theorem C14_accept_finishes_measure : forall root sched l s',
  let s := run false sched (init root) in
  runner_label l = true -> step false l s = Some s' -> work s' < work s.
Proof.
  intros root sched l s' s Hl E. destruct (Inv2_run root sched) as [_ B _].
  exact (step_work l s s' B Hl E).
Qed.
Print Assumptions C14_accept_finishes_measure.

Theorem C14_accept_finishes_bounded : forall root sched sched',
  let s := run false sched (init root) in
  forallb runner_label sched' = true ->
  effective sched' s + work (run false sched' s) <= work s.
Proof.
  intros root sched sched' s H. destruct (Inv2_run root sched) as [_ B _].
  exact (runner_steps_bounded sched' s B H).
Qed.
Print Assumptions C14_accept_finishes_bounded.

(** A submission adds at most its own cost to the remaining work. *)
Theorem C14_create_cost : forall sb c p s,
  work (fst (create false sb c p s)) <= work s + subm_cost (s_waits sb) (s_body sb).
Proof. exact create_work. Qed.
Print Assumptions C14_create_cost.

(** TaskManager.Wait is enabled iff every registered task finished; it reports an error iff some
    registered task has errors ... *)
Theorem C14_manager_wait : forall root sched,
  let s := run false sched (init root) in
  (mgr_wait s <> None <-> all_finished s = true) /\
  (forall r, mgr_wait s = Some r ->
     (r = true <-> exists t, In t (tasks s) /\ task_has_errors s t = true)).
Proof. exact manager_wait. Qed.
Print Assumptions C14_manager_wait.

(** ... and, when no error is appended to a context from outside, iff some task finished failed. *)
Theorem C14_manager_wait_closed : forall root sched r,
  no_ext_fail sched ->
  let s := run false sched (init root) in
  mgr_wait s = Some r ->
  (r = true <-> exists t, In t (tasks s) /\ t_st t = Finished false).
Proof. exact manager_wait_closed. Qed.
Print Assumptions C14_manager_wait_closed.

(** F21 (code before the fix, flag [true]): one rejected submission stays registered, and
    TaskManager.Wait is never enabled again, whatever happens afterwards. *)
Theorem C14_F21_refuted :
  let s0 := run true [LCreate f21_sub 7%N] (init 0%N) in
  log s0 = [ESubmitted 1%N false]
  /\ registered 1%N (tasks s0) = true
  /\ counter s0 = 0
  /\ forall sched, mgr_wait (run true sched s0) = None
                   /\ registered 1%N (tasks (run true sched s0)) = true.
Proof. exact F21_refuted. Qed.
Print Assumptions C14_F21_refuted.

Theorem C14_F21_fixed :
  let s0 := run false [LCreate f21_sub 7%N] (init 0%N) in
  tasks s0 = [] /\ mgr_wait s0 = Some false.
Proof. exact F21_fixed. Qed.
Print Assumptions C14_F21_fixed.

(** * Non-vacuity *)

Definition sA : subm := {| s_name := 1%N; s_waits := []; s_body := [COk; CSpawn 3%N [] [COk; CFail]; COk] |}.
Definition sB : subm := {| s_name := 2%N; s_waits := [1%N]; s_body := [COk] |}.
Definition sC : subm := {| s_name := 4%N; s_waits := []; s_body := [COk; COk] |}.
Definition sD : subm := {| s_name := 5%N; s_waits := [4%N]; s_body := [COk] |}.
Definition rr (n : N) (k : nat) : list label := repeat (LTask n) k.
Definition demo : list label :=
  [LCreate sA 11%N; LCreate sB 12%N; LCreate sC 13%N; LCreate sD 14%N]
  ++ rr 1 5 ++ rr 4 2 ++ rr 3 6 ++ rr 1 3 ++ rr 4 5 ++ rr 2 3 ++ rr 5 6.

(** task 1 spawns 3, which fails: 1 fails, 2 (waiting for 1) never runs and fails; 4 and 5 succeed *)
Example demo_final :
  let s := run false demo (init 0%N) in
  map (fun t => (t_name t, t_st t)) (tasks s)
  = [(1%N, Finished false); (2%N, Finished false); (4%N, Finished true); (5%N, Finished true); (3%N, Finished false)]
  /\ mgr_wait s = Some true /\ work s = 0.
Proof. vm_compute. repeat split; reflexivity. Qed.

Ltac find_in := repeat (first [left; reflexivity | right]).
Example demo_events :
  let s := run false demo (init 0%N) in
  In (EBodyBegin 5%N [4%N]) (log s) /\ In (EFinished 1%N false) (log s) /\ In (ECmdBegin 4%N 1) (log s)
  /\ In (EFinished 4%N true) (log s).
Proof. vm_compute. repeat split; find_in. Qed.

Example demo_flat : flat_sched demo /\ no_ext_fail demo /\ forallb runner_label (skipn 4 demo) = true.
Proof.
  split; [|split; [|vm_compute; reflexivity]].
  - intros sb c H. unfold demo in H. simpl in H.
    repeat (destruct H as [H|H]; [first [inversion H; subst; reflexivity | discriminate]|]). contradiction.
  - intros l H. unfold demo in H. simpl in H.
    repeat (destruct H as [H|H]; [subst; exact I|]). contradiction.
Qed.

Example demo_create_accepted :
  snd (create false sB 12%N None (fst (create false sA 11%N None (init 0%N)))) = true.
Proof. vm_compute. reflexivity. Qed.

(** Through the Go API (not through pip:run) a nested task can name its spawner: accepted, and
    then both wait for ever — the hypothesis of no-deadlock is needed. *)
Example C14_nested_wait_deadlock :
  let s := run false [LCreate {| s_name := 1%N; s_waits := []; s_body := [CSpawn 2%N [1%N] [COk]] |} 11%N;
                      LTask 1%N; LTask 1%N; LTask 1%N] (init 0%N) in
  map (fun t => (t_name t, t_st t)) (tasks s) = [(1%N, Running 0 (PSpawned 2%N)); (2%N, Waiting 0)]
  /\ step false (LTask 1%N) s = None /\ step false (LTask 2%N) s = None.
Proof. repeat split; vm_compute; reflexivity. Qed.

(** * Proof audit: ordering, outcomes, liveness (lemmas in Proofs/C14More.v) *)

(** ORDER.  When a command of [n] begins, the body of [n] has begun before and, before that, every
    task of the wait list of [n] finished without error; [n] has not finished.  (Strengthens
    [C14_cmd_in_body], which only says that the BodyBegin event is somewhere in the log.) *)
Theorem C14_cmd_after_prereqs : forall root sched a n j b,
  let s := run false sched (init root) in
  log s = a ++ ECmdBegin n j :: b ->
  exists t, find_task n (tasks s) = Some t /\ In (EBodyBegin n (t_waits t)) b
            /\ (forall u, In u (t_waits t) -> In (EFinished u true) b)
            /\ (forall ok, ~ In (EFinished n ok) b).
Proof. exact cmd_after_prereqs. Qed.
Print Assumptions C14_cmd_after_prereqs.

(** A command ends only after it began. *)
Theorem C14_cmd_end_after_begin : forall root sched a n j ok b,
  log (run false sched (init root)) = a ++ ECmdEnd n j ok :: b -> In (ECmdBegin n j) b.
Proof. exact cmdend_after_begin. Qed.
Print Assumptions C14_cmd_end_after_begin.

(** Once a task has finished nothing of it happens any more: whatever event other than a
    submission result is in the log, the task it belongs to had not finished before. *)
Theorem C14_nothing_after_finish : forall root sched a e b,
  log (run false sched (init root)) = a ++ e :: b -> is_sub e = false ->
  forall ok, ~ In (EFinished (ev_name e) ok) b.
Proof. exact nothing_after_finish. Qed.
Print Assumptions C14_nothing_after_finish.

(** A body begins at most once and before every command of its task. *)
Theorem C14_body_begins_once : forall root sched a n ws b,
  log (run false sched (init root)) = a ++ EBodyBegin n ws :: b ->
  forall e, In e b -> ev_name e = n -> is_sub e = true.
Proof. exact body_begins_once. Qed.
Print Assumptions C14_body_begins_once.

(** OUTCOME.  A task one of whose commands ended with an error has an error in its context, can
    only finish failed, and begins no command after that one. *)
Theorem C14_failed_cmd_fails_task : forall root sched n t i,
  let s := run false sched (init root) in
  find_task n (tasks s) = Some t -> In (ECmdEnd n i false) (log s) ->
  ctx_failed (t_ctx t) s = true /\ (forall ok, t_st t = Finished ok -> ok = false)
  /\ (forall j, In (ECmdBegin n j) (log s) -> j <= i).
Proof. exact failed_cmd_fails_task. Qed.
Print Assumptions C14_failed_cmd_fails_task.

(** A task that finished without error began its body and ran its WHOLE script: every command
    began and ended without error, none ended with an error. *)
Theorem C14_success_ran_all : forall root sched n t,
  let s := run false sched (init root) in
  find_task n (tasks s) = Some t -> t_st t = Finished true ->
  In (EBodyBegin n (t_waits t)) (log s)
  /\ (forall i, i < length (t_body t) -> In (ECmdBegin n i) (log s) /\ In (ECmdEnd n i true) (log s))
  /\ (forall i, ~ In (ECmdEnd n i false) (log s)).
Proof. exact success_ran_all. Qed.
Print Assumptions C14_success_ran_all.

(** Any subset of failing tasks: a task whose script has a failing command at position [i] never
    ends that command without error, never begins a later command, and can only finish failed. *)
Theorem C14_failing_command : forall root sched n t i,
  let s := run false sched (init root) in
  find_task n (tasks s) = Some t -> nth_error (t_body t) i = Some CFail ->
  ~ In (ECmdEnd n i true) (log s)
  /\ (forall j, i < j -> ~ In (ECmdBegin n j) (log s))
  /\ (forall ok, t_st t = Finished ok -> ok = false).
Proof. exact failing_command. Qed.
Print Assumptions C14_failing_command.

(** NO DEADLOCK, premise weakened to what pip:run can express: nested submissions may wait, but
    only for tasks submitted by EARLIER commands of the same body ([sib_body], at every depth).
    Supersedes [C14_accept_finishes_no_deadlock]: [C14_siblings_cover_flat]. *)
Theorem C14_no_deadlock_siblings : forall root sched,
  sib_sched sched ->
  let s := run false sched (init root) in
  all_finished s = false -> exists n, step false (LTask n) s <> None.
Proof. exact no_deadlock_sib. Qed.
Print Assumptions C14_no_deadlock_siblings.

Theorem C14_siblings_cover_flat : forall sched, flat_sched sched -> sib_sched sched.
Proof. exact flat_sib_sched. Qed.
Print Assumptions C14_siblings_cover_flat.

(** Without any premise on nested wait lists the statement is FALSE: a nested task submitted through
    the Go API may name its spawner; the submission is accepted and then no runner goroutine can
    ever move (the real TaskManager/Runner do the same: checked with a scratch test; pip:run cannot
    express this submission). *)
Theorem C14_no_deadlock_unrestricted_refuted :
  let s := run false [LCreate {| s_name := 1%N; s_waits := []; s_body := [CSpawn 2%N [1%N] [COk]] |} 11%N;
                      LTask 1%N; LTask 1%N; LTask 1%N] (init 0%N) in
  all_finished s = false /\ (forall n, step false (LTask n) s = None) /\ mgr_wait s = None
  /\ In (ESubmitted 2%N true) (log s).
Proof. exact nested_wait_refuted. Qed.
Print Assumptions C14_no_deadlock_unrestricted_refuted.

(** LIVENESS (no fairness assumption).  From every reachable state there is a run of at most
    [work s] steps of runner goroutines, every one of them enabled when taken, after which every
    task has finished, the manager's Wait returns, and every accepted submission - from outside or
    nested - has its Finished event.  With [C14_accept_finishes_bounded] (no runner schedule
    executes more than [work s] steps): a scheduler that keeps taking enabled runner steps ends,
    and by [C14_stuck_is_finished] it ends there. *)
Theorem C14_accept_finishes_live : forall root sched,
  sib_sched sched ->
  let s := run false sched (init root) in
  exists sched', forallb is_ltask sched' = true /\ length sched' <= work s
    /\ effective sched' s = length sched'
    /\ let s' := run false sched' s in
       all_finished s' = true /\ mgr_wait s' <> None
       /\ forall n, In (ESubmitted n true) (log s') -> exists ok, In (EFinished n ok) (log s').
Proof. exact accept_finishes_live. Qed.
Print Assumptions C14_accept_finishes_live.

Theorem C14_stuck_is_finished : forall root sched,
  sib_sched sched ->
  let s := run false sched (init root) in
  (forall n, step false (LTask n) s = None) ->
  all_finished s = true /\ mgr_wait s <> None
  /\ forall n, In (ESubmitted n true) (log s) -> exists ok, In (EFinished n ok) (log s).
Proof. exact stuck_is_finished. Qed.
Print Assumptions C14_stuck_is_finished.

(** A task with a failed prerequisite DOES end, failed, and without having run. *)
Theorem C14_failed_prereq_ends_failed : forall root sched n t u,
  sib_sched sched ->
  let s := run false sched (init root) in
  find_task n (tasks s) = Some t -> In u (t_waits t) -> In (EFinished u false) (log s) ->
  exists sched', forallb is_ltask sched' = true /\ length sched' <= work s /\
    let s' := run false sched' s in
    (exists t', find_task n (tasks s') = Some t' /\ t_st t' = Finished false)
    /\ (forall ws, ~ In (EBodyBegin n ws) (log s')) /\ (forall i, ~ In (ECmdBegin n i) (log s')).
Proof. exact failed_prereq_ends_failed. Qed.
Print Assumptions C14_failed_prereq_ends_failed.

(** A rejected submission leaves nothing behind (general form of [C14_F21_fixed]), and a submission
    that names an unregistered task, or itself, is rejected (converse of [C14_accept_existing]). *)
Theorem C14_reject_no_residue : forall sb c p s s',
  create false sb c p s = (s', false) ->
  tasks s' = tasks s /\ counter s' = counter s /\ failed s' = failed s
  /\ log s' = ESubmitted (s_name sb) false :: log s.
Proof. exact reject_no_residue. Qed.
Print Assumptions C14_reject_no_residue.

Theorem C14_reject_unknown : forall sb c p s u,
  In u (s_waits sb) -> registered u (tasks s) = false \/ u = s_name sb ->
  snd (create false sb c p s) = false.
Proof. exact reject_unknown. Qed.
Print Assumptions C14_reject_unknown.

(** * Non-vacuity of the audit theorems *)

(** hypotheses of the ordering theorems: the demo log contains a command of task 5 (wait list [4]),
    a BodyBegin and a failed command end *)
Example demo_order_hyps :
  let s := run false demo (init 0%N) in
  (exists a b, log s = a ++ ECmdBegin 5%N 0 :: b) /\ (exists a b, log s = a ++ ECmdEnd 3%N 1 false :: b)
  /\ (exists a b, log s = a ++ EBodyBegin 5%N [4%N] :: b) /\ is_sub (ECmdBegin 5%N 0) = false.
Proof.
  cbv zeta. split; [|split; [|split; [|reflexivity]]]; apply in_split; vm_compute; find_in.
Qed.

(** task 3 has a failing command at position 1 and it ended with an error; task 4 finished
    without error with a script of two commands *)
Example demo_outcome_hyps :
  let s := run false demo (init 0%N) in
  (exists t, find_task 3%N (tasks s) = Some t /\ nth_error (t_body t) 1 = Some CFail
             /\ In (ECmdEnd 3%N 1 false) (log s) /\ t_st t = Finished false)
  /\ (exists t, find_task 4%N (tasks s) = Some t /\ t_st t = Finished true /\ length (t_body t) = 2).
Proof.
  cbv zeta. split; eexists; (split; [vm_compute; reflexivity|]).
  - split; [reflexivity|]. split; [vm_compute; find_in | reflexivity].
  - split; reflexivity.
Qed.

(** a schedule that is sibling-only but not flat: task 1 spawns 2, then 3 which waits for 2;
    task 4 (from outside) waits for 1.  After three steps 1 waits for 2: not finished, work 25+. *)
Definition sS : subm :=
  {| s_name := 1%N; s_waits := []; s_body := [CSpawn 2%N [] [COk]; CSpawn 3%N [2%N] [COk; COk]; COk] |}.
Definition sW : subm := {| s_name := 4%N; s_waits := [1%N]; s_body := [COk] |}.
Definition demo2 : list label := [LCreate sS 11%N; LTask 1%N; LTask 1%N; LTask 1%N; LCreate sW 12%N].

Lemma sib_sched_list : forall sched,
  forallb (fun l => match l with LCreate sb _ => sib_body (s_body sb) | _ => true end) sched = true ->
  sib_sched sched.
Proof.
  intros sched H sb c Hin. rewrite forallb_forall in H. exact (H _ Hin).
Qed.

Example demo2_sib : sib_sched demo2 /\ flat_body (s_body sS) = false.
Proof. split; [apply sib_sched_list|]; vm_compute; reflexivity. Qed.

Example demo2_state :
  let s := run false demo2 (init 0%N) in
  map (fun t => (t_name t, t_st t)) (tasks s)
  = [(1%N, Running 0 (PSpawned 2%N)); (2%N, Waiting 0); (4%N, Waiting 0)]
  /\ all_finished s = false /\ step false (LTask 2%N) s <> None /\ step false (LTask 4%N) s = None.
Proof. cbv zeta. repeat split; vm_compute; congruence. Qed.

(** the run promised by [C14_accept_finishes_live] for that state, spelled out *)
Example demo2_live :
  let s := run false demo2 (init 0%N) in
  let sched' := rr 2 5 ++ rr 1 3 ++ rr 3 8 ++ rr 1 5 ++ rr 4 6 in
  forallb is_ltask sched' = true /\ effective sched' s = length sched' /\ length sched' <= work s
  /\ map (fun t => (t_name t, t_st t)) (tasks (run false sched' s))
     = [(1%N, Finished true); (2%N, Finished true); (4%N, Finished true); (3%N, Finished true)]
  /\ mgr_wait (run false sched' s) = Some false.
Proof. cbv zeta. repeat split; vm_compute; try reflexivity. repeat constructor. Qed.

(** a stuck state exists: the final state of demo *)
Lemma all_finished_stuck : forall s, all_finished s = true -> forall n, step false (LTask n) s = None.
Proof.
  intros s Ha n. simpl. destruct (find_task n (tasks s)) as [t|] eqn:E; [|reflexivity].
  apply find_task_some in E as [_ Hin]. unfold all_finished in Ha. rewrite forallb_forall in Ha.
  specialize (Ha _ Hin). unfold task_step. destruct (t_st t); try discriminate Ha. reflexivity.
Qed.

Example demo_stuck : sib_sched demo /\ forall n, step false (LTask n) (run false demo (init 0%N)) = None.
Proof.
  split; [apply flat_sib_sched; apply demo_flat|]. apply all_finished_stuck. vm_compute. reflexivity.
Qed.

(** hypotheses of [C14_failed_prereq_ends_failed]: in the demo, before task 2 has moved, its
    prerequisite 1 has finished failed *)
Definition demo_pre : list label :=
  [LCreate sA 11%N; LCreate sB 12%N; LCreate sC 13%N; LCreate sD 14%N] ++ rr 1 5 ++ rr 4 2 ++ rr 3 6 ++ rr 1 3.
Example demo_failed_prereq_hyps :
  let s := run false demo_pre (init 0%N) in
  sib_sched demo_pre
  /\ (exists t, find_task 2%N (tasks s) = Some t /\ In 1%N (t_waits t) /\ t_st t = Waiting 0)
  /\ In (EFinished 1%N false) (log s).
Proof.
  cbv zeta. split; [apply sib_sched_list; vm_compute; reflexivity|]. split.
  - eexists. split; [vm_compute; reflexivity|]. split; [left; reflexivity | reflexivity].
  - vm_compute. find_in.
Qed.

(** a rejected submission that names an unregistered task *)
Example demo_reject :
  snd (create false f21_sub 7%N None (init 0%N)) = false
  /\ In 2%N (s_waits f21_sub) /\ registered 2%N (tasks (init 0%N)) = false.
Proof. repeat split; vm_compute; auto. Qed.
