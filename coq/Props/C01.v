(** C01 — In-memory filespace behaves as an abstract file tree on every history.
    Statements only; proofs are [exact <lemma of Proofs/Fs.v or Proofs/Paths.v>].

    The model ([Model/Fs.v]) IS the plain tree-of-named-nodes: an insertion-ordered finite map
    from canonical paths to entries with the root as implicit directory; the 16 operations take
    raw path strings.  The theorems below say that this model has every feature the property
    lists, for all histories / all raw strings; that memfs equals the model is what the
    correspondence check (Corr/C01.v + harness/c01.go) tests on every run. *)
From GC Require Import Common.Base Model.Paths Model.Fs Proofs.Paths Proofs.Fs Proofs.NonInterf.

(** Every state reachable by ANY finite history of the 16 operations, issued on the root or on
    child views of any depth, with any raw path strings and contents, is a well-formed tree:
    no duplicate path, every node's parent is a directory, every name is a proper name. *)
Theorem C01_reachable_wf : forall h : list (list bytes * op), WF (run_hist [] h).
Proof. intros h. apply run_hist_WF. exact WF_nil. Qed.
Print Assumptions C01_reachable_wf.

(** No node that was never created appears: no name is empty, ".", ".." or contains '/'. *)
Theorem C01_no_phantom : forall h p e n,
  In (p, e) (run_hist [] h) -> In n p -> good_name n = true.
Proof. intros h p e n Hin Hn. exact (WF_names _ p e (run_hist_WF h [] WF_nil) Hin n Hn). Qed.
Print Assumptions C01_no_phantom.

Theorem C01_listing_no_phantom : forall h p n d,
  In (n, d) (children (run_hist [] h) p) -> good_name n = true.
Proof. intros h p n d. exact (listing_names_good _ p n d (run_hist_WF h [] WF_nil)). Qed.
Print Assumptions C01_listing_no_phantom.

(** Queries agree with the tree: a listing names exactly the nodes bound one level below. *)
Theorem C01_listing_agrees : forall t p n d, WF t ->
  (In (n, d) (children t p) <->
   exists e, lookup t (p ++ [n]) = Some e /\ d = match e with D => true | F _ => false end).
Proof. exact listing_agrees. Qed.
Print Assumptions C01_listing_agrees.

(** A write creates missing parents and replaces content; every other existing node is
    untouched and the only new nodes are the directories leading to the file. *)
Theorem C01_write : forall t p data t',
  WF t -> good_path p = true -> p <> [] -> write_at t p data = Some t' ->
  WF t' /\ lookup t' p = Some (F data) /\ is_dir_at t' (removelast p) = true /\
  (forall q, q <> p -> lookup t q <> None -> lookup t' q = lookup t q) /\
  (forall q, q <> p -> lookup t q = None -> lookup t' q <> None ->
             lookup t' q = Some D /\ is_prefix q (removelast p) = true).
Proof. exact write_at_spec. Qed.
Print Assumptions C01_write.

(** mkdir creates the chain, keeps everything else, and is idempotent. *)
Theorem C01_mkdir : forall t p t',
  WF t -> good_path p = true -> mkdir_all t p = Some t' ->
  WF t' /\ is_dir_at t' p = true /\
  (forall q e, lookup t q = Some e -> lookup t' q = Some e) /\
  (forall q, lookup t q = None -> lookup t' q <> None -> lookup t' q = Some D /\ is_prefix q p = true).
Proof. exact mkdir_all_spec. Qed.
Print Assumptions C01_mkdir.

Theorem C01_mkdir_idempotent : forall t p t',
  WF t -> good_path p = true -> mkdir_all t p = Some t' -> mkdir_all t' p = Some t'.
Proof. exact mkdir_all_idempotent. Qed.
Print Assumptions C01_mkdir_idempotent.

(** remove deletes a file or an EMPTY directory only (and exactly that node). *)
Theorem C01_remove : forall t p t',
  WF t -> p <> [] -> remove_at t p = Some t' ->
  WF t' /\ (is_file_at t p = true \/ (is_dir_at t p = true /\ has_children t p = false)) /\
  (forall q, lookup t' q = if is_prefix p q then None else lookup t q).
Proof. exact remove_at_spec. Qed.
Print Assumptions C01_remove.

Theorem C01_remove_refuses_nonempty : forall t p,
  is_dir_at t p = true -> has_children t p = true -> remove_at t p = None.
Proof. exact remove_at_fails_on_nonempty_dir. Qed.
Print Assumptions C01_remove_refuses_nonempty.

(** recursive remove deletes exactly the subtree. *)
Theorem C01_remove_all : forall t p t',
  WF t -> p <> [] -> remove_all_at t p = Some t' ->
  WF t' /\ exists_at t p = true /\
  (forall q, lookup t' q = if is_prefix p q then None else lookup t q).
Proof. exact remove_all_at_spec. Qed.
Print Assumptions C01_remove_all.

(** copies are deep snapshots: after a successful copy the destination subtree answers exactly
    as the source subtree did at copy time, and nothing outside the destination (other than its
    freshly created parents) changed. *)
Theorem C01_copy_deep : forall k t src dst t',
  WF t -> good_path dst = true -> dst <> [] -> copy_at k t src dst = Some t' ->
  exists t1,
    mkdir_all t (removelast dst) = Some t1 /\ lookup t1 dst = None /\ lookup t src <> None /\
    WF t' /\
    (forall x, lookup t' (dst ++ x) = match x with [] => lookup t src | _ => lookup t1 (src ++ x) end) /\
    (forall q, is_prefix dst q = false -> lookup t' q = lookup t1 q).
Proof. exact copy_at_spec. Qed.
Print Assumptions C01_copy_deep.

(** An operation that does not report plain success leaves the whole tree unchanged. *)
Theorem C01_error_changes_nothing : forall t o, snd (mem_step t o) <> RUnit -> fst (mem_step t o) = t.
Proof. exact mem_step_unchanged. Qed.
Print Assumptions C01_error_changes_nothing.

(** Frame for every operation on raw strings: a path that is neither a target nor below one
    keeps its node; only directories leading to a target can newly appear. *)
Theorem C01_frame : forall t o q, WF t ->
  (forall s p, In s (targets o) -> reduce s = Some p -> is_prefix p q = false) ->
  (forall e, lookup t q = Some e -> lookup (fst (mem_step t o)) q = Some e) /\
  (lookup t q = None -> lookup (fst (mem_step t o)) q <> None ->
   lookup (fst (mem_step t o)) q = Some D /\
   exists s p, In s (targets o) /\ reduce s = Some p /\ is_prefix q p = true).
Proof. exact mem_step_outside. Qed.
Print Assumptions C01_frame.

(** All spellings of a relative path are equivalent: reduction yields a canonical component
    list and is the identity on canonical input. *)
Theorem C01_reduce_canonical : forall s p, reduce s = Some p -> good_path p = true /\ reduce (join p) = Some p.
Proof. intros s p H. split; [eapply reduce_good|eapply reduce_idempotent]; eauto. Qed.
Print Assumptions C01_reduce_canonical.

(** Child views: an operation on a view rooted at [b] is the root operation on [b ++ r]. *)
Theorem C01_view_write : forall b t s data r,
  good_path b = true -> reduce_node s = Some r ->
  view_step (view_base b) t (OWriteFile s data) = upd t (write_at t (b ++ r) data).
Proof. exact view_write_is_prefixed. Qed.
Print Assumptions C01_view_write.

Theorem C01_view_mkdir : forall b t s r,
  good_path b = true -> reduce s = Some r ->
  view_step (view_base b) t (OMkdirAll s) = upd t (mkdir_all t (b ++ r)).
Proof. exact view_mkdir_is_prefixed. Qed.
Print Assumptions C01_view_mkdir.

Theorem C01_view_remove : forall b t s r,
  good_path b = true -> reduce_node s = Some r ->
  view_step (view_base b) t (ORemove s) = upd t (remove_at t (b ++ r)) /\
  view_step (view_base b) t (ORemoveAll s) = upd t (remove_all_at t (b ++ r)).
Proof. exact view_remove_is_prefixed. Qed.
Print Assumptions C01_view_remove.

Theorem C01_view_queries : forall b t s r,
  good_path b = true -> reduce s = Some r ->
  view_step (view_base b) t (OIsExist s) = (t, RBool (exists_at t (b ++ r))) /\
  view_step (view_base b) t (OIsDir s) = (t, RBool (is_dir_at t (b ++ r))) /\
  view_step (view_base b) t (OReadDir s) =
    (if is_dir_at t (b ++ r) then (t, RList (children t (b ++ r))) else (t, RErr)).
Proof. exact view_queries_are_prefixed. Qed.
Print Assumptions C01_view_queries.

Theorem C01_view_copy : forall b t s d sr dr,
  good_path b = true -> reduce s = Some sr -> reduce_node d = Some dr ->
  view_step (view_base b) t (OCopy s d) = upd t (copy_at CAny t (b ++ sr) (b ++ dr)).
Proof. exact view_copy_is_prefixed. Qed.
Print Assumptions C01_view_copy.

(** … and in general, for ALL 16 operations: a child view rooted at [b] is the tree-level
    operation on the path prefixed with [b] ([view_tree_step] spells each case out). *)
Theorem C01_view_is_tree_step : forall b t o, good_path b = true ->
  view_step (view_base b) t o = view_tree_step b t o.
Proof. exact view_step_is_tree_step. Qed.
Print Assumptions C01_view_is_tree_step.

(** Non-vacuity: concrete histories evaluated by the model. *)
Definition s2 (l : list N) : bytes := l.
Example C01_ex_history :
  let h := [([], OWriteFile [46;47;97;47;47;98;47;102] [104;105]);      (* "./a//b/f" := "hi" *)
            ([[97]], OMkdirAll [98;47;46;46;47;99]);                     (* view "a": mkdir "b/../c" *)
            ([], OCopy [97] [107]);                                      (* copy a -> k *)
            ([], ORemoveAll [97;47;98])] in
  run_hist [] h =
  [([[97]], D); ([[97]; [99]], D); ([[107]], D); ([[107]; [98]], D);
   ([[107]; [98]; [102]], F [104; 105]); ([[107]; [99]], D)].
Proof. vm_compute. reflexivity. Qed.
Example C01_ex_dot_rejected :
  mem_step [] (OMkdirAll [46;46;47;120]) = ([], RErr) /\ mem_step [] (OWriteFile [46] [1]) = ([], RErr) /\
  mem_step [] (OMkdirAll [46]) = ([], RUnit).
Proof. vm_compute. repeat split. Qed.

(** ------------------------------------------------------------------------------------------
    Proof audit (second part).  The theorems above state each mutation GIVEN that it succeeded
    (safety), one level of child view with a canonical base, and canonicity of the reduction.
    The theorems below close those gaps:
    - every mutation is a TOTAL function of the lookups of the old tree: when it succeeds and
      what every path answers afterwards ([C01_*_total], [C01_success_iff]; they supersede
      [C01_write], [C01_mkdir], [C01_remove], [C01_remove_all], [C01_copy_deep], which remain);
    - the spellings the property names are equivalent around arbitrary strings and an operation
      sees its strings only through the reduction ([C01_spelling_*]);
    - chains of views of ANY depth ([C01_views_any_depth], [C01_history_step_any_depth], ...);
    - the headline clause: on every history the memfs model and a NESTED plain tree of named
      nodes (Model/PlainTree.v, operations by recursion along the path) give the same outcomes
      and the same observable tree ([C01_history_is_plain_tree]).
    ------------------------------------------------------------------------------------------ *)
From GC Require Import Model.PlainTree Proofs.C01Total Proofs.C01Views Proofs.C01Tree.
From Coq Require Import Permutation.

(** mkdir fails exactly when a file is on the way ([file_on_way]: some non-root prefix of the
    path, the path included, is a file); otherwise every prefix of the path is a directory
    afterwards and every other path answers as before. *)
Theorem C01_mkdir_total : forall t p, WF t -> good_path p = true ->
  match mkdir_all t p with
  | None => file_on_way t p = true
  | Some t' => file_on_way t p = false /\ WF t' /\
               forall q, lookup t' q = if is_prefix q p then Some D else lookup t q
  end.
Proof. exact mkdir_all_total. Qed.
Print Assumptions C01_mkdir_total.

(** write fails exactly when a file is on the way to the parent or the target is a directory;
    otherwise the target holds the new content (whatever it held), every proper prefix is a
    directory and every other path answers as before. *)
Theorem C01_write_total : forall t p data, WF t -> good_path p = true -> p <> [] ->
  match write_at t p data with
  | None => write_pre t p = false
  | Some t' => write_pre t p = true /\ WF t' /\
      forall q, lookup t' q =
        if path_eqb q p then Some (F data) else if is_prefix q p then Some D else lookup t q
  end.
Proof. exact write_at_total. Qed.
Print Assumptions C01_write_total.

(** remove is this function of the old tree: a file or an empty directory goes (with nothing
    else), anything else - a missing path, a non-empty directory - is refused. *)
Theorem C01_remove_total : forall t p, WF t -> p <> [] ->
  remove_at t p = (if remove_pre t p then Some (delete_subtree t p) else None) /\
  forall q, lookup (delete_subtree t p) q = if is_prefix p q then None else lookup t q.
Proof. intros t p HWF Hp. split; [apply remove_at_total; assumption|intros q; apply lookup_delete; exact Hp]. Qed.
Print Assumptions C01_remove_total.

Theorem C01_remove_all_total : forall t p, WF t -> p <> [] ->
  remove_all_at t p = if exists_at t p then Some (delete_subtree t p) else None.
Proof. exact remove_all_at_total. Qed.
Print Assumptions C01_remove_all_total.

(** a directory is non-empty (so that remove refuses it) iff something is bound strictly below
    it, iff its listing is non-empty *)
Theorem C01_nonempty_dir : forall t p, WF t ->
  (has_children t p = true <-> exists x, x <> [] /\ lookup t (p ++ x) <> None) /\
  has_children t p = match children t p with [] => false | _ => true end.
Proof. intros t p HWF. split; [apply has_children_lookup|apply has_children_listing]; exact HWF. Qed.
Print Assumptions C01_nonempty_dir.

(** copy succeeds exactly when the source exists with the demanded kind, no file is on the way
    to the destination's parent and the destination name is free; then the destination subtree
    answers as the source subtree (seen after the destination's parents were made) and every
    path outside the destination answers as before, the parents being directories. *)
Theorem C01_copy_total : forall k t src dst, WF t -> good_path dst = true -> dst <> [] ->
  match copy_at k t src dst with
  | None => copy_pre k t src dst = false
  | Some t' => copy_pre k t src dst = true /\ WF t' /\
      (forall x, lookup t' (dst ++ x) =
                 match x with [] => lookup t src | _ => with_parents t dst (src ++ x) end) /\
      (forall q, is_prefix dst q = false -> lookup t' q = with_parents t dst q)
  end.
Proof. exact copy_at_total. Qed.
Print Assumptions C01_copy_total.

(** for the operations on RAW strings: plain success is reported exactly under [mem_ok], a
    condition on the reduced arguments and the lookups of the old tree *)
Theorem C01_success_iff : forall t o, WF t -> (snd (mem_step t o) = RUnit <-> mem_ok t o = true).
Proof. exact mem_step_ok. Qed.
Print Assumptions C01_success_iff.

(** the names of a listing are pairwise distinct in every reachable state *)
Theorem C01_listing_names_distinct : forall h p, NoDup (map fst (children (run_hist [] h) p)).
Proof. intros h p. apply children_names_nodup. apply (run_hist_WF h [] WF_nil). Qed.
Print Assumptions C01_listing_names_distinct.

(** Spellings, around ARBITRARY strings X and Y (47 is the slash, 46 the dot). *)
Theorem C01_spelling_slashes : forall X Y,
  reduce (47 :: Y) = reduce Y /\ reduce (X ++ [47]) = reduce X /\
  reduce (X ++ 47 :: 47 :: Y) = reduce (X ++ 47 :: Y).
Proof.
  intros X Y. split; [apply reduce_leading_slash|split; [apply reduce_trailing_slash|apply reduce_double_slash]].
Qed.
Print Assumptions C01_spelling_slashes.

Theorem C01_spelling_dot : forall X Y,
  reduce (46 :: 47 :: Y) = reduce Y /\ reduce (X ++ [47; 46]) = reduce X /\
  reduce (X ++ 47 :: 46 :: 47 :: Y) = reduce (X ++ 47 :: Y).
Proof.
  intros X Y. split; [apply reduce_leading_dot|split; [apply reduce_trailing_dot|apply reduce_dot_segment]].
Qed.
Print Assumptions C01_spelling_dot.

Theorem C01_spelling_dotdot : forall X n Y, good_name n = true ->
  reduce (n ++ 47 :: 46 :: 46 :: 47 :: Y) = reduce Y /\
  reduce (X ++ 47 :: n ++ [47; 46; 46]) = reduce X /\
  reduce (X ++ 47 :: n ++ 47 :: 46 :: 46 :: 47 :: Y) = reduce (X ++ 47 :: Y).
Proof.
  intros X n Y Hn. split; [apply reduce_leading_dotdot; exact Hn|].
  split; [apply reduce_trailing_dotdot; exact Hn|apply reduce_inner_dotdot; exact Hn].
Qed.
Print Assumptions C01_spelling_dotdot.

(** an operation sees its path strings only through what they reduce to - on the root and
    through a view *)
Theorem C01_spelling_irrelevant : forall t o1 o2, same_paths o1 o2 ->
  mem_step t o1 = mem_step t o2 /\ forall base, view_step base t o1 = view_step base t o2.
Proof. intros t o1 o2 H. split; [apply mem_step_spelling; exact H|intros base; apply view_step_spelling; exact H]. Qed.
Print Assumptions C01_spelling_irrelevant.

(** Views at any depth: a chain of Filespace calls with any raw arguments fails or yields the
    view rooted at the concatenation of the reduced arguments ([chain_path]). *)
Theorem C01_views_any_depth : forall chain,
  resolve_view None chain =
  match chain with
  | [] => Some None
  | _ => match chain_path [] chain with Some b => Some (Some (view_base b)) | None => None end
  end.
Proof. exact resolve_view_spec. Qed.
Print Assumptions C01_views_any_depth.

(** hence a history step through ANY chain is the tree-level operation on the prefixed path
    (supersedes [C01_view_is_tree_step], which needs one view with a canonical base) *)
Theorem C01_history_step_any_depth : forall t chain o,
  hist_step t (chain, o) =
  match chain_path [] chain with Some b => view_tree_step b t o | None => (t, RErr) end.
Proof. exact hist_step_is_tree_step. Qed.
Print Assumptions C01_history_step_any_depth.

(** a view made from a view is the one view at the concatenated base *)
Theorem C01_nested_view_is_one_view : forall t c1 c2 o b1, chain_path [] c1 = Some b1 ->
  hist_step t (c1 ++ c2, o) =
  match chain_path b1 c2 with Some b => view_tree_step b t o | None => (t, RErr) end.
Proof. exact hist_step_nested. Qed.
Print Assumptions C01_nested_view_is_one_view.

(** errors change nothing, also through views of any depth (supersedes
    [C01_error_changes_nothing], which is about the root only) *)
Theorem C01_history_error_changes_nothing : forall t vo,
  snd (hist_step t vo) <> RUnit -> fst (hist_step t vo) = t.
Proof. exact hist_step_unchanged. Qed.
Print Assumptions C01_history_error_changes_nothing.

(** frame through any chain of views: nothing outside the view's base is touched *)
Theorem C01_history_step_frame : forall t chain o b q, WF t ->
  chain_path [] chain = Some b -> is_prefix b q = false ->
  (forall e, lookup t q = Some e -> lookup (fst (hist_step t (chain, o))) q = Some e) /\
  (lookup t q = None -> lookup (fst (hist_step t (chain, o))) q <> None ->
   lookup (fst (hist_step t (chain, o))) q = Some D /\ is_prefix q b = true).
Proof. exact hist_step_outside. Qed.
Print Assumptions C01_history_step_frame.

(** The headline clause.  [same_tree t T]: the list model [t] and the nested tree [T] answer
    alike on every path.  One step, any operation, any raw arguments, through the view with base
    [b]: same outcome (listings up to order) and they answer alike afterwards. *)
Theorem C01_step_is_plain_tree : forall b t T o, WF t -> WFT T -> same_tree t T -> good_path b = true ->
  out_equiv (snd (view_tree_step b t o)) (snd (tree_step b T o)) /\
  same_tree (fst (view_tree_step b t o)) (fst (tree_step b T o)) /\
  WFT (fst (tree_step b T o)).
Proof. exact step_sim. Qed.
Print Assumptions C01_step_is_plain_tree.

(** Every history from the empty filespace - all 16 operations, root and views of any depth,
    any raw strings and contents: the memfs model and the nested plain tree give the same
    outcomes in order and the same observable tree at the end (hence after every prefix). *)
Theorem C01_history_is_plain_tree : forall h,
  Forall2 out_equiv (fst (fhist [] h)) (fst (thist (TD []) h)) /\
  same_tree (run_hist [] h) (snd (thist (TD []) h)) /\
  WFT (snd (thist (TD []) h)).
Proof. exact memfs_is_plain_tree. Qed.
Print Assumptions C01_history_is_plain_tree.

(** what answering alike means for an observer: kind and content of every path and the listing
    of every directory (distinct names with kinds, up to order) coincide *)
Theorem C01_same_tree_observations : forall t T, WF t -> WFT T -> same_tree t T ->
  forall p,
    match tget T p with
    | Some (TF d) => lookup t p = Some (F d)
    | Some (TD cs) => lookup t p = Some D /\ Permutation (children t p) (tlist cs)
    | None => lookup t p = None
    end.
Proof. exact same_tree_observations. Qed.
Print Assumptions C01_same_tree_observations.

(** A reading of the deep-copy clause that is FALSE of the model (and of memfs, checked with a
    scratch test: MkdirAll a, Copy a to a/b/c, then a/b/c/b is a directory): the copy is not
    always the source as it was BEFORE the call - when the destination lies inside the source,
    the destination's freshly made parents are part of what is copied.  [C01_copy_total] and
    [C01_copy_deep] state what holds instead. *)
Theorem C01_copy_snapshot_before_refuted :
  exists t src dst t' x, WF t /\ copy_at CAny t src dst = Some t' /\
    lookup t' (dst ++ x) <> lookup t (src ++ x).
Proof.
  exists [([[97]], D)], [[97]], [[97]; [98]; [99]].
  eexists. exists [[98]]. split; [|split; [vm_compute; reflexivity|vm_compute; discriminate]].
  apply (run_hist_WF [([], OMkdirAll [97])] [] WF_nil).
Qed.
Print Assumptions C01_copy_snapshot_before_refuted.

(** Non-vacuity of the new implications: the hypotheses hold of reachable, non-trivial states
    and both branches of every total characterisation occur. *)
Definition ex_t1 : fs := run_hist [] [([], OWriteFile [97;47;102] [104;105]); ([], OMkdirAll [97;47;100])].
Example C01_ex_total_branches :
  WF ex_t1 /\
  (* mkdir: a/f/x has the file a/f on its way, a/g/h has not *)
  file_on_way ex_t1 [[97];[102];[120]] = true /\ mkdir_all ex_t1 [[97];[102];[120]] = None /\
  file_on_way ex_t1 [[97];[103];[104]] = false /\ mkdir_all ex_t1 [[97];[103];[104]] <> None /\
  (* write: replace a/f, create a/g/h with its parent, refuse the directory a/d and a/f/x *)
  write_pre ex_t1 [[97];[102]] = true /\ write_at ex_t1 [[97];[102]] [1] <> None /\
  write_pre ex_t1 [[97];[103];[104]] = true /\
  write_pre ex_t1 [[97];[100]] = false /\ write_at ex_t1 [[97];[100]] [1] = None /\
  write_pre ex_t1 [[97];[102];[120]] = false /\
  (* remove: the file and the empty directory go, the non-empty directory and a missing path stay *)
  remove_pre ex_t1 [[97];[102]] = true /\ remove_pre ex_t1 [[97];[100]] = true /\
  remove_pre ex_t1 [[97]] = false /\ remove_pre ex_t1 [[122]] = false /\
  has_children ex_t1 [[97]] = true /\ has_children ex_t1 [[97];[100]] = false /\
  (* copy: allowed to a free name, refused onto an existing one, of a missing source, of the wrong kind *)
  copy_pre CAny ex_t1 [[97]] [[107]] = true /\ copy_pre CAny ex_t1 [[97]] [[97];[100]] = false /\
  copy_pre CAny ex_t1 [[122]] [[107]] = false /\ copy_pre CFileOnly ex_t1 [[97]] [[107]] = false /\
  (* raw operations *)
  mem_ok ex_t1 (ORemoveAll [47;97;47;47;100;47]) = true /\ mem_ok ex_t1 (ORemove [97]) = false.
Proof. split; [apply run_hist_WF; exact WF_nil|vm_compute; repeat split; intros H; discriminate H]. Qed.

Example C01_ex_spellings :
  good_name [120] = true /\
  reduce [47;97;47;47;98;47;46;47;120;47;46;46;47;99;47] = Some [[97];[98];[99]] /\
  same_paths (OWriteFile [47;97;47;47;98] [1]) (OWriteFile [97;47;120;47;46;46;47;98] [1]).
Proof. vm_compute. repeat split. Qed.

Example C01_ex_chain :
  chain_path [] [[97;47;46;47;98]; [99;47;46;46;47;100]; [47;101]] = Some [[97];[98];[100];[101]] /\
  chain_path [] [[97]; [46;46;47;120]] = None /\
  resolve_view None [[97;47;46;47;98]; [99;47;46;46;47;100]; [47;101]] = Some (Some [97;47;98;47;100;47;101;47]) /\
  is_prefix [[97];[100]] [[97];[102]] = false /\
  fst (hist_step ex_t1 ([[97]; [100]], OWriteFile [120] [7])) <> ex_t1.
Proof. vm_compute. repeat split. intros H; discriminate H. Qed.

(** the two models side by side on one history (root, a view, a copy into the own subtree, a
    listing through a view, a refused remove) *)
Definition ex_h2 : list (list bytes * op) :=
  [([], OWriteFile [46;47;97;47;47;98;47;102] [104;105]);
   ([[97]], OMkdirAll [98;47;46;46;47;99]);
   ([], OCopy [97] [107]);
   ([], ORemoveAll [97;47;98]);
   ([], OCopy [107] [107;47;98;47;122;47;121]);
   ([[107]], OReadDir []);
   ([], ORemove [107]);
   ([[107]; [98]], OReadFile [102])].
Example C01_ex_plain_tree :
  fst (fhist [] ex_h2) = [RUnit; RUnit; RUnit; RUnit; RUnit; RList [([98], true); ([99], true)]; RErr; RData [104;105]] /\
  fst (thist (TD []) ex_h2) = fst (fhist [] ex_h2) /\
  snd (thist (TD []) ex_h2) =
    TD [([97], TD [([99], TD [])]);
        ([107], TD [([98], TD [([102], TF [104;105]);
                               ([122], TD [([121], TD [([98], TD [([102], TF [104;105]); ([122], TD [])]);
                                                       ([99], TD [])])])]);
                    ([99], TD [])])] /\
  WF (run_hist [] ex_h2) /\ WFT (snd (thist (TD []) ex_h2)) /\ same_tree (run_hist [] ex_h2) (snd (thist (TD []) ex_h2)).
Proof.
  split; [vm_compute; reflexivity|]. split; [vm_compute; reflexivity|]. split; [vm_compute; reflexivity|].
  split; [apply run_hist_WF; exact WF_nil|]. destruct (C01_history_is_plain_tree ex_h2) as (_ & A & B). auto.
Qed.
