(** C01 — In-memory filespace behaves as an abstract file tree on every history.
    Statements only; proofs are [exact <lemma of Proofs/Fs.v or Proofs/Paths.v>].

    The model ([Model/Fs.v]) IS the plain tree-of-named-nodes: an insertion-ordered finite map
    from canonical paths to entries with the root as implicit directory; the 16 operations take
    raw path strings.  The theorems below say that this model has every feature the property
    lists, for all histories / all raw strings; that memfs equals the model is what the
    correspondence check (Corr/C01.v + harness/c01.go) tests on every run. *)
From GC Require Import Common.Base Model.Paths Model.Fs Proofs.Paths Proofs.Fs Proofs.NonInterf.

(** Every state reachable by ANY finite history of the 16 operations, issued on the root or on
    child views of any depth, with any raw path strings and contents, is a well-formed tree:
    no duplicate path, every node's parent is a directory, every name is a proper name. *)
Theorem C01_reachable_wf : forall h : list (list bytes * op), WF (run_hist [] h).
Proof. intros h. apply run_hist_WF. exact WF_nil. Qed.
Print Assumptions C01_reachable_wf.

(** No node that was never created appears: no name is empty, ".", ".." or contains '/'. *)
Theorem C01_no_phantom : forall h p e n,
  In (p, e) (run_hist [] h) -> In n p -> good_name n = true.
Proof. intros h p e n Hin Hn. exact (WF_names _ p e (run_hist_WF h [] WF_nil) Hin n Hn). Qed.
Print Assumptions C01_no_phantom.

Theorem C01_listing_no_phantom : forall h p n d,
  In (n, d) (children (run_hist [] h) p) -> good_name n = true.
Proof. intros h p n d. exact (listing_names_good _ p n d (run_hist_WF h [] WF_nil)). Qed.
Print Assumptions C01_listing_no_phantom.

(** Queries agree with the tree: a listing names exactly the nodes bound one level below. *)
Theorem C01_listing_agrees : forall t p n d, WF t ->
  (In (n, d) (children t p) <->
   exists e, lookup t (p ++ [n]) = Some e /\ d = match e with D => true | F _ => false end).
Proof. exact listing_agrees. Qed.
Print Assumptions C01_listing_agrees.

(** A write creates missing parents and replaces content; every other existing node is
    untouched and the only new nodes are the directories leading to the file. *)
Theorem C01_write : forall t p data t',
  WF t -> good_path p = true -> p <> [] -> write_at t p data = Some t' ->
  WF t' /\ lookup t' p = Some (F data) /\ is_dir_at t' (removelast p) = true /\
  (forall q, q <> p -> lookup t q <> None -> lookup t' q = lookup t q) /\
  (forall q, q <> p -> lookup t q = None -> lookup t' q <> None ->
             lookup t' q = Some D /\ is_prefix q (removelast p) = true).
Proof. exact write_at_spec. Qed.
Print Assumptions C01_write.

(** mkdir creates the chain, keeps everything else, and is idempotent. *)
Theorem C01_mkdir : forall t p t',
  WF t -> good_path p = true -> mkdir_all t p = Some t' ->
  WF t' /\ is_dir_at t' p = true /\
  (forall q e, lookup t q = Some e -> lookup t' q = Some e) /\
  (forall q, lookup t q = None -> lookup t' q <> None -> lookup t' q = Some D /\ is_prefix q p = true).
Proof. exact mkdir_all_spec. Qed.
Print Assumptions C01_mkdir.

Theorem C01_mkdir_idempotent : forall t p t',
  WF t -> good_path p = true -> mkdir_all t p = Some t' -> mkdir_all t' p = Some t'.
Proof. exact mkdir_all_idempotent. Qed.
Print Assumptions C01_mkdir_idempotent.

(** remove deletes a file or an EMPTY directory only (and exactly that node). *)
Theorem C01_remove : forall t p t',
  WF t -> p <> [] -> remove_at t p = Some t' ->
  WF t' /\ (is_file_at t p = true \/ (is_dir_at t p = true /\ has_children t p = false)) /\
  (forall q, lookup t' q = if is_prefix p q then None else lookup t q).
Proof. exact remove_at_spec. Qed.
Print Assumptions C01_remove.

Theorem C01_remove_refuses_nonempty : forall t p,
  is_dir_at t p = true -> has_children t p = true -> remove_at t p = None.
Proof. exact remove_at_fails_on_nonempty_dir. Qed.
Print Assumptions C01_remove_refuses_nonempty.

(** recursive remove deletes exactly the subtree. *)
Theorem C01_remove_all : forall t p t',
  WF t -> p <> [] -> remove_all_at t p = Some t' ->
  WF t' /\ exists_at t p = true /\
  (forall q, lookup t' q = if is_prefix p q then None else lookup t q).
Proof. exact remove_all_at_spec. Qed.
Print Assumptions C01_remove_all.

(** copies are deep snapshots: after a successful copy the destination subtree answers exactly
    as the source subtree did at copy time, and nothing outside the destination (other than its
    freshly created parents) changed. *)
Theorem C01_copy_deep : forall k t src dst t',
  WF t -> good_path dst = true -> dst <> [] -> copy_at k t src dst = Some t' ->
  exists t1,
    mkdir_all t (removelast dst) = Some t1 /\ lookup t1 dst = None /\ lookup t src <> None /\
    WF t' /\
    (forall x, lookup t' (dst ++ x) = match x with [] => lookup t src | _ => lookup t1 (src ++ x) end) /\
    (forall q, is_prefix dst q = false -> lookup t' q = lookup t1 q).
Proof. exact copy_at_spec. Qed.
Print Assumptions C01_copy_deep.

(** An operation that does not report plain success leaves the whole tree unchanged. *)
Theorem C01_error_changes_nothing : forall t o, snd (mem_step t o) <> RUnit -> fst (mem_step t o) = t.
Proof. exact mem_step_unchanged. Qed.
Print Assumptions C01_error_changes_nothing.

(** Frame for every operation on raw strings: a path that is neither a target nor below one
    keeps its node; only directories leading to a target can newly appear. *)
Theorem C01_frame : forall t o q, WF t ->
  (forall s p, In s (targets o) -> reduce s = Some p -> is_prefix p q = false) ->
  (forall e, lookup t q = Some e -> lookup (fst (mem_step t o)) q = Some e) /\
  (lookup t q = None -> lookup (fst (mem_step t o)) q <> None ->
   lookup (fst (mem_step t o)) q = Some D /\
   exists s p, In s (targets o) /\ reduce s = Some p /\ is_prefix q p = true).
Proof. exact mem_step_outside. Qed.
Print Assumptions C01_frame.

(** All spellings of a relative path are equivalent: reduction yields a canonical component
    list and is the identity on canonical input. *)
Theorem C01_reduce_canonical : forall s p, reduce s = Some p -> good_path p = true /\ reduce (join p) = Some p.
Proof. intros s p H. split; [eapply reduce_good|eapply reduce_idempotent]; eauto. Qed.
Print Assumptions C01_reduce_canonical.

(** Child views: an operation on a view rooted at [b] is the root operation on [b ++ r]. *)
Theorem C01_view_write : forall b t s data r,
  good_path b = true -> reduce_node s = Some r ->
  view_step (view_base b) t (OWriteFile s data) = upd t (write_at t (b ++ r) data).
Proof. exact view_write_is_prefixed. Qed.
Print Assumptions C01_view_write.

Theorem C01_view_mkdir : forall b t s r,
  good_path b = true -> reduce s = Some r ->
  view_step (view_base b) t (OMkdirAll s) = upd t (mkdir_all t (b ++ r)).
Proof. exact view_mkdir_is_prefixed. Qed.
Print Assumptions C01_view_mkdir.

Theorem C01_view_remove : forall b t s r,
  good_path b = true -> reduce_node s = Some r ->
  view_step (view_base b) t (ORemove s) = upd t (remove_at t (b ++ r)) /\
  view_step (view_base b) t (ORemoveAll s) = upd t (remove_all_at t (b ++ r)).
Proof. exact view_remove_is_prefixed. Qed.
Print Assumptions C01_view_remove.

Theorem C01_view_queries : forall b t s r,
  good_path b = true -> reduce s = Some r ->
  view_step (view_base b) t (OIsExist s) = (t, RBool (exists_at t (b ++ r))) /\
  view_step (view_base b) t (OIsDir s) = (t, RBool (is_dir_at t (b ++ r))) /\
  view_step (view_base b) t (OReadDir s) =
    (if is_dir_at t (b ++ r) then (t, RList (children t (b ++ r))) else (t, RErr)).
Proof. exact view_queries_are_prefixed. Qed.
Print Assumptions C01_view_queries.

Theorem C01_view_copy : forall b t s d sr dr,
  good_path b = true -> reduce s = Some sr -> reduce_node d = Some dr ->
  view_step (view_base b) t (OCopy s d) = upd t (copy_at CAny t (b ++ sr) (b ++ dr)).
Proof. exact view_copy_is_prefixed. Qed.
Print Assumptions C01_view_copy.

(** … and in general, for ALL 16 operations: a child view rooted at [b] is the tree-level
    operation on the path prefixed with [b] ([view_tree_step] spells each case out). *)
Theorem C01_view_is_tree_step : forall b t o, good_path b = true ->
  view_step (view_base b) t o = view_tree_step b t o.
Proof. exact view_step_is_tree_step. Qed.
Print Assumptions C01_view_is_tree_step.

(** Non-vacuity: concrete histories evaluated by the model. *)
Definition s2 (l : list N) : bytes := l.
Example C01_ex_history :
  let h := [([], OWriteFile [46;47;97;47;47;98;47;102] [104;105]);      (* "./a//b/f" := "hi" *)
            ([[97]], OMkdirAll [98;47;46;46;47;99]);                     (* view "a": mkdir "b/../c" *)
            ([], OCopy [97] [107]);                                      (* copy a -> k *)
            ([], ORemoveAll [97;47;98])] in
  run_hist [] h =
  [([[97]], D); ([[97]; [99]], D); ([[107]], D); ([[107]; [98]], D);
   ([[107]; [98]; [102]], F [104; 105]); ([[107]; [99]], D)].
Proof. vm_compute. reflexivity. Qed.
Example C01_ex_dot_rejected :
  mem_step [] (OMkdirAll [46;46;47;120]) = ([], RErr) /\ mem_step [] (OWriteFile [46] [1]) = ([], RErr) /\
  mem_step [] (OMkdirAll [46]) = ([], RUnit).
Proof. vm_compute. repeat split. Qed.
