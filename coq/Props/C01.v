From GC Require Import Common.Base Model.Paths Model.Fs.
Theorem C01_placeholder : True. Proof. exact I. Qed.
Print Assumptions C01_placeholder.
