(** C15 — Named resource locks: writers exclude everyone, readers share, no deadlock.
    Only statements; every proof is [exact <lemma of Proofs/Locks.v>].

    [sys maps] is the system in which holder [i] executes
    [h := SharedMutex.Lock(maps[i]); <critical section>; h.Unlock()] — any number of holders, any
    lock maps ([nodup_maps]: the keys of a Go map are distinct), one atomic step per
    RLock / Lock-announce / Lock-acquire / RUnlock / Unlock on a writer-preferring RW mutex per
    name; [run sched] is an arbitrary interleaving.

    The second half of the file (from C15_blocked_only_by_incompatible on) was added by the proof
    audit; the proofs are in Proofs/C15More.v and Proofs/C15Nested.v. *)
From GC Require Import Common.Base Model.Locks Model.LocksNested Proofs.Locks Proofs.C15More Proofs.C15Nested.
Local Open Scope nat_scope.

(** Two holders that are inside their critical sections at the same time and whose maps share a
    name both asked for read access to it. *)
Theorem C15_exclusion : forall maps sched i j mi mj hi hj x m1 m2,
  let s := run sched (sys maps) in
  i <> j ->
  nth_error maps i = Some mi -> nth_error maps j = Some mj ->
  nth_error (ths s) i = Some (TIn hi) -> nth_error (ths s) j = Some (TIn hj) ->
  In (x, m1) mi -> In (x, m2) mj -> m1 = MR /\ m2 = MR.
Proof. exact exclusion_inside. Qed.
Print Assumptions C15_exclusion.

(** Stronger: the same for whatever two holders currently HOLD (also half-way through Lock or
    Unlock), for any acquisition order whatsoever. *)
Theorem C15_exclusion_holding : forall progs sched i j ti tj x m1 m2,
  let s := run sched (init progs) in
  i <> j -> nth_error (ths s) i = Some ti -> nth_error (ths s) j = Some tj ->
  In (x, m1) (holds ti) -> In (x, m2) (holds tj) -> m1 = MR /\ m2 = MR.
Proof. exact exclusion_holding. Qed.
Print Assumptions C15_exclusion_holding.

(** Holders with pairwise compatible maps (disjoint, or overlapping in read mode only) are not
    serialised: in every reachable state every unfinished holder can take its next step — nobody
    ever waits — ... *)
Theorem C15_no_serialisation : forall maps sched i t,
  nodup_maps maps -> pairwise_compat maps ->
  let s := run sched (sys maps) in
  nth_error (ths s) i = Some t -> final_thread t = false -> step i s <> None.
Proof. exact no_serialisation. Qed.
Print Assumptions C15_no_serialisation.

(** ... and the state in which ALL of them are inside their critical sections is reachable (by a
    schedule on which no step is skipped). *)
Theorem C15_no_serialisation_all_inside : forall maps,
  nodup_maps maps -> pairwise_compat maps ->
  exists sched,
    run_strict sched (sys maps) <> None /\
    forall i m, nth_error maps i = Some m ->
                nth_error (ths (run sched (sys maps))) i = Some (TIn (lock_prog m)).
Proof. exact all_inside_reachable. Qed.
Print Assumptions C15_no_serialisation_all_inside.

(** No deadlock: in every reachable state in which somebody is not finished, some holder has an
    enabled step (any holders, any maps, any interleaving; pending writers included). *)
Theorem C15_no_deadlock : forall maps sched,
  nodup_maps maps ->
  let s := run sched (sys maps) in
  all_final s = false -> exists i, i < length maps /\ step i s <> None.
Proof. exact no_deadlock. Qed.
Print Assumptions C15_no_deadlock.

(** Everybody gets their turn.  (a) every step strictly decreases a measure, so every execution
    has at most [measure (init progs)] steps; (b) an execution can only stop (no step enabled) in
    the state where every holder has finished and every lock is free; (c) from every reachable
    state such a finished state is reachable. *)
Theorem C15_all_finish_measure : forall i s s', step i s = Some s' -> measure s' < measure s.
Proof. exact step_decreases. Qed.
Print Assumptions C15_all_finish_measure.

Theorem C15_all_finish_bounded : forall progs sched s',
  run_strict sched (init progs) = Some s' -> length sched <= measure (init progs).
Proof. exact runs_bounded. Qed.
Print Assumptions C15_all_finish_bounded.

Theorem C15_all_finish : forall maps sched,
  nodup_maps maps ->
  let s := run sched (sys maps) in
  (forall i, step i s = None) -> all_final s = true /\ forall x, lk s x = lock0.
Proof. exact stuck_is_finished. Qed.
Print Assumptions C15_all_finish.

Theorem C15_can_finish : forall maps sched,
  nodup_maps maps -> exists sched', all_final (run (sched ++ sched') (sys maps)) = true.
Proof. exact can_finish. Qed.
Print Assumptions C15_can_finish.

(** Non-vacuity of C15_no_deadlock and what a regression looks like: the same system acquiring in
    the listed (unsorted) order reaches a state where nobody is finished and nobody can move. *)
Theorem C15_unsorted_refuted :
  exists maps sched,
    nodup_maps maps /\
    let s := run sched (sys_unsorted maps) in
    all_final s = false /\ (forall i, step i s = None).
Proof. exact unsorted_refuted. Qed.
Print Assumptions C15_unsorted_refuted.

(** The order [Lock] really uses (Go's byte-wise [<] on names): the rows come out strictly
    ascending and are exactly the rows of the map; ranking names in a strictly ascending pool
    turns that order into [<] on the numeric names of the model. *)
Theorem C15_lock_order : forall m : list row,
  NoDup (map fst m) ->
  lex_ascb (map fst (sort_rows m)) = true /\ Permutation.Permutation (sort_rows m) m.
Proof. exact sort_rows_sorted. Qed.
Print Assumptions C15_lock_order.

Theorem C15_rank_monotone : forall pool a b i j,
  lex_ascb pool = true -> index_of a pool = Some i -> index_of b pool = Some j ->
  (lex_ltb a b = true <-> i < j).
Proof. exact rank_monotone. Qed.
Print Assumptions C15_rank_monotone.

Theorem C15_lock_prog_sorted : forall m,
  NoDup (map fst m) -> ascb (map fst (lock_prog m)) = true /\ forall q, In q (lock_prog m) <-> In q m.
Proof. intros m H. split; [exact (lock_prog_asc m H)|intro q; exact (in_lock_prog q m)]. Qed.
Print Assumptions C15_lock_prog_sorted.

(** Non-vacuity: concrete systems meeting the hypotheses, evaluated by the model. *)
Definition ex_maps : list (list req) :=
  [[(2, MW); (0, MR)]; [(0, MR); (1, MW)]; [(3, MR); (0, MR)]; [(3, MR)]].
Example C15_ex_compat :
  forallb (fun a => forallb (fun b => compatb a b) [[(0, MR); (1, MW)]; [(3, MR); (0, MR)]]) [[(2, MW); (0, MR)]] = true.
Proof. vm_compute. reflexivity. Qed.
(** all four inside at once (threads 0..3 run to their critical sections one after another) *)
Example C15_ex_all_inside :
  map inside (ths (run [0;0;0;0; 1;1;1;1; 2;2;2; 3;3] (sys ex_maps))) = [true; true; true; true].
Proof. vm_compute. reflexivity. Qed.
(** an incompatible pair: the second holder is blocked while the first is inside, a reader
    arriving behind the pending writer is blocked too, and everybody finishes afterwards *)
Definition ex_conflict : list (list req) := [[(0, MR)]; [(0, MW)]; [(0, MR)]].
Example C15_ex_blocked :
  let s := run [0; 0; 1] (sys ex_conflict) in
  (enabled 1 s, enabled 2 s, enabled 0 s) = (false, false, true).
Proof. vm_compute. reflexivity. Qed.
Example C15_ex_finishes :
  all_final (run [0;0;1;2;0;0;1;1;1;1;2;2;2;2] (sys ex_conflict)) = true.
Proof. vm_compute. reflexivity. Qed.
Example C15_ex_accepts :
  accepts ex_conflict [EAcq 0; EAcq 2; ERel 0; ERel 2; EAcq 1; ERel 1] = true /\
  accepts ex_conflict [EAcq 0; EAcq 1; ERel 0; ERel 1; EAcq 2; ERel 2] = false.
Proof. vm_compute. split; reflexivity. Qed.
Local Open Scope N_scope.
Example C15_ex_sort :
  sort_rows [([98], true); ([97; 98], false); ([97], true)] = [([97], true); ([97; 98], false); ([98], true)].
Proof. vm_compute. reflexivity. Qed.

(** ** Proof audit: the clauses at full strength *)
Local Open Scope nat_scope.

(** NOT SERIALISED, in ANY family (supersedes C15_no_serialisation, which needs every pair of the
    family to be compatible).  Whoever is there and however they conflict among themselves: a
    holder that cannot take its next step waits for a name [x] that ANOTHER holder occupies (holds,
    or is the announced writer of) and on which the two maps conflict (both name [x], one of them
    for writing).  So the lock never makes a holder wait for a holder it is compatible with. *)
Theorem C15_blocked_only_by_incompatible : forall maps sched i t mi,
  let s := run sched (sys maps) in
  NoDup (map fst mi) ->
  nth_error (ths s) i = Some t -> nth_error maps i = Some mi ->
  final_thread t = false -> step i s = None ->
  exists x j tj mj,
    j <> i /\ nth_error (ths s) j = Some tj /\ nth_error maps j = Some mj /\
    waits t x /\ occupies tj x /\ conflicts x mi mj.
Proof. exact blocked_only_by_incompatible. Qed.
Print Assumptions C15_blocked_only_by_incompatible.

(** The bystander: a holder compatible with everybody who currently occupies anything is never
    made to wait, at no point of its Lock / Unlock. *)
Theorem C15_bystander_never_waits : forall maps sched i t mi,
  let s := run sched (sys maps) in
  NoDup (map fst mi) ->
  nth_error (ths s) i = Some t -> nth_error maps i = Some mi -> final_thread t = false ->
  (forall j tj mj, j <> i -> nth_error (ths s) j = Some tj -> nth_error maps j = Some mj ->
                   present tj = true -> compat mi mj) ->
  step i s <> None.
Proof. exact bystander_never_waits. Qed.
Print Assumptions C15_bystander_never_waits.

(** Any pairwise compatible SUB-family [J] of an arbitrary family can be inside all at once: by a
    schedule on which no step is skipped and nobody outside [J] moves (supersedes
    C15_no_serialisation_all_inside = the case where J is everybody). *)
Theorem C15_compatible_subfamily_all_inside : forall maps (J : list nat),
  (forall i m, In i J -> nth_error maps i = Some m -> NoDup (map fst m)) ->
  (forall i j a b, In i J -> In j J -> i <> j ->
                   nth_error maps i = Some a -> nth_error maps j = Some b -> compat a b) ->
  exists sched,
    (forall i, In i sched -> In i J) /\
    run_strict sched (sys maps) <> None /\
    forall i m, In i J -> nth_error maps i = Some m ->
                nth_error (ths (run sched (sys maps))) i = Some (TIn (lock_prog m)).
Proof. exact subfamily_all_inside. Qed.
Print Assumptions C15_compatible_subfamily_all_inside.

(** ALL GET THEIR TURN, on every round-fair schedule, with an explicit bound and without a
    fairness axiom.  From any reachable state: let the run continue with [rounds], each of which
    mentions every holder at least once (any order, anything else in between, disabled entries
    are skipped); after as many rounds as the measure of the state everybody has finished and
    every lock is free.  From the initial state the measure is 2r + 3w + 2 summed over the
    holders (r read names, w write names: C15_measure_sys). *)
Theorem C15_fair_rounds_finish : forall maps sched rounds,
  nodup_maps maps ->
  (forall r, In r rounds -> covers (length maps) r) ->
  measure (run sched (sys maps)) <= length rounds ->
  let s' := run (sched ++ concat rounds) (sys maps) in
  all_final s' = true /\ forall x, lk s' x = lock0.
Proof. exact fair_rounds_finish. Qed.
Print Assumptions C15_fair_rounds_finish.

Theorem C15_measure_sys : forall maps, measure (sys maps) = sumf holder_cost maps.
Proof. exact measure_sys. Qed.
Print Assumptions C15_measure_sys.

(** However a schedule skips: at most [measure] of its entries are steps that happen
    (C15_all_finish_bounded speaks about schedules without skipped entries only). *)
Theorem C15_effective_steps_bounded : forall progs sched,
  effective sched (init progs) <= measure (init progs).
Proof. exact effective_bounded. Qed.
Print Assumptions C15_effective_steps_bounded.

(** ... and finishing means having had one's turn: an execution at whose end everybody has
    finished went, for every holder, through a state in which that holder is inside its critical
    section holding exactly the rows of its map. *)
Theorem C15_finished_was_inside : forall maps sched i m,
  nth_error maps i = Some m ->
  all_final (run sched (sys maps)) = true ->
  exists pre post, sched = pre ++ post /\
                   nth_error (ths (run pre (sys maps))) i = Some (TIn (lock_prog m)).
Proof. exact finished_was_inside. Qed.
Print Assumptions C15_finished_was_inside.

(** THE TIE.  The correspondence check accepts a recorded trace with [accepts]; acceptance means
    what it should: the trace is the projection of a complete execution of the model (no skipped
    step, everybody finished, EVERY lock free), and the holders the trace shows inside together
    after any of its prefixes have compatible maps - the exclusion oracle of the harness is a
    consequence of acceptance. *)
Theorem C15_accepts_is_execution : forall maps tr,
  accepts maps tr = true ->
  exists sched s, run_strict sched (sys maps) = Some s /\ all_final s = true /\
                  forall x, lk s x = lock0.
Proof. exact accepts_is_execution. Qed.
Print Assumptions C15_accepts_is_execution.

Theorem C15_accepted_trace_exclusive : forall maps pre post i j mi mj x m1 m2,
  accepts maps (pre ++ post) = true -> i <> j ->
  In i (inside_after pre []) -> In j (inside_after pre []) ->
  nth_error maps i = Some mi -> nth_error maps j = Some mj ->
  In (x, m1) mi -> In (x, m2) mj -> m1 = MR /\ m2 = MR.
Proof. exact accepted_trace_exclusive. Qed.
Print Assumptions C15_accepted_trace_exclusive.

(** ALL HOLD DURATIONS, taken to the limit: a holder whose critical section WAITS FOR OTHER HOLDERS
    (Model/LocksNested.v: the runner keeps a task's locks until the sub-tasks its body submitted
    have finished; [deps i] = whom holder [i] awaits; [stepN] = [step] with that guard).
    Without a discipline the guarantee is lost - three deadlocks, all three reproduced on the Go
    code (see DESIGN.md): (a) the sub-task wants what its parent holds; (b) the sub-task only
    READS what its parent reads (compatible maps!) and a writer has announced itself in between;
    (c) the sub-task's map is disjoint from its parent's but lies below it, and a third holder
    wants both. *)
Theorem C15_nested_self_refuted : deadlocked ns_self_maps ns_self_deps ns_self_sched.
Proof. exact nested_self_refuted. Qed.
Print Assumptions C15_nested_self_refuted.

Theorem C15_nested_recursive_read_refuted :
  deadlocked ns_read_maps ns_read_deps ns_read_sched /\
  (forall a b, nth_error ns_read_maps 0 = Some a -> nth_error ns_read_maps 1 = Some b -> compat a b).
Proof. exact nested_recursive_read_refuted. Qed.
Print Assumptions C15_nested_recursive_read_refuted.

Theorem C15_nested_cross_refuted :
  deadlocked ns_cross_maps ns_cross_deps ns_cross_sched /\
  (forall a b x m1 m2, nth_error ns_cross_maps 0 = Some a -> nth_error ns_cross_maps 1 = Some b ->
                       In (x, m1) a -> In (x, m2) b -> False).
Proof. exact nested_cross_refuted. Qed.
Print Assumptions C15_nested_cross_refuted.

(** With the lock order continued through the nesting - sub-tasks are created after their parent,
    a holder awaits the sub-tasks of its sub-tasks too, and every name of a sub-task lies ABOVE
    every name of the holders awaiting it - no reachable state is a deadlock (any holders, maps,
    nesting depth, interleaving), an execution can only stop with everybody finished and every
    lock free, and from every reachable state everybody can finish.  With [deps = []] this is
    C15_no_deadlock / C15_all_finish / C15_can_finish. *)
Theorem C15_nested_ordered_no_deadlock : forall maps deps sched,
  nodup_maps maps -> deps_forward deps -> deps_closed deps -> deps_above maps deps ->
  let s := runN deps sched (sys maps) in
  all_final s = false -> exists i, i < length maps /\ stepN deps i s <> None.
Proof. exact nested_ordered_no_deadlock. Qed.
Print Assumptions C15_nested_ordered_no_deadlock.

Theorem C15_nested_ordered_all_finish : forall maps deps sched,
  nodup_maps maps -> deps_forward deps -> deps_closed deps -> deps_above maps deps ->
  let s := runN deps sched (sys maps) in
  (forall i, stepN deps i s = None) -> all_final s = true /\ forall x, lk s x = lock0.
Proof. exact nested_ordered_stuck_is_finished. Qed.
Print Assumptions C15_nested_ordered_all_finish.

Theorem C15_nested_ordered_can_finish : forall maps deps sched,
  nodup_maps maps -> deps_forward deps -> deps_closed deps -> deps_above maps deps ->
  exists sched', all_final (runN deps (sched ++ sched') (sys maps)) = true.
Proof. exact nested_ordered_can_finish. Qed.
Print Assumptions C15_nested_ordered_can_finish.

(** Non-vacuity of the new implications. *)
(* a parked holder and a bystander: 0 writes name 0 and is inside; 1 wants name 0 too and is the
   announced writer; 2 (names 1, 2) is compatible with both and has begun; 3 reads name 0 and is
   held back behind the announced writer *)
Definition ex_park : list (list req) := [[(0, MW)]; [(0, MW)]; [(2, MR); (1, MW)]; [(0, MR)]].
Definition ex_park_state : state := run [0; 0; 0; 1; 2] (sys ex_park).
Example C15_ex_blocked_premises :
  (match nth_error (ths ex_park_state) 1 with Some t => final_thread t | None => true end,
   enabled 1 ex_park_state, enabled 3 ex_park_state,
   map present (ths ex_park_state)) = (false, false, false, [true; true; true; false]).
Proof. vm_compute. reflexivity. Qed.
(* the bystander's premise, decided: everybody present other than holder 2 is compatible with it;
   and holder 2 can indeed move *)
Example C15_ex_bystander :
  (forallb (fun j => Nat.eqb j 2 || compatb (nth 2 ex_park []) (nth j ex_park [])) [0; 1; 2; 3],
   enabled 2 ex_park_state) = (true, true).
Proof. vm_compute. reflexivity. Qed.
(* a compatible sub-family of an incompatible family: the two readers of ex_conflict *)
Example C15_ex_subfamily :
  exists sched, (forall i, In i sched -> In i [0; 2]) /\
    run_strict sched (sys ex_conflict) <> None /\
    forall i m, In i [0; 2] -> nth_error ex_conflict i = Some m ->
                nth_error (ths (run sched (sys ex_conflict))) i = Some (TIn (lock_prog m)).
Proof.
  apply C15_compatible_subfamily_all_inside.
  - intros i m [<-|[<-|[]]] H; cbn in H; inversion H; subst; repeat constructor; cbn; tauto.
  - intros i j a b [<-|[<-|[]]] [<-|[<-|[]]] N Ha Hb; try congruence;
      cbn in Ha, Hb; inversion Ha; inversion Hb; subst; apply compatb_spec; reflexivity.
Qed.
(* round-fair schedules: measure 13 for ex_conflict, 13 rounds in the order 2, 1, 0 *)
Example C15_ex_fair_rounds :
  (measure (sys ex_conflict), coversb 3 [2; 1; 0],
   all_final (run (concat (repeat [2; 1; 0] 13)) (sys ex_conflict)),
   all_final (run (concat (repeat [2; 1; 0] 3)) (sys ex_conflict))) = (13, true, true, false).
Proof. vm_compute. reflexivity. Qed.
Example C15_ex_effective :
  effective [1; 1; 0; 2; 2; 0; 0; 7; 1] (sys ex_conflict) = 3.
Proof. vm_compute. reflexivity. Qed.
(* the trace of C15_ex_accepts shows the two readers inside together after its second event *)
Example C15_ex_inside_after :
  inside_after [EAcq 0; EAcq 2] [] = [2; 0] /\
  inside_after [EAcq 0; EAcq 2; ERel 0; ERel 2; EAcq 1] [] = [1].
Proof. vm_compute. split; reflexivity. Qed.
(* nesting within the discipline: holder 0 holds name 0 and awaits its sub-task 1 that wants
   name 1; holder 2 wants both.  The discipline holds, the parent is really held inside while
   the sub-task runs, the schedule that deadlocks the crossed variant finishes here. *)
Definition ex_nest_maps : list (list req) := [[(0, MW)]; [(1, MW)]; [(0, MW); (1, MW)]].
Definition ex_nest_deps : list (list nat) := [[1]; []; []].
Example C15_ex_nested_discipline :
  (deps_forwardb ex_nest_deps, deps_closedb ex_nest_deps, deps_aboveb ex_nest_maps ex_nest_deps,
   deps_aboveb ns_cross_maps ns_cross_deps) = (true, true, true, false).
Proof. vm_compute. reflexivity. Qed.
Example C15_ex_nested_runs :
  let s := runN ex_nest_deps [0; 0; 0; 2; 2; 2; 1] (sys ex_nest_maps) in
  (match stepN ex_nest_deps 0 s with Some _ => true | None => false end,
   match stepN ex_nest_deps 1 s with Some _ => true | None => false end,
   all_final (runN ex_nest_deps ([0; 0; 0; 2; 2; 2; 1] ++ [1;1;1;1; 0;0; 2;2;2;2;2;2;2]) (sys ex_nest_maps)))
  = (false, true, true).
Proof. vm_compute. reflexivity. Qed.
Example C15_ex_nested_discipline_props :
  deps_forward ex_nest_deps /\ deps_closed ex_nest_deps /\ deps_above ex_nest_maps ex_nest_deps.
Proof.
  split; [apply deps_forwardb_spec; reflexivity|].
  split; [apply deps_closedb_spec; reflexivity|apply deps_aboveb_spec; reflexivity].
Qed.
