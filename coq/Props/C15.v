(** C15 — Named resource locks: writers exclude everyone, readers share, no deadlock.
    Only statements; every proof is [exact <lemma of Proofs/Locks.v>].

    [sys maps] is the system in which holder [i] executes
    [h := SharedMutex.Lock(maps[i]); <critical section>; h.Unlock()] — any number of holders, any
    lock maps ([nodup_maps]: the keys of a Go map are distinct), one atomic step per
    RLock / Lock-announce / Lock-acquire / RUnlock / Unlock on a writer-preferring RW mutex per
    name; [run sched] is an arbitrary interleaving. *)
From GC Require Import Common.Base Model.Locks Proofs.Locks.
Local Open Scope nat_scope.

(** Two holders that are inside their critical sections at the same time and whose maps share a
    name both asked for read access to it. *)
Theorem C15_exclusion : forall maps sched i j mi mj hi hj x m1 m2,
  let s := run sched (sys maps) in
  i <> j ->
  nth_error maps i = Some mi -> nth_error maps j = Some mj ->
  nth_error (ths s) i = Some (TIn hi) -> nth_error (ths s) j = Some (TIn hj) ->
  In (x, m1) mi -> In (x, m2) mj -> m1 = MR /\ m2 = MR.
Proof. exact exclusion_inside. Qed.
Print Assumptions C15_exclusion.

(** Stronger: the same for whatever two holders currently HOLD (also half-way through Lock or
    Unlock), for any acquisition order whatsoever. *)
Theorem C15_exclusion_holding : forall progs sched i j ti tj x m1 m2,
  let s := run sched (init progs) in
  i <> j -> nth_error (ths s) i = Some ti -> nth_error (ths s) j = Some tj ->
  In (x, m1) (holds ti) -> In (x, m2) (holds tj) -> m1 = MR /\ m2 = MR.
Proof. exact exclusion_holding. Qed.
Print Assumptions C15_exclusion_holding.

(** Holders with pairwise compatible maps (disjoint, or overlapping in read mode only) are not
    serialised: in every reachable state every unfinished holder can take its next step — nobody
    ever waits — ... *)
Theorem C15_no_serialisation : forall maps sched i t,
  nodup_maps maps -> pairwise_compat maps ->
  let s := run sched (sys maps) in
  nth_error (ths s) i = Some t -> final_thread t = false -> step i s <> None.
Proof. exact no_serialisation. Qed.
Print Assumptions C15_no_serialisation.

(** ... and the state in which ALL of them are inside their critical sections is reachable (by a
    schedule on which no step is skipped). *)
Theorem C15_no_serialisation_all_inside : forall maps,
  nodup_maps maps -> pairwise_compat maps ->
  exists sched,
    run_strict sched (sys maps) <> None /\
    forall i m, nth_error maps i = Some m ->
                nth_error (ths (run sched (sys maps))) i = Some (TIn (lock_prog m)).
Proof. exact all_inside_reachable. Qed.
Print Assumptions C15_no_serialisation_all_inside.

(** No deadlock: in every reachable state in which somebody is not finished, some holder has an
    enabled step (any holders, any maps, any interleaving; pending writers included). *)
Theorem C15_no_deadlock : forall maps sched,
  nodup_maps maps ->
  let s := run sched (sys maps) in
  all_final s = false -> exists i, i < length maps /\ step i s <> None.
Proof. exact no_deadlock. Qed.
Print Assumptions C15_no_deadlock.

(** Everybody gets their turn.  (a) every step strictly decreases a measure, so every execution
    has at most [measure (init progs)] steps; (b) an execution can only stop (no step enabled) in
    the state where every holder has finished and every lock is free; (c) from every reachable
    state such a finished state is reachable. *)
Theorem C15_all_finish_measure : forall i s s', step i s = Some s' -> measure s' < measure s.
Proof. exact step_decreases. Qed.
Print Assumptions C15_all_finish_measure.

Theorem C15_all_finish_bounded : forall progs sched s',
  run_strict sched (init progs) = Some s' -> length sched <= measure (init progs).
Proof. exact runs_bounded. Qed.
Print Assumptions C15_all_finish_bounded.

Theorem C15_all_finish : forall maps sched,
  nodup_maps maps ->
  let s := run sched (sys maps) in
  (forall i, step i s = None) -> all_final s = true /\ forall x, lk s x = lock0.
Proof. exact stuck_is_finished. Qed.
Print Assumptions C15_all_finish.

Theorem C15_can_finish : forall maps sched,
  nodup_maps maps -> exists sched', all_final (run (sched ++ sched') (sys maps)) = true.
Proof. exact can_finish. Qed.
Print Assumptions C15_can_finish.

(** Non-vacuity of C15_no_deadlock and what a regression looks like: the same system acquiring in
    the listed (unsorted) order reaches a state where nobody is finished and nobody can move. *)
Theorem C15_unsorted_refuted :
  exists maps sched,
    nodup_maps maps /\
    let s := run sched (sys_unsorted maps) in
    all_final s = false /\ (forall i, step i s = None).
Proof. exact unsorted_refuted. Qed.
Print Assumptions C15_unsorted_refuted.

(** The order [Lock] really uses (Go's byte-wise [<] on names): the rows come out strictly
    ascending and are exactly the rows of the map; ranking names in a strictly ascending pool
    turns that order into [<] on the numeric names of the model. *)
Theorem C15_lock_order : forall m : list row,
  NoDup (map fst m) ->
  lex_ascb (map fst (sort_rows m)) = true /\ Permutation.Permutation (sort_rows m) m.
Proof. exact sort_rows_sorted. Qed.
Print Assumptions C15_lock_order.

Theorem C15_rank_monotone : forall pool a b i j,
  lex_ascb pool = true -> index_of a pool = Some i -> index_of b pool = Some j ->
  (lex_ltb a b = true <-> i < j).
Proof. exact rank_monotone. Qed.
Print Assumptions C15_rank_monotone.

Theorem C15_lock_prog_sorted : forall m,
  NoDup (map fst m) -> ascb (map fst (lock_prog m)) = true /\ forall q, In q (lock_prog m) <-> In q m.
Proof. intros m H. split; [exact (lock_prog_asc m H)|intro q; exact (in_lock_prog q m)]. Qed.
Print Assumptions C15_lock_prog_sorted.

(** Non-vacuity: concrete systems meeting the hypotheses, evaluated by the model. *)
Definition ex_maps : list (list req) :=
  [[(2, MW); (0, MR)]; [(0, MR); (1, MW)]; [(3, MR); (0, MR)]; [(3, MR)]].
Example C15_ex_compat :
  forallb (fun a => forallb (fun b => compatb a b) [[(0, MR); (1, MW)]; [(3, MR); (0, MR)]]) [[(2, MW); (0, MR)]] = true.
Proof. vm_compute. reflexivity. Qed.
(** all four inside at once (threads 0..3 run to their critical sections one after another) *)
Example C15_ex_all_inside :
  map inside (ths (run [0;0;0;0; 1;1;1;1; 2;2;2; 3;3] (sys ex_maps))) = [true; true; true; true].
Proof. vm_compute. reflexivity. Qed.
(** an incompatible pair: the second holder is blocked while the first is inside, a reader
    arriving behind the pending writer is blocked too, and everybody finishes afterwards *)
Definition ex_conflict : list (list req) := [[(0, MR)]; [(0, MW)]; [(0, MR)]].
Example C15_ex_blocked :
  let s := run [0; 0; 1] (sys ex_conflict) in
  (enabled 1 s, enabled 2 s, enabled 0 s) = (false, false, true).
Proof. vm_compute. reflexivity. Qed.
Example C15_ex_finishes :
  all_final (run [0;0;1;2;0;0;1;1;1;1;2;2;2;2] (sys ex_conflict)) = true.
Proof. vm_compute. reflexivity. Qed.
Example C15_ex_accepts :
  accepts ex_conflict [EAcq 0; EAcq 2; ERel 0; ERel 2; EAcq 1; ERel 1] = true /\
  accepts ex_conflict [EAcq 0; EAcq 1; ERel 0; ERel 1; EAcq 2; ERel 2] = false.
Proof. vm_compute. split; reflexivity. Qed.
Local Open Scope N_scope.
Example C15_ex_sort :
  sort_rows [([98], true); ([97; 98], false); ([97], true)] = [([97], true); ([97; 98], false); ([98], true)].
Proof. vm_compute. reflexivity. Qed.
