(** C09 — In-memory filespace stays consistent under concurrent use.
    Statements only; every proof is [exact <lemma of Proofs/MemConc.v, MemLive.v or C09More.v>].

    The model (Model/MemConc.v) is an interleaving model: shared heap of directory and file
    objects, any number of threads, each with any program of WriteFile / Writer session /
    MkdirAll / ReadFile / Reader session / ReadDir / IsExist / Remove / RemoveAll / Copy*;
    [step ar t st] is one atomic region of thread [t] (None = blocked or finished), [run ar sched]
    runs an arbitrary schedule [sched : list tid], skipping disabled steps.  [ar] is the
    code flavour: [cur] = the code as it is now; [before_288e3e2] = Writer inserts a new file
    before locking it; [before_8463491] = additionally the non-atomic Remove (F28).
    Initial states: [boot s0 progs] with [s0] any quiescent heap accepted by the executable
    check [good_shared] (the empty filespace [empty_shared], or anything built by [setup]).

    What is NOT claimed: linearizability of whole calls.  MkdirAll and the creating calls are
    visibly non-atomic (mkdir -p): [C09_mkdir_p_not_atomic] is a schedule of the CURRENT code
    whose outcome equals neither sequential order (the remover removes the directory that the
    racing MkdirAll has just created, the MkdirAll starts again from the root). *)
From GC Require Import Common.Base Model.Paths Model.Fs Model.MemConc Proofs.Fs Proofs.MemConc Proofs.MemLive Proofs.C09More.
Open Scope N_scope.

(** In every reachable state (any threads, any programs with good path names, any schedule,
    either remove discipline): every directory object's child list has pairwise distinct names,
    every listing ever returned by ReadDir has pairwise distinct names, and the abstract tree
    (what is reachable from the root) is a well-formed plain tree of Model/Fs.v. *)
Theorem C09_index_consistent : forall ar s0 progs sched,
  good_shared s0 = true -> forallb (forallb op_good) progs = true ->
  let st := run ar sched (boot s0 progs) in
  (forall d o, nth_error (dirs (sh st)) d = Some o -> NoDup (map fst (d_ch o))) /\
  (forall t o l, In (o, QList l) (results_of st t) -> NoDup (map fst l)) /\
  WF (abs (sh st)).
Proof. exact index_consistent. Qed.
Print Assumptions C09_index_consistent.

(** Values.  [vals_of fl] = contents of the initial files, every value passed to a WriteFile, the
    concatenation of the chunks of every Writer session — and, ONLY in the flavours before 288e3e2
    ([lock_first fl = false]), the empty value for Writer sessions.  In every reachable state a
    file on which no handle is open holds one of these values, whole; every ReadFile / Reader
    session returned one.  For the current code ([cur]) there is no exception for the empty
    value: see the corollary and [C09_ex_no_empty_value]. *)
Theorem C09_values : forall ar s0 progs sched,
  good_shared s0 = true ->
  let V := vals_of ar (boot s0 progs) in
  let st := run ar sched (boot s0 progs) in
  (forall f fo, nth_error (files (sh st)) f = Some fo -> f_holder fo = None -> In (f_data fo) V) /\
  (forall t o v, In (o, QData v) (results_of st t) -> In v V).
Proof. exact values. Qed.
Print Assumptions C09_values.

(** The current code: every read result is an initial content, a WriteFile argument or the
    complete concatenation of a Writer session's chunks. *)
Theorem C09_values_current : forall s0 progs sched t o v,
  good_shared s0 = true ->
  In (o, QData v) (results_of (run cur sched (boot s0 progs)) t) ->
  In v (map f_data (files s0)) \/
  exists l p, In p progs /\ In l p /\
    match l with CWrite _ d => v = d | CWriter _ c => v = concat c | _ => False end.
Proof. exact values_current. Qed.
Print Assumptions C09_values_current.

(** Regression witness for 288e3e2 (flavour [before_288e3e2]): Writer [x] on a new file ∥
    ReadFile x: the reader returns the empty content although only [1;2] is ever written. *)
Theorem C09_writer_creation_window_refuted :
  let st := run before_288e3e2 sched_writer_window st_writer_window in
  final st = true /\ results_of st 1 = [(CRead [nX], QData [])] /\
  results_of st 0 = [(CWriter [nX] [[1];[2]], QOk)] /\ lookup (abs (sh st)) [nX] = Some (F [1;2]).
Proof. exact writer_creation_window. Qed.
Print Assumptions C09_writer_creation_window_refuted.

(** ... and on the current code, for ALL schedules of that configuration, the reader gets an
    error (file not there yet) or the whole value. *)
Theorem C09_writer_window_closed : forall sched,
  (forall t, step cur t (run cur sched st_writer_window) = None) ->
  window_closed (run cur sched st_writer_window) = true.
Proof. exact writer_window_closed. Qed.
Print Assumptions C09_writer_window_closed.

(** The F28 family: a directory d that exists before the race (empty, or holding a
    sub-directory, or holding a file; at the root or below another directory), one thread
    removing it (Remove / RemoveAll / RemoveAll of its parent), the other creating a node below
    it (WriteFile, MkdirAll, Writer session, Copy, CopyFile, CopyDirectory; one or two levels
    below) — 63 configurations, [f28_scenarios].  For ALL schedules: whenever both calls have
    returned, both results and the final tree equal those of one of the two sequential orders
    (Model/Fs.v), whatever the results are (not only when both are nil). *)
Theorem C09_remove_create_serialisable : forall sc sched,
  In sc f28_scenarios ->
  let st := run cur sched (sc_init sc) in
  final st = true -> sc_explained sc st = true.
Proof. exact remove_create_serialisable. Qed.
Print Assumptions C09_remove_create_serialisable.

(** The code before 8463491 (atomic_remove = false): Remove d ∥ WriteFile d/x on an empty d, the
    schedule  remover: start, emptiness test | writer: start, resolve d | remover: unlink |
    writer: lock, insert.  Both return nil, d/x and d are absent: neither order explains it. *)
Theorem C09_F28_refuted :
  In sc_f28 f28_scenarios /\
  let st := run before_8463491 sched_f28 (sc_init sc_f28) in
  final st = true /\ both_ok st = true /\ sc_explained sc_f28 st = false /\
  lookup (abs (sh st)) [nD; nX] = None /\ lookup (abs (sh st)) [nD] = None.
Proof. exact F28_refuted. Qed.
Print Assumptions C09_F28_refuted.

(** The same schedule on the current code: the writer gets errDirRemoved, starts again from the
    root, and the file is there. *)
Theorem C09_F28_fixed_same_schedule :
  let st := run cur (sched_f28 ++ [1;1;1;1;1;1]%nat) (sc_init sc_f28) in
  final st = true /\ both_ok st = true /\ sc_explained sc_f28 st = true /\
  lookup (abs (sh st)) [nD; nX] = Some (F [5;6]).
Proof. exact F28_fixed_same_schedule. Qed.
Print Assumptions C09_F28_fixed_same_schedule.

(** Why linearizability is not claimed (current code): Remove d ∥ MkdirAll d/y with d ABSENT
    initially; both return nil, d/y exists, and no sequential order does that. *)
Theorem C09_mkdir_p_not_atomic :
  let st := run cur sched_mkdir_p (sc_init sc_mkdir_p) in
  final st = true /\ both_ok st = true /\ sc_explained sc_mkdir_p st = false.
Proof. exact mkdir_p_not_atomic. Qed.
Print Assumptions C09_mkdir_p_not_atomic.

(** Two or more concurrent creations of one new node yield ONE node.
    General part (any threads, programs, schedules): a directory never holds two children of one
    name.  Instance part: the configurations [co_configs] (3 x MkdirAll of overlapping new paths;
    2 x WriteFile of one new file + a lister; WriteFile vs MkdirAll of one name; Copy vs WriteFile
    to one name; Writer session + Reader session + WriteFile on one file), ALL schedules: every
    state without an enabled step is final (no deadlock), every MkdirAll / both WriteFile
    returned nil, and the tree holds exactly one node of that name (with one of the values).
    PARTIAL: "every MkdirAll caller got Ok and the node exists" is proved for these
    configurations only, not for arbitrary programs. *)
Theorem C09_create_once_partial :
  (forall ar s0 progs sched d o n,
     good_shared s0 = true -> forallb (forallb op_good) progs = true ->
     nth_error (dirs (sh (run ar sched (boot s0 progs)))) d = Some o ->
     (length (filter (fun e => bytes_eqb (fst e) n) (d_ch o)) <= 1)%nat) /\
  (forall c sched, In c co_configs ->
     (forall t, step cur t (run cur sched (fst c)) = None) ->
     snd c (run cur sched (fst c)) = true).
Proof. exact (conj create_once_unique create_once_instances). Qed.
Print Assumptions C09_create_once_partial.

(** Visibility (full statement of the property: if the mutating operations are
    WriteFile/MkdirAll/Copy* to pairwise distinct non-nested paths and nobody removes, every
    operation that returned nil is visible in every later state).  PROVED PART: when no program
    contains Remove/RemoveAll, a binding (path -> node object), once present in some reachable
    state, is present with the SAME object in every later state of every schedule: nothing that
    took effect is ever lost or replaced.  Missing: that a nil return implies the binding was
    present at return time for arbitrary programs (shown for [co_configs] and the F28 family by
    exhaustive exploration, and checked on the implementation by the stress oracle). *)
Theorem C09_distinct_paths_partial : forall ar s0 progs sched1 sched2 q r,
  forallb (forallb (fun o => negb (is_remove o))) progs = true ->
  walk_root (sh (run ar sched1 (boot s0 progs))) q = Some r ->
  walk_root (sh (run ar (sched1 ++ sched2) (boot s0 progs))) q = Some r.
Proof. exact no_remove_monotone. Qed.
Print Assumptions C09_distinct_paths_partial.

(** No panic: in the model a panic is a nil dereference (a program counter holding a reference
    to an object that does not exist).  No reachable state of any run has a thread at PPanic. *)
Theorem C09_no_panic : forall ar s0 progs sched t l,
  good_shared s0 = true ->
  nth_error (ths (run ar sched (boot s0 progs))) t = Some l -> pc l <> PPanic.
Proof. exact no_panic. Qed.
Print Assumptions C09_no_panic.

(** Nothing blocks for ever — PARTIAL.  Full statement: every reachable non-final state in which
    no thread holds an open handle has an enabled step (lock order ancestor.mu < descendant.mu,
    D.L < D.mu, D.L < file.dataMU is acyclic; handle sessions are single operations in the model,
    so a thread never starts an operation while holding a handle — a goroutine that does so on the
    same file deadlocks by design).  PROVED: for the 63 F28 configurations (and, inside
    C09_create_once_partial, for the configurations with Writer/Reader sessions) every state of
    every schedule in which no thread has an enabled step is final.  The general invariant
    (lock holder is always at an enabled program counter) is not proved HERE; it is proved
    further down: C09_no_deadlock, C09_lock_holder_progress and C09_can_finish cover all programs
    and supersede this theorem, which is kept as it was stated.  Termination of the retry loops
    under every fair schedule: [C09_fair_terminates] at the end of this file. *)
Theorem C09_no_stuck_partial : forall sc sched,
  In sc f28_scenarios -> (forall t, step cur t (run cur sched (sc_init sc)) = None) ->
  final (run cur sched (sc_init sc)) = true.
Proof. exact no_stuck_f28. Qed.
Print Assumptions C09_no_stuck_partial.

(** No deadlock, for ALL thread programs over the operations of the model, ALL schedules, the
    current flavour.  Initial heap: any quiescent heap accepted by [good_shared] that is
    tree-shaped ([tree_shared], executable: every directory object is linked at most once, no link
    to the root or to a removed directory, no cycle) - the empty filespace and everything [setup]
    builds.  In every reachable state: if no thread has an enabled step, every thread has
    finished.  Proof: lock-holder invariant (the directory lock L / a file data lock is held by
    t iff t is at PInL / in an open Reader or Writer session on that object; Proofs/MemLive.v
    [LH]), forest invariant with private snapshots ([FOREST]: a rank decreases along every link,
    so the deep copy never runs out of fuel), and the wait-for chain
    PLockL -> holder at PInL -> holder of the file (open session) has length at most 2 and ends
    in a thread whose next step (Write / Close) is always enabled.
    Sessions are single operations in this model (open; Write*; Close by the same thread before
    its next call); see [C09_nested_session_deadlock_refuted] for what happens otherwise. *)
Theorem C09_no_deadlock : forall s0 progs sched,
  good_shared s0 = true -> tree_shared s0 = true ->
  let st := run cur sched (boot s0 progs) in
  (forall t, step cur t st = None) -> final st = true.
Proof. exact no_deadlock_tree. Qed.
Print Assumptions C09_no_deadlock.

(** The lock-holder progress invariant behind it: in every reachable state a thread that has not
    finished and has no enabled step waits for a lock, and some thread that is inside a critical
    region or an open session ([holds_lock]) has an enabled step. *)
Theorem C09_lock_holder_progress : forall s0 progs sched t l,
  good_shared s0 = true -> tree_shared s0 = true ->
  let st := run cur sched (boot s0 progs) in
  nth_error (ths st) t = Some l -> done l = false -> step cur t st = None ->
  exists t' l' st', nth_error (ths st) t' = Some l' /\ holds_lock (pc l') = true /\
                    step cur t' st = Some st'.
Proof. exact lock_holder_progress. Qed.
Print Assumptions C09_lock_holder_progress.

(** Weak termination: from EVERY reachable state of such programs some continuation schedule
    leads to a state in which all threads have finished (no livelock that cannot be left, no
    lost wake-up).  Proof by an explicit schedule: finish the threads one after the other; while
    the chosen thread is blocked, step a thread that is inside a critical region or session
    (that decreases the sum [Bsum] of the remaining region steps and does not touch any removed
    mark); otherwise step the chosen thread, which decreases its measure [mu] (remaining steps of
    the current call including ONE restart from the root when the directory it stands on has
    been removed - after the restart it walks from the root through linked directories, and
    linked directories are never removed in a forest - plus a bound for the calls still to come).
    Termination under EVERY fair schedule was not claimed here (a creator can be overtaken by
    removers again and again - but only as often as there are removals left, programs being
    finite): it is [C09_fair_terminates] at the end of this file, which supersedes this theorem. *)
Theorem C09_can_finish : forall s0 progs sched,
  good_shared s0 = true -> tree_shared s0 = true ->
  exists sched', final (run cur (sched ++ sched') (boot s0 progs)) = true.
Proof. exact can_finish_tree. Qed.
Print Assumptions C09_can_finish.

(** [tree_shared] cannot be dropped (artefacts of initial heaps that the memfs API cannot build):
    on a cyclic heap accepted by [good_shared] the deep copy of Copy runs out of fuel and the only
    thread is stuck for ever ... *)
Theorem C09_no_deadlock_cyclic_heap_refuted :
  good_shared s_cyclic = true /\ tree_shared s_cyclic = false /\
  (forall t, step cur t st_cyclic = None) /\ final st_cyclic = false.
Proof. exact cyclic_heap_deadlock. Qed.
Print Assumptions C09_no_deadlock_cyclic_heap_refuted.

(** ... and on a heap in which one directory object is linked under two names, Remove a followed by
    MkdirAll d/x (one thread) restarts from the root for ever: no schedule finishes. *)
Theorem C09_can_finish_shared_dir_refuted :
  good_shared s_shared_dir = true /\ tree_shared s_shared_dir = false /\
  forall sched, final (run cur sched st_loop0) = false.
Proof. exact shared_dir_livelock. Qed.
Print Assumptions C09_can_finish_shared_dir_refuted.

(** Outside the program space of the two theorems: a goroutine that calls into memfs while it
    holds a Reader/Writer session ([step_nested]: thread 0 does not Close before thread 1, which
    runs the nested call, has finished).  Writer x ; ReadFile x inside the session: nothing is
    enabled, nobody has finished.  Two goroutines, each holding a session and reading the other's
    file: the same.  The implementation behaves identically (checked with a throw-away test:
    both hang; the data lock is a non-reentrant sync.RWMutex) - by design, not a violation. *)
Theorem C09_nested_session_deadlock_refuted :
  ((forall t, step_nested dep_self cur t st_nested_self = None) /\ final st_nested_self = false /\
   map pc (ths st_nested_self) = [PWriting 0 []; PReadData 0]) /\
  ((forall t, step_nested dep_cross cur t st_nested_cross = None) /\ final st_nested_cross = false /\
   map pc (ths st_nested_cross) = [PWriting 0 []; PWriting 1 []; PReadData 1; PReadData 0]).
Proof. exact nested_session_deadlock. Qed.
Print Assumptions C09_nested_session_deadlock_refuted.

(** Hypotheses are satisfiable by non-trivial values. *)
Example C09_ex_good_shared :
  good_shared (setup [CMkdir [nD; nE]; CWrite [nS] [1;2;3]; CWrite [nT; nS] [4]]) = true /\
  forallb (forallb op_good) [[CRemove [nD] true]; [CWrite [nD; nX] [5;6]; CList [nD]]; [CCopy CAny [nT] [nD; nY]]] = true.
Proof. vm_compute. split; reflexivity. Qed.

Example C09_ex_scenarios : length f28_scenarios = 63%nat /\
  forallb (fun sc => good_shared (sh (sc_init sc))) f28_scenarios = true.
Proof. vm_compute. split; reflexivity. Qed.

(** a final state of an F28 scenario in which both calls returned nil exists (the theorem is not
    vacuous): remover first, then the creator *)
Example C09_ex_final :
  let st := run cur (repeat 0%nat 5 ++ repeat 1%nat 12) (sc_init sc_f28) in
  final st = true /\ both_ok st = true.
Proof. vm_compute. split; reflexivity. Qed.

Example C09_ex_no_remove :
  forallb (forallb (fun o => negb (is_remove o)))
    [[CWrite [nD; nX] [5;6]; CList [nD]]; [CCopy CAny [nT] [nD; nY]]; [CMkdir [nD; nE; nY]]] = true /\
  walk_root (sh (run cur (repeat 0%nat 6) (boot (setup [CMkdir [nD]]) [[CWrite [nD; nX] [5;6]]]))) [nD; nX]
  = Some (RFile 0).
Proof. vm_compute. split; reflexivity. Qed.

Example C09_ex_co : length co_configs = 5%nat.
Proof. reflexivity. Qed.

Example C09_ex_no_empty_value :
  vals_of cur st_writer_window = [[1;2]] /\ vals_of before_288e3e2 st_writer_window = [[1;2]; []].
Proof. vm_compute. split; reflexivity. Qed.

(** the initial heaps of the theorems: tree-shaped heaps exist beyond the empty one (built with
    MkdirAll, WriteFile, Copy of a directory into another, RemoveAll), and every scenario heap
    used above is one *)
Example C09_ex_tree_shared :
  tree_shared empty_shared = true /\
  (let s := setup [CMkdir [nD; nE]; CWrite [nS] [1;2;3]; CWrite [nT; nS] [4]; CCopy CAny [nD] [nT; nX];
                   CCopy CAny [nT] [nA]; CRemove [nD] true] in
   good_shared s = true /\ tree_shared s = true /\ length (dirs s) = 9%nat) /\
  forallb (fun sc => tree_shared (sh (sc_init sc))) f28_scenarios = true /\
  forallb (fun c => tree_shared (sh (fst c))) co_configs = true.
Proof. vm_compute. repeat split; reflexivity. Qed.

(** a reachable state in which threads ARE blocked (an open Writer session on x; a ReadFile x
    waiting for it; a WriteFile x waiting for it while holding the directory lock; a WriteFile y
    waiting for the directory lock): exactly the session holder is enabled, and the continuation
    0,0,0,2,3,3,1 finishes everybody *)
Example C09_ex_blocked :
  let st0 := boot (setup [CWrite [nX] [9]])
                  [[CWriter [nX] [[1];[2]]]; [CRead [nX]]; [CWrite [nX] [3]]; [CWrite [nY] [4]]] in
  let st := run cur [0;0;0;1;1;2;2;3;3]%nat st0 in
  map (fun t => match step cur t st with None => false | Some _ => true end) (seq 0 4) = [true; false; false; false] /\
  final st = false /\ final (run cur [0;0;0;2;3;3;1]%nat st) = true.
Proof. vm_compute. repeat split; reflexivity. Qed.

(** * Added by the proof audit (Proofs/C09More.v)

    Clause "every successful operation takes effect and is visible afterwards", for ALL thread
    counts, ALL programs without Remove/RemoveAll ([norem]), ALL flavours, ALL schedules, ANY
    initial heap.  Supersedes the part marked Missing in [C09_distinct_paths_partial]. *)

(** The step in which WriteFile (or the Close of a Writer session) returns nil leaves the path
    resolving to a file object that holds exactly the written value ([concat] of the chunks for
    a session), with no handle open on it. *)
Theorem C09_write_takes_effect : forall ar s0 progs sched t st' o p v,
  norem progs = true ->
  let st := run ar sched (boot s0 progs) in
  step ar t st = Some st' -> results_of st' t = results_of st t ++ [(o, QOk)] ->
  (o = CWrite p v \/ exists c, o = CWriter p c /\ v = concat c) ->
  exists f fo, walk_root (sh st') p = Some (RFile f) /\ nth_error (files (sh st')) f = Some fo /\
               f_data fo = v /\ f_holder fo = None.
Proof. exact write_takes_effect. Qed.
Print Assumptions C09_write_takes_effect.

(** Every creating call (WriteFile, Writer, MkdirAll, Copy*; [target] = the path it creates)
    that is recorded with a non-error result: in the state where it is recorded and in EVERY
    continuation the path resolves, to a file for WriteFile/Writer and to a directory for
    MkdirAll ([kind_ok]); by [C09_distinct_paths_partial] it is the same object from then on. *)
Theorem C09_ok_visible : forall ar s0 progs sched1 sched2 t o r p,
  norem progs = true ->
  In (o, r) (results_of (run ar sched1 (boot s0 progs)) t) -> res_ok r = true -> target o = Some p ->
  exists ref, walk_root (sh (run ar (sched1 ++ sched2) (boot s0 progs))) p = Some ref /\ kind_ok ref o.
Proof. exact ok_visible. Qed.
Print Assumptions C09_ok_visible.

(** No spurious refusal: a WriteFile/Writer/MkdirAll that returned an error is explained by a
    node that is visible in the state then and ever after ([refused]): MkdirAll p - a FILE is
    bound at a prefix of p; WriteFile/Writer p - p is the root, or a file is bound at a proper
    prefix of p, or some node is bound at p itself (a directory, or a node that another creator
    inserted between this caller's lookup and its insertion: MkdirAll and Copy* insert without the
    directory's outer lock - see [C09_creators_serialisable_refuted]). *)
Theorem C09_refusal_explained : forall ar s0 progs sched1 sched2 t o,
  norem progs = true ->
  In (o, QErr) (results_of (run ar sched1 (boot s0 progs)) t) ->
  refused (sh (run ar (sched1 ++ sched2) (boot s0 progs))) o.
Proof. exact refusal_explained. Qed.
Print Assumptions C09_refusal_explained.

(** ... and that last case is a refusal which NO sequential order explains (the statement
    "the results and the tree of two racing creators of one new name equal those of one of the two
    orders", true of the F28 family, is false here): WriteFile a/x against Copy s -> a/x, schedule
    writer: start, walk, lock L + lookup (absent) | copier: whole call | writer: insert.  Copy
    returns nil, WriteFile an error, a/x holds the copy.  The implementation does the same
    (notes/C09-audit/FINDING-1: 63 refusals in 20000 rounds of the throw-away test on /repo);
    the property text promises one node and says nothing about the loser, so this is recorded,
    not repaired. *)
Theorem C09_creators_serialisable_refuted :
  let st := run cur sched_wvc st_wvc in
  final st = true /\
  results_of st 0 = [(CCopy CAny [nS] [nA; nX], QOk)] /\
  results_of st 1 = [(CWrite [nA; nX] [3], QErr)] /\
  lookup (abs (sh st)) [nA; nX] = Some (F [7]) /\
  two_explained (abs (sh st_wvc)) (CCopy CAny [nS] [nA; nX]) (CWrite [nA; nX] [3]) st = false.
Proof. exact write_vs_copy_refuted. Qed.
Print Assumptions C09_creators_serialisable_refuted.

(** Clause "two concurrent creations of the same new node yield one node", general part for
    arbitrary programs (supersedes the instance part of [C09_create_once_partial] for runs
    without removals): whenever two creating calls of one path p (any threads, any kinds, any
    time) both returned non-error results, p is bound to ONE object, the same at both moments,
    and it has the kind both calls promise - so a successful MkdirAll p and a successful
    WriteFile p exclude each other.  With [C09_refusal_explained]: concurrent MkdirAll of one
    new path all return nil unless a file is in the way. *)
Theorem C09_create_once : forall ar s0 progs sched1 sched2 t1 o1 r1 t2 o2 r2 p,
  norem progs = true ->
  let st1 := run ar sched1 (boot s0 progs) in
  let st2 := run ar (sched1 ++ sched2) (boot s0 progs) in
  In (o1, r1) (results_of st1 t1) -> res_ok r1 = true -> target o1 = Some p ->
  In (o2, r2) (results_of st2 t2) -> res_ok r2 = true -> target o2 = Some p ->
  exists ref, walk_root (sh st1) p = Some ref /\ walk_root (sh st2) p = Some ref /\
              kind_ok ref o1 /\ kind_ok ref o2.
Proof. exact create_once_general. Qed.
Print Assumptions C09_create_once.

(** Clause "no call blocks for ever", ALL programs (removers included), current flavour,
    tree-shaped initial heap.  Programs are finite, so creators can be sent back to the root
    only as often as there are Remove/RemoveAll calls left.  [Mtot] = sum over the threads of the
    steps they need with at most one more restart + (removals still to come) * (what one removal
    can add).  EVERY enabled step of EVERY thread in EVERY reachable state decreases it, and it
    never exceeds [step_bound progs] = (cost of all calls) * (1 + number of Remove/RemoveAll
    calls): no schedule contains more than that many effective steps (no livelock). *)
Theorem C09_every_step_decreases : forall s0 progs sched t st',
  good_shared s0 = true -> tree_shared s0 = true ->
  let st := run cur sched (boot s0 progs) in
  step cur t st = Some st' -> (Mtot st' < Mtot st)%nat /\ (Mtot st <= step_bound progs)%nat.
Proof. exact every_step_decreases. Qed.
Print Assumptions C09_every_step_decreases.

(** Termination under EVERY fair schedule (supersedes the weak termination [C09_can_finish] and
    the remark that fair termination is not claimed): cut the schedule into rounds, each naming
    every thread at least once - every schedule in which each thread occurs infinitely often can
    be cut like that, to any number of rounds; the order inside a round and any extra picks are
    arbitrary.  After more than [step_bound progs] rounds every thread has finished all its
    calls, whatever the removers did. *)
Theorem C09_fair_terminates : forall s0 progs rounds,
  good_shared s0 = true -> tree_shared s0 = true ->
  (forall r, In r rounds -> covers (length progs) r) ->
  (step_bound progs < length rounds)%nat ->
  final (run cur (concat rounds) (boot s0 progs)) = true.
Proof. exact fair_terminates. Qed.
Print Assumptions C09_fair_terminates.

(** Non-vacuity of the new implications. *)
Definition ex_st0 : state :=
  boot (setup [CMkdir [nD]; CWrite [nS] [7]])
       [[CWrite [nD; nX] [5;6]]; [CWriter [nD; nY] [[1];[2]]]; [CWrite [nS; nX] [1]; CMkdir [nS]]].

(** the fourth step of thread 0 returns nil for WriteFile d/x, the seventh of thread 1 for the
    Writer session on d/y: premises of [C09_write_takes_effect] (and its conclusion, recomputed) *)
Example C09_ex_takes_effect :
  norem [[CWrite [nD; nX] [5;6]]; [CWriter [nD; nY] [[1];[2]]]; [CWrite [nS; nX] [1]; CMkdir [nS]]] = true /\
  (let st := run cur [0;0;0]%nat ex_st0 in
   exists st', step cur 0 st = Some st' /\
     results_of st' 0 = results_of st 0 ++ [(CWrite [nD; nX] [5;6], QOk)] /\
     lookup (abs (sh st')) [nD; nX] = Some (F [5;6])) /\
  (let st := run cur [1;0;1;1;0;1;1;1]%nat ex_st0 in
   exists st', step cur 1 st = Some st' /\
     results_of st' 1 = results_of st 1 ++ [(CWriter [nD; nY] [[1];[2]], QOk)] /\
     lookup (abs (sh st')) [nD; nY] = Some (F [1;2])).
Proof.
  split; [reflexivity|]. split.
  - eexists. split; [vm_compute; reflexivity|]. vm_compute. split; reflexivity.
  - eexists. split; [vm_compute; reflexivity|]. vm_compute. split; reflexivity.
Qed.

(** premises of [C09_ok_visible] / [C09_refusal_explained] / [C09_create_once]: results of all three
    kinds occur (WriteFile below a file and MkdirAll onto a file are refused) *)
Example C09_ex_results :
  let st := run cur (repeat 2%nat 7 ++ repeat 0%nat 4 ++ repeat 1%nat 7) ex_st0 in
  final st = true /\
  results_of st 0 = [(CWrite [nD; nX] [5;6], QOk)] /\
  results_of st 1 = [(CWriter [nD; nY] [[1];[2]], QOk)] /\
  results_of st 2 = [(CWrite [nS; nX] [1], QErr); (CMkdir [nS], QErr)].
Proof. vm_compute. repeat split; reflexivity. Qed.

(** two WriteFile and one MkdirAll-then-list on one new path, interleaved: both writers return nil
    (premises of [C09_create_once] with t1 <> t2) *)
Example C09_ex_create_once :
  let st := run cur [0;1;0;1;0;1;0;1;0;1;0;1;0;1;0;1]%nat
                (boot empty_shared [[CWrite [nA; nX] [1]]; [CWrite [nA; nX] [2]]]) in
  final st = true /\ results_of st 0 = [(CWrite [nA; nX] [1], QOk)] /\
  results_of st 1 = [(CWrite [nA; nX] [2], QOk)] /\
  target (CWrite [nA; nX] [1]) = Some [nA; nX] /\ target (CWrite [nA; nX] [2]) = Some [nA; nX].
Proof. vm_compute. repeat split; reflexivity. Qed.

(** a fair schedule against removers: 3 threads (two removals, a writer and a MkdirAll into the
    removed directory), bound 93, rounds [2;1;0]: the measure of the successive rounds, and the
    premises of [C09_fair_terminates] *)
Definition ex_progs : list (list cop) :=
  [[CRemove [nD] true; CRemove [nD] false]; [CWrite [nD; nX] [5;6]]; [CMkdir [nD; nE]; CList [nD]]].
Example C09_ex_fair :
  step_bound ex_progs = 93%nat /\
  good_shared (setup [CMkdir [nD]]) = true /\ tree_shared (setup [CMkdir [nD]]) = true /\
  covers (length ex_progs) [2;1;0]%nat /\
  map (fun k => Mtot (run cur (concat (repeat [2;1;0]%nat k)) (boot (setup [CMkdir [nD]]) ex_progs))) (seq 0 12)
  = [93; 72; 54; 44; 17; 15; 11; 9; 5; 3; 1; 0]%nat /\
  final (run cur (concat (repeat [2;1;0]%nat 11)) (boot (setup [CMkdir [nD]]) ex_progs)) = true.
Proof.
  split; [vm_compute; reflexivity|]. split; [vm_compute; reflexivity|]. split; [vm_compute; reflexivity|].
  split; [intros t Ht; simpl in Ht; simpl; lia|]. split; vm_compute; reflexivity.
Qed.

(** Clause "a file always holds exactly one of the values written to IT; readers only ever see
    complete written values" - per PATH (C09_values only says: some value written somewhere).
    ALL thread counts, ALL programs without Remove/RemoveAll and without Copy* ([plain]), ALL
    flavours, ALL schedules; initial heap: any [good_shared] heap in which no object has two
    paths ([INJ]; the empty filespace, and - first conjunct - every state such programs reach).
    [pv ar s0 ops q v]: v is the initial content of q in s0, or the argument of a WriteFile q in
    the programs, or the WHOLE concatenation of a Writer session on q (or, only in the flavours
    before 288e3e2, the empty value while a Writer session on q exists).
    In every reachable state an unlocked file bound at q holds a value of q, and every
    ReadFile q / Reader session on q returned a value of q: never a value written to another
    path, never a prefix.  Copy* is excluded because the destination of a copy legitimately
    holds values written to the source (C09_values covers those runs with the pooled values);
    removals are excluded because a path can then be bound to different file objects in turn. *)
Theorem C09_values_by_path : forall ar s0 progs sched,
  good_shared s0 = true -> INJ s0 -> plain progs = true ->
  let st := run ar sched (boot s0 progs) in
  INJ (sh st) /\
  (forall q f fo, walk_root (sh st) q = Some (RFile f) -> nth_error (files (sh st)) f = Some fo ->
                  f_holder fo = None -> pv ar s0 (concat progs) q (f_data fo)) /\
  (forall t q v, In (CRead q, QData v) (results_of st t) \/ In (CReader q, QData v) (results_of st t) ->
                 pv ar s0 (concat progs) q v).
Proof. exact file_values_by_path. Qed.
Print Assumptions C09_values_by_path.

(** Distinct paths: q absent initially, and the only calls that create q are WriteFile q v:
    whenever q is bound to an unlocked file it holds v (with [C09_ok_visible]: from the return of
    the first such call on, in every state). *)
Theorem C09_distinct_path_value : forall ar s0 progs sched q v f fo,
  good_shared s0 = true -> INJ s0 -> plain progs = true ->
  walk_root s0 q = None ->
  (forall o, In o (concat progs) -> target o = Some q -> o = CWrite q v) ->
  let st := run ar sched (boot s0 progs) in
  walk_root (sh st) q = Some (RFile f) -> nth_error (files (sh st)) f = Some fo -> f_holder fo = None ->
  f_data fo = v.
Proof. exact sole_writer_value. Qed.
Print Assumptions C09_distinct_path_value.

(** premises: the empty filespace is [INJ]; a [plain] program set with two writers of one path, a
    Writer session on another and readers; a reachable state in which both files are bound and
    unlocked and a reader has returned data *)
Example C09_ex_values_by_path :
  INJ empty_shared /\ good_shared empty_shared = true /\
  (let progs := [[CWrite [nA; nX] [1]; CRead [nA; nY]]; [CWrite [nA; nX] [2]]; [CWriter [nA; nY] [[3];[4]]; CReader [nA; nX]]] in
   plain progs = true /\
   let st := run cur (concat (repeat [0;1;2]%nat 16)) (boot empty_shared progs) in
   final st = true /\
   lookup (abs (sh st)) [nA; nX] = Some (F [2]) /\ lookup (abs (sh st)) [nA; nY] = Some (F [3;4]) /\
   results_of st 0 = [(CWrite [nA; nX] [1], QOk); (CRead [nA; nY], QData [3;4])] /\
   results_of st 2 = [(CWriter [nA; nY] [[3];[4]], QOk); (CReader [nA; nX], QData [2])]).
Proof. split; [exact INJ_empty|]. vm_compute. repeat split; reflexivity. Qed.
