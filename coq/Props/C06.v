(** C06 — Write-back cache: nothing reaches the remote before Commit, everything after.
    Statements only.  [cview c] is the plain tree seen through the cache (the remote with the
    pending operations applied); [vlookup c] its lookup function. *)
From GC Require Import Common.Base Model.Paths Model.Fs Model.Cache Model.CacheDirect Proofs.Fs Proofs.Cache
  Proofs.C06More.
From Coq Require Import Permutation.

(** While operations are applied to a cache, the remote filespace is not modified at all —
    every one of the 16 operations, any raw arguments, any state. *)
Theorem C06_remote_untouched : forall c o, cR (fst (cache_step c (COp o))) = cR c.
Proof. exact cache_op_remote_untouched. Qed.
Print Assumptions C06_remote_untouched.

Theorem C06_remote_untouched_history : forall l c, cR (run_cache c (map COp l)) = cR c.
Proof. exact run_ops_remote_untouched. Qed.
Print Assumptions C06_remote_untouched_history.

(** Every state reachable from a fresh cache over a well-formed remote, by ANY history of
    operations, Commits and failed Commits, satisfies the consistency invariant that makes the
    view a plain tree. *)
Theorem C06_invariant : forall r l, WF r -> Inv (run_cache (new_cache r) l).
Proof. intros r l H. apply run_cache_Inv. apply Inv_new. exact H. Qed.
Print Assumptions C06_invariant.

(** The pending operations act on the view exactly like the plain-tree operations: *)
Theorem C06_view_write : forall c p data,
  Inv c -> good_path p = true -> p <> [] -> check_dest c p false = true ->
  exists c', c_write c p data = (c', RUnit) /\ Inv c' /\
    vlookup c' p = Some (F data) /\
    (forall q, q <> p -> vlookup c q <> None -> vlookup c' q = vlookup c q) /\
    (forall q, q <> p -> vlookup c q = None -> vlookup c' q <> None ->
               vlookup c' q = Some D /\ is_prefix q (removelast p) = true).
Proof. exact c_write_spec. Qed.
Print Assumptions C06_view_write.

Theorem C06_view_mkdir : forall c p,
  Inv c -> good_path p = true -> p <> [] -> check_dest c p true = true ->
  exists c', c_mkdir c p = (c', RUnit) /\ Inv c' /\ vlookup c' p = Some D /\
    (forall q, vlookup c q <> None -> vlookup c' q = vlookup c q) /\
    (forall q, vlookup c q = None -> vlookup c' q <> None -> vlookup c' q = Some D /\ is_prefix q p = true).
Proof. exact c_mkdir_spec. Qed.
Print Assumptions C06_view_mkdir.

Theorem C06_view_remove : forall c p c',
  Inv c -> p <> [] -> c_remove c p = (c', RUnit) ->
  Inv c' /\ v_exists c p = true /\
  (forall q, vlookup c' q = if is_prefix p q then None else vlookup c q).
Proof. exact c_remove_spec. Qed.
Print Assumptions C06_view_remove.

Theorem C06_view_remove_all : forall c p c',
  Inv c -> p <> [] -> c_remove_all c p = (c', RUnit) ->
  Inv c' /\ forall q, vlookup c' q = if is_prefix p q then None else vlookup c q.
Proof. exact c_remove_all_spec. Qed.
Print Assumptions C06_view_remove_all.

(** After a successful Commit the remote tree equals the view, i.e. the tree obtained by the
    successful operations on top of the initial remote; Commit on a consistent cache over a
    plain-tree remote always succeeds; the view is unchanged and the tombstones are cleared. *)
Theorem C06_commit : forall c, Inv c ->
  exists c', c_commit c = (c', RUnit) /\ Inv c' /\ cB c' = cB c /\ cT c' = [] /\
    (forall q, lookup (cR c') q = vlookup c q) /\ (forall q, vlookup c' q = vlookup c q).
Proof. exact c_commit_spec. Qed.
Print Assumptions C06_commit.

Theorem C06_main : forall r l, WF r ->
  exists c', c_commit (run_cache (new_cache r) l) = (c', RUnit) /\
    forall q, lookup (cR c') q = lookup (cview (run_cache (new_cache r) l)) q.
Proof.
  intros r l H. destruct (c_commit_spec _ (run_cache_Inv l _ (Inv_new r H))) as (c' & E & _ & _ & _ & L & _).
  exists c'. split; [exact E|]. intros q. rewrite L, lookup_cview. reflexivity.
Qed.
Print Assumptions C06_main.

(** A second Commit changes nothing. *)
Theorem C06_second_commit : forall c c1 c2,
  Inv c -> c_commit c = (c1, RUnit) -> c_commit c1 = (c2, RUnit) ->
  forall q, lookup (cR c2) q = lookup (cR c1) q.
Proof. exact second_commit_changes_nothing. Qed.
Print Assumptions C06_second_commit.

(** A Commit during which the remote failed is reported ([CCommitFault] answers with an error and
    keeps buffer and tombstones).  Whatever intermediate state the remote was left in — only some
    of the tombstones applied, or all of them and ANY subset of the buffer entries materialised
    in any order, possibly followed by a buffered file written with ANY other content (a stream
    cut short) — a later Commit without failure brings the remote to exactly the tree of an
    undisturbed Commit (the view). *)
Theorem C06_commit_fault_reported : forall c, cache_step c CCommitFault = (c, RErr).
Proof. reflexivity. Qed.
Print Assumptions C06_commit_fault_reported.

Theorem C06_commit_converges_after_failure : forall c rp,
  Inv c -> partial_remote c rp ->
  exists c', c_commit (mkCache (cB c) rp (cT c)) = (c', RUnit) /\
             cB c' = cB c /\ cT c' = [] /\
             forall q, lookup (cR c') q = vlookup c q.
Proof. exact commit_converges_after_failure. Qed.
Print Assumptions C06_commit_converges_after_failure.

(** The same from the EXECUTABLE description of an intermediate remote, [partial_ok]: this is the
    predicate the correspondence check evaluates on the remote it observes after every injected
    failure (whole entries missing, tombstones half applied, a streamed file cut short), so the
    hypothesis of the convergence theorem is validated against the code on every run. *)
Theorem C06_commit_converges_from_observed : forall c rp,
  Inv c -> partial_ok c rp = true ->
  exists c', c_commit (mkCache (cB c) rp (cT c)) = (c', RUnit) /\
             cB c' = cB c /\ cT c' = [] /\
             forall q, lookup (cR c') q = vlookup c q.
Proof. exact commit_converges_from_observed. Qed.
Print Assumptions C06_commit_converges_from_observed.

(** Copying a directory through the cache: when it reports success every node visible below the
    source is visible below the destination byte for byte (and the invariant holds, so the next
    Commit sends it to the remote). *)
Theorem C06_copy_dir : forall c src dst c',
  Inv c -> good_path src = true -> good_path dst = true -> src <> [] ->
  vlookup c src = Some D -> c_copy c src dst = (c', RUnit) ->
  Inv c' /\ vlookup c' dst = Some D /\
  (forall rel e, rel <> [] -> vlookup c (src ++ rel) = Some e -> vlookup c' (dst ++ rel) = Some e).
Proof. exact c_copy_dir_spec. Qed.
Print Assumptions C06_copy_dir.

(** Non-vacuity: a concrete history. *)
Example C06_ex :
  let r := [([[100]], D); ([[100]; [120]], F [49])] in                         (* remote: d/, d/x = "1" *)
  let l := [COp (ORemoveAll [100]); COp (OWriteFile [100;47;121] [50]); CCommit] in  (* rm -r d; write d/y = "2"; commit *)
  cR (run_cache (new_cache r) l) = [([[100]], D); ([[100]; [121]], F [50])].
Proof. vm_compute. reflexivity. Qed.

(** ** Second layer (proof audit): the view IS the initial remote with the successful operations
    applied directly, along whole histories with failing Commits.

    [direct_step] (Model/CacheDirect.v) applies one operation to a PLAIN TREE with the tree-level
    operations of the memfs model (write_at, mkdir_all, remove_at, remove_all_at, and a copy that
    merges directories and overwrites files).  Whenever the cache reports success, for each of the
    16 operations on any raw arguments, the tree seen through the cache afterwards is that
    operation applied directly to the tree seen before.  Supersedes the per-operation
    [C06_view_write/mkdir/remove/remove_all/copy_dir], which describe the new view by lookups under
    extra hypotheses and leave file copies and the frame of a directory copy unstated. *)
Theorem C06_step_is_direct : forall c t o c',
  Inv c -> WF t -> (forall q, lookup t q = vlookup c q) -> cache_step c (COp o) = (c', RUnit) ->
  Inv c' /\ WF (direct_step t o) /\ forall q, lookup (direct_step t o) q = vlookup c' q.
Proof. exact step_is_direct. Qed.
Print Assumptions C06_step_is_direct.

(** An operation that is not reported as successful leaves the cache exactly as it was - with one
    exception, a copy whose source is a directory ... *)
Theorem C06_failed_op_keeps_cache : forall c o,
  snd (cache_step c (COp o)) <> RUnit -> dircopy_src c o = false -> fst (cache_step c (COp o)) = c.
Proof. exact step_fail_keeps. Qed.
Print Assumptions C06_failed_op_keeps_cache.

(** ... for which the clause FAILS, in the model and in fscache alike (checked on the code: Copy
    of d = {a, b/} onto e where e/b is a file returns an error, the view then shows e/a and the
    next Commit writes e/a to the remote): the walk of a directory copy stops at the first entry
    that cannot be created and keeps what it has copied.  The remote after Commit is then NOT the
    initial tree with the successful operations applied. *)
Theorem C06_failed_dircopy_partial_refuted :
  let r := [([[100]], D); ([[100]; [97]], F [49]); ([[100]; [98]], D); ([[101]], D); ([[101]; [98]], F [50])] in
  let c := new_cache r in
  let c1 := fst (cache_step c (COp (OCopy [100] [101]))) in
  WF r /\ snd (cache_step c (COp (OCopy [100] [101]))) = RErr /\
  vlookup c [[101]; [97]] = None /\ vlookup c1 [[101]; [97]] = Some (F [49]) /\
  exists c', c_commit c1 = (c', RUnit) /\ lookup (cR c') [[101]; [97]] = Some (F [49]).
Proof. exact failed_dircopy_changes_view. Qed.
Print Assumptions C06_failed_dircopy_partial_refuted.

(** A Commit that failed, whatever it left on the remote ([partial_remote], or any remote the
    executable [partial_ok] accepts), keeps the invariant and does not change what is seen through
    the cache - so operations may go on before the retry. *)
Theorem C06_failed_commit_keeps_view : forall c rp,
  Inv c -> partial_remote c rp \/ partial_ok c rp = true ->
  Inv (mkCache (cB c) rp (cT c)) /\ forall q, vlookup (mkCache (cB c) rp (cT c)) q = vlookup c q.
Proof. exact failed_commit_keeps_view. Qed.
Print Assumptions C06_failed_commit_keeps_view.

(** Every position of the failure: any subset [T1] of the removals applied, or all of them and any
    selection [l] of buffer entries sent in any order - the calls made so far succeeded and the
    remote is a [partial_remote] (the hypothesis of the convergence theorems is met at every
    position, in every consistent state). *)
Theorem C06_commit_every_position : forall c T1 l,
  Inv c -> incl T1 (cT c) -> (forall p e, In (p, e) l -> In (p, e) (cB c)) ->
  partial_remote c (apply_tombs (cR c) T1) /\
  exists rp, materialise (apply_tombs (cR c) (cT c)) l = Some rp /\ partial_remote c rp.
Proof. exact commit_every_position. Qed.
Print Assumptions C06_commit_every_position.

(** Whole histories [hs] of operations [HOp], Commits [HCommit] and failed Commits [HFault rp]
    that leave the remote as [rp], in any number and at any position, with operations between a
    failure and the retry.  [hist_valid]: every [rp] is a [partial_remote] of the state it happened
    in (or accepted by [partial_ok]) and no directory copy failed.  [succ_ops] are the operations
    the cache reported as successful.  The tree seen through the cache is the INITIAL remote with
    exactly those operations applied directly, in order ... *)
Theorem C06_history_view_is_direct : forall r hs,
  WF r -> hist_valid (new_cache r) hs ->
  Inv (hrun (new_cache r) hs) /\
  WF (direct_run r (succ_ops (new_cache r) hs)) /\
  forall q, vlookup (hrun (new_cache r) hs) q = lookup (direct_run r (succ_ops (new_cache r) hs)) q.
Proof. exact history_view_is_direct. Qed.
Print Assumptions C06_history_view_is_direct.

(** ... and the next Commit succeeds, clears the tombstones and leaves on the remote exactly that
    tree: the same nodes with the same contents ([Permutation]: trees are compared as sets of
    nodes).  Supersedes [C06_main] (which equates the remote with the view, not with the directly
    computed tree) and extends [C06_commit_converges_after_failure/_from_observed] from one
    failure followed at once by the retry to any number of failures with operations in between. *)
Theorem C06_history_commit_is_direct : forall r hs,
  WF r -> hist_valid (new_cache r) hs ->
  exists c', c_commit (hrun (new_cache r) hs) = (c', RUnit) /\ cT c' = [] /\
    (forall q, lookup (cR c') q = lookup (direct_run r (succ_ops (new_cache r) hs)) q) /\
    Permutation (cR c') (direct_run r (succ_ops (new_cache r) hs)).
Proof. exact history_commit_is_direct. Qed.
Print Assumptions C06_history_commit_is_direct.

(** The executable check of a history implies its validity. *)
Theorem C06_hist_ok_valid : forall hs c, hist_ok c hs = true -> hist_valid c hs.
Proof. exact hist_ok_valid. Qed.
Print Assumptions C06_hist_ok_valid.

(** Non-vacuity.  A directory copy that merges into an existing directory and overwrites a file:
    reported as successful, and the direct operation on the view computes the tree below. *)
Example C06_step_ex :
  let c := run_cache (new_cache [([[100]], D); ([[100]; [97]], F [49]); ([[100]; [98]], D); ([[101]], D); ([[101]; [97]], F [50])])
             [COp (OWriteFile [100;47;98;47;99] [51])] in                      (* d/a=1 d/b/ e/a=2; write d/b/c=3 *)
  snd (cache_step c (COp (OCopy [100] [101]))) = RUnit /\ wf (cview c) = true /\    (* cp d e *)
  direct_step (cview c) (OCopy [100] [101]) =
    [([[100]; [97]], F [49]); ([[101]], D); ([[101]; [97]], F [49]); ([[100]], D); ([[100]; [98]], D);
     ([[100]; [98]; [99]], F [51]); ([[101]; [98]], D); ([[101]; [98]; [99]], F [51])].
Proof. vm_compute. repeat split. Qed.

(** A failing operation that is not a directory copy (a write below a file). *)
Example C06_failed_op_ex :
  let c := new_cache [([[100]], D); ([[100]; [97]], F [49])] in
  let o := OWriteFile [100;47;97;47;107] [51] in
  snd (cache_step c (COp o)) = RErr /\ dircopy_src c o = false.
Proof. vm_compute. split; reflexivity. Qed.

(** A history with three failed Commits: rm -r d; write d/y; Commit fails after the removal;
    write z; a write below the file d/y (refused); Commit fails again leaving d/ and a torn z;
    cp d e; Commit; rm z; mkdir e/w; Commit fails with the removal applied; the retry. *)
Example C06_history_ex :
  let r := [([[100]], D); ([[100]; [120]], F [49])] in
  let hs := [HOp (ORemoveAll [100]); HOp (OWriteFile [100;47;121] [50]); HFault [];
             HOp (OWriteFile [122] [51]); HOp (OWriteFile [100;47;121;47;107] [57]);
             HFault [([[100]], D); ([[122]], F [])];
             HOp (OCopy [100] [101]); HCommit; HOp (ORemove [122]); HOp (OMkdirAll [101;47;119]);
             HFault [([[101]], D); ([[100]], D); ([[100]; [121]], F [50]); ([[101]; [121]], F [50])]] in
  hist_ok (new_cache r) hs = true /\
  succ_ops (new_cache r) hs = [ORemoveAll [100]; OWriteFile [100;47;121] [50]; OWriteFile [122] [51];
                               OCopy [100] [101]; ORemove [122]; OMkdirAll [101;47;119]] /\
  direct_run r (succ_ops (new_cache r) hs) =
    [([[100]], D); ([[100]; [121]], F [50]); ([[101]], D); ([[101]; [121]], F [50]); ([[101]; [119]], D)] /\
  cR (fst (c_commit (hrun (new_cache r) hs))) =
    [([[101]], D); ([[100]], D); ([[100]; [121]], F [50]); ([[101]; [121]], F [50]); ([[101]; [119]], D)].
Proof. vm_compute. repeat split. Qed.

(** Every position: in the state after rm -r d; write d/y; write z, the Commit interrupted after the
    removal and the send of z alone has left a [partial_remote]. *)
Example C06_every_position_ex :
  let c := run_cache (new_cache [([[100]], D); ([[100]; [120]], F [49])])
             [COp (ORemoveAll [100]); COp (OWriteFile [100;47;121] [50]); COp (OWriteFile [122] [51])] in
  incl [[[100]]] (cT c) /\ (forall p e, In (p, e) [([[122]], F [51])] -> In (p, e) (cB c)) /\
  materialise (apply_tombs (cR c) (cT c)) [([[122]], F [51])] = Some [([[122]], F [51])].
Proof.
  cbv zeta. split; [|split].
  - vm_compute. intros a [<-|[]]. left. reflexivity.
  - intros p e [H|[]]. inversion H; subst. vm_compute. right. right. left. reflexivity.
  - vm_compute. reflexivity.
Qed.
