(** C06 — Write-back cache: nothing reaches the remote before Commit, everything after.
    Statements only.  [cview c] is the plain tree seen through the cache (the remote with the
    pending operations applied); [vlookup c] its lookup function. *)
From GC Require Import Common.Base Model.Paths Model.Fs Model.Cache Proofs.Fs Proofs.Cache.

(** While operations are applied to a cache, the remote filespace is not modified at all —
    every one of the 16 operations, any raw arguments, any state. *)
Theorem C06_remote_untouched : forall c o, cR (fst (cache_step c (COp o))) = cR c.
Proof. exact cache_op_remote_untouched. Qed.
Print Assumptions C06_remote_untouched.

Theorem C06_remote_untouched_history : forall l c, cR (run_cache c (map COp l)) = cR c.
Proof. exact run_ops_remote_untouched. Qed.
Print Assumptions C06_remote_untouched_history.

(** Every state reachable from a fresh cache over a well-formed remote, by ANY history of
    operations, Commits and failed Commits, satisfies the consistency invariant that makes the
    view a plain tree. *)
Theorem C06_invariant : forall r l, WF r -> Inv (run_cache (new_cache r) l).
Proof. intros r l H. apply run_cache_Inv. apply Inv_new. exact H. Qed.
Print Assumptions C06_invariant.

(** The pending operations act on the view exactly like the plain-tree operations: *)
Theorem C06_view_write : forall c p data,
  Inv c -> good_path p = true -> p <> [] -> check_dest c p false = true ->
  exists c', c_write c p data = (c', RUnit) /\ Inv c' /\
    vlookup c' p = Some (F data) /\
    (forall q, q <> p -> vlookup c q <> None -> vlookup c' q = vlookup c q) /\
    (forall q, q <> p -> vlookup c q = None -> vlookup c' q <> None ->
               vlookup c' q = Some D /\ is_prefix q (removelast p) = true).
Proof. exact c_write_spec. Qed.
Print Assumptions C06_view_write.

Theorem C06_view_mkdir : forall c p,
  Inv c -> good_path p = true -> p <> [] -> check_dest c p true = true ->
  exists c', c_mkdir c p = (c', RUnit) /\ Inv c' /\ vlookup c' p = Some D /\
    (forall q, vlookup c q <> None -> vlookup c' q = vlookup c q) /\
    (forall q, vlookup c q = None -> vlookup c' q <> None -> vlookup c' q = Some D /\ is_prefix q p = true).
Proof. exact c_mkdir_spec. Qed.
Print Assumptions C06_view_mkdir.

Theorem C06_view_remove : forall c p c',
  Inv c -> p <> [] -> c_remove c p = (c', RUnit) ->
  Inv c' /\ v_exists c p = true /\
  (forall q, vlookup c' q = if is_prefix p q then None else vlookup c q).
Proof. exact c_remove_spec. Qed.
Print Assumptions C06_view_remove.

Theorem C06_view_remove_all : forall c p c',
  Inv c -> p <> [] -> c_remove_all c p = (c', RUnit) ->
  Inv c' /\ forall q, vlookup c' q = if is_prefix p q then None else vlookup c q.
Proof. exact c_remove_all_spec. Qed.
Print Assumptions C06_view_remove_all.

(** After a successful Commit the remote tree equals the view, i.e. the tree obtained by the
    successful operations on top of the initial remote; Commit on a consistent cache over a
    plain-tree remote always succeeds; the view is unchanged and the tombstones are cleared. *)
Theorem C06_commit : forall c, Inv c ->
  exists c', c_commit c = (c', RUnit) /\ Inv c' /\ cB c' = cB c /\ cT c' = [] /\
    (forall q, lookup (cR c') q = vlookup c q) /\ (forall q, vlookup c' q = vlookup c q).
Proof. exact c_commit_spec. Qed.
Print Assumptions C06_commit.

Theorem C06_main : forall r l, WF r ->
  exists c', c_commit (run_cache (new_cache r) l) = (c', RUnit) /\
    forall q, lookup (cR c') q = lookup (cview (run_cache (new_cache r) l)) q.
Proof.
  intros r l H. destruct (c_commit_spec _ (run_cache_Inv l _ (Inv_new r H))) as (c' & E & _ & _ & _ & L & _).
  exists c'. split; [exact E|]. intros q. rewrite L, lookup_cview. reflexivity.
Qed.
Print Assumptions C06_main.

(** A second Commit changes nothing. *)
Theorem C06_second_commit : forall c c1 c2,
  Inv c -> c_commit c = (c1, RUnit) -> c_commit c1 = (c2, RUnit) ->
  forall q, lookup (cR c2) q = lookup (cR c1) q.
Proof. exact second_commit_changes_nothing. Qed.
Print Assumptions C06_second_commit.

(** A Commit during which the remote failed is reported ([CCommitFault] answers with an error and
    keeps buffer and tombstones).  Whatever intermediate state the remote was left in — only some
    of the tombstones applied, or all of them and ANY subset of the buffer entries materialised
    in any order, possibly followed by a buffered file written with ANY other content (a stream
    cut short) — a later Commit without failure brings the remote to exactly the tree of an
    undisturbed Commit (the view). *)
Theorem C06_commit_fault_reported : forall c, cache_step c CCommitFault = (c, RErr).
Proof. reflexivity. Qed.
Print Assumptions C06_commit_fault_reported.

Theorem C06_commit_converges_after_failure : forall c rp,
  Inv c -> partial_remote c rp ->
  exists c', c_commit (mkCache (cB c) rp (cT c)) = (c', RUnit) /\
             cB c' = cB c /\ cT c' = [] /\
             forall q, lookup (cR c') q = vlookup c q.
Proof. exact commit_converges_after_failure. Qed.
Print Assumptions C06_commit_converges_after_failure.

(** The same from the EXECUTABLE description of an intermediate remote, [partial_ok]: this is the
    predicate the correspondence check evaluates on the remote it observes after every injected
    failure (whole entries missing, tombstones half applied, a streamed file cut short), so the
    hypothesis of the convergence theorem is validated against the code on every run. *)
Theorem C06_commit_converges_from_observed : forall c rp,
  Inv c -> partial_ok c rp = true ->
  exists c', c_commit (mkCache (cB c) rp (cT c)) = (c', RUnit) /\
             cB c' = cB c /\ cT c' = [] /\
             forall q, lookup (cR c') q = vlookup c q.
Proof. exact commit_converges_from_observed. Qed.
Print Assumptions C06_commit_converges_from_observed.

(** Copying a directory through the cache: when it reports success every node visible below the
    source is visible below the destination byte for byte (and the invariant holds, so the next
    Commit sends it to the remote). *)
Theorem C06_copy_dir : forall c src dst c',
  Inv c -> good_path src = true -> good_path dst = true -> src <> [] ->
  vlookup c src = Some D -> c_copy c src dst = (c', RUnit) ->
  Inv c' /\ vlookup c' dst = Some D /\
  (forall rel e, rel <> [] -> vlookup c (src ++ rel) = Some e -> vlookup c' (dst ++ rel) = Some e).
Proof. exact c_copy_dir_spec. Qed.
Print Assumptions C06_copy_dir.

(** Non-vacuity: a concrete history. *)
Example C06_ex :
  let r := [([[100]], D); ([[100]; [120]], F [49])] in                         (* remote: d/, d/x = "1" *)
  let l := [COp (ORemoveAll [100]); COp (OWriteFile [100;47;121] [50]); CCommit] in  (* rm -r d; write d/y = "2"; commit *)
  cR (run_cache (new_cache r) l) = [([[100]], D); ([[100]; [121]], F [50])].
Proof. vm_compute. reflexivity. Qed.
