From GC Require Import Common.Base Model.Paths Model.Fs Model.Cache.
Theorem C06_placeholder : True. Proof. exact I. Qed.
Print Assumptions C06_placeholder.
