(** C03 — A filespace never reaches outside its root, whatever path it is given.
    Statements only.  A stack of views is a chain of path-transforming layers over a root
    backend (Model/Views.v); [root_of c] is where the stack's own root lies in the backend. *)
From GC Require Import Common.Base Model.Paths Model.Fs Model.Views Proofs.Paths Proofs.Fs Proofs.Views Proofs.NonInterf
  Model.ViewsCache Proofs.Clean Proofs.ViewsCache Model.Cache Proofs.Cache Proofs.CacheFrame
  Model.DiskFs Model.DiskHist Proofs.C03More.

(** Reduction never yields an empty, "." or ".." component: a successfully reduced path cannot
    name anything above the point it is resolved from. *)
Theorem C03_reduce_canonical : forall s p, reduce s = Some p -> good_path p = true.
Proof. exact reduce_good. Qed.
Print Assumptions C03_reduce_canonical.

(** The string concatenation performed by every view kind composes as component concatenation:
    for ANY base string X, [X ++ "/" ++ canonical r] reduces to [reduce X ++ r], and fails
    exactly when X alone fails (no argument can compensate a climbing base, no base can be
    escaped by an argument). *)
Theorem C03_concat : forall X r, good_path r = true ->
  reduce (X ++ SLASH :: join r) = match reduce X with Some b => Some (b ++ r) | None => None end.
Proof. exact reduce_prefix_join. Qed.
Print Assumptions C03_concat.

(** Path level, all stacks of memfs child views, sub-path views, read-only masks and encrypted
    layers at any nesting depth: a raw argument is rejected, or it addresses [root ++ r] with [r]
    the canonical reduction of the argument. *)
Theorem C03_resolve_confined : forall nn c s p,
  no_cache c = true -> bases_ok c -> resolve nn c s = Some p ->
  exists b r, root_of c = Some b /\ reduce s = Some r /\ good_path r = true /\ p = b ++ r.
Proof. exact resolve_confined. Qed.
Print Assumptions C03_resolve_confined.

Theorem C03_climb_rejected : forall nn c s,
  no_cache c = true -> bases_ok c -> reduce s = None -> resolve nn c s = None.
Proof. exact resolve_climb_rejected. Qed.
Print Assumptions C03_climb_rejected.

(** Every stack that the API can build (Filespace(p), NewSubFS, NewReadonlyFS, NewEncryptFS in
    any order and depth from the root) has well-formed bases, so the theorems apply to it. *)
Theorem C03_api_stacks : forall ks c,
  build [] ks = Some c -> bases_ok c /\ no_cache c = true.
Proof.
  intros ks c H. split.
  - apply (build_bases_ok ks [] c); [exact I|exact H].
  - apply (build_no_cache ks [] c); [reflexivity|exact H].
Qed.
Print Assumptions C03_api_stacks.

(** Tree level: any of the 16 operations, with any raw arguments, through any such stack whose
    root is [b]: a node that is not at or below [b] is untouched; the only thing that can appear
    outside is a directory on the way down to [b]. *)
Theorem C03_confined : forall c t o b q,
  no_cache c = true -> bases_ok c -> WF t -> root_of c = Some b -> is_prefix b q = false ->
  (forall e, lookup t q = Some e -> lookup (fst (chain_step c t o)) q = Some e) /\
  (lookup t q = None -> lookup (fst (chain_step c t o)) q <> None ->
   lookup (fst (chain_step c t o)) q = Some D /\ is_prefix q b = true).
Proof. exact chain_step_outside. Qed.
Print Assumptions C03_confined.

(** A stack whose base climbs out of the backend has no root at all: nothing changes. *)
Theorem C03_no_root_no_effect : forall c t o,
  no_cache c = true -> bases_ok c -> root_of c = None -> fst (chain_step c t o) = t.
Proof. exact chain_step_no_root. Qed.
Print Assumptions C03_no_root_no_effect.

(** The memfs child view, stated directly on its step function (any depth: nested views are
    views with the concatenated base). *)
Theorem C03_memfs_view_confined : forall b t o q,
  WF t -> good_path b = true -> is_prefix b q = false ->
  (forall e, lookup t q = Some e -> lookup (fst (view_step (view_base b) t o)) q = Some e) /\
  (lookup t q = None -> lookup (fst (view_step (view_base b) t o)) q <> None ->
   lookup (fst (view_step (view_base b) t o)) q = Some D /\ is_prefix q b = true).
Proof. exact view_step_outside. Qed.
Print Assumptions C03_memfs_view_confined.

(** The READ half — nothing outside the view can be read or listed: for any of the 16 operations
    with any raw arguments through a memfs child view rooted at [b], the answer and the tree below
    [b] afterwards are functions of the tree below [b] alone.  Two parent trees that agree below
    [b] (and in which [b] is a directory) are indistinguishable through the view, along whole
    histories. *)
Theorem C03_view_noninterference : forall b t1 t2 o, good_path b = true -> agree b t1 t2 ->
  snd (view_step (view_base b) t1 o) = snd (view_step (view_base b) t2 o) /\
  agree b (fst (view_step (view_base b) t1 o)) (fst (view_step (view_base b) t2 o)).
Proof. exact view_noninterference. Qed.
Print Assumptions C03_view_noninterference.

Theorem C03_view_noninterference_history : forall b, good_path b = true -> forall ops t1 t2, agree b t1 t2 ->
  map snd (snd (fold_left (fun acc o => let r := view_step (view_base b) (fst acc) o in (fst r, snd acc ++ [r]))
                          ops (t1, [])))
  = map snd (snd (fold_left (fun acc o => let r := view_step (view_base b) (fst acc) o in (fst r, snd acc ++ [r]))
                            ops (t2, []))).
Proof. exact view_noninterference_history. Qed.
Print Assumptions C03_view_noninterference_history.

Example C03_ex_agree :
  agree [[97]] [([[97]], D); ([[97]; [120]], F [1]); ([[115]], F [9])]
               [([[122]], D); ([[97]], D); ([[97]; [120]], F [1])].
Proof.
  split; [reflexivity|]. split; intros a x H; destruct a as [|n [|m a]]; simpl in H; inversion H; subst; try reflexivity;
    try (destruct a; discriminate).
Qed.

(** ** Stacks that contain write-back caches.
    fscache.Cache does not reduce its arguments, it path.Clean's them (and Cache.Filespace(p)
    hands the uncleaned [p] to fshelper.SubFS).  path.Clean of [X ++ "/" ++ canonical r]
    followed by the reduction below it is [cred X ++ r]: whatever string the layers above a
    cache produce, the canonical part of it survives the cleaning intact. *)
Theorem C03_clean_concat : forall X r, good_path r = true ->
  cred (X ++ SLASH :: join r) = match cred (X ++ [SLASH]) with Some y => Some (y ++ r) | None => None end.
Proof. exact cred_prefix_join. Qed.
Print Assumptions C03_clean_concat.

(** path.Clean is idempotent as far as the reduction below it can tell: a cache directly on a
    cache changes nothing. *)
Theorem C03_clean_idempotent : forall s, cred (clean_path s) = cred s.
Proof. exact cred_clean_path. Qed.
Print Assumptions C03_clean_idempotent.

(** Path level, caches included (any number of them, anywhere): a raw argument is rejected, or
    it addresses [root ++ r] with [r] canonical. *)
Theorem C03_resolve_confined_cache : forall nn c s p,
  bases_ok c -> resolve nn c s = Some p ->
  exists b r, root_of c = Some b /\ red_under c s = Some r /\ good_path r = true /\ p = b ++ r.
Proof. exact resolve_confined_cache. Qed.
Print Assumptions C03_resolve_confined_cache.

(** ... and every stack the API can build with caches in it meets those side conditions. *)
Theorem C03_api_cache_stacks_confined : forall ks c nn s p,
  cbuild [] ks = Some c -> resolve nn c s = Some p ->
  exists b r, root_of c = Some b /\ good_path r = true /\ p = b ++ r.
Proof. exact cbuild_confined. Qed.
Print Assumptions C03_api_cache_stacks_confined.

(* child view of a cache over a child view; the climbing child base is clamped by path.Clean
   only when rooted, and what is left still reduces below the view root or is rejected *)
Example C03_ex_cache_stack :
  exists c, cbuild [] [CK (KChild [97]); CKCache; CK (KChild [47;46;46;47;98])] = Some c /\
            root_of c = Some [[97]; [98]] /\
            resolve true c [120;47;46;46;47;121] = Some [[97]; [98]; [121]] /\
            resolve true c [46;46;47;121] = None /\
            (exists c2, cbuild [] [CK (KChild [97]); CKCache; CK (KChild [46;46;47;98])] = Some c2 /\
                        root_of c2 = None /\ resolve true c2 [121] = None).
Proof. eexists. vm_compute. repeat split. eexists. repeat split. Qed.

(** ** Tree level for stacks with a write-back cache (state of the cache: Model/Cache.v; [Inv] is
    C06's invariant, which every reachable cache state has; [vlookup] is the tree seen THROUGH
    the cache, [cR] its remote).

    One operation on a cache, any of the 16, with any raw arguments and whatever it returns
    (success, error, a directory copy that stops half way): if every destination argument that
    the cache normalises ([cnorm s = Some p]; the arguments it mutates at are [targets o])
    lies at or below [b], then seen through the cache no node outside [b] changes, and the
    only thing that may appear outside is a directory on the way down to [b]. *)
Theorem C03_cache_confined : forall c o b q,
  Inv c ->
  (forall s p, In s (targets o) -> cnorm s = Some p -> is_prefix b p = true) ->
  is_prefix b q = false ->
  (forall e, vlookup c q = Some e -> vlookup (fst (cache_step c (COp o))) q = Some e) /\
  (vlookup c q = None -> vlookup (fst (cache_step c (COp o))) q <> None ->
   vlookup (fst (cache_step c (COp o))) q = Some D /\ is_prefix q b = true).
Proof. exact cache_step_outside. Qed.
Print Assumptions C03_cache_confined.

(** Arguments that the cache rejects (an unrooted climbing path survives path.Clean and is
    refused by the reduction below) have no effect at all. *)
Theorem C03_cache_rejected_no_effect : forall c o,
  (forall s, In s (targets o) -> cnorm s = None) -> fst (cache_step c (COp o)) = c.
Proof. exact cache_step_rejected. Qed.
Print Assumptions C03_cache_rejected_no_effect.

(** Whole histories of such operations interleaved with Commits and failed Commits, from ANY
    cache state satisfying the invariant: the view outside [b] obeys the two clauses. *)
Theorem C03_cache_history_view_confined : forall b l c q,
  Inv c -> Forall (cop_under b) l -> is_prefix b q = false ->
  (forall e, vlookup c q = Some e -> vlookup (run_cache c l) q = Some e) /\
  (vlookup c q = None -> vlookup (run_cache c l) q <> None ->
   vlookup (run_cache c l) q = Some D /\ is_prefix q b = true).
Proof. exact (fun b l c q I H => run_cache_vframe b l c I H q). Qed.
Print Assumptions C03_cache_history_view_confined.

(** ... and for a cache that starts empty over the remote tree [r0]: after any such history -
    any number of Commits and failed Commits anywhere - BOTH the view and the REMOTE tree obey
    the two clauses relative to [r0] (a Commit makes the remote equal to the view, C06_commit;
    nothing else touches it). *)
Theorem C03_cache_history_confined : forall b r0 l q,
  WF r0 -> Forall (cop_under b) l -> is_prefix b q = false ->
  let c := run_cache (new_cache r0) l in
  ((forall e, lookup r0 q = Some e -> vlookup c q = Some e) /\
   (lookup r0 q = None -> vlookup c q <> None -> vlookup c q = Some D /\ is_prefix q b = true)) /\
  ((forall e, lookup r0 q = Some e -> lookup (cR c) q = Some e) /\
   (lookup r0 q = None -> lookup (cR c) q <> None -> lookup (cR c) q = Some D /\ is_prefix q b = true)).
Proof.
  exact (fun b r0 l q W H Hq =>
    conj (proj1 (new_cache_history_outside b r0 l W H) q Hq)
         (proj2 (new_cache_history_outside b r0 l W H) q Hq)).
Qed.
Print Assumptions C03_cache_history_confined.

(** Before any successful Commit the remote is not touched at all, whatever the arguments
    (C06_remote_untouched, restated with failed Commits in the history). *)
Theorem C03_cache_remote_untouched_before_commit : forall l c,
  no_commit l = true -> cR (run_cache c l) = cR c.
Proof. exact run_cache_no_commit_remote. Qed.
Print Assumptions C03_cache_remote_untouched_before_commit.

(** The link to views.  Cache.Filespace(x) is fshelper.SubFS over the cache: the stack
    [LSub base :: LCache :: below] with [base] ending in a slash.  A raw argument [s] that the
    view accepts reaches the cache as the string [base ++ join r] with [r] the reduction of [s],
    and the cache normalises that string to [cred base ++ r] - or rejects it, exactly when it
    rejects the base alone. *)
Theorem C03_cache_view_arg : forall nn base s s',
  base_ok base -> transform1 nn (LSub base) s = Some s' ->
  exists r, reduce s = Some r /\ good_path r = true /\ s' = base ++ join r /\
            cnorm s' = match cred base with Some y => Some (y ++ r) | None => None end.
Proof. exact sub_cache_arg. Qed.
Print Assumptions C03_cache_view_arg.

(** So every operation that gets through a view with root [cred base = Some b] satisfies the
    premise of [C03_cache_confined] for that [b] ... *)
Theorem C03_cache_view_targets : forall base o o' b,
  base_ok base -> cred base = Some b ->
  map_args (fun nn s => transform1 nn (LSub base) s) o = Some o' ->
  forall s p, In s (targets o') -> cnorm s = Some p -> is_prefix b p = true.
Proof. exact sub_cache_args_under. Qed.
Print Assumptions C03_cache_view_targets.

(** ... hence one operation through a child view of a cache (Model/ViewsCache.v
    [sub_cache_step]) changes nothing outside the view root, seen through the cache; a view whose
    base climbs out has no effect at all. *)
Theorem C03_cache_view_confined : forall base c o b q,
  Inv c -> base_ok base -> cred base = Some b -> is_prefix b q = false ->
  (forall e, vlookup c q = Some e -> vlookup (fst (sub_cache_step base c o)) q = Some e) /\
  (vlookup c q = None -> vlookup (fst (sub_cache_step base c o)) q <> None ->
   vlookup (fst (sub_cache_step base c o)) q = Some D /\ is_prefix q b = true).
Proof. exact (fun base c o b q I Hb Hc => sub_cache_step_frame base c o b I Hb Hc q). Qed.
Print Assumptions C03_cache_view_confined.

Theorem C03_cache_view_no_root_no_effect : forall base c o,
  base_ok base -> cred base = None -> fst (sub_cache_step base c o) = c.
Proof. exact sub_cache_step_no_root. Qed.
Print Assumptions C03_cache_view_no_root_no_effect.

(** Mixed histories: the cache used directly with arguments confined to [b], through any number
    of child views rooted at or below [b] (or with a climbing base) with ANY raw arguments, with
    Commits and failed Commits anywhere; the cache starts empty over [r0].  View and remote
    outside [b] are those of [r0] up to directories on the way down to [b]. *)
Theorem C03_cache_views_history_confined : forall b r0 l q,
  WF r0 -> Forall (vcop_under b) l -> is_prefix b q = false ->
  let c := run_vcache (new_cache r0) l in
  ((forall e, lookup r0 q = Some e -> vlookup c q = Some e) /\
   (lookup r0 q = None -> vlookup c q <> None -> vlookup c q = Some D /\ is_prefix q b = true)) /\
  ((forall e, lookup r0 q = Some e -> lookup (cR c) q = Some e) /\
   (lookup r0 q = None -> lookup (cR c) q <> None -> lookup (cR c) q = Some D /\ is_prefix q b = true)).
Proof.
  exact (fun b r0 l q W H Hq =>
    conj (proj1 (new_cache_views_history_outside b r0 l W H) q Hq)
         (proj2 (new_cache_views_history_outside b r0 l W H) q Hq)).
Qed.
Print Assumptions C03_cache_views_history_confined.

(** A Commit that FAILS half way is confined as well: after any such history, whatever remote a
    failing Commit leaves behind - some of the pending removals applied, some of the buffer
    sent, a streamed file cut short (C06's [partial_remote]) - differs from [r0] outside [b] at
    most by directories on the way down to [b] ... *)
Theorem C03_cache_failed_commit_confined : forall b r0 l rp q,
  WF r0 -> Forall (vcop_under b) l ->
  partial_remote (run_vcache (new_cache r0) l) rp -> is_prefix b q = false ->
  (forall e, lookup r0 q = Some e -> lookup rp q = Some e) /\
  (lookup r0 q = None -> lookup rp q <> None -> lookup rp q = Some D /\ is_prefix q b = true).
Proof. exact (fun b r0 l rp q W H Hp => failed_commit_remote_outside b r0 l rp W H Hp q). Qed.
Print Assumptions C03_cache_failed_commit_confined.

(** ... and the same from the executable predicate [partial_ok], which the C06 correspondence
    check evaluates on the remote it observes after every injected failure. *)
Theorem C03_cache_failed_commit_observed_confined : forall b r0 l rp q,
  WF r0 -> Forall (vcop_under b) l ->
  partial_ok (run_vcache (new_cache r0) l) rp = true -> is_prefix b q = false ->
  (forall e, lookup r0 q = Some e -> lookup rp q = Some e) /\
  (lookup r0 q = None -> lookup rp q <> None -> lookup rp q = Some D /\ is_prefix q b = true).
Proof. exact (fun b r0 l rp q W H Hp => failed_commit_observed_outside b r0 l rp W H Hp q). Qed.
Print Assumptions C03_cache_failed_commit_observed_confined.

(* A cache over a small remote, a child view rooted at [a] (base string a/): two climbing
   writes and a copy to a climbing destination (all refused by the view), a write and a
   recursive remove below the root, a failed Commit, a Commit.  The history meets the premise of
   the theorem; the remote outside [a] is exactly what it was; below [a] the new file arrived and
   the removed directory is gone. *)
Definition C03_ex_remote : fs :=
  [([[97]], D); ([[97];[120]], F [1]); ([[97];[107]], D); ([[97];[107];[121]], F [2]);
   ([[115]], F [9]); ([[99]], D); ([[99];[104]], F [3])].
Definition C03_ex_history : list vcop :=
  [ VSub [97;47] (OWriteFile [46;46;47;115] [7]);
    VSub [97;47] (OWriteFile [110;47;46;46;47;46;46;47;46;46;47;115] [7]);
    VSub [97;47] (OCopy [120] [46;46;47;99;47;104]);
    VSub [97;47] (OWriteFile [110;47;102] [5]);
    VSub [97;47] (ORemoveAll [107]);
    VDirect CCommitFault;
    VDirect CCommit ].

Example C03_ex_cache_history_premise : WF C03_ex_remote /\ Forall (vcop_under [[97]]) C03_ex_history.
Proof.
  split; [apply wf_WF; vm_compute; reflexivity|].
  repeat constructor; exists [97]; reflexivity.
Qed.

Example C03_ex_cache_history :
  let c := run_vcache (new_cache C03_ex_remote) C03_ex_history in
  map (fun v => snd (vcache_step (new_cache C03_ex_remote) v)) (firstn 3 C03_ex_history) = [RErr; RErr; RErr] /\
  filter (fun qe => negb (is_prefix [[97]] (fst qe))) (cR c)
    = filter (fun qe => negb (is_prefix [[97]] (fst qe))) C03_ex_remote /\
  lookup (cR c) [[115]] = Some (F [9]) /\
  lookup (cR c) [[97];[110];[102]] = Some (F [5]) /\
  lookup C03_ex_remote [[97];[107];[121]] = Some (F [2]) /\ lookup (cR c) [[97];[107];[121]] = None.
Proof. vm_compute. repeat split. Qed.

(* the same history stopped before the Commits; a Commit that removes a/k, creates a/n and then
   fails leaves a remote accepted by [partial_ok], different from the initial one below [a]
   only *)
Example C03_ex_cache_failed_commit :
  let c := run_vcache (new_cache C03_ex_remote) (firstn 5 C03_ex_history) in
  let rp := [([[97]], D); ([[97];[120]], F [1]); ([[115]], F [9]); ([[99]], D); ([[99];[104]], F [3]);
             ([[97];[110]], D)] in
  partial_ok c rp = true /\
  filter (fun qe => negb (is_prefix [[97]] (fst qe))) rp
    = filter (fun qe => negb (is_prefix [[97]] (fst qe))) C03_ex_remote /\
  lookup rp [[97];[110];[102]] = None /\ vlookup c [[97];[110];[102]] = Some (F [5]).
Proof. vm_compute. repeat split. Qed.

(* The premise is not vacuous the other way either: used DIRECTLY (no view), the cache clamps a
   rooted climbing argument like path.Clean does and the write lands at the cache's own root -
   outside [a]; such an operation does not satisfy [cop_under [a]]. *)
Example C03_ex_cache_direct_clamped :
  cnorm [47;46;46;47;115] = Some [[115]] /\
  vlookup (fst (cache_step (new_cache C03_ex_remote) (COp (OWriteFile [47;46;46;47;115] [7])))) [[115]] = Some (F [7]).
Proof. vm_compute. split; reflexivity. Qed.

(** Non-vacuity. *)
Example C03_ex_stack :
  exists c, build [] [KChild [97]; KNewSub [47;98;47]; KRO; KChild [46;47;99]] = Some c /\
            root_of c = Some [[97]; [98]; [99]] /\
            resolve false c [46;46;47;120] = None /\
            resolve false c [120;47;46;46;47;121] = Some [[97]; [98]; [99]; [121]].
Proof. eexists. vm_compute. repeat split. Qed.

(** ** Proof audit (Proofs/C03More.v): the read half for every stack, histories through many
    views, views of views, rejection at the level of results, the disk filespace. *)

(** [vagree b t1 t2] (Proofs/C03More.v): the two parent trees have the same subtree at [b] and
    every STRICT ancestor of [b] has the same kind (missing / directory / file) in both.  [b]
    itself may be missing or a file, and the parents may differ in every name and every byte
    elsewhere.  The relation of the first round implies it. *)
Theorem C03_agree_is_vagree : forall b t1 t2, agree b t1 t2 -> vagree b t1 t2.
Proof. exact agree_vagree. Qed.
Print Assumptions C03_agree_is_vagree.

(** READ half for EVERY cache-free stack - memfs child views, sub-path views, read-only masks,
    encrypted layers in any order and depth ([chain_under b c]: bases well formed, the stack's
    own root at or below [b], or no root at all): any of the 16 operations with any raw arguments
    gives the same answer on two parents related by [vagree b], and the parents are still related
    afterwards - also when the operation removed the root of the view (a sub-path view can).
    Supersedes [C03_view_noninterference], which is the case of one memfs wrapper layer whose root
    exists as a directory. *)
Theorem C03_read_half_stacks : forall b c t1 t2 o, chain_under b c -> vagree b t1 t2 ->
  snd (chain_step c t1 o) = snd (chain_step c t2 o) /\
  vagree b (fst (chain_step c t1 o)) (fst (chain_step c t2 o)).
Proof. exact chain_step_vagree. Qed.
Print Assumptions C03_read_half_stacks.

(** A stack without a root answers without looking at the tree at all. *)
Theorem C03_read_half_rootless : forall c o, no_cache c = true -> bases_ok c -> root_of c = None ->
  forall t1 t2, snd (chain_step c t1 o) = snd (chain_step c t2 o).
Proof. exact chain_step_no_root_blind. Qed.
Print Assumptions C03_read_half_rootless.

(** ... and over histories issued, in any order, through ANY NUMBER of views of one backend that
    are rooted at or below [b] ([run_chains]: every step names its own stack). *)
Theorem C03_read_half_history : forall b h, Forall (fun co => chain_under b (fst co)) h ->
  forall t1 t2, vagree b t1 t2 ->
  snd (run_chains t1 h) = snd (run_chains t2 h) /\
  vagree b (fst (run_chains t1 h)) (fst (run_chains t2 h)).
Proof. exact chains_noninterference. Qed.
Print Assumptions C03_read_half_history.

(** The ancestor half of [vagree] cannot be dropped: whether the root of a view can exist at all
    (an ancestor that is a file) is visible through the view. *)
Theorem C03_read_half_sub_only_refuted :
  exists ks c b t1 t2 o,
    build [] ks = Some c /\ root_of c = Some b /\ wf t1 = true /\ wf t2 = true /\
    NonInterf.sub t1 b = NonInterf.sub t2 b /\
    snd (chain_step c t1 o) <> snd (chain_step c t2 o).
Proof. exact read_half_sub_only_refuted. Qed.
Print Assumptions C03_read_half_sub_only_refuted.

(** Rejection at the level of RESULTS: through any cache-free stack, an operation one of whose
    path arguments - source or destination - climbs above the root is answered with the failure
    value of the operation (an error; false for IsExist / IsFile / IsDir) and the tree is returned
    as it was. *)
Theorem C03_climb_rejected_result : forall c t o s, no_cache c = true -> bases_ok c ->
  In s (args o) -> reduce s = None -> chain_step c t o = (t, fail_out o).
Proof. exact chain_step_climb_rejected. Qed.
Print Assumptions C03_climb_rejected_result.

(** WRITE half over histories through any number of views rooted at or below [b]: the two clauses
    of [C03_confined] hold between the first and the last tree. *)
Theorem C03_history_confined : forall b h q, Forall (fun co => chain_under b (fst co)) h ->
  forall t, WF t -> is_prefix b q = false ->
  (forall e, lookup t q = Some e -> lookup (fst (run_chains t h)) q = Some e) /\
  (lookup t q = None -> lookup (fst (run_chains t h)) q <> None ->
   lookup (fst (run_chains t h)) q = Some D /\ is_prefix q b = true).
Proof. exact (fun b h q H t W Hq => proj1 (chains_outside b h q H t W Hq)). Qed.
Print Assumptions C03_history_confined.

(** VIEWS OF VIEWS.  The first round showed that a stack is confined to its OWN root; where the
    root of [Filespace(p)] of a view lies was not stated.  For every stack with the bases the API
    leaves behind ([bases_clean]: true of every stack built from the memfs root, [C03_api_views])
    the root of a child view is the root of the view it was obtained from, extended by the
    canonical reduction of [p]; a child of a rootless view is rootless.  For sub-path views this
    is where path.Clean has to be harmless on the strings SubFS concatenates. *)
Theorem C03_child_root : forall c p c', no_cache c = true -> bases_clean c -> child c p = Some c' ->
  exists r, reduce p = Some r /\ good_path r = true /\
            root_of c' = match root_of c with Some b => Some (b ++ r) | None => None end.
Proof. exact child_root. Qed.
Print Assumptions C03_child_root.

Theorem C03_api_views : forall ks c b, build [] ks = Some c -> root_of c = Some b -> view_under b c.
Proof. exact api_view. Qed.
Print Assumptions C03_api_views.

Theorem C03_child_view_under : forall b c p c', view_under b c -> child c p = Some c' -> view_under b c'.
Proof. exact child_view_under. Qed.
Print Assumptions C03_child_view_under.

(** Histories in which views are obtained from views on the way ([run_vv c0]: every step names
    the Filespace arguments leading from the starting view [c0] to the view it uses, then the
    operation; an unobtainable view makes the step an error without effect): read half and write
    half, relative to the root of the STARTING view. *)
Theorem C03_views_of_views_read_half : forall b c0 h, view_under b c0 ->
  forall t1 t2, vagree b t1 t2 ->
  snd (run_vv c0 t1 h) = snd (run_vv c0 t2 h) /\
  vagree b (fst (run_vv c0 t1 h)) (fst (run_vv c0 t2 h)).
Proof. exact vv_noninterference. Qed.
Print Assumptions C03_views_of_views_read_half.

Theorem C03_views_of_views_confined : forall b c0 h q, view_under b c0 ->
  forall t, WF t -> is_prefix b q = false ->
  (forall e, lookup t q = Some e -> lookup (fst (run_vv c0 t h)) q = Some e) /\
  (lookup t q = None -> lookup (fst (run_vv c0 t h)) q <> None ->
   lookup (fst (run_vv c0 t h)) q = Some D /\ is_prefix q b = true).
Proof. exact (fun b c0 h q H t W Hq => proj1 (vv_outside b c0 h q H t W Hq)). Qed.
Print Assumptions C03_views_of_views_confined.

(** THE DISK FILESPACE (Model/DiskFs.v, tied to the code by the C02 correspondence check; a
    filespace is named by its host directory [b] relative to the root's).  Rejection at the level
    of results; a chain of Filespace calls yields a host directory at or below the one it started
    from; histories through any number of child filespaces at or below [b] are confined to [b]. *)
Theorem C03_disk_climb_rejected_result : forall b t o s,
  In s (args o) -> reduce s = None -> d_step b t o = (t, fail_out o).
Proof. exact d_step_climb. Qed.
Print Assumptions C03_disk_climb_rejected_result.

Theorem C03_disk_views_of_views : forall t chain b b', good_path b = true ->
  d_resolve t b chain = Some b' -> good_path b' = true /\ is_prefix b b' = true.
Proof. exact d_resolve_under. Qed.
Print Assumptions C03_disk_views_of_views.

Theorem C03_disk_history_confined : forall b h t q,
  WF t -> (forall bo, In bo h -> good_path (fst bo) = true /\ is_prefix b (fst bo) = true) ->
  is_prefix b q = false ->
  (forall e, lookup t q = Some e -> lookup (run_disk_at t h) q = Some e) /\
  (lookup t q = None -> lookup (run_disk_at t h) q <> None ->
   lookup (run_disk_at t h) q = Some D /\ is_prefix q b = true).
Proof. exact (fun b h t q W H Hq => proj1 (disk_history_outside b h t q W H Hq)). Qed.
Print Assumptions C03_disk_history_confined.

(** Non-vacuity.  A view built as Filespace(a) / NewSubFS(b) / NewEncryptFS, rooted at [a;b]; two
    parents that share nothing but the subtree at [a;b] and the directory [a]; a history with a
    listing, a climbing read, a write through a view of the view, a copy to a climbing
    destination, two attempts to obtain Filespace(..) (refused), the removal of the view's own root
    through the view, and its re-creation.  Premises hold; answers are equal; what lies outside
    [a;b] in either parent is untouched. *)
Definition C03_ex2_ks : list ctor := [KChild [97]; KNewSub [98]; KEnc].
Definition C03_ex2_c0 : chain := [LEnc; LSub [98; 47]; LWrap [97; 47]].
Definition C03_ex2_t1 : fs :=
  [([[97]], D); ([[97];[98]], D); ([[97];[98];[120]], F [1]); ([[115]], F [9]); ([[97];[107]], F [7])].
Definition C03_ex2_t2 : fs :=
  [([[122]], D); ([[97]], D); ([[97];[98]], D); ([[97];[98];[120]], F [1]); ([[115]], D); ([[115];[121]], F [5])].
Definition C03_ex2_h : list (list bytes * op) :=
  [ ([], OReadDir []); ([], OReadFile [46;46;47;46;46;47;115]); ([[100]], OWriteFile [102] [4]);
    ([], OCopy [120] [46;46;47;107]); ([[100]; [46;46]], OLstat [100;47;102]); ([[46;46]], OIsDir []);
    ([], ORemoveAll []); ([], OIsDir []); ([], OMkdirAll [110]) ].

Example C03_ex2_premises :
  build [] C03_ex2_ks = Some C03_ex2_c0 /\ root_of C03_ex2_c0 = Some [[97];[98]] /\
  view_under [[97];[98]] C03_ex2_c0 /\ chain_under [[97];[98]] C03_ex2_c0 /\
  vagree [[97];[98]] C03_ex2_t1 C03_ex2_t2 /\ WF C03_ex2_t1 /\ WF C03_ex2_t2 /\ C03_ex2_t1 <> C03_ex2_t2.
Proof.
  assert (Hv : view_under [[97];[98]] C03_ex2_c0) by (apply (api_view C03_ex2_ks); reflexivity).
  split; [reflexivity|]. split; [reflexivity|]. split; [exact Hv|]. split; [apply view_chain_under; exact Hv|].
  split; [split; [reflexivity|apply anc_sameb_sound; reflexivity]|].
  split; [apply wf_WF; vm_compute; reflexivity|]. split; [apply wf_WF; vm_compute; reflexivity|discriminate].
Qed.

Example C03_ex2_run :
  snd (run_vv C03_ex2_c0 C03_ex2_t1 C03_ex2_h)
    = [RList [([120], false)]; RErr; RUnit; RErr; RErr; RErr; RUnit; RBool false; RUnit] /\
  snd (run_vv C03_ex2_c0 C03_ex2_t2 C03_ex2_h) = snd (run_vv C03_ex2_c0 C03_ex2_t1 C03_ex2_h) /\
  filter (fun qe => negb (is_prefix [[97];[98]] (fst qe))) (fst (run_vv C03_ex2_c0 C03_ex2_t1 C03_ex2_h))
    = filter (fun qe => negb (is_prefix [[97];[98]] (fst qe))) C03_ex2_t1 /\
  filter (fun qe => negb (is_prefix [[97];[98]] (fst qe))) (fst (run_vv C03_ex2_c0 C03_ex2_t2 C03_ex2_h))
    = filter (fun qe => negb (is_prefix [[97];[98]] (fst qe))) C03_ex2_t2 /\
  lookup (fst (run_vv C03_ex2_c0 C03_ex2_t1 C03_ex2_h)) [[97];[98];[120]] = None /\
  lookup (fst (run_vv C03_ex2_c0 C03_ex2_t1 C03_ex2_h)) [[97];[98];[110]] = Some D.
Proof. vm_compute. repeat split. Qed.

(* the same operations as one history over explicit stacks: premise of C03_read_half_history and
   C03_history_confined *)
Example C03_ex2_chains :
  Forall (fun co => chain_under [[97];[98]] (fst co))
    [ (C03_ex2_c0, OReadDir []); ([LEnc; LSub [98;47;100;47]; LWrap [97;47]], OWriteFile [102] [4]);
      ([LWrap [97;47;98;47]], ORemoveAll [120]) ].
Proof.
  assert (H0 : chain_under [[97];[98]] C03_ex2_c0).
  { apply view_chain_under. apply (api_view C03_ex2_ks); reflexivity. }
  apply Forall_cons; [exact H0|]. apply Forall_cons; [|apply Forall_cons; [|apply Forall_nil]].
  - split; [reflexivity|]. split.
    + simpl. split; [exists [98;47;100]; reflexivity|]. split; [exists [97]; reflexivity|exact I].
    + right. exists [[97];[98];[100]]. split; reflexivity.
  - split; [reflexivity|]. split.
    + simpl. split; [exists [97;47;98]; reflexivity|exact I].
    + right. exists [[97];[98]]. split; reflexivity.
Qed.

(* rejection at the level of results: a copy whose SOURCE climbs, through a read-write stack; the
   root of the child obtained by Filespace(d/../e) *)
Example C03_ex2_rejected :
  In [46;46;47;115] (args (OCopy [46;46;47;115] [121])) /\ reduce [46;46;47;115] = None /\
  chain_step C03_ex2_c0 C03_ex2_t1 (OCopy [46;46;47;115] [121]) = (C03_ex2_t1, RErr) /\
  chain_step C03_ex2_c0 C03_ex2_t1 (OIsExist [46;46;47;115]) = (C03_ex2_t1, RBool false) /\
  (exists c', child C03_ex2_c0 [100;47;46;46;47;101] = Some c' /\ root_of c' = Some [[97];[98];[101]]) /\
  child C03_ex2_c0 [100;47;46;46;47;46;46;47;97] = None.
Proof. vm_compute. repeat split. left; reflexivity. eexists; split; reflexivity. Qed.

(* disk: child filespaces at a and a/k of a host tree; climbing write and copy refused, the
   removal of a/k through its own filespace, a write below a; s is untouched *)
Definition C03_ex2_dt : fs :=
  [([[97]], D); ([[97];[120]], F [1]); ([[97];[107]], D); ([[97];[107];[121]], F [2]); ([[115]], F [9])].
Definition C03_ex2_dh : list (path * op) :=
  [([[97]], OWriteFile [46;46;47;115] [7]); ([[97];[107]], ORemoveAll []);
   ([[97]], OCopy [120] [46;46;47;99]); ([[97]], OWriteFile [110;47;102] [5])].
Example C03_ex2_disk :
  WF C03_ex2_dt /\
  (forall bo, In bo C03_ex2_dh -> good_path (fst bo) = true /\ is_prefix [[97]] (fst bo) = true) /\
  run_disk_at C03_ex2_dt C03_ex2_dh
    = [([[97]], D); ([[97];[120]], F [1]); ([[115]], F [9]); ([[97];[110]], D); ([[97];[110];[102]], F [5])] /\
  d_step [[97]] C03_ex2_dt (OCopy [120] [46;46;47;99]) = (C03_ex2_dt, RErr) /\
  d_resolve C03_ex2_dt [[97]] [[107]] = Some [[97];[107]] /\
  d_resolve C03_ex2_dt [[97]] [[107]; [46;46;47;107]] = None.
Proof.
  split; [apply wf_WF; vm_compute; reflexivity|]. split.
  - intros bo Hin. simpl in Hin.
    repeat match goal with H : _ \/ _ |- _ => destruct H | H : False |- _ => destruct H end; subst; split; reflexivity.
  - vm_compute. repeat split.
Qed.
