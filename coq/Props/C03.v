(** C03 — A filespace never reaches outside its root, whatever path it is given.
    Statements only.  A stack of views is a chain of path-transforming layers over a root
    backend (Model/Views.v); [root_of c] is where the stack's own root lies in the backend. *)
From GC Require Import Common.Base Model.Paths Model.Fs Model.Views Proofs.Paths Proofs.Fs Proofs.Views Proofs.NonInterf
  Model.ViewsCache Proofs.Clean Proofs.ViewsCache.

(** Reduction never yields an empty, "." or ".." component: a successfully reduced path cannot
    name anything above the point it is resolved from. *)
Theorem C03_reduce_canonical : forall s p, reduce s = Some p -> good_path p = true.
Proof. exact reduce_good. Qed.
Print Assumptions C03_reduce_canonical.

(** The string concatenation performed by every view kind composes as component concatenation:
    for ANY base string X, [X ++ "/" ++ canonical r] reduces to [reduce X ++ r], and fails
    exactly when X alone fails (no argument can compensate a climbing base, no base can be
    escaped by an argument). *)
Theorem C03_concat : forall X r, good_path r = true ->
  reduce (X ++ SLASH :: join r) = match reduce X with Some b => Some (b ++ r) | None => None end.
Proof. exact reduce_prefix_join. Qed.
Print Assumptions C03_concat.

(** Path level, all stacks of memfs child views, sub-path views, read-only masks and encrypted
    layers at any nesting depth: a raw argument is rejected, or it addresses [root ++ r] with [r]
    the canonical reduction of the argument. *)
Theorem C03_resolve_confined : forall nn c s p,
  no_cache c = true -> bases_ok c -> resolve nn c s = Some p ->
  exists b r, root_of c = Some b /\ reduce s = Some r /\ good_path r = true /\ p = b ++ r.
Proof. exact resolve_confined. Qed.
Print Assumptions C03_resolve_confined.

Theorem C03_climb_rejected : forall nn c s,
  no_cache c = true -> bases_ok c -> reduce s = None -> resolve nn c s = None.
Proof. exact resolve_climb_rejected. Qed.
Print Assumptions C03_climb_rejected.

(** Every stack that the API can build (Filespace(p), NewSubFS, NewReadonlyFS, NewEncryptFS in
    any order and depth from the root) has well-formed bases, so the theorems apply to it. *)
Theorem C03_api_stacks : forall ks c,
  build [] ks = Some c -> bases_ok c /\ no_cache c = true.
Proof.
  intros ks c H. split.
  - apply (build_bases_ok ks [] c); [exact I|exact H].
  - apply (build_no_cache ks [] c); [reflexivity|exact H].
Qed.
Print Assumptions C03_api_stacks.

(** Tree level: any of the 16 operations, with any raw arguments, through any such stack whose
    root is [b]: a node that is not at or below [b] is untouched; the only thing that can appear
    outside is a directory on the way down to [b]. *)
Theorem C03_confined : forall c t o b q,
  no_cache c = true -> bases_ok c -> WF t -> root_of c = Some b -> is_prefix b q = false ->
  (forall e, lookup t q = Some e -> lookup (fst (chain_step c t o)) q = Some e) /\
  (lookup t q = None -> lookup (fst (chain_step c t o)) q <> None ->
   lookup (fst (chain_step c t o)) q = Some D /\ is_prefix q b = true).
Proof. exact chain_step_outside. Qed.
Print Assumptions C03_confined.

(** A stack whose base climbs out of the backend has no root at all: nothing changes. *)
Theorem C03_no_root_no_effect : forall c t o,
  no_cache c = true -> bases_ok c -> root_of c = None -> fst (chain_step c t o) = t.
Proof. exact chain_step_no_root. Qed.
Print Assumptions C03_no_root_no_effect.

(** The memfs child view, stated directly on its step function (any depth: nested views are
    views with the concatenated base). *)
Theorem C03_memfs_view_confined : forall b t o q,
  WF t -> good_path b = true -> is_prefix b q = false ->
  (forall e, lookup t q = Some e -> lookup (fst (view_step (view_base b) t o)) q = Some e) /\
  (lookup t q = None -> lookup (fst (view_step (view_base b) t o)) q <> None ->
   lookup (fst (view_step (view_base b) t o)) q = Some D /\ is_prefix q b = true).
Proof. exact view_step_outside. Qed.
Print Assumptions C03_memfs_view_confined.

(** The READ half — nothing outside the view can be read or listed: for any of the 16 operations
    with any raw arguments through a memfs child view rooted at [b], the answer and the tree below
    [b] afterwards are functions of the tree below [b] alone.  Two parent trees that agree below
    [b] (and in which [b] is a directory) are indistinguishable through the view, along whole
    histories. *)
Theorem C03_view_noninterference : forall b t1 t2 o, good_path b = true -> agree b t1 t2 ->
  snd (view_step (view_base b) t1 o) = snd (view_step (view_base b) t2 o) /\
  agree b (fst (view_step (view_base b) t1 o)) (fst (view_step (view_base b) t2 o)).
Proof. exact view_noninterference. Qed.
Print Assumptions C03_view_noninterference.

Theorem C03_view_noninterference_history : forall b, good_path b = true -> forall ops t1 t2, agree b t1 t2 ->
  map snd (snd (fold_left (fun acc o => let r := view_step (view_base b) (fst acc) o in (fst r, snd acc ++ [r]))
                          ops (t1, [])))
  = map snd (snd (fold_left (fun acc o => let r := view_step (view_base b) (fst acc) o in (fst r, snd acc ++ [r]))
                            ops (t2, []))).
Proof. exact view_noninterference_history. Qed.
Print Assumptions C03_view_noninterference_history.

Example C03_ex_agree :
  agree [[97]] [([[97]], D); ([[97]; [120]], F [1]); ([[115]], F [9])]
               [([[122]], D); ([[97]], D); ([[97]; [120]], F [1])].
Proof.
  split; [reflexivity|]. split; intros a x H; destruct a as [|n [|m a]]; simpl in H; inversion H; subst; try reflexivity;
    try (destruct a; discriminate).
Qed.

(** ** Stacks that contain write-back caches.
    fscache.Cache does not reduce its arguments, it path.Clean's them (and Cache.Filespace(p)
    hands the uncleaned [p] to fshelper.SubFS).  path.Clean of [X ++ "/" ++ canonical r]
    followed by the reduction below it is [cred X ++ r]: whatever string the layers above a
    cache produce, the canonical part of it survives the cleaning intact. *)
Theorem C03_clean_concat : forall X r, good_path r = true ->
  cred (X ++ SLASH :: join r) = match cred (X ++ [SLASH]) with Some y => Some (y ++ r) | None => None end.
Proof. exact cred_prefix_join. Qed.
Print Assumptions C03_clean_concat.

(** path.Clean is idempotent as far as the reduction below it can tell: a cache directly on a
    cache changes nothing. *)
Theorem C03_clean_idempotent : forall s, cred (clean_path s) = cred s.
Proof. exact cred_clean_path. Qed.
Print Assumptions C03_clean_idempotent.

(** Path level, caches included (any number of them, anywhere): a raw argument is rejected, or
    it addresses [root ++ r] with [r] canonical. *)
Theorem C03_resolve_confined_cache : forall nn c s p,
  bases_ok c -> resolve nn c s = Some p ->
  exists b r, root_of c = Some b /\ red_under c s = Some r /\ good_path r = true /\ p = b ++ r.
Proof. exact resolve_confined_cache. Qed.
Print Assumptions C03_resolve_confined_cache.

(** ... and every stack the API can build with caches in it meets those side conditions. *)
Theorem C03_api_cache_stacks_confined : forall ks c nn s p,
  cbuild [] ks = Some c -> resolve nn c s = Some p ->
  exists b r, root_of c = Some b /\ good_path r = true /\ p = b ++ r.
Proof. exact cbuild_confined. Qed.
Print Assumptions C03_api_cache_stacks_confined.

(* child view of a cache over a child view; the climbing child base is clamped by path.Clean
   only when rooted, and what is left still reduces below the view root or is rejected *)
Example C03_ex_cache_stack :
  exists c, cbuild [] [CK (KChild [97]); CKCache; CK (KChild [47;46;46;47;98])] = Some c /\
            root_of c = Some [[97]; [98]] /\
            resolve true c [120;47;46;46;47;121] = Some [[97]; [98]; [121]] /\
            resolve true c [46;46;47;121] = None /\
            (exists c2, cbuild [] [CK (KChild [97]); CKCache; CK (KChild [46;46;47;98])] = Some c2 /\
                        root_of c2 = None /\ resolve true c2 [121] = None).
Proof. eexists. vm_compute. repeat split. eexists. repeat split. Qed.

(** Non-vacuity. *)
Example C03_ex_stack :
  exists c, build [] [KChild [97]; KNewSub [47;98;47]; KRO; KChild [46;47;99]] = Some c /\
            root_of c = Some [[97]; [98]; [99]] /\
            resolve false c [46;46;47;120] = None /\
            resolve false c [120;47;46;46;47;121] = Some [[97]; [98]; [99]; [121]].
Proof. eexists. vm_compute. repeat split. Qed.
