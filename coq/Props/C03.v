From GC Require Import Common.Base Model.Paths Model.Fs Model.Views Proofs.Fs.
Theorem C03_memfs_view_confined : forall b t o q,
  WF t -> good_path b = true -> is_prefix b q = false ->
  (forall e, lookup t q = Some e -> lookup (fst (view_step (view_base b) t o)) q = Some e) /\
  (lookup t q = None -> lookup (fst (view_step (view_base b) t o)) q <> None ->
   lookup (fst (view_step (view_base b) t o)) q = Some D /\ is_prefix q b = true).
Proof. exact view_step_outside. Qed.
Print Assumptions C03_memfs_view_confined.
