(** C10 — Dependency container: lazy singletons, fixed precedence, safe failure.
    Statements only; every proof is [exact <lemma of Proofs/Di.v>].

    A program is a list of [op]s: the four definition calls and the requests [OGet]/[OInject],
    freely mixed.  [run ops init] is the provider after the program; every theorem quantifies over
    all programs (hence all definition sequences over the name pool in every order, all dependency
    graphs — factories are arbitrary first-order programs — and all request histories). *)
From Coq Require Import Relations Permutation.
From GC Require Import Common.Base Model.Di Proofs.Di.

(** ** Termination: the fuel [#keys + 1] of a request is never exhausted, cycles included. *)
Theorem C10_fuel : forall ops n, snd (Get (run ops init) n) <> GFuel.
Proof. exact fuel_get. Qed.
Print Assumptions C10_fuel.

Theorem C10_fuel_inject : forall ops fs, snd (Inject (run ops init) fs) <> RFuel.
Proof. exact fuel_inject. Qed.
Print Assumptions C10_fuel_inject.

(** ** Lazy: whatever the call [o] made after whatever program, the run counter of [m] moves only
    if [o] is a request, one of the names it asks for (transitively) depends on [m] in the current
    definition set, and [m] has no instance yet.  In particular no definition call runs a factory. *)
Theorem C10_lazy : forall ops o m, let s := run ops init in
  runs (fst (step s o)) m <> runs s m ->
  inst (block s) m = None /\
  exists r, In r (roots o) /\ clos_refl_trans name (edge (eff s)) r m.
Proof. exact lazy. Qed.
Print Assumptions C10_lazy.

(** ** Once + same instance: once [Get n] has succeeded with [t], after any further program
    [Get n] returns [t] again without changing the state, the factory of [n] has not run again
    and [t] is still the stored instance. *)
Theorem C10_once_same_instance : forall ops n s1 t ops',
  Get (run ops init) n = (s1, GOk t) ->
  let s2 := run ops' s1 in
  Get s2 n = (s2, GOk t) /\ runs s2 n = runs s1 n /\ inst s2 n = Some t.
Proof. exact same_instance. Qed.
Print Assumptions C10_once_same_instance.

(** ... and a tagged field for [n] (required or optional) of any later InjectTo receives [t]. *)
Theorem C10_inject_same_instance : forall ops n s1 t ops' o fs,
  Get (run ops init) n = (s1, GOk t) ->
  let s2 := run ops' s1 in
  Inject s2 ((n, o) :: fs) = let '(s3, l, rr) := Inject s2 fs in (s3, Some t :: l, rr).
Proof. exact inject_same_instance. Qed.
Print Assumptions C10_inject_same_instance.

(** A product built by this very request carries the construction number = the run counter. *)
Theorem C10_fresh_token : forall ops n s1 t, let s := run ops init in
  Get s n = (s1, GOk t) -> inst (block s) n = None ->
  t_num t = runs s1 n /\ runs s1 n = N.succ (runs s n) /\ t_name t = n.
Proof. exact fresh_token. Qed.
Print Assumptions C10_fresh_token.

(** ** InjectTo = the sequence of Gets for the tagged fields, in declaration order, stopping at
    the first required failure; an optional failure leaves the field untouched. *)
Theorem C10_inject_nil : forall s, Inject s [] = (s, [], ROk).
Proof. exact Inject_nil. Qed.
Print Assumptions C10_inject_nil.

Theorem C10_inject_cons : forall ops d o fs, let s := run ops init in
  Inject s ((d, o) :: fs) =
  let (s1, r) := Get s d in
  match r with
  | GOk t => let '(s2, l, rr) := Inject s1 fs in (s2, Some t :: l, rr)
  | GErr => if o then let '(s2, l, rr) := Inject s1 fs in (s2, None :: l, rr) else (s1, [], RErr)
  | GFuel => (s1, [], RFuel)
  end.
Proof. exact inject_cons. Qed.
Print Assumptions C10_inject_cons.

(** ** Explicit beats default, whatever the registration order: if anywhere in a program an explicit
    definition call for [n] (Set / AddFactory) was accepted, then — whatever was registered before
    ([ops1]) and whatever calls, default definitions of [n] included, and requests come after
    ([ops2]) — a successful [Get n] yields an instance made by an explicit definition. *)
Theorem C10_explicit_beats_default : forall ops1 d ops2 n s' t,
  explicit_def_on d n = true -> snd (step (run ops1 init) d) = UDef true ->
  Get (run (ops1 ++ d :: ops2) init) n = (s', GOk t) -> explicit_kind (t_kind t) = true.
Proof. exact explicit_beats_default. Qed.
Print Assumptions C10_explicit_beats_default.

(** Registration order in general: two definition sequences that consist of the same calls, all
    accepted in both orders, yield the same effective definition set, hence (after any histories
    [reqs], [reqs']) the same outcome class and the same producer for every name.  (Which calls
    are ACCEPTED does depend on the order — AddFactory-then-Set is refused, Set-then-AddFactory is
    not — that is outside the property; explicit-vs-default is covered, unconditionally, above.) *)
Theorem C10_order_independent : forall ds ds', Permutation ds ds' ->
  all_ok ds init = true -> all_ok ds' init = true ->
  forall n, eff (run ds init) n = eff (run ds' init) n.
Proof. exact order_independent. Qed.
Print Assumptions C10_order_independent.

Theorem C10_order_independent_outcome : forall ds ds' reqs reqs' n, Permutation ds ds' ->
  all_ok ds init = true -> all_ok ds' init = true ->
  let r := snd (Get (run reqs (block (run ds init))) n) in
  let r' := snd (Get (run reqs' (block (run ds' init))) n) in
  is_ok r = is_ok r' /\ forall t t', r = GOk t -> r' = GOk t' -> tok_source t = tok_source t'.
Proof. exact order_independent_outcome. Qed.
Print Assumptions C10_order_independent_outcome.

(** ** Frozen: after a program that contains a Get, or an InjectTo with a tagged field, every
    definition call is refused and changes nothing. *)
Theorem C10_frozen : forall ops1 rq ops2 o, freezes rq = true -> is_def o = true ->
  let s := run (ops1 ++ rq :: ops2) init in step s o = (s, UDef false).
Proof. exact frozen. Qed.
Print Assumptions C10_frozen.

(** ** A cycle of required dependencies through [n] makes [Get n] an error (not a loop: by
    [C10_fuel] the recursion ends; here: the answer is [GErr], neither [GOk] nor [GFuel]). *)
Theorem C10_cycle_is_error : forall ops n, let s := run ops init in
  clos_trans name (req_edge (eff s)) n n -> snd (Get s n) = GErr.
Proof. exact cycle_err. Qed.
Print Assumptions C10_cycle_is_error.

(** ** History independence.  [Good D [] n] is the memo-free depth-first resolution of [n] over the
    definition set [D] with precedence explicit instance > explicit factory > default instance >
    default factory ([eff]) and a visiting set.  After the definitions [ops] are frozen and after
    ANY further program [reqs] (requests that failed, hit cycles, skipped optional dependencies,
    refused definition calls ...), [Get n] succeeds iff that resolution succeeds, and the instance
    was made by the definition the precedence order selects. *)
Theorem C10_get_refines_resolve : forall ops reqs n, let s0 := run ops init in
  match snd (Get (run reqs (block s0)) n) with
  | GOk t => Good (eff s0) [] n /\ source (eff s0) n = Some (tok_source t)
  | GErr => ~ Good (eff s0) [] n
  | GFuel => False
  end.
Proof. exact refines. Qed.
Print Assumptions C10_get_refines_resolve.

(** Hence: same outcome class, same producer as when [n] is the first request. *)
Theorem C10_history_independent : forall ops reqs n, let s0 := run ops init in
  let r1 := snd (Get (run reqs (block s0)) n) in
  let r0 := snd (Get s0 n) in
  is_ok r1 = is_ok r0 /\
  forall t1 t0, r1 = GOk t1 -> r0 = GOk t0 -> tok_source t1 = tok_source t0.
Proof. exact history_independent. Qed.
Print Assumptions C10_history_independent.

(** The specification is executable. *)
Theorem C10_resolveb_iff : forall D vis n, Good D vis n <-> exists f, resolveb f D vis n = true.
Proof. exact resolveb_iff. Qed.
Print Assumptions C10_resolveb_iff.

(** ** Finding (not covered by the outcome-level statements above, which hold): the CONTENT of a
    singleton depends on the request order when a cycle runs through two optional edges.
    n3 ?-> n0, n0 ?-> n1, n1 -> n3.  All Gets succeed in every order; but if n0 is requested first
    its optional field n1 is filled, if n3 is requested first n0 is built while n1 is unresolvable
    (cycle through n3), its field stays empty forever although [Get n1] succeeds afterwards.
    An optional-and-missing resolution thus changes what a later request observes inside the
    instance it gets.  Replayed on the implementation by the harness (scenario "wiring"). *)
Theorem C10_wiring_history_dependent_refuted :
  let s0 := run wiring_pgm init in
  let sa := fst (Get s0 0) in
  let sd := fst (Get (fst (Get s0 3)) 0) in
  is_ok (snd (Get s0 0)) = true /\ is_ok (snd (Get (fst (Get s0 3)) 0)) = true /\
  is_ok (snd (Get sa 1)) = true /\ is_ok (snd (Get sd 1)) = true /\
  wire sa 0 = [Some (mkTok 1 KFac 3 1)] /\ wire sd 0 = [None] /\
  wire (run [OGet 1; OGet 0; OGet 3] sd) 0 = [None].
Proof. exact wiring_depends_on_order. Qed.
Print Assumptions C10_wiring_history_dependent_refuted.

(** ** Non-vacuity: concrete programs meeting the hypotheses. *)

Definition fA := mkProg [(1, true)] false false.          (* n0 ?-> n1 *)
Definition fB := mkProg [(0, false)] false false.         (* n1 -> n0 *)
Definition pgm := [OAddFactory 0 1 fA; OAddFactory 1 2 fB].

(* 2-cycle with an optional edge: both succeed, whichever is asked first *)
Example ex_cycle_opt_AB :
  map (fun x => fst (fst x)) (run_obs [0;1] (pgm ++ [OGet 0; OGet 1; OGet 0]) init)
  = [UDef true; UDef true; UGet (GOk (mkTok 0 KFac 1 1)); UGet (GOk (mkTok 1 KFac 2 2));
     UGet (GOk (mkTok 0 KFac 1 1))].
Proof. vm_compute. reflexivity. Qed.

Example ex_cycle_opt_BA :
  map (fun x => fst (fst x)) (run_obs [0;1] (pgm ++ [OGet 1; OGet 0]) init)
  = [UDef true; UDef true; UGet (GOk (mkTok 1 KFac 2 1)); UGet (GOk (mkTok 0 KFac 1 1))].
Proof. vm_compute. reflexivity. Qed.

(* hypothesis of C10_once_same_instance / C10_inject_same_instance *)
Example ex_same_instance : exists s1, Get (run pgm init) 0 = (s1, GOk (mkTok 0 KFac 1 1)).
Proof. eexists. vm_compute. reflexivity. Qed.

(* hypothesis of C10_lazy: the Get of n1 runs n0's factory *)
Example ex_lazy : let s := run pgm init in runs (fst (step s (OGet 1))) 0 <> runs s 0.
Proof. vm_compute. discriminate. Qed.

(* hypotheses of C10_explicit_beats_default: defaults registered before and after *)
Example ex_explicit :
  let ops1 := [OSetDefault 0 7; OAddDefaultFactory 1 8 fB] in
  let d := OAddFactory 0 1 (mkProg [] false false) in
  let ops2 := [OAddDefaultFactory 0 9 fA; OSetDefault 1 3] in
  explicit_def_on d 0 = true /\ snd (step (run ops1 init) d) = UDef true /\
  snd (Get (run (ops1 ++ d :: ops2) init) 0) = GOk (mkTok 0 KFac 1 1).
Proof. vm_compute. repeat split. Qed.

(* without the explicit call the default instance is served *)
Example ex_default :
  snd (Get (run [OSetDefault 0 7; OAddDefaultFactory 0 9 fA] init) 0) = GOk (mkTok 0 KDef 7 0).
Proof. vm_compute. reflexivity. Qed.

(* hypothesis of C10_cycle_is_error: a 3-cycle *)
Definition ring3 := [OAddFactory 0 1 (mkProg [(1, false)] false false);
                     OAddDefaultFactory 1 2 (mkProg [(5, true); (2, false)] false false);
                     OAddFactory 2 3 (mkProg [(0, false)] false false)].
Example ex_cycle : clos_trans name (req_edge (eff (run ring3 init))) 0 0.
Proof.
  apply t_trans with 1; [|apply t_trans with 2]; apply t_step.
  - exists KFac, 1, (mkProg [(1, false)] false false). split; [reflexivity | left; reflexivity].
  - exists KDFac, 2, (mkProg [(5, true); (2, false)] false false). split; [reflexivity | right; left; reflexivity].
  - exists KFac, 3, (mkProg [(0, false)] false false). split; [reflexivity | left; reflexivity].
Qed.
Example ex_cycle_err : snd (Get (run ring3 init) 0) = GErr /\ snd (Get (run (ring3 ++ [OGet 0; OGet 1]) init) 2) = GErr.
Proof. vm_compute. split; reflexivity. Qed.

(* both branches of C10_get_refines_resolve occur; a failing factory re-run on every request *)
Example ex_refines :
  let ops := [OAddFactory 0 1 (mkProg [(1, true)] false false); OAddFactory 1 2 (mkProg [] true false)] in
  map (fun x => (fst (fst x), snd (fst x))) (run_obs [0;1] (ops ++ [OGet 0; OGet 1; OGet 0; OGet 1; OSet 3 3]) init)
  = [(UDef true, [0;0]); (UDef true, [0;0]); (UGet (GOk (mkTok 0 KFac 1 1)), [1;1]); (UGet GErr, [1;2]);
     (UGet (GOk (mkTok 0 KFac 1 1)), [1;2]); (UGet GErr, [1;3]); (UDef false, [1;3])]
  /\ resolveb 5 (eff (run ops init)) [] 0 = true /\ resolveb 5 (eff (run ops init)) [] 1 = false.
Proof. vm_compute. repeat split. Qed.

(* C10_frozen hypotheses are plain booleans *)
Example ex_freezes : freezes (OGet 3) = true /\ freezes (OInject [(1, true)]) = true /\ freezes (OInject []) = false.
Proof. repeat split. Qed.

(* hypotheses of C10_order_independent: default factory, explicit factory, default instance of the
   same name, registered in two orders, all accepted in both *)
Example ex_order :
  let a := OAddDefaultFactory 0 1 fA in let b := OAddFactory 0 2 fB in let c := OSetDefault 0 3 in
  let d := OSet 1 4 in
  Permutation [a; b; c; d] [d; c; b; a] /\
  all_ok [a; b; c; d] init = true /\ all_ok [d; c; b; a] init = true.
Proof.
  cbv zeta. split; [|vm_compute; split; reflexivity].
  exact (Permutation_rev [OAddDefaultFactory 0 1 fA; OAddFactory 0 2 fB; OSetDefault 0 3; OSet 1 4]).
Qed.
