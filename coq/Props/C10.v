(** C10 — Dependency container: lazy singletons, fixed precedence, safe failure.
    Statements only; every proof is [exact <lemma of Proofs/Di.v>].

    A program is a list of [op]s: the four definition calls and the requests [OGet]/[OInject],
    freely mixed.  [run ops init] is the provider after the program; every theorem quantifies over
    all programs (hence all definition sequences over the name pool in every order, all dependency
    graphs — factories are arbitrary first-order programs — and all request histories). *)
From Coq Require Import Relations Permutation.
From GC Require Import Common.Base Model.Di Proofs.Di Proofs.DiMore.

(** ** Termination: the fuel [#keys + 1] of a request is never exhausted, cycles included. *)
Theorem C10_fuel : forall ops n, snd (Get (run ops init) n) <> GFuel.
Proof. exact fuel_get. Qed.
Print Assumptions C10_fuel.

Theorem C10_fuel_inject : forall ops fs, snd (Inject (run ops init) fs) <> RFuel.
Proof. exact fuel_inject. Qed.
Print Assumptions C10_fuel_inject.

(** ** Lazy: whatever the call [o] made after whatever program, the run counter of [m] moves only
    if [o] is a request, one of the names it asks for (transitively) depends on [m] in the current
    definition set, and [m] has no instance yet.  In particular no definition call runs a factory. *)
Theorem C10_lazy : forall ops o m, let s := run ops init in
  runs (fst (step s o)) m <> runs s m ->
  inst (block s) m = None /\
  exists r, In r (roots o) /\ clos_refl_trans name (edge (eff s)) r m.
Proof. exact lazy. Qed.
Print Assumptions C10_lazy.

(** ** Once + same instance: once [Get n] has succeeded with [t], after any further program
    [Get n] returns [t] again without changing the state, the factory of [n] has not run again
    and [t] is still the stored instance. *)
Theorem C10_once_same_instance : forall ops n s1 t ops',
  Get (run ops init) n = (s1, GOk t) ->
  let s2 := run ops' s1 in
  Get s2 n = (s2, GOk t) /\ runs s2 n = runs s1 n /\ inst s2 n = Some t.
Proof. exact same_instance. Qed.
Print Assumptions C10_once_same_instance.

(** ... and a tagged field for [n] (required or optional) of any later InjectTo receives [t]. *)
Theorem C10_inject_same_instance : forall ops n s1 t ops' o fs,
  Get (run ops init) n = (s1, GOk t) ->
  let s2 := run ops' s1 in
  Inject s2 ((n, o) :: fs) = let '(s3, l, rr) := Inject s2 fs in (s3, Some t :: l, rr).
Proof. exact inject_same_instance. Qed.
Print Assumptions C10_inject_same_instance.

(** A product built by this very request carries the construction number = the run counter. *)
Theorem C10_fresh_token : forall ops n s1 t, let s := run ops init in
  Get s n = (s1, GOk t) -> inst (block s) n = None ->
  t_num t = runs s1 n /\ runs s1 n = N.succ (runs s n) /\ t_name t = n.
Proof. exact fresh_token. Qed.
Print Assumptions C10_fresh_token.

(** ** InjectTo = the sequence of Gets for the tagged fields, in declaration order, stopping at
    the first required failure; an optional failure leaves the field untouched. *)
Theorem C10_inject_nil : forall s, Inject s [] = (s, [], ROk).
Proof. exact Inject_nil. Qed.
Print Assumptions C10_inject_nil.

Theorem C10_inject_cons : forall ops d o fs, let s := run ops init in
  Inject s ((d, o) :: fs) =
  let (s1, r) := Get s d in
  match r with
  | GOk t => let '(s2, l, rr) := Inject s1 fs in (s2, Some t :: l, rr)
  | GErr => if o then let '(s2, l, rr) := Inject s1 fs in (s2, None :: l, rr) else (s1, [], RErr)
  | GFuel => (s1, [], RFuel)
  end.
Proof. exact inject_cons. Qed.
Print Assumptions C10_inject_cons.

(** ** Explicit beats default, whatever the registration order: if anywhere in a program an explicit
    definition call for [n] (Set / AddFactory) was accepted, then — whatever was registered before
    ([ops1]) and whatever calls, default definitions of [n] included, and requests come after
    ([ops2]) — a successful [Get n] yields an instance made by an explicit definition. *)
Theorem C10_explicit_beats_default : forall ops1 d ops2 n s' t,
  explicit_def_on d n = true -> snd (step (run ops1 init) d) = UDef true ->
  Get (run (ops1 ++ d :: ops2) init) n = (s', GOk t) -> explicit_kind (t_kind t) = true.
Proof. exact explicit_beats_default. Qed.
Print Assumptions C10_explicit_beats_default.

(** Registration order in general: two definition sequences that consist of the same calls, all
    accepted in both orders, yield the same effective definition set, hence (after any histories
    [reqs], [reqs']) the same outcome class and the same producer for every name.  (Which calls
    are ACCEPTED does depend on the order — AddFactory-then-Set is refused, Set-then-AddFactory is
    not — that is outside the property; explicit-vs-default is covered, unconditionally, above.) *)
Theorem C10_order_independent : forall ds ds', Permutation ds ds' ->
  all_ok ds init = true -> all_ok ds' init = true ->
  forall n, eff (run ds init) n = eff (run ds' init) n.
Proof. exact order_independent. Qed.
Print Assumptions C10_order_independent.

Theorem C10_order_independent_outcome : forall ds ds' reqs reqs' n, Permutation ds ds' ->
  all_ok ds init = true -> all_ok ds' init = true ->
  let r := snd (Get (run reqs (block (run ds init))) n) in
  let r' := snd (Get (run reqs' (block (run ds' init))) n) in
  is_ok r = is_ok r' /\ forall t t', r = GOk t -> r' = GOk t' -> tok_source t = tok_source t'.
Proof. exact order_independent_outcome. Qed.
Print Assumptions C10_order_independent_outcome.

(** ** Frozen: after a program that contains a Get, or an InjectTo with a tagged field, every
    definition call is refused and changes nothing. *)
Theorem C10_frozen : forall ops1 rq ops2 o, freezes rq = true -> is_def o = true ->
  let s := run (ops1 ++ rq :: ops2) init in step s o = (s, UDef false).
Proof. exact frozen. Qed.
Print Assumptions C10_frozen.

(** ** A cycle of required dependencies through [n] makes [Get n] an error (not a loop: by
    [C10_fuel] the recursion ends; here: the answer is [GErr], neither [GOk] nor [GFuel]). *)
Theorem C10_cycle_is_error : forall ops n, let s := run ops init in
  clos_trans name (req_edge (eff s)) n n -> snd (Get s n) = GErr.
Proof. exact cycle_err. Qed.
Print Assumptions C10_cycle_is_error.

(** ** History independence.  [Good D [] n] is the memo-free depth-first resolution of [n] over the
    definition set [D] with precedence explicit instance > explicit factory > default instance >
    default factory ([eff]) and a visiting set.  After the definitions [ops] are frozen and after
    ANY further program [reqs] (requests that failed, hit cycles, skipped optional dependencies,
    refused definition calls ...), [Get n] succeeds iff that resolution succeeds, and the instance
    was made by the definition the precedence order selects. *)
Theorem C10_get_refines_resolve : forall ops reqs n, let s0 := run ops init in
  match snd (Get (run reqs (block s0)) n) with
  | GOk t => Good (eff s0) [] n /\ source (eff s0) n = Some (tok_source t)
  | GErr => ~ Good (eff s0) [] n
  | GFuel => False
  end.
Proof. exact refines. Qed.
Print Assumptions C10_get_refines_resolve.

(** Hence: same outcome class, same producer as when [n] is the first request. *)
Theorem C10_history_independent : forall ops reqs n, let s0 := run ops init in
  let r1 := snd (Get (run reqs (block s0)) n) in
  let r0 := snd (Get s0 n) in
  is_ok r1 = is_ok r0 /\
  forall t1 t0, r1 = GOk t1 -> r0 = GOk t0 -> tok_source t1 = tok_source t0.
Proof. exact history_independent. Qed.
Print Assumptions C10_history_independent.

(** The specification is executable. *)
Theorem C10_resolveb_iff : forall D vis n, Good D vis n <-> exists f, resolveb f D vis n = true.
Proof. exact resolveb_iff. Qed.
Print Assumptions C10_resolveb_iff.

(** ** Finding (not covered by the outcome-level statements above, which hold): the CONTENT of a
    singleton depends on the request order when a cycle runs through two optional edges.
    n3 ?-> n0, n0 ?-> n1, n1 -> n3.  All Gets succeed in every order; but if n0 is requested first
    its optional field n1 is filled, if n3 is requested first n0 is built while n1 is unresolvable
    (cycle through n3), its field stays empty forever although [Get n1] succeeds afterwards.
    An optional-and-missing resolution thus changes what a later request observes inside the
    instance it gets.  Replayed on the implementation by the harness (scenario "wiring"). *)
Theorem C10_wiring_history_dependent_refuted :
  let s0 := run wiring_pgm init in
  let sa := fst (Get s0 0) in
  let sd := fst (Get (fst (Get s0 3)) 0) in
  is_ok (snd (Get s0 0)) = true /\ is_ok (snd (Get (fst (Get s0 3)) 0)) = true /\
  is_ok (snd (Get sa 1)) = true /\ is_ok (snd (Get sd 1)) = true /\
  wire sa 0 = [Some (mkTok 1 KFac 3 1)] /\ wire sd 0 = [None] /\
  wire (run [OGet 1; OGet 0; OGet 3] sd) 0 = [None].
Proof. exact wiring_depends_on_order. Qed.
Print Assumptions C10_wiring_history_dependent_refuted.

(** ** Non-vacuity: concrete programs meeting the hypotheses. *)

Definition fA := mkProg [(1, true)] false false.          (* n0 ?-> n1 *)
Definition fB := mkProg [(0, false)] false false.         (* n1 -> n0 *)
Definition pgm := [OAddFactory 0 1 fA; OAddFactory 1 2 fB].

(* 2-cycle with an optional edge: both succeed, whichever is asked first *)
Example ex_cycle_opt_AB :
  map (fun x => fst (fst x)) (run_obs [0;1] (pgm ++ [OGet 0; OGet 1; OGet 0]) init)
  = [UDef true; UDef true; UGet (GOk (mkTok 0 KFac 1 1)); UGet (GOk (mkTok 1 KFac 2 2));
     UGet (GOk (mkTok 0 KFac 1 1))].
Proof. vm_compute. reflexivity. Qed.

Example ex_cycle_opt_BA :
  map (fun x => fst (fst x)) (run_obs [0;1] (pgm ++ [OGet 1; OGet 0]) init)
  = [UDef true; UDef true; UGet (GOk (mkTok 1 KFac 2 1)); UGet (GOk (mkTok 0 KFac 1 1))].
Proof. vm_compute. reflexivity. Qed.

(* hypothesis of C10_once_same_instance / C10_inject_same_instance *)
Example ex_same_instance : exists s1, Get (run pgm init) 0 = (s1, GOk (mkTok 0 KFac 1 1)).
Proof. eexists. vm_compute. reflexivity. Qed.

(* hypothesis of C10_lazy: the Get of n1 runs n0's factory *)
Example ex_lazy : let s := run pgm init in runs (fst (step s (OGet 1))) 0 <> runs s 0.
Proof. vm_compute. discriminate. Qed.

(* hypotheses of C10_explicit_beats_default: defaults registered before and after *)
Example ex_explicit :
  let ops1 := [OSetDefault 0 7; OAddDefaultFactory 1 8 fB] in
  let d := OAddFactory 0 1 (mkProg [] false false) in
  let ops2 := [OAddDefaultFactory 0 9 fA; OSetDefault 1 3] in
  explicit_def_on d 0 = true /\ snd (step (run ops1 init) d) = UDef true /\
  snd (Get (run (ops1 ++ d :: ops2) init) 0) = GOk (mkTok 0 KFac 1 1).
Proof. vm_compute. repeat split. Qed.

(* without the explicit call the default instance is served *)
Example ex_default :
  snd (Get (run [OSetDefault 0 7; OAddDefaultFactory 0 9 fA] init) 0) = GOk (mkTok 0 KDef 7 0).
Proof. vm_compute. reflexivity. Qed.

(* hypothesis of C10_cycle_is_error: a 3-cycle *)
Definition ring3 := [OAddFactory 0 1 (mkProg [(1, false)] false false);
                     OAddDefaultFactory 1 2 (mkProg [(5, true); (2, false)] false false);
                     OAddFactory 2 3 (mkProg [(0, false)] false false)].
Example ex_cycle : clos_trans name (req_edge (eff (run ring3 init))) 0 0.
Proof.
  apply t_trans with 1; [|apply t_trans with 2]; apply t_step.
  - exists KFac, 1, (mkProg [(1, false)] false false). split; [reflexivity | left; reflexivity].
  - exists KDFac, 2, (mkProg [(5, true); (2, false)] false false). split; [reflexivity | right; left; reflexivity].
  - exists KFac, 3, (mkProg [(0, false)] false false). split; [reflexivity | left; reflexivity].
Qed.
Example ex_cycle_err : snd (Get (run ring3 init) 0) = GErr /\ snd (Get (run (ring3 ++ [OGet 0; OGet 1]) init) 2) = GErr.
Proof. vm_compute. split; reflexivity. Qed.

(* both branches of C10_get_refines_resolve occur; a failing factory re-run on every request *)
Example ex_refines :
  let ops := [OAddFactory 0 1 (mkProg [(1, true)] false false); OAddFactory 1 2 (mkProg [] true false)] in
  map (fun x => (fst (fst x), snd (fst x))) (run_obs [0;1] (ops ++ [OGet 0; OGet 1; OGet 0; OGet 1; OSet 3 3]) init)
  = [(UDef true, [0;0]); (UDef true, [0;0]); (UGet (GOk (mkTok 0 KFac 1 1)), [1;1]); (UGet GErr, [1;2]);
     (UGet (GOk (mkTok 0 KFac 1 1)), [1;2]); (UGet GErr, [1;3]); (UDef false, [1;3])]
  /\ resolveb 5 (eff (run ops init)) [] 0 = true /\ resolveb 5 (eff (run ops init)) [] 1 = false.
Proof. vm_compute. repeat split. Qed.

(* C10_frozen hypotheses are plain booleans *)
Example ex_freezes : freezes (OGet 3) = true /\ freezes (OInject [(1, true)]) = true /\ freezes (OInject []) = false.
Proof. repeat split. Qed.

(* hypotheses of C10_order_independent: default factory, explicit factory, default instance of the
   same name, registered in two orders, all accepted in both *)
Example ex_order :
  let a := OAddDefaultFactory 0 1 fA in let b := OAddFactory 0 2 fB in let c := OSetDefault 0 3 in
  let d := OSet 1 4 in
  Permutation [a; b; c; d] [d; c; b; a] /\
  all_ok [a; b; c; d] init = true /\ all_ok [d; c; b; a] init = true.
Proof.
  cbv zeta. split; [|vm_compute; split; reflexivity].
  exact (Permutation_rev [OAddDefaultFactory 0 1 fA; OAddFactory 0 2 fB; OSetDefault 0 3; OSet 1 4]).
Qed.

(** * Proof audit: the clauses stated only partially above, at full strength (Proofs/DiMore.v)

    [nofreeze o] = [o] is a definition call or an InjectTo without tagged fields (nothing that
    resolves); [def_prefix ops] = the calls of a program made before its first resolution;
    [spec_eff ds n] = the definition asked for by the FIRST explicit call for [n] in [ds] (Set /
    AddFactory), if there is none by the first default call for [n] (SetDefault /
    AddDefaultFactory), else none. *)

(** ** Precedence, every order, no acceptance hypothesis (supersedes [C10_order_independent], which
    needs every call accepted in both orders): whatever calls are made in whatever order, accepted
    or refused, the effective definition set is the closed form - explicit before default, and
    within a class the first call wins. *)
Theorem C10_first_definition_wins : forall ds n,
  forallb nofreeze ds = true -> eff (run ds init) n = spec_eff ds n.
Proof. exact first_wins. Qed.
Print Assumptions C10_first_definition_wins.

(** ... hence for EVERY program (definition calls and requests freely mixed, refused calls, failed
    requests, cycles): the outcome of a request is the memo-free resolution over the closed form of
    the calls made before the first resolution, and the instance comes from the producer it names.
    (Supersedes [C10_get_refines_resolve] in that the definition set is given in closed form.) *)
Theorem C10_get_decided_by_first_definitions : forall ops n,
  let D := spec_eff (def_prefix ops) in
  match snd (Get (run ops init) n) with
  | GOk t => Good D [] n /\ source D n = Some (tok_source t)
  | GErr => ~ Good D [] n
  | GFuel => False
  end.
Proof. exact get_first_wins_expanded. Qed.
Print Assumptions C10_get_decided_by_first_definitions.

(** Explicit beats default, full strength (supersedes [C10_explicit_beats_default], which asks for
    an ACCEPTED explicit call): if the calls before the first resolution contain any explicit call
    for [n] - accepted or refused, before or after any default calls - a successful request for [n]
    yields an explicitly defined instance. *)
Theorem C10_explicit_wins_always : forall ops d n s' t,
  In d (def_prefix ops) -> explicit_def_on d n = true ->
  Get (run ops init) n = (s', GOk t) -> explicit_kind (t_kind t) = true.
Proof. exact explicit_wins_always. Qed.
Print Assumptions C10_explicit_wins_always.

(** Default calls never matter for a name with an explicit call: two call sequences whose explicit
    calls for [n] agree (same calls, same relative order) define [n] alike, by the first of them -
    whatever else differs (default calls for [n] added, removed, moved; other names). *)
Theorem C10_defaults_never_matter : forall ds ds' n,
  forallb nofreeze ds = true -> forallb nofreeze ds' = true ->
  filter (fun o => explicit_def_on o n) ds = filter (fun o => explicit_def_on o n) ds' ->
  filter (fun o => explicit_def_on o n) ds <> [] ->
  eff (run ds init) n = eff (run ds' init) n /\
  exists d, hd_error (filter (fun o => explicit_def_on o n) ds) = Some d /\
            eff (run ds init) n = def_of d.
Proof. exact defaults_never_matter. Qed.
Print Assumptions C10_defaults_never_matter.

(** What is NOT order independent (the full permutation statement is false): among the explicit
    calls for one name the first wins.  Set-then-AddFactory serves the value (the accepted factory
    is dead), AddFactory-then-Set refuses the Set and serves the factory product. *)
Theorem C10_explicit_order_matters_refuted :
  let a := OSet 0 5 in let b := OAddFactory 0 6 (mkProg [] false false) in
  Permutation [a; b] [b; a] /\
  map (fun x => fst (fst x)) (run_obs [0] [a; b; OGet 0] init)
    = [UDef true; UDef true; UGet (GOk (mkTok 0 KInst 5 0))] /\
  map (fun x => fst (fst x)) (run_obs [0] [b; a; OGet 0] init)
    = [UDef true; UDef false; UGet (GOk (mkTok 0 KFac 6 1))].
Proof. exact explicit_order_matters. Qed.
Print Assumptions C10_explicit_order_matters_refuted.

(** ** InjectTo, functional and history independent: from every reachable state InjectTo answers
    what [InjSpec] says over the definition set - fields in declaration order, a resolvable field
    filled from the producer the precedence order selects, an unresolvable optional field left
    alone, the first unresolvable required field ends the call and nothing after it is touched. *)
Theorem C10_inject_refines_resolve : forall ops reqs fs, let s0 := run ops init in
  InjSpec (eff s0) fs (srcs (snd (fst (Inject (run reqs (block s0)) fs))))
          (snd (Inject (run reqs (block s0)) fs)).
Proof. exact inject_refines. Qed.
Print Assumptions C10_inject_refines_resolve.

Theorem C10_inject_history_independent : forall ops reqs reqs' fs, let s0 := run ops init in
  let a := Inject (run reqs (block s0)) fs in let b := Inject (run reqs' (block s0)) fs in
  srcs (snd (fst a)) = srcs (snd (fst b)) /\ snd a = snd b.
Proof. exact inject_history_independent. Qed.
Print Assumptions C10_inject_history_independent.

Theorem C10_inject_decided_by_first_definitions : forall ops fs,
  let a := Inject (run ops init) fs in
  InjSpec (spec_eff (def_prefix ops)) fs (srcs (snd (fst a))) (snd a).
Proof. exact inject_first_wins. Qed.
Print Assumptions C10_inject_decided_by_first_definitions.

(** ** Once + same instance, whatever the origin of the instance (supersedes
    [C10_once_same_instance], which starts from a successful direct Get): an instance present in
    any reachable state - a Set value, a default folded in at the freeze, a product made for a
    direct request, for an InjectTo field or as a dependency of another factory - is what every
    request returns after any further program, and the factories of its name never run again. *)
Theorem C10_instance_forever : forall ops n t ops', let s := run ops init in
  inst s n = Some t ->
  let s2 := run ops' s in
  Get s2 n = (block s2, GOk t) /\ runs s2 n = runs s n /\ inst s2 n = Some t.
Proof. exact instance_forever. Qed.
Print Assumptions C10_instance_forever.

(** The run counter of a name that has an instance IS the construction number of that instance
    (0 for values): in every reachable state the successful run was the last run of that name. *)
Theorem C10_run_counter_is_construction_number : forall ops n t,
  inst (run ops init) n = Some t -> t_num t = runs (run ops init) n /\ t_name t = n.
Proof. exact token_invariant. Qed.
Print Assumptions C10_run_counter_is_construction_number.

(** A field filled by ANY InjectTo holds the singleton of the field's name: every later request
    returns that very instance (no earlier Get needed, cf. [C10_inject_same_instance]). *)
Theorem C10_inject_field_is_singleton : forall ops fs s' l r d t ops',
  Inject (run ops init) fs = (s', l, r) -> In (d, Some t) (combine (map fst fs) l) ->
  let s2 := run ops' s' in
  Get s2 d = (block s2, GOk t) /\ runs s2 d = runs s' d /\ inst s2 d = Some t /\ t_name t = d.
Proof. exact inject_field_singleton. Qed.
Print Assumptions C10_inject_field_is_singleton.

(** ... and so does every field of every factory product: a token recorded in the fields of the
    instance of [n] (what the factory of [n] got from the provider) is the singleton of its name.
    (The fields left EMPTY are the history-dependent part, see
    [C10_wiring_history_dependent_refuted].) *)
Theorem C10_factory_fields_are_singletons : forall ops n t' ops', let s := run ops init in
  In (Some t') (wire s n) ->
  let s2 := run ops' s in
  Get s2 (t_name t') = (block s2, GOk t') /\ runs s2 (t_name t') = runs s (t_name t') /\
  inst s (t_name t') = Some t'.
Proof. exact wire_singleton. Qed.
Print Assumptions C10_factory_fields_are_singletons.

(** ** Lazy, the functional half ([C10_lazy] is the only-if half): a request for a name whose
    effective definition is a factory runs that factory, exactly once within the request, whether
    the request succeeds or fails. *)
Theorem C10_first_need_runs_once : forall ops n k id p, let s := run ops init in
  eff s n = Some (EFac k id p) -> runs (fst (Get s n)) n = N.succ (runs s n).
Proof. exact first_need_runs_once. Qed.
Print Assumptions C10_first_need_runs_once.

(** ** Cycles, full reach (supersedes [C10_cycle_is_error], the case m = n): every name that
    requires, through required edges, a name on a required cycle is an error, for Get and for a
    tagged field of InjectTo (a required field ends the call there, an optional one is skipped). *)
Theorem C10_cycle_reach_is_error : forall ops n m, let s := run ops init in
  clos_refl_trans name (req_edge (eff s)) n m -> clos_trans name (req_edge (eff s)) m m ->
  snd (Get s n) = GErr.
Proof. exact cycle_reach_err. Qed.
Print Assumptions C10_cycle_reach_is_error.

Theorem C10_cycle_reach_inject : forall ops n m o fs, let s := run ops init in
  clos_refl_trans name (req_edge (eff s)) n m -> clos_trans name (req_edge (eff s)) m m ->
  Inject s ((n, o) :: fs) =
  if o then let '(s2, l, rr) := Inject (fst (Get s n)) fs in (s2, None :: l, rr)
  else (fst (Get s n), [], RErr).
Proof. exact cycle_reach_inject. Qed.
Print Assumptions C10_cycle_reach_inject.

(** ** Non-vacuity of the audit theorems *)

(* a call sequence with refused, ignored and no-op calls: Set after AddFactory (refused), a second
   AddFactory (refused), AddDefaultFactory before and SetDefault after the explicit call, an
   InjectTo without tagged fields in the middle, a second SetDefault (refused) *)
Definition mixed : list op :=
  [OAddDefaultFactory 0 7 fB; OAddFactory 0 1 fA; OSet 0 9; OInject []; OSetDefault 0 3;
   OAddFactory 0 8 fB; OSetDefault 1 5; OAddDefaultFactory 1 6 fB; OSetDefault 1 4;
   OAddDefaultFactory 2 2 (mkProg [] true false)].

(* hypothesis of C10_first_definition_wins; not all calls are accepted *)
Example ex_mixed : forallb nofreeze mixed = true /\ all_ok mixed init = false /\
  map (fun x => fst (fst x)) (run_obs [] mixed init)
  = [UDef true; UDef true; UDef false; UInject [] ROk; UDef true; UDef false; UDef true; UDef true;
     UDef false; UDef true] /\
  spec_eff mixed 0 = Some (EFac KFac 1 fA) /\ spec_eff mixed 1 = Some (EVal (mkTok 1 KDef 5 0)) /\
  spec_eff mixed 3 = None.
Proof. vm_compute. repeat split. Qed.

(* C10_get_decided_by_first_definitions: all branches occur; the program goes on after the first
   resolution with a refused definition call *)
Example ex_decided :
  let ops := mixed ++ [OGet 2; OSet 5 5; OGet 0] in
  def_prefix ops = mixed /\
  map (fun n => snd (Get (run ops init) n)) [0; 1; 2; 5]
  = [GOk (mkTok 0 KFac 1 1); GOk (mkTok 1 KDef 5 0); GErr; GErr].
Proof. vm_compute. split; reflexivity. Qed.

(* hypotheses of C10_explicit_wins_always with a REFUSED explicit call as the witness [d] *)
Example ex_explicit_refused :
  let d := OAddFactory 0 8 fB in
  In d (def_prefix (mixed ++ [OGet 1])) /\ explicit_def_on d 0 = true /\
  snd (step (run [OAddDefaultFactory 0 7 fB; OAddFactory 0 1 fA; OSet 0 9; OInject []; OSetDefault 0 3] init) d)
    = UDef false /\
  snd (Get (run (mixed ++ [OGet 1]) init) 0) = GOk (mkTok 0 KFac 1 1).
Proof. vm_compute. repeat split. right; right; right; right; right; left; reflexivity. Qed.

(* hypotheses of C10_defaults_never_matter: same explicit calls for n0, defaults dropped / moved *)
Example ex_defaults :
  let ds' := [OSetDefault 0 3; OAddFactory 0 1 fA; OSet 0 9; OAddFactory 0 8 fB; OSetDefault 2 1] in
  forallb nofreeze mixed = true /\ forallb nofreeze ds' = true /\
  filter (fun o => explicit_def_on o 0) mixed = filter (fun o => explicit_def_on o 0) ds' /\
  filter (fun o => explicit_def_on o 0) mixed <> [].
Proof. vm_compute. repeat split. discriminate. Qed.

(* C10_inject_refines_resolve: filled, skipped, filled, failed - the field after the failure is
   not reached *)
Example ex_inject_spec :
  snd (step (run (mixed ++ [OGet 2]) init) (OInject [(1, false); (2, true); (0, true); (5, false); (0, false)]))
  = UInject [Some (mkTok 1 KDef 5 0); None; Some (mkTok 0 KFac 1 1)] RErr.
Proof. vm_compute. reflexivity. Qed.

(* hypothesis of C10_instance_forever / C10_run_counter_is_construction_number with an instance
   that was never requested directly: n0 built as a dependency of n1, for an InjectTo field *)
Example ex_indirect_instance :
  let s := run (pgm ++ [OInject [(1, false)]]) init in
  inst s 0 = Some (mkTok 0 KFac 1 1) /\ runs s 0 = 1.
Proof. vm_compute. split; reflexivity. Qed.

(* hypotheses of C10_inject_field_is_singleton *)
Example ex_inject_field : exists s',
  Inject (run pgm init) [(5, true); (1, false)] = (s', [None; Some (mkTok 1 KFac 2 1)], ROk) /\
  In (1, Some (mkTok 1 KFac 2 1)) (combine (map fst [(5, true); (1, false)]) [None; Some (mkTok 1 KFac 2 1)]).
Proof. eexists. split; [vm_compute; reflexivity | right; left; reflexivity]. Qed.

(* hypothesis of C10_factory_fields_are_singletons *)
Example ex_wire : In (Some (mkTok 0 KFac 1 1)) (wire (run (pgm ++ [OGet 1]) init) 1).
Proof. vm_compute. left. reflexivity. Qed.

(* hypothesis of C10_first_need_runs_once, with a factory that fails: it runs on every request *)
Example ex_need :
  let s := run [OAddDefaultFactory 2 2 (mkProg [] true false); OGet 2; OGet 2] init in
  eff s 2 = Some (EFac KDFac 2 (mkProg [] true false)) /\ runs s 2 = 2 /\
  snd (Get s 2) = GErr /\ runs (fst (Get s 2)) 2 = 3.
Proof. vm_compute. repeat split. Qed.

(* hypothesis of C10_fresh_token *)
Example ex_fresh : let s := run pgm init in
  (exists s1, Get s 1 = (s1, GOk (mkTok 1 KFac 2 1))) /\ inst (block s) 1 = None.
Proof. split; [eexists; vm_compute; reflexivity | reflexivity]. Qed.

(* hypotheses of C10_cycle_reach_is_error: n4 -> n0 and n0 on the 3-cycle [ring3] *)
Definition ring3_in := ring3 ++ [OAddFactory 4 4 (mkProg [(6, true); (0, false)] false false)].
Example ex_cycle_reach :
  clos_refl_trans name (req_edge (eff (run ring3_in init))) 4 0 /\
  clos_trans name (req_edge (eff (run ring3_in init))) 0 0 /\
  snd (Get (run ring3_in init) 4) = GErr.
Proof.
  split; [|split; [|vm_compute; reflexivity]].
  - apply rt_step. exists KFac, 4, (mkProg [(6, true); (0, false)] false false).
    split; [reflexivity | right; left; reflexivity].
  - apply t_trans with 1; [|apply t_trans with 2]; apply t_step.
    + exists KFac, 1, (mkProg [(1, false)] false false). split; [reflexivity | left; reflexivity].
    + exists KDFac, 2, (mkProg [(5, true); (2, false)] false false). split; [reflexivity | right; left; reflexivity].
    + exists KFac, 3, (mkProg [(0, false)] false false). split; [reflexivity | left; reflexivity].
Qed.
