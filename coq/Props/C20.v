(** C20 — Config and translation maps survive flattening, JSON and loading unchanged.
    This file contains only statements; every proof is [exact <lemma of Proofs/*.v>] (or a
    computed witness for the [_refuted] theorems and the non-vacuity [Example]s). *)
From GC Require Import Common.Base Model.PlainMap Model.Json Model.I18n.
From GC Require Import Proofs.PlainMap Proofs.Json Proofs.I18n.
From Coq Require Import Permutation.

(** * Flattening and rebuilding *)

(** Every nested map with dot-free keys, unique keys per object, no empty sub-map and non-empty
    top-level keys: flatten it, hand the flat map to unflatten in ANY iteration order [m'] — the
    call succeeds and the rebuilt map is well-formed and has exactly the same leaf under every
    path (two well-formed maps with the same leaves are the same Go map). *)
Theorem C20_flatten_unflatten : forall (t : children) (m' : flatmap),
  wf_children t = true -> forallb (fun kc => nonempty (fst kc)) t = true ->
  Permutation m' (flatten t) ->
  exists t', unflatten m' = Ok t' /\ wf_children t' = true /\ forall p, leafat p t' = leafat p t.
Proof. exact flatten_unflatten. Qed.
Print Assumptions C20_flatten_unflatten.

Example C20_flatten_unflatten_hyp :
  let t := [([97], Obj [([98], Leaf [1; 34]); ([99], Obj [([], Leaf [])])]); ([195; 169], Leaf [92])] in
  wf_children t = true /\ forallb (fun kc => nonempty (fst kc)) t = true /\
  flatten t = [([97; 46; 98], [1; 34]); ([97; 46; 99; 46], []); ([195; 169], [92])].
Proof. vm_compute. auto. Qed.

(** FINDING: the property as worded (dot-free keys, no empty sub-map) fails for an empty
    top-level key: {"": "x"} flattens to {"": "x"}, which StringMapToRecursiveMap rejects
    ("empty key is no allowd").  Hence the extra hypothesis above. *)
Theorem C20_flatten_unflatten_empty_key_refuted :
  exists t : children, wf_children t = true /\ unflatten (flatten t) = Err.
Proof. exists [([], Leaf [120])]. vm_compute. auto. Qed.
Print Assumptions C20_flatten_unflatten_empty_key_refuted.

(** Every flat map with non-empty unique keys none of whose dotted paths is a proper prefix of
    another: unflatten succeeds for the given iteration order, and flattening the result — in any
    iteration order, i.e. any well-formed [t'] with the same leaves — gives back the same map. *)
Theorem C20_unflatten_flatten : forall m : flatmap, good_flat m = true ->
  exists t, unflatten m = Ok t /\ wf_children t = true /\
    forall t', wf_children t' = true -> (forall p, leafat p t' = leafat p t) ->
      flat_equiv (flatten t') m /\ functional (flatten t').
Proof. exact unflatten_flatten. Qed.
Print Assumptions C20_unflatten_flatten.

Example C20_unflatten_flatten_hyp :
  let m := [([97; 46; 98], [1]); ([99], [2]); ([97; 46; 99; 46; 100], []); ([97; 46; 46], [3]); ([46; 120], [4])] in
  good_flat m = true /\
  unflatten m = Ok [([97], Obj [([98], Leaf [1]); ([99], Obj [([100], Leaf [])]); ([], Obj [([], Leaf [3])])]);
                    ([99], Leaf [2]); ([], Obj [([120], Leaf [4])])].
Proof. vm_compute. auto. Qed.

(** * Reading JSON *)

(** For every document of the subset given as a syntax tree (objects, strings written with any
    mix of raw bytes, two-character escapes, \uXXXX and surrogate pairs, numbers, and the skipped
    kinds true/false/null/arrays; arbitrary whitespace at every legal position, leading
    whitespace [w], arbitrary text [tail] after the closing brace) the reader returns exactly the
    string and number leaves, named by their dotted path of DECODED member names and bound to
    their DECODED value, in document order — and nothing else.  [doc_leaves] joins the decoded
    member names along the path with "." (an empty name contributes an empty segment). *)
Theorem C20_read_leaf : forall w m wend tail,
  all_ws w = true -> members_ok false m = true -> all_ws wend = true ->
  read_json (w ++ render (JObj m wend) ++ tail) = ROk (doc_leaves m).
Proof. exact read_leaf. Qed.
Print Assumptions C20_read_leaf.

Example C20_read_leaf_hyp :
  let m := MCons [32] [Raw 97; Esc 110] [] [10]
             (JObj (MCons [] [EscU 48 48 52 49] [9] []
                      (JStr [EscPair 100 56 51 68 68 101 48 48; Raw 255; Esc 34; EscU 48 48 69 57]) []
                   (MCons [] [Raw 110] [] [] (JNum [45; 49; 46; 53; 101; 51]) [32]
                   (MCons [] [Raw 120] [] []
                      (JArr (ECons [] (JStr [Raw 93; Esc 34]) [] (ECons [32] JTrue [] ENil)) []) []
                   (MCons [] [] [] [] JNull [] MNil)))) [13])
             [] MNil in
  members_ok false m = true /\
  render (JObj m []) =
    [123; 32; 34; 97; 92; 110; 34; 58; 10; 123; 34; 92; 117; 48; 48; 52; 49; 34; 9; 58; 34; 92; 117;
     100; 56; 51; 68; 92; 117; 68; 101; 48; 48; 255; 92; 34; 92; 117; 48; 48; 69; 57; 34; 44; 34; 110;
     34; 58; 45; 49; 46; 53; 101; 51; 32; 44; 34; 120; 34; 58; 91; 34; 93; 92; 34; 34; 44; 32; 116;
     114; 117; 101; 93; 44; 34; 34; 58; 110; 117; 108; 108; 13; 125; 125] /\
  doc_leaves m = [([97; 10; 46; 65], [240; 159; 152; 128; 255; 34; 195; 169]);
                   ([97; 10; 46; 110], [45; 49; 46; 53; 101; 51])].
Proof. vm_compute. auto. Qed.

(** The reader never runs out of the fuel [read_json] gives it, on any input whatsoever. *)
Theorem C20_read_total : forall data : bytes, read_json data <> RFuel.
Proof. exact read_json_fuel. Qed.
Print Assumptions C20_read_total.

(** * Writing JSON *)

(** ParseString undoes formatStringJSON on every byte string. *)
Theorem C20_unescape_escape : forall v : bytes, unescape (escape v) = Some v.
Proof. exact unescape_escape. Qed.
Print Assumptions C20_unescape_escape.

(** For EVERY flat map (any keys, any values) both emitters terminate and produce the rendering
    of a document of the STRICT subset: all string literals consist of raw bytes >= 0x20 other
    than quote and backslash, and of valid escapes — what RFC 8259 prescribes, so a standard
    decoder accepts the text. *)
Theorem C20_emit_valid : forall (fm : bool) (m : flatmap), exists d,
  emit fm m = Some (render d) /\ jv_ok true d = true.
Proof. exact emit_valid. Qed.
Print Assumptions C20_emit_valid.

(** Write then read: for EVERY flat map with unique keys (what a Go map is) - keys with empty
    segments (leading ".b", inner "a..c", trailing "a.", the empty key), keys that are prefixes
    of one another, ARBITRARY byte values (quotes, backslashes, control characters, invalid
    UTF-8) - in the compact and in the formatted variant, reading the emitted text succeeds and
    returns the same map.  No other hypothesis remains; uniqueness is only used for the
    lookup-equivalence (the log is a permutation of the entries in any case). *)
Theorem C20_write_read : forall (fm : bool) (m : flatmap),
  nodup_keys m = true ->
  exists text log, emit fm m = Some text /\ read_json text = ROk log /\
                   Permutation log m /\ flat_equiv log m.
Proof. exact write_read. Qed.
Print Assumptions C20_write_read.

(** the log is exactly the entries sorted by key, for every association list *)
Theorem C20_write_read_sorted : forall (fm : bool) (m : flatmap),
  exists text, emit fm m = Some text /\ read_json text = ROk (sort_kv m).
Proof. exact write_read_sorted. Qed.
Print Assumptions C20_write_read_sorted.

Example C20_write_read_hyp :
  let m := [([97; 46; 98], [34; 92; 10; 1; 255]); ([97], [9]); ([97; 46; 46; 99], []); ([120; 32; 34], [195; 169]);
            ([46; 98], [120]); ([97; 46], [1]); ([], [2])] in
  nodup_keys m = true /\
  emit false m = Some [123; 34; 34; 58; 34; 92; 117; 48; 48; 48; 50; 34; 44; 34; 34; 58; 123; 34; 98; 34; 58; 34;
                       120; 34; 125; 44; 34; 97; 34; 58; 34; 92; 116; 34; 44; 34; 97; 34; 58; 123; 34; 34; 58; 34;
                       92; 117; 48; 48; 48; 49; 34; 44; 34; 34; 58; 123; 34; 99; 34; 58; 34; 34; 125; 44; 34; 98;
                       34; 58; 34; 92; 34; 92; 92; 92; 110; 92; 117; 48; 48; 48; 49; 255; 34; 125; 44; 34; 120; 32;
                       92; 34; 34; 58; 34; 195; 169; 34; 125] /\
  match emit false m with Some t => read_json t | None => RErr end = ROk (sort_kv m).
Proof. vm_compute. auto. Qed.

(** REGRESSION WITNESS (fixed in goatcore by "fix: JSONToPlainStringMap keeps keys whose first
    segment is empty"): the reader BEFORE that fix ([read_json_old]) dropped an empty parent name:
    {".b": "x"} is written as {"":{"b":"x"}} and was read back as {"b": "x"}. *)
Theorem C20_write_read_leading_dot_refuted :
  exists m text log, good_flat m = true /\ emit false m = Some text /\ read_json_old text = ROk log /\
                     lookup_last [46; 98] log = None /\ lookup_last [46; 98] m = Some [120] /\
                     read_json text = ROk m.
Proof.
  exists [([46; 98], [120])], [123; 34; 34; 58; 123; 34; 98; 34; 58; 34; 120; 34; 125; 125], [([98], [120])].
  vm_compute. auto 8.
Qed.
Print Assumptions C20_write_read_leading_dot_refuted.

Theorem C20_emit_total : forall fm m, emit fm m <> None.
Proof. exact emit_total. Qed.
Print Assumptions C20_emit_total.

(** * Loading a directory of translation files (relies on C08) *)

(** Hypothesis supplied by property C08: the OnFile callback ran exactly once for every selected
    file — [order], the order in which the callbacks updated the store, is a permutation of the
    selected (".json") files; it is otherwise arbitrary (number of consumers, scheduling).
    If the selected files all parse and define pairwise disjoint key sets, then the load succeeds
    and every key of every selected file translates to the value that file gives it. *)
Theorem C20_loader : forall (files order : list file),
  Permutation order (filter selected files) ->
  ForallOrdPairs disjoint_files (filter selected files) ->
  (forall f, In f files -> selected f = true -> file_log f <> None) ->
  exists store, run_callbacks order [] = Some store /\
    forall f log k v, In f files -> selected f = true -> file_log f = Some log ->
                      lookup_last k log = Some v -> translate k store = Some v.
Proof. exact loader. Qed.
Print Assumptions C20_loader.

Example C20_loader_hyp :
  let f1 : file := ([97; 47; 120; 46; 106; 115; 111; 110], [123; 34; 97; 34; 58; 34; 49; 34; 125]) in
  let f2 : file := ([121; 46; 116; 120; 116], [123; 34; 97; 34; 58; 34; 50; 34; 125]) in
  let f3 : file := ([122; 46; 106; 115; 111; 110], [123; 34; 98; 34; 58; 123; 34; 99; 34; 58; 34; 51; 34; 125; 125]) in
  filter selected [f1; f2; f3] = [f1; f3] /\
  file_log f1 = Some [([97], [49])] /\ file_log f3 = Some [([98; 46; 99], [51])] /\
  run_callbacks [f3; f1] [] = Some [([98; 46; 99], [51]); ([97], [49])].
Proof. vm_compute. auto. Qed.
