(** C20 — Config and translation maps survive flattening, JSON and loading unchanged.
    This file contains only statements; every proof is [exact <lemma of Proofs/*.v>] (or a
    computed witness for the [_refuted] theorems and the non-vacuity [Example]s). *)
From GC Require Import Common.Base Model.PlainMap Model.Json Model.I18n.
From GC Require Import Model.Loop Model.LoopLive Model.I18nLoad.
From GC Require Import Proofs.PlainMap Proofs.Json Proofs.I18n Proofs.C20More.
From Coq Require Import Permutation.
Open Scope N_scope.

(** * Flattening and rebuilding *)

(** Every nested map with dot-free keys, unique keys per object, no empty sub-map and non-empty
    top-level keys: flatten it, hand the flat map to unflatten in ANY iteration order [m'] — the
    call succeeds and the rebuilt map is well-formed and has exactly the same leaf under every
    path (two well-formed maps with the same leaves are the same Go map). *)
Theorem C20_flatten_unflatten : forall (t : children) (m' : flatmap),
  wf_children t = true -> forallb (fun kc => nonempty (fst kc)) t = true ->
  Permutation m' (flatten t) ->
  exists t', unflatten m' = Ok t' /\ wf_children t' = true /\ forall p, leafat p t' = leafat p t.
Proof. exact flatten_unflatten. Qed.
Print Assumptions C20_flatten_unflatten.

Example C20_flatten_unflatten_hyp :
  let t := [([97], Obj [([98], Leaf [1; 34]); ([99], Obj [([], Leaf [])])]); ([195; 169], Leaf [92])] in
  wf_children t = true /\ forallb (fun kc => nonempty (fst kc)) t = true /\
  flatten t = [([97; 46; 98], [1; 34]); ([97; 46; 99; 46], []); ([195; 169], [92])].
Proof. vm_compute. auto. Qed.

(** FINDING: the property as worded (dot-free keys, no empty sub-map) fails for an empty
    top-level key: {"": "x"} flattens to {"": "x"}, which StringMapToRecursiveMap rejects
    ("empty key is no allowd").  Hence the extra hypothesis above. *)
Theorem C20_flatten_unflatten_empty_key_refuted :
  exists t : children, wf_children t = true /\ unflatten (flatten t) = Err.
Proof. exists [([], Leaf [120])]. vm_compute. auto. Qed.
Print Assumptions C20_flatten_unflatten_empty_key_refuted.

(** Every flat map with non-empty unique keys none of whose dotted paths is a proper prefix of
    another: unflatten succeeds for the given iteration order, and flattening the result — in any
    iteration order, i.e. any well-formed [t'] with the same leaves — gives back the same map. *)
Theorem C20_unflatten_flatten : forall m : flatmap, good_flat m = true ->
  exists t, unflatten m = Ok t /\ wf_children t = true /\
    forall t', wf_children t' = true -> (forall p, leafat p t' = leafat p t) ->
      flat_equiv (flatten t') m /\ functional (flatten t').
Proof. exact unflatten_flatten. Qed.
Print Assumptions C20_unflatten_flatten.

Example C20_unflatten_flatten_hyp :
  let m := [([97; 46; 98], [1]); ([99], [2]); ([97; 46; 99; 46; 100], []); ([97; 46; 46], [3]); ([46; 120], [4])] in
  good_flat m = true /\
  unflatten m = Ok [([97], Obj [([98], Leaf [1]); ([99], Obj [([100], Leaf [])]); ([], Obj [([], Leaf [3])])]);
                    ([99], Leaf [2]); ([], Obj [([120], Leaf [4])])].
Proof. vm_compute. auto. Qed.

(** * Reading JSON *)

(** For every document of the subset given as a syntax tree (objects, strings written with any
    mix of raw bytes, two-character escapes, \uXXXX and surrogate pairs, numbers, and the skipped
    kinds true/false/null/arrays; arbitrary whitespace at every legal position, leading
    whitespace [w], arbitrary text [tail] after the closing brace) the reader returns exactly the
    string and number leaves, named by their dotted path of DECODED member names and bound to
    their DECODED value, in document order — and nothing else.  [doc_leaves] joins the decoded
    member names along the path with "." (an empty name contributes an empty segment). *)
Theorem C20_read_leaf : forall w m wend tail,
  all_ws w = true -> members_ok false m = true -> all_ws wend = true ->
  read_json (w ++ render (JObj m wend) ++ tail) = ROk (doc_leaves m).
Proof. exact read_leaf. Qed.
Print Assumptions C20_read_leaf.

Example C20_read_leaf_hyp :
  let m := MCons [32] [Raw 97; Esc 110] [] [10]
             (JObj (MCons [] [EscU 48 48 52 49] [9] []
                      (JStr [EscPair 100 56 51 68 68 101 48 48; Raw 255; Esc 34; EscU 48 48 69 57]) []
                   (MCons [] [Raw 110] [] [] (JNum [45; 49; 46; 53; 101; 51]) [32]
                   (MCons [] [Raw 120] [] []
                      (JArr (ECons [] (JStr [Raw 93; Esc 34]) [] (ECons [32] JTrue [] ENil)) []) []
                   (MCons [] [] [] [] JNull [] MNil)))) [13])
             [] MNil in
  members_ok false m = true /\
  render (JObj m []) =
    [123; 32; 34; 97; 92; 110; 34; 58; 10; 123; 34; 92; 117; 48; 48; 52; 49; 34; 9; 58; 34; 92; 117;
     100; 56; 51; 68; 92; 117; 68; 101; 48; 48; 255; 92; 34; 92; 117; 48; 48; 69; 57; 34; 44; 34; 110;
     34; 58; 45; 49; 46; 53; 101; 51; 32; 44; 34; 120; 34; 58; 91; 34; 93; 92; 34; 34; 44; 32; 116;
     114; 117; 101; 93; 44; 34; 34; 58; 110; 117; 108; 108; 13; 125; 125] /\
  doc_leaves m = [([97; 10; 46; 65], [240; 159; 152; 128; 255; 34; 195; 169]);
                   ([97; 10; 46; 110], [45; 49; 46; 53; 101; 51])].
Proof. vm_compute. auto. Qed.

(** The reader never runs out of the fuel [read_json] gives it, on any input whatsoever. *)
Theorem C20_read_total : forall data : bytes, read_json data <> RFuel.
Proof. exact read_json_fuel. Qed.
Print Assumptions C20_read_total.

(** * Writing JSON *)

(** ParseString undoes formatStringJSON on every byte string. *)
Theorem C20_unescape_escape : forall v : bytes, unescape (escape v) = Some v.
Proof. exact unescape_escape. Qed.
Print Assumptions C20_unescape_escape.

(** For EVERY flat map (any keys, any values) both emitters terminate and produce the rendering
    of a document of the STRICT subset: all string literals consist of raw bytes >= 0x20 other
    than quote and backslash, and of valid escapes — what RFC 8259 prescribes, so a standard
    decoder accepts the text. *)
Theorem C20_emit_valid : forall (fm : bool) (m : flatmap), exists d,
  emit fm m = Some (render d) /\ jv_ok true d = true.
Proof. exact emit_valid. Qed.
Print Assumptions C20_emit_valid.

(** Write then read: for EVERY flat map with unique keys (what a Go map is) - keys with empty
    segments (leading ".b", inner "a..c", trailing "a.", the empty key), keys that are prefixes
    of one another, ARBITRARY byte values (quotes, backslashes, control characters, invalid
    UTF-8) - in the compact and in the formatted variant, reading the emitted text succeeds and
    returns the same map.  No other hypothesis remains; uniqueness is only used for the
    lookup-equivalence (the log is a permutation of the entries in any case). *)
Theorem C20_write_read : forall (fm : bool) (m : flatmap),
  nodup_keys m = true ->
  exists text log, emit fm m = Some text /\ read_json text = ROk log /\
                   Permutation log m /\ flat_equiv log m.
Proof. exact write_read. Qed.
Print Assumptions C20_write_read.

(** the log is exactly the entries sorted by key, for every association list *)
Theorem C20_write_read_sorted : forall (fm : bool) (m : flatmap),
  exists text, emit fm m = Some text /\ read_json text = ROk (sort_kv m).
Proof. exact write_read_sorted. Qed.
Print Assumptions C20_write_read_sorted.

Example C20_write_read_hyp :
  let m := [([97; 46; 98], [34; 92; 10; 1; 255]); ([97], [9]); ([97; 46; 46; 99], []); ([120; 32; 34], [195; 169]);
            ([46; 98], [120]); ([97; 46], [1]); ([], [2])] in
  nodup_keys m = true /\
  emit false m = Some [123; 34; 34; 58; 34; 92; 117; 48; 48; 48; 50; 34; 44; 34; 34; 58; 123; 34; 98; 34; 58; 34;
                       120; 34; 125; 44; 34; 97; 34; 58; 34; 92; 116; 34; 44; 34; 97; 34; 58; 123; 34; 34; 58; 34;
                       92; 117; 48; 48; 48; 49; 34; 44; 34; 34; 58; 123; 34; 99; 34; 58; 34; 34; 125; 44; 34; 98;
                       34; 58; 34; 92; 34; 92; 92; 92; 110; 92; 117; 48; 48; 48; 49; 255; 34; 125; 44; 34; 120; 32;
                       92; 34; 34; 58; 34; 195; 169; 34; 125] /\
  match emit false m with Some t => read_json t | None => RErr end = ROk (sort_kv m).
Proof. vm_compute. auto. Qed.

(** REGRESSION WITNESS (fixed in goatcore by "fix: JSONToPlainStringMap keeps keys whose first
    segment is empty"): the reader BEFORE that fix ([read_json_old]) dropped an empty parent name:
    {".b": "x"} is written as {"":{"b":"x"}} and was read back as {"b": "x"}. *)
Theorem C20_write_read_leading_dot_refuted :
  exists m text log, good_flat m = true /\ emit false m = Some text /\ read_json_old text = ROk log /\
                     lookup_last [46; 98] log = None /\ lookup_last [46; 98] m = Some [120] /\
                     read_json text = ROk m.
Proof.
  exists [([46; 98], [120])], [123; 34; 34; 58; 123; 34; 98; 34; 58; 34; 120; 34; 125; 125], [([98], [120])].
  vm_compute. auto 8.
Qed.
Print Assumptions C20_write_read_leading_dot_refuted.

Theorem C20_emit_total : forall fm m, emit fm m <> None.
Proof. exact emit_total. Qed.
Print Assumptions C20_emit_total.

(** * Loading a directory of translation files (relies on C08) *)

(** Hypothesis supplied by property C08: the OnFile callback ran exactly once for every selected
    file — [order], the order in which the callbacks updated the store, is a permutation of the
    selected (".json") files; it is otherwise arbitrary (number of consumers, scheduling).
    If the selected files all parse and define pairwise disjoint key sets, then the load succeeds
    and every key of every selected file translates to the value that file gives it. *)
Theorem C20_loader : forall (files order : list file),
  Permutation order (filter selected files) ->
  ForallOrdPairs disjoint_files (filter selected files) ->
  (forall f, In f files -> selected f = true -> file_log f <> None) ->
  exists store, run_callbacks order [] = Some store /\
    forall f log k v, In f files -> selected f = true -> file_log f = Some log ->
                      lookup_last k log = Some v -> translate k store = Some v.
Proof. exact loader. Qed.
Print Assumptions C20_loader.

Example C20_loader_hyp :
  let f1 : file := ([97; 47; 120; 46; 106; 115; 111; 110], [123; 34; 97; 34; 58; 34; 49; 34; 125]) in
  let f2 : file := ([121; 46; 116; 120; 116], [123; 34; 97; 34; 58; 34; 50; 34; 125]) in
  let f3 : file := ([122; 46; 106; 115; 111; 110], [123; 34; 98; 34; 58; 123; 34; 99; 34; 58; 34; 51; 34; 125; 125]) in
  filter selected [f1; f2; f3] = [f1; f3] /\
  file_log f1 = Some [([97], [49])] /\ file_log f3 = Some [([98; 46; 99], [51])] /\
  run_callbacks [f3; f1] [] = Some [([98; 46; 99], [51]); ([97], [49])].
Proof. vm_compute. auto. Qed.

(** * Added by the proof audit (lemmas in Proofs/C20More.v)

    Clause / dimension of the statement          theorem(s)                         strength
    flatten then rebuild = identity              C20_flatten_unflatten              full for the quantifier minus the empty top-level key (K-C20,
                                                                                    refuted witness); conclusion was "same leaf under every path"
                                                 C20_flatten_unflatten_deep (new)   conclusion = deep equality ([canon], the compared observable)
    rebuild then flatten = identity              C20_unflatten_flatten              full (keys non-empty, unique, prefix-free); lookup equivalence
                                                 C20_unflatten_flatten_deep (new)   for every t' DEEPLY EQUAL to the result; equal sorted listings
    deep equality = same leaves                  C20_deep_equal (new)               full, all well-formed maps
    reader: string/number leaves, decoded        C20_read_leaf, C20_read_total      full on the subset (syntax trees, any whitespace, any tail)
    reader = decoder + flatten                   C20_read_is_flatten (new)          full on the subset; ties the JSON clause to clause 1
    write then read, all values                  C20_write_read(_sorted), C20_emit_valid, C20_unescape_escape, C20_emit_total   full
    loader: every key of every file              C20_loader                         hypotheses: exactly-once (from C08), all files parse,
                                                                                    pairwise DISJOINT key sets
                                                 C20_loader_exact (new)             no hypothesis on keys: nothing else is translatable, every
                                                                                    key translatable, to its value when the defining files agree
    loader: any number of files / consumers,     C20_loader_end_to_end (new)        every tree, pool limits, queue capacities, EVERY schedule of
    any scheduling                               C20_loader_no_junk (new)           the C08 system; the exactly-once hypothesis and the
                                                 C20_loader_returns (new)           "all files parse" hypothesis are DERIVED (from C08 and from
                                                                                    "Load returned nil"), no longer assumed
    Still partial: Set is one atomic step per callback (it holds the mutex of I18Mem for its whole
    loop; the order of the calls is quantified over); Translate without format arguments. *)

(** ** Deep equality *)

(** For well-formed nested maps (dot-free keys, unique keys per object, no empty sub-map):
    the canonical forms - children sorted by key at every level, the observable the
    correspondence check compares and what reflect.DeepEqual decides on the Go maps - are equal
    EXACTLY when both maps have the same leaf under every path. *)
Theorem C20_deep_equal : forall a b : children, wf_children a = true -> wf_children b = true ->
  (canon a = canon b <-> forall p, leafat p a = leafat p b).
Proof. exact deep_equal_iff. Qed.
Print Assumptions C20_deep_equal.

(** Supersedes C20_flatten_unflatten: same quantifier, the conclusion is deep equality. *)
Theorem C20_flatten_unflatten_deep : forall (t : children) (m' : flatmap),
  wf_children t = true -> forallb (fun kc => nonempty (fst kc)) t = true ->
  Permutation m' (flatten t) ->
  exists t', unflatten m' = Ok t' /\ wf_children t' = true /\ canon t' = canon t.
Proof. exact flatten_unflatten_deep. Qed.
Print Assumptions C20_flatten_unflatten_deep.

Example C20_flatten_unflatten_deep_hyp :
  let t := [([97], Obj [([98], Leaf [1; 34]); ([99], Obj [([], Leaf [])])]); ([195; 169], Leaf [92])] in
  let t' := [([195; 169], Leaf [92]); ([97], Obj [([99], Obj [([], Leaf [])]); ([98], Leaf [1; 34])])] in
  wf_children t = true /\ forallb (fun kc => nonempty (fst kc)) t = true /\
  unflatten (rev (flatten t)) = Ok t' /\ t' <> t /\ wf_children t' = true /\ canon t' = canon t.
Proof. vm_compute. repeat split; auto. discriminate. Qed.

(** Supersedes C20_unflatten_flatten: the rebuilt map may be iterated in any order - any
    well-formed [t'] deeply equal to the result - and flattening it gives the same Go map:
    equal listings sorted by key, without duplicate keys. *)
Theorem C20_unflatten_flatten_deep : forall m : flatmap, good_flat m = true ->
  exists t, unflatten m = Ok t /\ wf_children t = true /\
    forall t', wf_children t' = true -> canon t' = canon t ->
      normalize (flatten t') = normalize m /\ nodup_keys (normalize (flatten t')) = true.
Proof. exact unflatten_flatten_deep. Qed.
Print Assumptions C20_unflatten_flatten_deep.

Example C20_unflatten_flatten_deep_hyp :
  let m := [([97; 46; 98], [1]); ([99], [2]); ([97; 46; 99; 46; 100], []); ([97; 46; 46], [3]); ([46; 120], [4])] in
  let t' := [([], Obj [([120], Leaf [4])]); ([99], Leaf [2]);
             ([97], Obj [([], Obj [([], Leaf [3])]); ([99], Obj [([100], Leaf [])]); ([98], Leaf [1])])] in
  good_flat m = true /\ wf_children t' = true /\
  match unflatten m with Ok t => canon t' = canon t /\ t' <> t | _ => False end /\
  normalize (flatten t') = normalize m.
Proof. vm_compute. repeat split; auto. discriminate. Qed.

(** ** The reader against the flattening *)

(** [doc_tree] is the nested map a standard decoder builds from the document, restricted to
    string and number leaves (names and strings decoded, numbers as their literal, every other
    kind of value dropped).  Reading the document into a flat map is flattening that nested
    map: JSONToPlainStringMap = RecursiveMapToPlainMap after decoding, on every document of the
    subset (duplicate member names included: both sides are logs in document order). *)
Theorem C20_read_is_flatten : forall w m wend tail,
  all_ws w = true -> members_ok false m = true -> all_ws wend = true ->
  read_json (w ++ render (JObj m wend) ++ tail) = ROk (flatten (doc_tree m)).
Proof. exact read_is_flatten. Qed.
Print Assumptions C20_read_is_flatten.

Example C20_read_is_flatten_hyp :
  let m := MCons [32] [Raw 97; Esc 110] [] [10]
             (JObj (MCons [] [EscU 48 48 52 49] [9] []
                      (JStr [EscPair 100 56 51 68 68 101 48 48; Raw 255; Esc 34; EscU 48 48 69 57]) []
                   (MCons [] [Raw 110] [] [] (JNum [45; 49; 46; 53; 101; 51]) [32]
                   (MCons [] [Raw 120] [] []
                      (JArr (ECons [] (JStr [Raw 93; Esc 34]) [] (ECons [32] JTrue [] ENil)) []) []
                   (MCons [] [] [] [] JNull [] MNil)))) [13])
             [] (MCons [] [Raw 101] [] [] (JObj MNil []) [] MNil) in
  members_ok false m = true /\
  doc_tree m = [([97; 10], Obj [([65], Leaf [240; 159; 152; 128; 255; 34; 195; 169]);
                                ([110], Leaf [45; 49; 46; 53; 101; 51])]);
                ([101], Obj [])] /\
  read_json (render (JObj m [])) = ROk [([97; 10; 46; 65], [240; 159; 152; 128; 255; 34; 195; 169]);
                                        ([97; 10; 46; 110], [45; 49; 46; 53; 101; 51])].
Proof. vm_compute. auto. Qed.

(** ** The loader without the disjointness hypothesis *)

(** Supersedes C20_loader (its conclusion follows with [disjoint_agree]).  Assumed: the
    callbacks ran once per selected file in some order (C08), the selected files parse.  Then
    the load succeeds, the store holds NOTHING but entries of selected files, every key of
    every selected file is translatable, and it translates to the value the file gives it
    whenever all selected files that define the key give it that value. *)
Theorem C20_loader_exact : forall (files order : list file),
  Permutation order (filter selected files) ->
  (forall f, In f files -> selected f = true -> file_log f <> None) ->
  exists store, run_callbacks order [] = Some store /\
    (forall k v, translate k store = Some v ->
                 exists f, In f files /\ selected f = true /\ fgives f k v) /\
    (forall f k v, In f files -> selected f = true -> fgives f k v ->
       (exists v', translate k store = Some v') /\
       ((forall g v', In g files -> selected g = true -> fgives g k v' -> v' = v) ->
        translate k store = Some v)).
Proof. exact loader_exact. Qed.
Print Assumptions C20_loader_exact.

(* two files share the key "a" and agree on it; a third, not selected, disagrees *)
Example C20_loader_exact_hyp :
  let f1 : file := ([97; 47; 120; 46; 106; 115; 111; 110], [123; 34; 97; 34; 58; 34; 49; 34; 125]) in
  let f2 : file := ([121; 46; 116; 120; 116], [123; 34; 97; 34; 58; 34; 50; 34; 125]) in
  let f3 : file := ([122; 46; 106; 115; 111; 110],
                    [123; 34; 98; 34; 58; 123; 34; 99; 34; 58; 34; 51; 34; 125; 44; 34; 97; 34; 58; 34; 49; 34; 125]) in
  filter selected [f1; f2; f3] = [f1; f3] /\
  file_log f1 = Some [([97], [49])] /\ file_log f3 = Some [([98; 46; 99], [51]); ([97], [49])] /\
  run_callbacks [f3; f1] [] = Some [([98; 46; 99], [51]); ([97], [49]); ([97], [49])] /\
  ~ ForallOrdPairs disjoint_files [f1; f3].
Proof.
  cbv zeta. do 4 (split; [vm_compute; reflexivity|]).
  intro H. inversion H as [|? ? H1 _]; subst. inversion H1 as [|? ? H2 _]; subst.
  apply (H2 [97]). split; [exists [([97], [49])], [49]|exists [([98; 46; 99], [51]); ([97], [49])], [49]];
    vm_compute; auto.
Qed.

(** ** The loader over the fsloop model of C08: every tree, every schedule

    [load_cfg content lserr pmax cmax dcap fcap] is the LoopData Load builds (FileFilter =
    HasSuffix ".json", no DirFilter, no OnDir, OnFile = ReadFile + JSONToPlainStringMap + Set;
    the callback fails exactly when ReadFile or the reader fails) with arbitrary pool limits and
    queue capacities; [content] is what ReadFile returns (None = an error), [lserr] which
    listings fail.  A run is ANY schedule [sched] of producers, consumers, completion goroutine,
    waiter and environment kill (Model/Loop.v).  [run_sets content order []] is the store after
    the Set calls of the callbacks [order]; Set holds the mutex of I18Mem for its whole loop, so
    the calls are totally ordered, and [order] ranges over ALL permutations of the callbacks that
    returned.  [loaded] (Model/I18nLoad.v): every ".json" file of the tree was read and parsed,
    nothing but their entries is translatable, every key of every such file is translatable -
    to its value when the files defining it agree (always when key sets are disjoint). *)

(** Load returned nil - every consumer has exited, so Wait returns, and the lifecycle was not
    killed, so Errors() is empty (Errors() appends ctx.Err() after a kill): the callbacks that
    ran are exactly the ".json" files of the tree, at any depth, and the tree is loaded. *)
Theorem C20_loader_end_to_end : forall content lserr pmax cmax dcap fcap base root sched order,
  (1 <= cmax)%nat ->
  let cfg := load_cfg content lserr pmax cmax dcap fcap in
  let s := run cfg sched (init cfg base root) in
  all_exited s = true -> killed s = false ->
  Permutation order (ended s) ->
  Permutation order (map IFile (json_files base root)) /\
  loaded content base root (run_sets content order []).
Proof. exact load_end_to_end. Qed.
Print Assumptions C20_loader_end_to_end.

(** Safety at EVERY moment of EVERY run (errors, kills, unfinished walks included): whichever
    of the returned callbacks have made their Set call, in any order, nothing but entries of
    ".json" files of the tree is translatable. *)
Theorem C20_loader_no_junk : forall content lserr pmax cmax dcap fcap base root sched order k v,
  let cfg := load_cfg content lserr pmax cmax dcap fcap in
  let s := run cfg sched (init cfg base root) in
  (forall it, In it order -> In it (ended s)) ->
  translate k (run_sets content order []) = Some v ->
  exists p, In p (json_files base root) /\ gives content p k v.
Proof. exact load_no_junk. Qed.
Print Assumptions C20_loader_no_junk.

(** From every reachable state of a load the round-robin continuation of C08 (no kill in it)
    makes every consumer exit and Wait return; if the lifecycle is then not killed, the tree is
    loaded in whatever order the callbacks held the mutex.  (Termination under an arbitrary
    fair Go schedule is not claimed, as in C08.) *)
Theorem C20_loader_returns : forall content lserr pmax cmax dcap fcap base root sched,
  (1 <= cmax)%nat -> (1 <= dcap)%nat -> (1 <= fcap)%nat ->
  let cfg := load_cfg content lserr pmax cmax dcap fcap in
  let s := run cfg sched (init cfg base root) in
  let s' := run cfg (sched ++ rr_from cfg s) (init cfg base root) in
  all_exited s' = true /\ waited s' = true /\
  (killed s' = false -> forall order, Permutation order (ended s') ->
     loaded content base root (run_sets content order [])).
Proof. exact load_returns. Qed.
Print Assumptions C20_loader_returns.

(* a directory with a selected and an unselected file, a selected file at the top; two producers,
   two consumers; the two selected files share the key "a" and agree on it; the schedule starts
   with a consumer that polls before anything is queued *)
Definition ex_p1 : path := [46; 47; 97; 47; 120; 46; 106; 115; 111; 110].       (* ./a/x.json *)
Definition ex_p2 : path := [46; 47; 122; 46; 106; 115; 111; 110].               (* ./z.json *)
Definition ex_content (p : path) : option bytes :=
  if bytes_eqb p ex_p1 then Some [123; 34; 97; 34; 58; 34; 49; 34; 125]
  else if bytes_eqb p ex_p2 then
    Some [123; 34; 98; 34; 58; 123; 34; 99; 34; 58; 34; 51; 34; 125; 44; 34; 97; 34; 58; 34; 49; 34; 125]
  else None.
Definition ex_tree : list tree :=
  [Dir [97] [File [120; 46; 106; 115; 111; 110]; File [121; 46; 116; 120; 116]]; File [122; 46; 106; 115; 111; 110]].

Example C20_loader_end_to_end_hyp :
  let cfg := load_cfg ex_content (fun _ => false) 2%nat 2%nat 4%nat 4%nat in
  let s0 := run cfg [TC 1%nat; TC 1%nat; TP 0%nat] (init cfg [46; 47] ex_tree) in
  let s := run cfg (rr_from cfg s0) s0 in
  all_exited s = true /\ killed s = false /\ waited s = true /\
  json_files [46; 47] ex_tree = [ex_p1; ex_p2] /\
  ended s = [IFile ex_p2; IFile ex_p1] /\
  run_sets ex_content (ended s) [] = [([98; 46; 99], [51]); ([97], [49]); ([97], [49])] /\
  translate [98; 46; 99] (run_sets ex_content (rev (ended s)) []) = Some [51] /\
  translate [97] (run_sets ex_content (rev (ended s)) []) = Some [49].
Proof. vm_compute. repeat split. Qed.

(* an unparsable selected file: the callback fails, the lifecycle is killed, Load reports it;
   the no-junk theorem still applies to the store *)
Example C20_loader_error_hyp :
  let content (p : path) := if bytes_eqb p ex_p2 then Some [123; 34] else ex_content p in
  let cfg := load_cfg content (fun _ => false) 2%nat 2%nat 4%nat 4%nat in
  let s0 := init cfg [46; 47] ex_tree in
  let s := run cfg (rr_from cfg s0) s0 in
  all_exited s = true /\ killed s = true /\ errs s = [ECb (IFile ex_p2)] /\
  ended s = [IFile ex_p2; IFile ex_p1] /\
  run_sets content (ended s) [] = [([97], [49])].
Proof. vm_compute. repeat split. Qed.

(** ** I18Mem.Set statement by statement (Model/I18nLoad.v, [mstep])

    The theorems above take one Set call as one atomic step and quantify over the order of the
    calls.  This one justifies it: goroutine i has the maps [nth i todos] to Set, a step is
    Lock (enabled when the mutex is free), ONE assignment translates[key] = value, or Unlock, and
    the schedule is arbitrary.  At every moment the store is a prefix of what the calls that took
    the mutex leave when executed one after the other in lock order ([hist]); it IS that whenever
    the mutex is free; calls taken + calls still to come = the calls there were; when all
    goroutines are done the store is the sequential result of all calls in lock order - one of
    the orders C20_loader_end_to_end quantifies over. *)
Theorem C20_set_serial : forall (todos : list (list flatmap)) (sched : list nat),
  let s := mrun true sched (minit todos) in
  (exists rest, tr s ++ rest = fold_left i18_set (hist s) []) /\
  (mu s = false -> tr s = fold_left i18_set (hist s) []) /\
  Permutation (concat todos) (hist s ++ flat_map pend (thr s)) /\
  (mdone s = true -> tr s = fold_left i18_set (hist s) [] /\ Permutation (hist s) (concat todos)).
Proof. exact set_serial. Qed.
Print Assumptions C20_set_serial.

(* two goroutines, maps with the same two keys; goroutine 1 tries to lock while 0 is inside
   (skipped), 0 is scheduled while 1 is inside (its Lock is skipped) *)
Example C20_set_serial_hyp :
  let a := [([107], [49]); ([106], [49])] in
  let b := [([107], [50]); ([106], [50])] in
  let s := mrun true [0; 1; 0; 1; 0; 0; 1; 0; 1; 1; 0; 1; 0]%nat (minit [[a]; [b]]) in
  mdone s = true /\ hist s = [a; b] /\ tr s = a ++ b /\
  mu (mrun true [0; 1; 0]%nat (minit [[a]; [b]])) = true /\
  tr (mrun true [0; 1; 0]%nat (minit [[a]; [b]])) = [([107], [49])].
Proof. vm_compute. repeat split. Qed.

(** WITNESS (hypothetical code, not goatcore's): the same Set without the mutex is not
    serialisable - two calls interleave their assignments and leave a store that no order of
    the two calls produces (key k from the second map, key j from the first). *)
Theorem C20_set_unlocked_refuted :
  exists todos sched, let s := mrun false sched (minit todos) in
    mdone s = true /\
    forall order, Permutation order (concat todos) -> ~ flat_equiv (tr s) (fold_left i18_set order []).
Proof.
  exists [[[([107], [49]); ([106], [49])]]; [[([107], [50]); ([106], [50])]]], [0; 1; 0; 1; 1; 0; 1; 0]%nat.
  cbv zeta. split; [vm_compute; reflexivity|]. intros order P H.
  apply Permutation_sym in P. cbn [concat app] in P. apply Permutation_length_2_inv in P as [->| ->].
  - specialize (H [106]). vm_compute in H. discriminate.
  - specialize (H [107]). vm_compute in H. discriminate.
Qed.
Print Assumptions C20_set_unlocked_refuted.
