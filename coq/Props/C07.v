(** C07 — Cache view reflects its own pending operations (read-your-writes). Statements only. *)
From Coq Require Import Permutation.
From GC Require Import Common.Base Model.Paths Model.Fs Model.Views Model.Cache Model.ViewsCache Model.CacheRef
  Model.CacheList Proofs.Fs Proofs.Clean Proofs.Views Proofs.Cache Proofs.CacheFrame Proofs.C07More Proofs.CacheList.

(** The tree seen through the cache is a well-formed plain tree whose lookup is: the buffer
    first, otherwise the remote unless the path or an ancestor was removed. *)
Theorem C07_view_is_tree : forall c, Inv c -> WF (cview c) /\ forall q, lookup (cview c) q = vlookup c q.
Proof. intros c I. split; [apply cview_WF; exact I|apply lookup_cview]. Qed.
Print Assumptions C07_view_is_tree.

(** exists / is-file / is-dir / read / reader / stat through the cache answer exactly as the
    plain tree with the pending operations applied. *)
Theorem C07_reads : forall c o s p,
  read_arg o = Some s -> cnorm s = Some p ->
  cache_step c (COp o) = (c, tree_read (cview c) o p).
Proof. exact cache_reads_are_tree_reads. Qed.
Print Assumptions C07_reads.

(** Listings: every entry visible one level below is listed exactly once (created directories
    once, removed entries not at all). *)
Theorem C07_listing : forall c p l, Inv c -> v_read_dir c p = Some l ->
  NoDup (map fst l) /\
  forall n d, In (n, d) l <-> exists e, vlookup c (p ++ [n]) = Some e /\ d = kind_of e.
Proof. exact v_read_dir_agrees. Qed.
Print Assumptions C07_listing.

(** Written data is returned … *)
Theorem C07_written_is_visible : forall c p data c',
  Inv c -> good_path p = true -> p <> [] -> c_write c p data = (c', RUnit) ->
  vlookup c' p = Some (F data).
Proof.
  intros c p data c' I Hg Hp H. unfold c_write in H. destruct (check_dest c p false) eqn:E; [|discriminate].
  destruct (c_write_spec c p data I Hg Hp E) as (c'' & H' & _ & L & _).
  unfold c_write in H'. rewrite E in H'. rewrite H in H'. inversion H'; subst. exact L.
Qed.
Print Assumptions C07_written_is_visible.

(** … and removed files and directories (with everything below them) are no longer visible,
    while everything else is seen exactly as before. *)
Theorem C07_removed_is_invisible : forall c p c',
  Inv c -> p <> [] -> c_remove_all c p = (c', RUnit) ->
  forall q, vlookup c' q = if is_prefix p q then None else vlookup c q.
Proof. intros c p c' I Hp H. exact (proj2 (c_remove_all_spec c p c' I Hp H)). Qed.
Print Assumptions C07_removed_is_invisible.

(** The view is prefix closed: whatever is visible lives in visible directories. *)
Theorem C07_view_prefix_closed : forall c a x, Inv c -> x <> [] -> vlookup c (a ++ x) <> None -> vlookup c a = Some D.
Proof. exact view_prefix_dir. Qed.
Print Assumptions C07_view_prefix_closed.

Example C07_ex :
  let r := [([[102]], F [49])] in
  let c := run_cache (new_cache r) [COp (ORemove [102]); COp (OMkdirAll [100])] in
  snd (cache_step c (COp (OIsExist [102]))) = RBool false /\
  snd (cache_step c (COp (OReadDir []))) = RList [([100], true)] /\ cR c = r.
Proof. vm_compute. repeat split. Qed.

(** * Proof audit: the statement at full strength

    [ref_step] / [ref_vstep] (Model/CacheRef.v) is the REFERENCE of the property: the operations
    applied directly to a plain tree - no buffer, no tombstones, no remote.  [out_sim] is equality
    of answers up to the order of a listing.

    One step, any reachable state ([Inv c], see C06_invariant), any of the 16 operations with ANY
    raw arguments, Commit and a failed Commit: the cache answers what the reference answers on the
    tree [cview c] (= the remote with the pending operations applied, = what Commit would make
    the remote, C06_main), and the view afterwards is the tree the reference leaves - for
    successful AND refused operations, copies (file and directory, merging, failing half-way)
    included.  Supersedes C07_reads / C07_written_is_visible / C07_removed_is_invisible, which
    state single clauses of it under success hypotheses. *)
Theorem C07_step_as_plain_tree : forall c co, Inv c ->
  let c' := fst (cache_step c co) in
  let t' := fst (ref_step (cview c) co) in
  out_sim (snd (cache_step c co)) (snd (ref_step (cview c) co)) /\
  Inv c' /\ WF t' /\ forall q, lookup t' q = vlookup c' q.
Proof.
  intros c co I. destruct (cache_step_sim c co I) as [A S]. cbv zeta.
  split; [exact A|]. split; [exact (sim_I _ _ S)|]. split; [exact (sim_W _ _ S)|exact (sim_L _ _ S)].
Qed.
Print Assumptions C07_step_as_plain_tree.

(** The same for operations issued through a child view of the cache (Cache.Filespace(p) =
    fshelper.SubFS over the cache, any base string), mutating ones included. *)
Theorem C07_step_through_child_view : forall c v, Inv c ->
  let c' := fst (vcache_step c v) in
  let t' := fst (ref_vstep (cview c) v) in
  out_sim (snd (vcache_step c v)) (snd (ref_vstep (cview c) v)) /\
  Inv c' /\ WF t' /\ forall q, lookup t' q = vlookup c' q.
Proof.
  intros c v I. destruct (vcache_step_sim c v I) as [A S]. cbv zeta.
  split; [exact A|]. split; [exact (sim_I _ _ S)|]. split; [exact (sim_W _ _ S)|exact (sim_L _ _ S)].
Qed.
Print Assumptions C07_step_through_child_view.

(** All initial remote trees, all interleavings: EVERY history of operations on the cache and
    through child views of it (any base strings), with Commits and failed Commits anywhere, is a
    run of the plain-tree reference started from the initial remote tree - answer by answer - and
    what is finally seen through the cache is the reference's final tree.  ([ref_run] may change
    the creation order of the reference's association list between two steps, never a binding: a
    plain tree has no order.) *)
Theorem C07_history_refines_plain_tree : forall r l, WF r ->
  exists outs t, ref_run r l outs t /\
    Forall2 out_sim (cache_outs (new_cache r) l) outs /\
    WF t /\ forall q, lookup t q = vlookup (run_vcache (new_cache r) l) q.
Proof. exact history_refines_plain_tree. Qed.
Print Assumptions C07_history_refines_plain_tree.

(** ... and at every point of every such history the next operation answers and acts as the
    reference does on the tree seen at that point (no hypothesis on the state is left). *)
Theorem C07_reachable_step : forall r l v, WF r ->
  let c := run_vcache (new_cache r) l in
  out_sim (snd (vcache_step c v)) (snd (ref_vstep (cview c) v)) /\
  forall q, lookup (fst (ref_vstep (cview c) v)) q = vlookup (fst (vcache_step c v)) q.
Proof. exact reachable_step_sim. Qed.
Print Assumptions C07_reachable_step.

(** Listings, totally: a listing through the cache succeeds exactly on the visible directories
    (a created directory lists, a removed one does not, a file does not) and is then the listing
    of the tree as a multiset.  Supersedes C07_listing, which assumes that the listing succeeded. *)
Theorem C07_listing_total : forall c p, Inv c ->
  (vlookup c p = Some D ->
     exists l, v_read_dir c p = Some l /\ Permutation l (children (cview c) p)) /\
  (vlookup c p <> Some D -> v_read_dir c p = None).
Proof. exact listing_total. Qed.
Print Assumptions C07_listing_total.

(** A read whose argument the cache cannot normalise (it climbs above the root) answers false /
    an error and reads nothing (the case C07_reads leaves out). *)
Theorem C07_reads_climbing : forall c o s,
  read_arg o = Some s -> cnorm s = None -> cache_step c (COp o) = (c, fail_out o).
Proof. exact cache_reads_climbing. Qed.
Print Assumptions C07_reads_climbing.

(** Child views at path level: a read through the view with base string [base] (any string ending
    in a slash; [cred base = Some b] is where the cache's cleaning puts the view root) of an
    argument that reduces to [r] is the tree's answer at [b ++ r]; a listing likewise; an
    argument the view refuses, or a view whose base climbs out, answers false / an error. *)
Theorem C07_child_view_reads : forall c base b o s r,
  base_ok base -> cred base = Some b -> read_arg o = Some s -> reduce s = Some r ->
  sub_cache_step base c o = (c, tree_read (cview c) o (b ++ r)).
Proof. exact sub_cache_reads. Qed.
Print Assumptions C07_child_view_reads.

Theorem C07_child_view_listing : forall c base b s r,
  base_ok base -> cred base = Some b -> reduce s = Some r ->
  sub_cache_step base c (OReadDir s) =
  (c, match v_read_dir c (b ++ r) with Some l => RList l | None => RErr end).
Proof. exact sub_cache_listing. Qed.
Print Assumptions C07_child_view_listing.

Theorem C07_child_view_refused : forall c base o s,
  base_ok base -> (read_arg o = Some s \/ o = OReadDir s) -> (reduce s = None \/ cred base = None) ->
  sub_cache_step base c o = (c, fail_out o).
Proof. exact sub_cache_reads_refused. Qed.
Print Assumptions C07_child_view_refused.

(** Copy sources: the entries a directory copy re-creates are exactly the nodes visible below the
    source (each once, pending writes included, removed ones excluded); a file copy writes the
    bytes visible at the source; an invisible (removed) source is an error and changes nothing.
    (What the copy then DOES is C07_step_as_plain_tree.) *)
Theorem C07_copy_source_is_view : forall c src, Inv c ->
  NoDup (map fst (subtree_moved (cview c) src [])) /\
  forall rel e, In (rel, e) (subtree_moved (cview c) src []) <-> rel <> [] /\ vlookup c (src ++ rel) = Some e.
Proof. exact copy_source_is_view. Qed.
Print Assumptions C07_copy_source_is_view.

Theorem C07_copy_file_reads_view : forall c src dst,
  src <> [] -> is_prefix src dst = false ->
  (forall data, vlookup c src = Some (F data) -> c_copy c src dst = c_write c dst data) /\
  (vlookup c src = None -> c_copy c src dst = (c, RErr)).
Proof. exact copy_file_reads_view. Qed.
Print Assumptions C07_copy_file_reads_view.

(** ** Non-vacuity of the new implications.
    Remote: a/ , a/x = 1 , b = 2.  Pending: remove -r a ; mkdir a/d ; write a/y = 3 ; remove b. *)
Definition ex_r : fs := [([[97]], D); ([[97]; [120]], F [49]); ([[98]], F [50])].
Definition ex_l : list cop :=
  [COp (ORemoveAll [97]); COp (OMkdirAll [97;47;100]); COp (OWriteFile [97;47;121] [51]); COp (ORemove [98])].
Definition ex_c : cache := run_cache (new_cache ex_r) ex_l.

Example C07_ex_WF : WF ex_r.
Proof. apply wf_WF. vm_compute. reflexivity. Qed.

(* [Inv] holds of a state with a non-empty buffer and two tombstones *)
Example C07_ex_Inv : Inv ex_c /\ cB ex_c <> [] /\ length (cT ex_c) = 2%nat.
Proof. split; [apply run_cache_Inv, Inv_new, C07_ex_WF|]. vm_compute. split; [discriminate|reflexivity]. Qed.

(* step: a directory copy of the pending tree a/ onto c, seen by the cache and by the reference *)
Example C07_ex_step :
  snd (cache_step ex_c (COp (OCopy [97] [99]))) = RUnit /\
  snd (ref_step (cview ex_c) (COp (OCopy [97] [99]))) = RUnit /\
  vlookup (fst (cache_step ex_c (COp (OCopy [97] [99])))) [[99]; [121]] = Some (F [51]) /\
  vlookup (fst (cache_step ex_c (COp (OCopy [97] [99])))) [[99]; [120]] = None.
Proof. vm_compute. repeat split. Qed.

(* history with a child view (base a/), a Commit in the middle and a refused write *)
Example C07_ex_history :
  cache_outs (new_cache ex_r)
    (map VDirect ex_l ++ [VSub [97;47] (OWriteFile [122] [52]); VDirect CCommit; VSub [97;47] (OReadDir []);
                          VDirect (COp (OWriteFile [97;47;122;47;113] [53]))]) =
  [RUnit; RUnit; RUnit; RUnit; RUnit; RUnit; RList [([100], true); ([121], false); ([122], false)]; RErr].
Proof. vm_compute. reflexivity. Qed.

(* listings: the re-created directory lists, the removed file does not, a climbing path neither *)
Example C07_ex_listing :
  vlookup ex_c [[97]] = Some D /\ v_read_dir ex_c [[97]] = Some [([100], true); ([121], false)] /\
  vlookup ex_c [[98]] <> Some D /\ v_read_dir ex_c [[98]] = None /\
  read_arg (OIsExist [46;46;47;97]) = Some [46;46;47;97] /\ cnorm [46;46;47;97] = None.
Proof. vm_compute. repeat split; discriminate. Qed.

(* child views: base a/ lands at [a]; the base ../x/ climbs out; the argument ../y is refused *)
Example C07_ex_child_view :
  base_ok [97;47] /\ cred [97;47] = Some [[97]] /\ reduce [121] = Some [[121]] /\
  sub_cache_step [97;47] ex_c (OReadFile [121]) = (ex_c, RData [51]) /\
  base_ok [46;46;47;120;47] /\ cred [46;46;47;120;47] = None /\ reduce [46;46;47;121] = None.
Proof.
  split; [exists [97]; reflexivity|]. split; [vm_compute; reflexivity|]. split; [vm_compute; reflexivity|].
  split; [vm_compute; reflexivity|]. split; [exists [46;46;47;120]; reflexivity|]. split; vm_compute; reflexivity.
Qed.

(* copy sources: the pending file a/y is a source, the removed a/x is not *)
Example C07_ex_copy_source :
  subtree_moved (cview ex_c) [[97]] [] = [([[100]], D); ([[121]], F [51])] /\
  vlookup ex_c [[97]; [121]] = Some (F [51]) /\ vlookup ex_c [[97]; [120]] = None /\
  [[97]; [121]] <> [] /\ is_prefix [[97]; [121]] [[99]] = false.
Proof. vm_compute. repeat split; discriminate. Qed.

(** A limit of the model that the audit found (not a theorem about the code): a directory copy
    whose SOURCE LIES INSIDE ITS DESTINATION - Copy(a/b, a) - writes into the tree it is reading.
    Model and reference copy the entries visible when the copy starts: below, a/b/b/c/z is copied
    to a/b/c/z and a/b/c/k to a/c/k, and there is no a/c/z.  fscache runs the walk of the source
    (fsloop producer) concurrently with the writes (consumer, channel capacity 1000): for a small
    source it behaves like this, but with more than 1000 entries between the two sub-directories
    the walk reaches a/b/c after a/b/c/z was written and a/c/z appears as well (observed 20 runs
    out of 20 on the implementation with 2500 filler files; schedule dependent in general).  The
    correspondence check only generates small trees. *)
Example C07_ex_copy_into_ancestor :
  let r := [([[97]], D); ([[97];[98]], D); ([[97];[98];[98]], D); ([[97];[98];[98];[99]], D);
            ([[97];[98];[98];[99];[122]], F [90]); ([[97];[98];[99]], D); ([[97];[98];[99];[107]], F [75])] in
  let c := fst (cache_step (new_cache r) (COp (OCopy [97;47;98] [97]))) in
  snd (cache_step (new_cache r) (COp (OCopy [97;47;98] [97]))) = RUnit /\
  vlookup c [[97];[98];[99];[122]] = Some (F [90]) /\ vlookup c [[97];[99];[107]] = Some (F [75]) /\
  vlookup c [[97];[99];[122]] = None.
Proof. vm_compute. repeat split. Qed.

(** * What a listing ENTRY says (Model/CacheList.v: the listing with, for every entry, IsDir or
    the Size of the file)

    Every entry of a listing through the cache describes the node the view holds under that name:
    a file overwritten through the cache is listed with the size of its PENDING content (the entry
    of a name present in the buffer and on the remote is the buffer's), a created file with the
    size written, a node replaced by the other kind as what it is now.  Each name once. *)
Theorem C07_listing_describes : forall c p l, Inv c -> v_read_dir_info c p = Some l ->
  NoDup (map fst l) /\
  forall n i, In (n, i) l <-> exists e, vlookup c (p ++ [n]) = Some e /\ i = info_of e.
Proof. exact v_read_dir_info_agrees. Qed.
Print Assumptions C07_listing_describes.

(** It is the listing of C07_listing / C07_listing_total with the sizes added: forgetting them
    gives exactly [v_read_dir] (so it succeeds on the visible directories and nowhere else). *)
Theorem C07_listing_describes_refines : forall c p,
  option_map (map forget_info) (v_read_dir_info c p) = v_read_dir c p.
Proof. exact v_read_dir_info_forget. Qed.
Print Assumptions C07_listing_describes_refines.

(** list, stat and read agree: for every raw spelling [s] of the path of a listed entry, Lstat
    through the cache answers the kind and size the entry says, IsDir answers true for an entry
    listed as a directory, and ReadFile returns exactly as many bytes as a file entry says. *)
Theorem C07_listed_entry_is_stat_and_read : forall c p l n i s, Inv c ->
  v_read_dir_info c p = Some l -> In (n, i) l -> cnorm s = Some (p ++ [n]) ->
  snd (cache_step c (COp (OLstat s))) = stat_of_info i /\
  match i with
  | None => snd (cache_step c (COp (OIsDir s))) = RBool true
  | Some sz => exists d, snd (cache_step c (COp (OReadFile s))) = RData d /\ N.of_nat (length d) = sz
  end.
Proof. exact listed_entry_is_stat_and_read. Qed.
Print Assumptions C07_listed_entry_is_stat_and_read.

(* remote a/x = "1", b = "2"; pending: a/x overwritten with 3 bytes, b removed and re-created as a
   directory, a/n created with 2 bytes: the listing of a describes x with 3 bytes (not 1), the root
   lists b as a directory *)
Example C07_ex_listing_describes :
  let c := run_cache (new_cache ex_r)
             [COp (OWriteFile [97;47;120] [55;56;57]); COp (ORemove [98]); COp (OMkdirAll [98]);
              COp (OWriteFile [97;47;110] [48;48])] in
  v_read_dir_info c [[97]] = Some [([120], Some 3%N); ([110], Some 2%N)] /\
  v_read_dir_info c [] = Some [([97], None); ([98], None)] /\
  v_read_dir_info (new_cache ex_r) [[97]] = Some [([120], Some 1%N)].
Proof. vm_compute. repeat split. Qed.
