From GC Require Import Common.Base Model.Paths Model.Fs Model.Cache.
Theorem C07_placeholder : True. Proof. exact I. Qed.
Print Assumptions C07_placeholder.
