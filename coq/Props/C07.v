(** C07 — Cache view reflects its own pending operations (read-your-writes). Statements only. *)
From GC Require Import Common.Base Model.Paths Model.Fs Model.Cache Proofs.Fs Proofs.Cache.

(** The tree seen through the cache is a well-formed plain tree whose lookup is: the buffer
    first, otherwise the remote unless the path or an ancestor was removed. *)
Theorem C07_view_is_tree : forall c, Inv c -> WF (cview c) /\ forall q, lookup (cview c) q = vlookup c q.
Proof. intros c I. split; [apply cview_WF; exact I|apply lookup_cview]. Qed.
Print Assumptions C07_view_is_tree.

(** exists / is-file / is-dir / read / reader / stat through the cache answer exactly as the
    plain tree with the pending operations applied. *)
Theorem C07_reads : forall c o s p,
  read_arg o = Some s -> cnorm s = Some p ->
  cache_step c (COp o) = (c, tree_read (cview c) o p).
Proof. exact cache_reads_are_tree_reads. Qed.
Print Assumptions C07_reads.

(** Listings: every entry visible one level below is listed exactly once (created directories
    once, removed entries not at all). *)
Theorem C07_listing : forall c p l, Inv c -> v_read_dir c p = Some l ->
  NoDup (map fst l) /\
  forall n d, In (n, d) l <-> exists e, vlookup c (p ++ [n]) = Some e /\ d = kind_of e.
Proof. exact v_read_dir_agrees. Qed.
Print Assumptions C07_listing.

(** Written data is returned … *)
Theorem C07_written_is_visible : forall c p data c',
  Inv c -> good_path p = true -> p <> [] -> c_write c p data = (c', RUnit) ->
  vlookup c' p = Some (F data).
Proof.
  intros c p data c' I Hg Hp H. unfold c_write in H. destruct (check_dest c p false) eqn:E; [|discriminate].
  destruct (c_write_spec c p data I Hg Hp E) as (c'' & H' & _ & L & _).
  unfold c_write in H'. rewrite E in H'. rewrite H in H'. inversion H'; subst. exact L.
Qed.
Print Assumptions C07_written_is_visible.

(** … and removed files and directories (with everything below them) are no longer visible,
    while everything else is seen exactly as before. *)
Theorem C07_removed_is_invisible : forall c p c',
  Inv c -> p <> [] -> c_remove_all c p = (c', RUnit) ->
  forall q, vlookup c' q = if is_prefix p q then None else vlookup c q.
Proof. intros c p c' I Hp H. exact (proj2 (c_remove_all_spec c p c' I Hp H)). Qed.
Print Assumptions C07_removed_is_invisible.

(** The view is prefix closed: whatever is visible lives in visible directories. *)
Theorem C07_view_prefix_closed : forall c a x, Inv c -> x <> [] -> vlookup c (a ++ x) <> None -> vlookup c a = Some D.
Proof. exact view_prefix_dir. Qed.
Print Assumptions C07_view_prefix_closed.

Example C07_ex :
  let r := [([[102]], F [49])] in
  let c := run_cache (new_cache r) [COp (ORemove [102]); COp (OMkdirAll [100])] in
  snd (cache_step c (COp (OIsExist [102]))) = RBool false /\
  snd (cache_step c (COp (OReadDir []))) = RList [([100], true)] /\ cR c = r.
Proof. vm_compute. repeat split. Qed.
