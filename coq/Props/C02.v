(** C02 — Disk filespace obeys the same contract as the in-memory one.
    Statements only; proofs are [exact <lemma of Proofs/DiskFs.v / Proofs/Fs.v>].

    [disk_step] (Model/DiskFs.v) is diskfs + filesystem/disk + the POSIX/Go [os] behaviour they rely
    on, over the SAME plain tree as the in-memory filespace [mem_step] (Model/Fs.v); [pre] is "the
    preconditions are met" (weakest form; the property's literal wording [prop_pre_at] implies it).
    The model has no Panic outcome at all: "no panic / no hang" is carried by the correspondence
    run (every step of every history is executed under recover + timeout, oracle no_panic), as is
    "nothing changes on the host ABOVE the filespace root" (oracle host_untouched). *)
From Coq Require Import Permutation.
From GC Require Import Common.Base Model.Paths Model.Fs Model.DiskFs Proofs.Paths Proofs.Fs Proofs.DiskFs.

(** One step: for EVERY well-formed tree and EVERY operation (raw path strings, any contents)
    whose preconditions are met, both backends return equivalent results (listings as multisets,
    reader sessions by the bytes delivered, Lstat size for files only) and end with the same tree. *)
Theorem C02_equiv : forall t o, WF t -> pre t o = true ->
  tree_equiv (fst (disk_step t o)) (fst (mem_step t o)) /\
  out_equiv (snd (disk_step t o)) (snd (mem_step t o)).
Proof.
  intros t o H Hp. destruct (step_equiv_root t o H Hp) as [A B]. split; [|exact B].
  intros q. rewrite A. reflexivity.
Qed.
Print Assumptions C02_equiv.

(** Histories: for every operation list whose every step satisfies [pre] in the then-current state,
    started on both backends from the same (any well-formed) tree: all outputs are pairwise
    equivalent, the final trees are equal and well formed. *)
Theorem C02_equiv_history : forall h t, WF t -> pre_hist t h = true ->
  tree_equiv (fst (fst (run_both t t h))) (snd (fst (run_both t t h))) /\
  WF (fst (fst (run_both t t h))) /\
  Forall (fun p => out_equiv (fst p) (snd p)) (snd (run_both t t h)).
Proof.
  intros h t H Hp. destruct (equiv_history h t H Hp) as (A & B & C).
  split; [|split; [exact B|exact C]]. intros q. rewrite A. reflexivity.
Qed.
Print Assumptions C02_equiv_history.

(** The same through a child view (one nesting level): a disk child created on an existing
    directory [b] ([disk_view_step b] = the disk root re-rooted at b) and the memfs child view
    with the same base ([view_step (view_base b)]) agree under [pre_at b]. *)
Theorem C02_view : forall b t o, WF t -> good_path b = true -> is_dir_at t b = true ->
  pre_at b t o = true ->
  tree_equiv (fst (disk_view_step b t o)) (fst (view_step (view_base b) t o)) /\
  out_equiv (snd (disk_view_step b t o)) (snd (view_step (view_base b) t o)).
Proof.
  intros b t o H Gb Hd Hp. unfold disk_view_step. rewrite (view_step_m b t o Gb).
  destruct (d_m_equiv b t o H Gb Hd Hp) as [A B]. split; [|exact B]. intros q. rewrite A. reflexivity.
Qed.
Print Assumptions C02_view.

(** The property's own wording of the preconditions is covered. *)
Theorem C02_property_preconditions_suffice : forall b t o, prop_pre_at b t o = true -> pre_at b t o = true.
Proof. exact prop_pre_implies_pre. Qed.
Print Assumptions C02_property_preconditions_suffice.

(** Clean failure, for EVERY operation and EVERY well-formed tree, whether or not the
    preconditions hold: on both backends a path [q] that is neither a target of the operation nor
    below one keeps its node, and only directories leading to a target can newly appear. *)
Theorem C02_clean_failure : forall t o q, WF t ->
  (forall s p, In s (targets o) -> reduce s = Some p -> is_prefix p q = false) ->
  ((forall e, lookup t q = Some e -> lookup (fst (disk_step t o)) q = Some e) /\
   (lookup t q = None -> lookup (fst (disk_step t o)) q <> None ->
    lookup (fst (disk_step t o)) q = Some D /\
    exists s p, In s (targets o) /\ reduce s = Some p /\ is_prefix q p = true)) /\
  ((forall e, lookup t q = Some e -> lookup (fst (mem_step t o)) q = Some e) /\
   (lookup t q = None -> lookup (fst (mem_step t o)) q <> None ->
    lookup (fst (mem_step t o)) q = Some D /\
    exists s p, In s (targets o) /\ reduce s = Some p /\ is_prefix q p = true)).
Proof.
  intros t o q H Hout. split; [exact (disk_step_outside t o q H Hout)|exact (mem_step_outside t o q H Hout)].
Qed.
Print Assumptions C02_clean_failure.

(** … and both keep the tree well formed (no duplicate, parents are directories, proper names). *)
Theorem C02_wf_preserved : forall t o, WF t -> WF (fst (disk_step t o)) /\ WF (fst (mem_step t o)).
Proof. intros t o H. split; [apply disk_step_WF|apply mem_step_WF]; exact H. Qed.
Print Assumptions C02_wf_preserved.

(** Clean failure behind a child view: whatever the operation, a disk child with base [b] and a
    memfs child view with base [b] change nothing outside [b] (only [b]'s own missing parents may
    appear as directories). *)
Theorem C02_view_confined : forall b t o q, WF t -> good_path b = true -> is_prefix b q = false ->
  ((forall e, lookup t q = Some e -> lookup (fst (disk_view_step b t o)) q = Some e) /\
   (lookup t q = None -> lookup (fst (disk_view_step b t o)) q <> None ->
    lookup (fst (disk_view_step b t o)) q = Some D /\ is_prefix q b = true)) /\
  ((forall e, lookup t q = Some e -> lookup (fst (view_step (view_base b) t o)) q = Some e) /\
   (lookup t q = None -> lookup (fst (view_step (view_base b) t o)) q <> None ->
    lookup (fst (view_step (view_base b) t o)) q = Some D /\ is_prefix q b = true)).
Proof.
  intros b t o q H Gb Hq. split; [exact (disk_view_confined b t o q H Gb Hq)|exact (view_step_outside b t o q H Gb Hq)].
Qed.
Print Assumptions C02_view_confined.

(** A reader session delivers the same bytes on both backends for ANY sequence of buffer sizes
    (they differ only in WHEN io.EOF is reported). *)
Theorem C02_reader_same_bytes : forall data bufs,
  chunks_data (disk_read_seq data bufs) = chunks_data (read_seq data bufs).
Proof. intros data bufs. apply read_seq_same_bytes. Qed.
Print Assumptions C02_reader_same_bytes.

(** ** Intended differences OUTSIDE the preconditions (why [pre] is needed), as evaluated by the
    two models.  Names: a=97 b=98 f=102 g=103 x=120. *)
Definition tA : fs := [([[97]], D); ([[97]; [102]], F [1; 2; 3]); ([[98]], F [9])].   (* a/  a/f  b *)

Theorem C02_differences_refuted :
  (* RemoveAll of a missing path: disk nil, memfs error *)
  (snd (disk_step tA (ORemoveAll [120])) = RUnit /\ snd (mem_step tA (ORemoveAll [120])) = RErr) /\
  (* copy over an existing file: disk overwrites, memfs refuses *)
  (disk_step tA (OCopyFile [97;47;102] [98]) = ([([[97]], D); ([[97]; [102]], F [1;2;3]); ([[98]], F [1;2;3])], RUnit) /\
   mem_step tA (OCopyFile [97;47;102] [98]) = (tA, RErr)) /\
  (* Writer with a missing parent: disk error, memfs creates the parent *)
  (disk_step tA (OWriter [120;47;103] [[7]]) = (tA, RErr) /\
   mem_step tA (OWriter [120;47;103] [[7]]) = (tA ++ [([[120]], D); ([[120];[103]], F [7])], RUnit)) /\
  (* Remove("") on an empty root: disk removes the (host) root directory, memfs refuses *)
  (snd (disk_step [] (ORemove [])) = RUnit /\ snd (mem_step [] (ORemove [])) = RErr) /\
  (* RemoveAll(""): disk wipes everything, memfs refuses *)
  (disk_step tA (ORemoveAll []) = ([], RUnit) /\ mem_step tA (ORemoveAll []) = (tA, RErr)) /\
  (* Filespace of a missing directory: disk error, memfs hands out a view *)
  (snd (disk_step tA (OFilespace [120])) = RErr /\ snd (mem_step tA (OFilespace [120])) = RUnit) /\
  (* copy of a directory onto an existing directory: disk merges, memfs refuses *)
  (disk_step tA (OCopyDir [97] []) = (tA ++ [([[102]], F [1;2;3])], RUnit) /\
   mem_step tA (OCopyDir [97] []) = (tA, RErr)) /\
  (* CopyFile whose source is a directory: both fail, but disk has already created the (empty)
     destination — a change INSIDE the addressed path, allowed by the clean-failure clause *)
  (disk_step tA (OCopyFile [97] [120]) = (tA ++ [([[120]], F [])], RErr) /\
   mem_step tA (OCopyFile [97] [120]) = (tA, RErr)).
Proof. vm_compute. repeat split. Qed.
Print Assumptions C02_differences_refuted.

(** The lazy walk of disk.CopyDirectory when the destination is an ancestor of the source (observed
    on the real code: a/a/f=new, a/f=old, Copy("a","") leaves f=new and a/f=new). *)
Example C02_ex_merge_alias :
  disk_step [([[97]], D); ([[97];[97]], D); ([[97];[97];[102]], F [2]); ([[97];[102]], F [1])] (OCopy [97] []) =
  ([([[97]], D); ([[97];[97]], D); ([[97];[97];[102]], F [2]); ([[97];[102]], F [2]); ([[102]], F [2])], RUnit).
Proof. vm_compute. reflexivity. Qed.

(** ** Non-vacuity: a history that satisfies [pre] at every step, mutates the tree with every
    kind of operation, and on which the two models visibly agree. *)
Definition hEx : list op :=
  [OMkdirAll [97;47;98];                         (* mkdir a/b *)
   OWriteFile [46;47;97;47;47;102] [104;105];    (* "./a//f" := "hi" *)
   OWriter [97;47;98;47;103] [[1];[2;3]];        (* writer a/b/g *)
   OCopy [97] [120];                             (* copy a -> x *)
   OCopyFile [120;47;102] [97;47;98;47;102];     (* x/f -> a/b/f *)
   OReader [120;47;98;47;103] [2%nat; 0%nat; 5%nat];
   OReadDir [120];
   ORemove [97;47;102];
   ORemoveAll [120;47;98];
   OCopyDir [120] [97;47;98;47;120];
   OLstat [97;47;98;47;102]].
Example C02_ex_history_pre : pre_hist [] hEx = true.
Proof. vm_compute. reflexivity. Qed.
Example C02_ex_history_result :
  fst (fst (run_both [] [] hEx)) =
  [([[97]], D); ([[97];[98]], D); ([[97];[98];[103]], F [1;2;3]); ([[120]], D); ([[120];[102]], F [104;105]);
   ([[97];[98];[102]], F [104;105]); ([[97];[98];[120]], D); ([[97];[98];[120];[102]], F [104;105])] /\
  nth 5 (snd (run_both [] [] hEx)) (RErr, RErr) =
    (RChunks [([1;2], false); ([], false); ([3], false)], RChunks [([1;2], false); ([], false); ([3], true)]).
Proof. vm_compute. split; reflexivity. Qed.
(** … and for the view theorem: base a/b exists as a directory, the child copies and removes. *)
Example C02_ex_view_pre :
  let t := fst (fst (run_both [] [] hEx)) in
  is_dir_at t [[97];[98]] = true /\
  pre_at [[97];[98]] t (OCopy [120] [46;47;103;47;46;46;47;99]) = true /\           (* x -> "./g/../c" *)
  fst (disk_view_step [[97];[98]] t (OCopy [120] [99])) = t ++ [([[97];[98];[99]], D); ([[97];[98];[99];[102]], F [104;105])] /\
  pre_at [[97];[98]] t (ORemove []) = false /\ prop_pre_at [[97];[98]] t (OReadFile [103]) = true.
Proof. vm_compute. repeat split. Qed.
(** the hypothesis of the frame theorems is satisfiable: Copy a -> x does not address b *)
Example C02_ex_frame_hyp : forall s p, In s (targets (OCopy [97] [120])) -> reduce s = Some p -> is_prefix p [[98]] = false.
Proof. intros s p [<-|[]] H. vm_compute in H. inversion H. reflexivity. Qed.
