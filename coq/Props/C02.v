(** C02 — Disk filespace obeys the same contract as the in-memory one.
    Statements only; proofs are [exact <lemma of Proofs/DiskFs.v / Proofs/Fs.v>].

    [disk_step] (Model/DiskFs.v) is diskfs + filesystem/disk + the POSIX/Go [os] behaviour they rely
    on, over the SAME plain tree as the in-memory filespace [mem_step] (Model/Fs.v); [pre] is "the
    preconditions are met" (weakest form; the property's literal wording [prop_pre_at] implies it).
    The model has no Panic outcome at all: "no panic / no hang" is carried by the correspondence
    run (every step of every history is executed under recover + timeout, oracle no_panic), as is
    "nothing changes on the host ABOVE the filespace root" (oracle host_untouched). *)
From Coq Require Import Permutation.
From GC Require Import Common.Base Model.Paths Model.Fs Model.DiskFs Proofs.Paths Proofs.Fs Proofs.DiskFs.

(** One step: for EVERY well-formed tree and EVERY operation (raw path strings, any contents)
    whose preconditions are met, both backends return equivalent results (listings as multisets,
    reader sessions by the bytes delivered, Lstat size for files only) and end with the same tree. *)
Theorem C02_equiv : forall t o, WF t -> pre t o = true ->
  tree_equiv (fst (disk_step t o)) (fst (mem_step t o)) /\
  out_equiv (snd (disk_step t o)) (snd (mem_step t o)).
Proof.
  intros t o H Hp. destruct (step_equiv_root t o H Hp) as [A B]. split; [|exact B].
  intros q. rewrite A. reflexivity.
Qed.
Print Assumptions C02_equiv.

(** Histories: for every operation list whose every step satisfies [pre] in the then-current state,
    started on both backends from the same (any well-formed) tree: all outputs are pairwise
    equivalent, the final trees are equal and well formed. *)
Theorem C02_equiv_history : forall h t, WF t -> pre_hist t h = true ->
  tree_equiv (fst (fst (run_both t t h))) (snd (fst (run_both t t h))) /\
  WF (fst (fst (run_both t t h))) /\
  Forall (fun p => out_equiv (fst p) (snd p)) (snd (run_both t t h)).
Proof.
  intros h t H Hp. destruct (equiv_history h t H Hp) as (A & B & C).
  split; [|split; [exact B|exact C]]. intros q. rewrite A. reflexivity.
Qed.
Print Assumptions C02_equiv_history.

(** The same through a child view (one nesting level): a disk child created on an existing
    directory [b] ([disk_view_step b] = the disk root re-rooted at b) and the memfs child view
    with the same base ([view_step (view_base b)]) agree under [pre_at b]. *)
Theorem C02_view : forall b t o, WF t -> good_path b = true -> is_dir_at t b = true ->
  pre_at b t o = true ->
  tree_equiv (fst (disk_view_step b t o)) (fst (view_step (view_base b) t o)) /\
  out_equiv (snd (disk_view_step b t o)) (snd (view_step (view_base b) t o)).
Proof.
  intros b t o H Gb Hd Hp. unfold disk_view_step. rewrite (view_step_m b t o Gb).
  destruct (d_m_equiv b t o H Gb Hd Hp) as [A B]. split; [|exact B]. intros q. rewrite A. reflexivity.
Qed.
Print Assumptions C02_view.

(** The property's own wording of the preconditions is covered. *)
Theorem C02_property_preconditions_suffice : forall b t o, prop_pre_at b t o = true -> pre_at b t o = true.
Proof. exact prop_pre_implies_pre. Qed.
Print Assumptions C02_property_preconditions_suffice.

(** Clean failure, for EVERY operation and EVERY well-formed tree, whether or not the
    preconditions hold: on both backends a path [q] that is neither a target of the operation nor
    below one keeps its node, and only directories leading to a target can newly appear. *)
Theorem C02_clean_failure : forall t o q, WF t ->
  (forall s p, In s (targets o) -> reduce s = Some p -> is_prefix p q = false) ->
  ((forall e, lookup t q = Some e -> lookup (fst (disk_step t o)) q = Some e) /\
   (lookup t q = None -> lookup (fst (disk_step t o)) q <> None ->
    lookup (fst (disk_step t o)) q = Some D /\
    exists s p, In s (targets o) /\ reduce s = Some p /\ is_prefix q p = true)) /\
  ((forall e, lookup t q = Some e -> lookup (fst (mem_step t o)) q = Some e) /\
   (lookup t q = None -> lookup (fst (mem_step t o)) q <> None ->
    lookup (fst (mem_step t o)) q = Some D /\
    exists s p, In s (targets o) /\ reduce s = Some p /\ is_prefix q p = true)).
Proof.
  intros t o q H Hout. split; [exact (disk_step_outside t o q H Hout)|exact (mem_step_outside t o q H Hout)].
Qed.
Print Assumptions C02_clean_failure.

(** … and both keep the tree well formed (no duplicate, parents are directories, proper names). *)
Theorem C02_wf_preserved : forall t o, WF t -> WF (fst (disk_step t o)) /\ WF (fst (mem_step t o)).
Proof. intros t o H. split; [apply disk_step_WF|apply mem_step_WF]; exact H. Qed.
Print Assumptions C02_wf_preserved.

(** Clean failure behind a child view: whatever the operation, a disk child with base [b] and a
    memfs child view with base [b] change nothing outside [b] (only [b]'s own missing parents may
    appear as directories). *)
Theorem C02_view_confined : forall b t o q, WF t -> good_path b = true -> is_prefix b q = false ->
  ((forall e, lookup t q = Some e -> lookup (fst (disk_view_step b t o)) q = Some e) /\
   (lookup t q = None -> lookup (fst (disk_view_step b t o)) q <> None ->
    lookup (fst (disk_view_step b t o)) q = Some D /\ is_prefix q b = true)) /\
  ((forall e, lookup t q = Some e -> lookup (fst (view_step (view_base b) t o)) q = Some e) /\
   (lookup t q = None -> lookup (fst (view_step (view_base b) t o)) q <> None ->
    lookup (fst (view_step (view_base b) t o)) q = Some D /\ is_prefix q b = true)).
Proof.
  intros b t o q H Gb Hq. split; [exact (disk_view_confined b t o q H Gb Hq)|exact (view_step_outside b t o q H Gb Hq)].
Qed.
Print Assumptions C02_view_confined.

(** A reader session delivers the same bytes on both backends for ANY sequence of buffer sizes
    (they differ only in WHEN io.EOF is reported). *)
Theorem C02_reader_same_bytes : forall data bufs,
  chunks_data (disk_read_seq data bufs) = chunks_data (read_seq data bufs).
Proof. intros data bufs. apply read_seq_same_bytes. Qed.
Print Assumptions C02_reader_same_bytes.

(** ** Intended differences OUTSIDE the preconditions (why [pre] is needed), as evaluated by the
    two models.  Names: a=97 b=98 f=102 g=103 x=120. *)
Definition tA : fs := [([[97]], D); ([[97]; [102]], F [1; 2; 3]); ([[98]], F [9])].   (* a/  a/f  b *)

Theorem C02_differences_refuted :
  (* RemoveAll of a missing path: disk nil, memfs error *)
  (snd (disk_step tA (ORemoveAll [120])) = RUnit /\ snd (mem_step tA (ORemoveAll [120])) = RErr) /\
  (* copy over an existing file: disk overwrites, memfs refuses *)
  (disk_step tA (OCopyFile [97;47;102] [98]) = ([([[97]], D); ([[97]; [102]], F [1;2;3]); ([[98]], F [1;2;3])], RUnit) /\
   mem_step tA (OCopyFile [97;47;102] [98]) = (tA, RErr)) /\
  (* Writer with a missing parent: disk error, memfs creates the parent *)
  (disk_step tA (OWriter [120;47;103] [[7]]) = (tA, RErr) /\
   mem_step tA (OWriter [120;47;103] [[7]]) = (tA ++ [([[120]], D); ([[120];[103]], F [7])], RUnit)) /\
  (* Remove("") on an empty root: disk removes the (host) root directory, memfs refuses *)
  (snd (disk_step [] (ORemove [])) = RUnit /\ snd (mem_step [] (ORemove [])) = RErr) /\
  (* RemoveAll(""): disk wipes everything, memfs refuses *)
  (disk_step tA (ORemoveAll []) = ([], RUnit) /\ mem_step tA (ORemoveAll []) = (tA, RErr)) /\
  (* Filespace of a missing directory: disk error, memfs hands out a view *)
  (snd (disk_step tA (OFilespace [120])) = RErr /\ snd (mem_step tA (OFilespace [120])) = RUnit) /\
  (* copy of a directory onto an existing directory: disk merges, memfs refuses *)
  (disk_step tA (OCopyDir [97] []) = (tA ++ [([[102]], F [1;2;3])], RUnit) /\
   mem_step tA (OCopyDir [97] []) = (tA, RErr)) /\
  (* CopyFile whose source is a directory: both fail, but disk has already created the (empty)
     destination — a change INSIDE the addressed path, allowed by the clean-failure clause *)
  (disk_step tA (OCopyFile [97] [120]) = (tA ++ [([[120]], F [])], RErr) /\
   mem_step tA (OCopyFile [97] [120]) = (tA, RErr)).
Proof. vm_compute. repeat split. Qed.
Print Assumptions C02_differences_refuted.

(** The lazy walk of disk.CopyDirectory when the destination is an ancestor of the source (observed
    on the real code: a/a/f=new, a/f=old, Copy("a","") leaves f=new and a/f=new). *)
Example C02_ex_merge_alias :
  disk_step [([[97]], D); ([[97];[97]], D); ([[97];[97];[102]], F [2]); ([[97];[102]], F [1])] (OCopy [97] []) =
  ([([[97]], D); ([[97];[97]], D); ([[97];[97];[102]], F [2]); ([[97];[102]], F [2]); ([[102]], F [2])], RUnit).
Proof. vm_compute. reflexivity. Qed.

(** ** Non-vacuity: a history that satisfies [pre] at every step, mutates the tree with every
    kind of operation, and on which the two models visibly agree. *)
Definition hEx : list op :=
  [OMkdirAll [97;47;98];                         (* mkdir a/b *)
   OWriteFile [46;47;97;47;47;102] [104;105];    (* "./a//f" := "hi" *)
   OWriter [97;47;98;47;103] [[1];[2;3]];        (* writer a/b/g *)
   OCopy [97] [120];                             (* copy a -> x *)
   OCopyFile [120;47;102] [97;47;98;47;102];     (* x/f -> a/b/f *)
   OReader [120;47;98;47;103] [2%nat; 0%nat; 5%nat];
   OReadDir [120];
   ORemove [97;47;102];
   ORemoveAll [120;47;98];
   OCopyDir [120] [97;47;98;47;120];
   OLstat [97;47;98;47;102]].
Example C02_ex_history_pre : pre_hist [] hEx = true.
Proof. vm_compute. reflexivity. Qed.
Example C02_ex_history_result :
  fst (fst (run_both [] [] hEx)) =
  [([[97]], D); ([[97];[98]], D); ([[97];[98];[103]], F [1;2;3]); ([[120]], D); ([[120];[102]], F [104;105]);
   ([[97];[98];[102]], F [104;105]); ([[97];[98];[120]], D); ([[97];[98];[120];[102]], F [104;105])] /\
  nth 5 (snd (run_both [] [] hEx)) (RErr, RErr) =
    (RChunks [([1;2], false); ([], false); ([3], false)], RChunks [([1;2], false); ([], false); ([3], true)]).
Proof. vm_compute. split; reflexivity. Qed.
(** … and for the view theorem: base a/b exists as a directory, the child copies and removes. *)
Example C02_ex_view_pre :
  let t := fst (fst (run_both [] [] hEx)) in
  is_dir_at t [[97];[98]] = true /\
  pre_at [[97];[98]] t (OCopy [120] [46;47;103;47;46;46;47;99]) = true /\           (* x -> "./g/../c" *)
  fst (disk_view_step [[97];[98]] t (OCopy [120] [99])) = t ++ [([[97];[98];[99]], D); ([[97];[98];[99];[102]], F [104;105])] /\
  pre_at [[97];[98]] t (ORemove []) = false /\ prop_pre_at [[97];[98]] t (OReadFile [103]) = true.
Proof. vm_compute. repeat split. Qed.
(** the hypothesis of the frame theorems is satisfiable: Copy a -> x does not address b *)
Example C02_ex_frame_hyp : forall s p, In s (targets (OCopy [97] [120])) -> reduce s = Some p -> is_prefix p [[98]] = false.
Proof. intros s p [<-|[]] H. vm_compute in H. inversion H. reflexivity. Qed.

(** * Proof audit: histories through child filespaces, every backend pair, the frame over
    histories, and the statement's three preconditions taken literally.
    Definitions: Model/DiskHist.v; proofs: Proofs/DiskHist.v, Proofs/DiskFrame.v, Proofs/DiskSub.v. *)
From GC Require Import Model.DiskHist Proofs.DiskHist Proofs.DiskFrame Proofs.DiskSub.

(** Histories over HELD views: every step names the filespace it goes through by its reduced base
    [b] ([] = the root, any depth of nesting = a longer [b]); disk child [d_step b] against the
    memfs root / child view holding the string [view_base b].  Root and child steps may be mixed
    freely.  [pre_hist_at]: at every step the base is a directory and [pre_at] holds.
    Supersedes C02_equiv_history (the case where every base is []) and C02_view (one step). *)
Theorem C02_equiv_held_views : forall h t, WF t -> pre_hist_at t h = true ->
  tree_equiv (fst (fst (run_both_at t t h))) (snd (fst (run_both_at t t h))) /\
  WF (fst (fst (run_both_at t t h))) /\
  Forall (fun p => out_equiv (fst p) (snd p)) (snd (run_both_at t t h)).
Proof.
  intros h t H Hp. destruct (equiv_held_history h t H Hp) as (A & B & C).
  split; [|split; [exact B|exact C]]. intros q. rewrite A. reflexivity.
Qed.
Print Assumptions C02_equiv_held_views.

(** Histories in which every step makes its filespace afresh by a chain of Filespace calls of any
    length with raw arguments ([hist_step], the memfs history step of C01, against
    [disk_hist_step]); [pre_vhist]: every link of the chain addresses an existing directory (the
    precondition of Filespace itself) and the operation meets [pre_at] there. *)
Theorem C02_equiv_view_history : forall h t, WF t -> pre_vhist t h = true ->
  tree_equiv (fst (fst (run_both_v t t h))) (snd (fst (run_both_v t t h))) /\
  WF (fst (fst (run_both_v t t h))) /\
  Forall (fun p => out_equiv (fst p) (snd p)) (snd (run_both_v t t h)).
Proof.
  intros h t H Hp. destruct (equiv_view_history h t H Hp) as (A & B & C).
  split; [|split; [exact B|exact C]]. intros q. rewrite A. reflexivity.
Qed.
Print Assumptions C02_equiv_view_history.

(** … and with the preconditions in the property's own wording at every step ([prop_pre_at]). *)
Theorem C02_property_history : forall h t, WF t -> prop_pre_vhist t h = true ->
  tree_equiv (fst (fst (run_both_v t t h))) (snd (fst (run_both_v t t h))) /\
  WF (fst (fst (run_both_v t t h))) /\
  Forall (fun p => out_equiv (fst p) (snd p)) (snd (run_both_v t t h)).
Proof.
  intros h t H Hp. destruct (property_history h t H Hp) as (A & B & C).
  split; [|split; [exact B|exact C]]. intros q. rewrite A. reflexivity.
Qed.
Print Assumptions C02_property_history.

(** Every backend pair.  [sub b t] is the tree seen from the directory [b].
    memfs child against memfs root, NO precondition on the operation: a child view with base [b]
    is a memfs root on [sub b t] - same output, and the new tree re-rooted is the root's. *)
Theorem C02_mem_child_is_mem_root : forall b t o, WF t -> good_path b = true -> is_dir_at t b = true ->
  mem_step (sub b t) o = (sub b (fst (view_step (view_base b) t o)), snd (view_step (view_base b) t o)).
Proof. exact view_is_root_of_sub. Qed.
Print Assumptions C02_mem_child_is_mem_root.

(** The preconditions read the same from the child at [b] and from a root on the sub-tree. *)
Theorem C02_pre_rerooted : forall b t o, is_dir_at t b = true -> pre (sub b t) o = pre_at b t o.
Proof. exact pre_at_sub. Qed.
Print Assumptions C02_pre_rerooted.

(** disk child against memfs root, memfs child against disk root, disk child against disk root. *)
Theorem C02_disk_child_vs_mem_root : forall b t o,
  WF t -> good_path b = true -> is_dir_at t b = true -> pre_at b t o = true ->
  sub b (fst (disk_view_step b t o)) = fst (mem_step (sub b t) o) /\
  out_equiv (snd (disk_view_step b t o)) (snd (mem_step (sub b t) o)).
Proof. exact child_disk_root_mem. Qed.
Print Assumptions C02_disk_child_vs_mem_root.

Theorem C02_mem_child_vs_disk_root : forall b t o,
  WF t -> good_path b = true -> is_dir_at t b = true -> pre_at b t o = true ->
  fst (disk_step (sub b t) o) = sub b (fst (view_step (view_base b) t o)) /\
  out_equiv (snd (disk_step (sub b t) o)) (snd (view_step (view_base b) t o)).
Proof. exact child_mem_root_disk. Qed.
Print Assumptions C02_mem_child_vs_disk_root.

Theorem C02_disk_child_vs_disk_root : forall b t o,
  WF t -> good_path b = true -> is_dir_at t b = true -> pre_at b t o = true ->
  sub b (fst (disk_view_step b t o)) = fst (disk_step (sub b t) o) /\
  out_equiv (snd (disk_view_step b t o)) (snd (disk_step (sub b t) o)).
Proof. exact child_disk_root_disk. Qed.
Print Assumptions C02_disk_child_vs_disk_root.

(** … on whole histories: the disk child rooted at [b] of [td] and a memfs root started on
    [sub b td] stay in step (the root's tree is the child's sub-tree after every history), and
    the other way round. *)
Theorem C02_disk_child_vs_mem_root_history : forall b, good_path b = true -> forall h td, WF td ->
  pre_hist_in b td h = true ->
  snd (fst (run_child_disk b td (sub b td) h)) = sub b (fst (fst (run_child_disk b td (sub b td) h))) /\
  WF (fst (fst (run_child_disk b td (sub b td) h))) /\
  Forall (fun p => out_equiv (fst p) (snd p)) (snd (run_child_disk b td (sub b td) h)).
Proof. exact child_disk_root_mem_history. Qed.
Print Assumptions C02_disk_child_vs_mem_root_history.

Theorem C02_mem_child_vs_disk_root_history : forall b, good_path b = true -> forall h tm, WF tm ->
  pre_hist_mview b tm h = true ->
  fst (fst (run_child_mem b (sub b tm) tm h)) = sub b (snd (fst (run_child_mem b (sub b tm) tm h))) /\
  WF (snd (fst (run_child_mem b (sub b tm) tm h))) /\
  Forall (fun p => out_equiv (fst p) (snd p)) (snd (run_child_mem b (sub b tm) tm h)).
Proof. exact child_mem_root_disk_history. Qed.
Print Assumptions C02_mem_child_vs_disk_root_history.

(** Clean failure over whole histories, NO precondition on any operation: each backend run on its
    own over any history of root / held-child steps; a path [q] that no step addresses (it is
    neither a target nor below one) keeps its node to the end, and the only thing that can appear
    at [q] is a directory leading to some target; both final trees are well formed.
    Supersedes C02_clean_failure / C02_view_confined / C02_wf_preserved (one step). *)
Theorem C02_clean_failure_history : forall h t q,
  WF t -> (forall bo, In bo h -> good_path (fst bo) = true) -> unaddressed h q ->
  hframe h t (run_disk_at t h) q /\ hframe h t (run_mem_at t h) q /\
  WF (run_disk_at t h) /\ WF (run_mem_at t h).
Proof. exact frame_history. Qed.
Print Assumptions C02_clean_failure_history.

(** The statement's parenthesis taken literally (source exists, destination parent exists,
    destination of a copy is absent) is NOT enough: a directory copied into itself meets all three,
    disk refuses and changes nothing, memfs copies the state before the call.  The real code does
    the same (checked with a scratch test: diskfs: can not copy directory into itself; memfs: nil
    and a/x/f).  [prop_pre_at] / [pre_at] therefore ask for a destination outside the source. *)
Theorem C02_literal_preconditions_refuted :
  let o := OCopy [97] [97;47;120] in                     (* Copy a -> a/x on a/ a/f b *)
  exists_at tA [[97]] = true /\ is_dir_at tA (removelast [[97];[120]]) = true /\
  exists_at tA [[97];[120]] = false /\
  disk_step tA o = (tA, RErr) /\
  mem_step tA o = (tA ++ [([[97];[120]], D); ([[97];[120];[102]], F [1;2;3])], RUnit) /\
  disk_step tA (OCopyDir [97] [97;47;120]) = (tA, RErr) /\
  snd (mem_step tA (OCopyDir [97] [97;47;120])) = RUnit /\
  prop_pre_at [] tA o = false.
Proof. vm_compute. repeat split. Qed.
Print Assumptions C02_literal_preconditions_refuted.

(** ** Non-vacuity of the new hypotheses.  a=97 b=98 c=99 f=102 g=103 k=107 l=108 x=120 *)
Definition hHeld : list (path * op) :=
  [([], OMkdirAll [97;47;98]);                              (* root: mkdir a/b *)
   ([[97]], OWriteFile [98;47;102] [104;105]);              (* child a: b/f := hi *)
   ([[97];[98]], OCopy [102] [46;47;103]);                  (* child a/b: copy f -> ./g *)
   ([[97]], OWriter [98;47;47;120] [[1];[2;3]]);            (* child a: writer b//x *)
   ([[97]], ORemove [98;47;102]);
   ([[97];[98]], OReader [103] [1%nat;5%nat]);
   ([], OCopyDir [97;47;98] [99]);                          (* root: copy a/b -> c *)
   ([[99]], ORemoveAll [103]);                              (* child c *)
   ([], OReadDir [97;47;98])].
Example C02_ex_held_pre : pre_hist_at [] hHeld = true.
Proof. vm_compute. reflexivity. Qed.
Example C02_ex_held_result :
  fst (fst (run_both_at [] [] hHeld)) =
  [([[97]], D); ([[97];[98]], D); ([[97];[98];[103]], F [104;105]); ([[97];[98];[120]], F [1;2;3]);
   ([[99]], D); ([[99];[120]], F [1;2;3])].
Proof. vm_compute. reflexivity. Qed.

(** chains: one and two links, odd spellings, a view of the root itself, a view of a view of c *)
Definition hV : list (list bytes * op) :=
  [([], OMkdirAll [97;47;98]);
   ([[97]], OWriteFile [98;47;102] [104;105]);
   ([[97];[46;47;98;47]], OCopy [102] [46;47;103]);         (* Filespace(a).Filespace(./b/) *)
   ([[46]], OWriter [97;47;98;47;47;120] [[1];[2;3]]);      (* Filespace(.) *)
   ([[97;47;98]], ORemove [102]);                           (* Filespace(a/b) *)
   ([[97];[98]], OReader [103] [1%nat;5%nat]);
   ([], OCopyDir [97;47;98] [99]);
   ([[99];[46]], ORemoveAll [103]);
   ([[97]], OReadDir [98])].
Example C02_ex_chain_pre : pre_vhist [] hV = true /\ prop_pre_vhist [] hV = true.
Proof. vm_compute. split; reflexivity. Qed.
Example C02_ex_chain_result :
  fst (fst (run_both_v [] [] hV)) = fst (fst (run_both_at [] [] hHeld)) /\
  nth 5 (snd (run_both_v [] [] hV)) (RErr, RErr) =
    (RChunks [([104], false); ([105], false)], RChunks [([104], false); ([105], true)]).
Proof. vm_compute. split; reflexivity. Qed.
(** a chain whose directory is missing is outside the preconditions (disk refuses, memfs does not) *)
Example C02_ex_chain_missing :
  pre_chain tA ([[120]], OMkdirAll [103]) = false /\
  disk_hist_step tA ([[120]], OMkdirAll [103]) = (tA, RErr) /\
  snd (hist_step tA ([[120]], OMkdirAll [103])) = RUnit.
Proof. vm_compute. repeat split. Qed.

(** a child at a against the root of the other backend on sub a tA = [f] *)
Definition hC : list op :=
  [OMkdirAll [107;47;108]; OWriteFile [107;47;108;47;103] [122;122]; OCopy [107] [99];
   ORemoveAll [107;47;108]; OCopyFile [102] [107;47;102]; OReadDir []; OLstat [99;47;108;47;103]].
Example C02_ex_child_pre :
  sub [[97]] tA = [([[102]], F [1;2;3])] /\ is_dir_at tA [[97]] = true /\
  pre_hist_in [[97]] tA hC = true /\ pre_hist_mview [[97]] tA hC = true.
Proof. vm_compute. repeat split. Qed.
Example C02_ex_child_result :
  snd (fst (run_child_disk [[97]] tA (sub [[97]] tA) hC)) =
  [([[102]], F [1;2;3]); ([[107]], D); ([[99]], D); ([[99];[108]], D); ([[99];[108];[103]], F [122;122]);
   ([[107];[102]], F [1;2;3])] /\
  fst (fst (run_child_mem [[97]] (sub [[97]] tA) tA hC)) = snd (fst (run_child_disk [[97]] tA (sub [[97]] tA) hC)).
Proof. vm_compute. split; reflexivity. Qed.

(** the frame over a history: nothing in hHeld addresses b (a file of tA), and it is still there *)
Example C02_ex_unaddressed :
  unaddressed hHeld [[98]] /\ (forall bo, In bo hHeld -> good_path (fst bo) = true) /\
  lookup (run_disk_at tA hHeld) [[98]] = Some (F [9]) /\ lookup (run_mem_at tA hHeld) [[98]] = Some (F [9]).
Proof.
  split; [|split; [|vm_compute; split; reflexivity]].
  - intros bo s p Hin Hs Hp. unfold hHeld in Hin. cbn [In] in Hin.
    repeat (destruct Hin as [<-|Hin]; [cbn [snd targets In] in Hs;
      repeat (destruct Hs as [<-|Hs]; [vm_compute in Hp; inversion Hp; reflexivity|]); destruct Hs|]).
    destruct Hin.
  - intros bo Hin. unfold hHeld in Hin. cbn [In] in Hin.
    repeat (destruct Hin as [<-|Hin]; [reflexivity|]). destruct Hin.
Qed.
