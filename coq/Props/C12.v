(** C12 — Scope failure signalling is safe from any number of goroutines.
    Statements only; every proof is [exact <lemma of Proofs/Scope.v or Proofs/C12More.v>]
    (the second half, added by the proof audit, starts at C12_done_never_closed_twice).
    System: [init progs] = any number of threads, each with any list of operations (contexts,
    root scopes, children and isolated children are created by operations, so every tree shape
    is covered); [run cfg_current sched] = any interleaving of their micro-steps (Model/Scope.v).
    [cfg_current] = the code as it is: Stop is one locked test-and-close (F19), NewChild remembers
    the registration only if the parent accepted it (F20), closed is set after the wait (b43446f). *)
From GC Require Import Common.Base Model.Scope Model.ScopeLive Proofs.Scope Proofs.ScopeLive Proofs.C12More.
From Coq Require Import ZArith Permutation.
Local Open Scope nat_scope.

(** No call panics.  The callers' operations: anything except Close and DoneTask (AppendError,
    Kill, Stop, IsDone, Err, Wait, AddTasks, On, creation of contexts, roots, shared and isolated
    children — on scopes and on bare context objects).  No scope is being closed here:
    AppendError/Kill/Stop on a scope whose Close has passed its wait panic by design
    (preventClosed) and are outside the property's quantifier. *)
Theorem C12_no_panic : forall (progs : list (list op)) (sched : list tid),
  Forall (Forall (fun o => op_safe o = true)) progs ->
  all_panics (run cfg_current sched (init progs)) = [].
Proof. exact (fun progs sched => no_panic cfg_current progs sched eq_refl). Qed.
Print Assumptions C12_no_panic.

(** ... and calls racing with a Close that has started but is still waiting for its tasks are
    accepted too (commit b43446f): in every reachable state of ANY programs, preventClosed does not
    fire on a scope whose Close has not yet passed the wait, and the wait cannot return while an
    accepted task is outstanding. *)
Theorem C12_no_panic_while_close_waits : forall progs sched s,
  let st := run cfg_current sched (init progs) in
  (before_closed (s_pc (gets (sh st) s)) = true ->
   forall b, exec cfg_current b (IChkClosed s) (sh st) = xok (sh st)) /\
  (s_pc (gets (sh st) s) = CWait -> (0 < s_tasks (gets (sh st) s))%Z ->
   close_step cfg_current (sh st) s = XBlocked).
Proof. exact waiting_accepts. Qed.
Print Assumptions C12_no_panic_while_close_waits.

(** Every appended error is retained: in every reachable state the error list of every context is
    a permutation of: the errors of all COMPLETED AppendError/Kill calls (one Canceled per Kill;
    nil arguments dropped), the errors already appended by calls still in progress, and the
    listener errors appended by Close calls ([c_sys]).  Nothing is lost, nothing is duplicated. *)
Theorem C12_errors_retained : forall progs sched c,
  let st := run cfg_current sched (init progs) in
  Permutation (c_errors (getc (sh st) c))
              (c_sys (getc (sh st) c) ++ completed c st ++ inflight c st).
Proof. exact (fun progs sched c => retained cfg_current progs sched c eq_refl). Qed.
Print Assumptions C12_errors_retained.

(** ... and the list only ever grows at its end. *)
Theorem C12_errors_never_lost : forall progs s1 s2 c,
  exists suf, c_errors (getc (sh (run cfg_current (s1 ++ s2) (init progs))) c)
              = c_errors (getc (sh (run cfg_current s1 (init progs))) c) ++ suf.
Proof. exact (errors_never_lost cfg_current). Qed.
Print Assumptions C12_errors_never_lost.

(** The accessors report non-nil iff the list is non-empty (Err / Wait / the return of Close). *)
Theorem C12_accessors : forall sh b c s,
  exec cfg_current b (IErr c) sh = XOk sh [] [OBool (negb (isnil (c_errors (getc sh c))))] [] [] /\
  (valids sh s = true -> s_wg (gets sh s) = 0%Z ->
   exec cfg_current b (IWait s) sh = xpush sh [IErr (s_ctx (gets sh s))]) /\
  (s_pc (gets sh s) = CRet ->
   close_step cfg_current sh s =
   XOk (set_pc sh s CFinished) [] [OClosed s (negb (isnil (errs_of sh s)))] [] []).
Proof. exact accessors. Qed.
Print Assumptions C12_accessors.

(** The done signal fires once: it never goes back, and it is on after every completed
    AppendError of a non-nil error / Kill / Stop (a completed call is recorded in [t_acks]). *)
Theorem C12_done_once : forall progs,
  (forall s1 s2 c, c_done (getc (sh (run cfg_current s1 (init progs))) c) = true ->
                   c_done (getc (sh (run cfg_current (s1 ++ s2) (init progs))) c) = true) /\
  (forall sched th c es, let st := run cfg_current sched (init progs) in
     In th (ths st) -> In (c, es) (t_acks th) -> c_done (getc (sh st) c) = true).
Proof. exact done_once. Qed.
Print Assumptions C12_done_once.

(** Creating and closing children of scopes that are done (or not), racing with anything the
    parent's users do short of calling DoneTask themselves: the WaitGroup counter never goes
    negative and the only panics ever observed are the refusals by design
    (preventClosed / preventDoubleClosed / use of a closed scope's nil fields). *)
Theorem C12_child_of_done : forall progs sched,
  Forall (Forall (fun o => op_nodone o = true)) progs ->
  let st := run cfg_current sched (init progs) in
  (forall s, (0 <= s_wg (gets (sh st) s))%Z) /\
  (forall th, In th (ths st) -> Forall (fun o => bad_panic o = false) (t_out th)).
Proof. exact (fun progs sched => child_of_done cfg_current progs sched eq_refl eq_refl). Qed.
Print Assumptions C12_child_of_done.

(** Regression witnesses: the same statements are FALSE for the code before the fixes. *)
Definition cfg_F19 := {| stop_atomic := false; remember_reg := true; late_closed := true |}.
Definition cfg_F20 := {| stop_atomic := true; remember_reg := false; late_closed := true |}.
Definition cfg_old_close := {| stop_atomic := true; remember_reg := true; late_closed := false |}.

Definition t (n : nat) : tid := (n, true).

Theorem C12_F19_refuted : exists progs sched,
  Forall (Forall (fun o => op_safe o = true)) progs /\
  all_panics (run cfg_F19 sched (init progs)) = [OPanic PChan].
Proof.
  exists [[ONewCtx]; [OCStop 0]; [OCStop 0]], [t 0; t 1; t 2; t 1; t 2].
  split; [repeat constructor|vm_compute; reflexivity].
Qed.
Print Assumptions C12_F19_refuted.

Theorem C12_F20_refuted : exists progs sched,
  Forall (Forall (fun o => op_nodone o = true)) progs /\
  all_panics (run cfg_F20 sched (init progs)) = [OPanic PNegWG].
Proof.
  exists [[ONewRoot; OKill 0; ONewChild 0 false; OClose 1]], (repeat (t 0) 30).
  split; [repeat constructor|vm_compute; reflexivity].
Qed.
Print Assumptions C12_F20_refuted.

(** A task reports an error while the scope's Close waits for it: refused by the old Close. *)
Definition waiting_progs : list (list op) :=
  [[ONewRoot; OAddTasks 0]; [OClose 0]; [OAppendError 0 [Some 7%N]; ODoneTask 0]].
Definition waiting_sched : list tid := repeat (t 0) 2 ++ repeat (t 1) 5 ++ repeat (t 2) 8 ++ repeat (t 1) 20.

Theorem C12_closing_refuted :
  all_panics (run cfg_old_close waiting_sched (init waiting_progs)) = [OPanic PClosed].
Proof. vm_compute. reflexivity. Qed.
Print Assumptions C12_closing_refuted.

(** Non-vacuity. *)
Example C12_waiting_now_accepted :
  let st := run cfg_current waiting_sched (init waiting_progs) in
  all_panics st = [] /\ errs_of (sh st) 0 = [7%N] /\
  close_word (log (sh st)) 0 = full_word false /\
  map t_out (ths st) = [[OAdd true]; [OClosed 0 true]; []].
Proof. vm_compute. repeat split. Qed.

Definition ex_progs : list (list op) :=
  [[ONewRoot; ONewChild 0 true; ONewCtx; ONewIso 1];
   [OAppendError 0 [Some 1%N; None; Some 2%N]; OKill 1; OCKill 1];
   [OStop 0; OKill 0; OCAppend 1 [Some 3%N]; OErr 0; OIsDone 1];
   [OCStop 2; OCAppend 2 [None]; OAppendError 1 [Some 4%N]]].
Definition ex_sched : list tid :=
  repeat (t 0) 4 ++ flat_map (fun _ => [t 1; t 2; t 3; (4, false); (5, true)]) (seq 0 12).

Example C12_example_safe : Forall (Forall (fun o => op_safe o = true)) ex_progs.
Proof. repeat constructor. Qed.
Example C12_example_run :
  let st := run cfg_current ex_sched (init ex_progs) in
  c_errors (getc (sh st) 0) = [1; 2; Canceled]%N /\ c_done (getc (sh st) 0) = true /\
  c_errors (getc (sh st) 1) = [4; Canceled; Canceled; 3; Canceled]%N /\
  c_errors (getc (sh st) 3) = [Canceled]%N /\
  completed 0 st = [1; 2; Canceled]%N /\ length (completed 1 st) = 5 /\
  all_panics st = [].
Proof. vm_compute. repeat split. Qed.
(** a state with an append in flight (appended, Stop not yet executed) *)
Example C12_example_inflight :
  let st := run cfg_current [t 0; t 1] (init [[ONewCtx]; [OCAppend 0 [Some 5%N]]]) in
  inflight 0 st = [5%N] /\ completed 0 st = [] /\ c_errors (getc (sh st) 0) = [5%N] /\
  c_done (getc (sh st) 0) = false.
Proof. vm_compute. repeat split. Qed.
(** child of a done scope, shared and isolated, closed before/after the parent *)
Example C12_example_child_of_done :
  let st := run cfg_current (repeat (t 0) 60)
     (init [[ONewRoot; OKill 0; ONewChild 0 false; ONewChild 0 true; OClose 1; OClose 2; OClose 0]]) in
  all_panics st = [] /\ map s_wg (scopes (sh st)) = [0; 0; 0]%Z /\
  t_out (nth 0 (ths st) (mk_thread [])) = [OClosed 1 true; OClosed 2 false; OClosed 0 true].
Proof. vm_compute. repeat split. Qed.

(** * Second half (proof audit): the clauses at full strength *)

(** 'The done signal fires exactly once', at-most-once half, with NO hypothesis on the programs
    (Close, DoneTask, Wait, anything): close(done) is never executed on a closed channel - no
    thread ever observes [PChan].  (C12_no_panic says so only for programs without Close/DoneTask;
    C12_child_of_done only without DoneTask.)  False before F19: C12_F19_refuted. *)
Theorem C12_done_never_closed_twice : forall progs sched th,
  In th (ths (run cfg_current sched (init progs))) ->
  Forall (fun o => chan_panic o = false) (t_out th).
Proof. exact (fun progs sched th => never_closed_twice cfg_current progs sched th eq_refl). Qed.
Print Assumptions C12_done_never_closed_twice.

(** ... and the other half of 'exactly': done is never on without a reason.  In every reachable
    state of ANY programs, a context that is done has (1) a completed AppendError(non-nil) / Kill /
    Stop of one of the callers (threads below [length progs] are the programs; the threads above are
    the watcher goroutines of isolated contexts), or (2) a listener error appended by a Close, or
    (3) it is an isolated context whose parent is done.  Together with C12_done_once (on after every
    completed signalling call, never off again) this characterises the done flag. *)
Theorem C12_done_only_for_a_reason : forall progs sched c,
  let st := run cfg_current sched (init progs) in
  c_done (getc (sh st) c) = true ->
  (exists m th es, m < length progs /\ nth_error (ths st) m = Some th /\ In (c, es) (t_acks th)) \/
  c_sys (getc (sh st) c) <> [] \/
  (exists p, c_iso (getc (sh st) c) = Some p /\ c_done (getc (sh st) p) = true).
Proof. exact done_cause. Qed.
Print Assumptions C12_done_only_for_a_reason.

(** 'Every appended error is retained AND REPORTED by the accessors, by waiting and by closing',
    end to end: once a call that appended [e] to context [c] has completed (it is in the caller's
    [t_acks] after the schedule prefix [s1]), then after ANY continuation [s2] of ANY programs the
    completion is still recorded, [e] is in the list, Err on [c] answers true, a Wait on a scope of
    [c] that gets through hands over to that Err, and a Close of a scope of [c] that reaches its
    return statement returns an error.  (C12_accessors states the accessors for an arbitrary shared
    state without tying them to completed calls.) *)
Theorem C12_reported : forall progs s1 s2 n th c es e,
  nth_error (ths (run cfg_current s1 (init progs))) n = Some th ->
  In (c, es) (t_acks th) -> In e es ->
  let st := run cfg_current (s1 ++ s2) (init progs) in
  (exists th', nth_error (ths st) n = Some th' /\ thext th th') /\
  In e (c_errors (getc (sh st) c)) /\
  (forall b, exec cfg_current b (IErr c) (sh st) = XOk (sh st) [] [OBool true] [] []) /\
  (forall b s, valids (sh st) s = true -> s_ctx (gets (sh st) s) = c -> s_wg (gets (sh st) s) = 0%Z ->
     exec cfg_current b (IWait s) (sh st) = xpush (sh st) [IErr c]) /\
  (forall s, s_ctx (gets (sh st) s) = c -> s_pc (gets (sh st) s) = CRet ->
     close_step cfg_current (sh st) s = XOk (set_pc (sh st) s CFinished) [] [OClosed s true] [] []).
Proof. exact reported. Qed.
Print Assumptions C12_reported.

(** 'No call panics' and 'creating and closing a child of a scope that is already done is equally
    safe' with Close IN the programs and the conclusion NO PANIC AT ALL (C12_child_of_done allows the
    refusals by design; C12_no_panic has no Close).  Discipline [disciplined] (Proofs/C12More.v): no
    DoneTask; every scope is closed at most once; a scope that some program closes is signalled,
    given listeners or children only by the closing thread, earlier in its program.  Any number of
    other threads signal the scopes that are never closed (the done parent) and the bare contexts,
    in any interleaving with the creation and closing of children that share those contexts.
    Second conjunct: an operation about to signal / register on / hang a child under a scope always
    finds that scope's Close not started - in particular NewChild never meets a closed parent, the
    one case Model/Scope.v does not cover.  Supersedes C12_no_panic ([safe_disciplined]). *)
Theorem C12_no_panic_closing : forall progs sched,
  disciplined progs ->
  let st := run cfg_current sched (init progs) in
  all_panics st = [] /\
  (forall th o r s, In th (ths st) -> t_cur th = [] -> t_todo th = o :: r -> target o = Some s ->
     s_pc (gets (sh st) s) = CNone).
Proof. exact (fun progs sched => no_panic_closing cfg_current progs sched eq_refl eq_refl). Qed.
Print Assumptions C12_no_panic_closing.

(** No call hangs either: signalling is wait-free.  From ANY state (reachable or not), a thread
    whose remaining program has no Close and no Wait (1) can take its next micro-step whichever way
    the choice bit falls, stays in that class and loses weight; (2) is untouched by the micro-steps
    of every other thread; hence (3) under ANY schedule it has finished all its calls once it has been
    scheduled [thw] times, whatever the others do (a Close parked on its tasks, watchers, ...);
    (4) [thw] is at most 12 micro-steps per operation. *)
Theorem C12_wait_free :
  (forall cf n b st th, nth_error (ths st) n = Some th -> free_thread th = true -> finished th = false ->
     exists st' th', step cf (n, b) st = Some st' /\ nth_error (ths st') n = Some th' /\
                     free_thread th' = true /\ thw th' < thw th) /\
  (forall cf m b st st' n th, step cf (m, b) st = Some st' -> m <> n ->
     nth_error (ths st) n = Some th -> nth_error (ths st') n = Some th) /\
  (forall cf sched st n th, nth_error (ths st) n = Some th -> free_thread th = true ->
     thw th <= occ n sched ->
     exists th', nth_error (ths (run cf sched st)) n = Some th' /\ finished th' = true) /\
  (forall ops, forallb free_op ops = true -> thw (mk_thread ops) <= 12 * length ops).
Proof. exact (conj free_step (conj other_step (conj wait_free free_weight))). Qed.
Print Assumptions C12_wait_free.

(** Non-vacuity of the second half. *)
(** done for each of the three reasons alone: a caller (context 0 of the running example), a
    watcher after the parent's end (context 3: no caller ever touched it), a listener error *)
Example C12_reason_examples :
  let st := run cfg_current ex_sched (init ex_progs) in
  (c_done (getc (sh st) 0) = true /\ c_sys (getc (sh st) 0) = [] /\ c_iso (getc (sh st) 0) = None) /\
  (c_done (getc (sh st) 3) = true /\ c_sys (getc (sh st) 3) = [] /\
   flat_map (fun th => acked 3 (t_acks th)) (firstn 4 (ths st)) = [] /\ c_iso (getc (sh st) 3) = Some 1) /\
  let st2 := run cfg_current (repeat (t 0) 20) (init [[ONewRoot; OOn 0 EBeforeClose 1 (Some 9%N); OClose 0]]) in
  c_done (getc (sh st2) 0) = true /\ c_sys (getc (sh st2) 0) = [9%N] /\
  map t_acks (ths st2) = [[]] /\ c_iso (getc (sh st2) 0) = None.
Proof. vm_compute. repeat split. Qed.

(** a completed call to start from (premises of C12_reported) *)
Example C12_reported_example :
  exists th, nth_error (ths (run cfg_current ex_sched (init ex_progs))) 1 = Some th /\
             In (0, [1; 2]%N) (t_acks th) /\ In 2%N [1; 2]%N.
Proof. eexists. vm_compute. split; [reflexivity|]. split; [left; reflexivity|right; left; reflexivity]. Qed.

(** disciplined programs: the child-of-done example (kill, children, closes, all in one thread) and
    a concurrent one - thread 1 and 2 signal the never-closed root 0 and the bare context 1 while
    threads 3 and 4 create a shared and an isolated child of 0 and close them *)
Definition mix_progs : list (list op) :=
  [[ONewRoot; ONewCtx]; [OKill 0; OAppendError 0 [Some 5%N]]; [OStop 0; OCKill 1; OIsDone 0];
   [ONewChild 0 false; OErr 1; OClose 1]; [ONewChild 0 true; OAppendError 2 [Some 6%N]; OClose 2]].
Definition mix_sched : list tid :=
  repeat (t 0) 2 ++ flat_map (fun _ => [t 4; t 1; t 3; t 2; (5, true); (6, true)]) (seq 0 40).
Definition cod_progs : list (list op) :=
  [[ONewRoot; OKill 0; ONewChild 0 false; ONewChild 0 true; OClose 1; OClose 2; OClose 0]].

Example C12_disciplined_examples : disciplined cod_progs /\ disciplined mix_progs /\ disciplined ex_progs.
Proof.
  split; [|split]; (split; [vm_compute; repeat constructor; simpl; intuition discriminate
                           |repeat constructor]).
Qed.
Example C12_mix_run :
  let st := run cfg_current mix_sched (init mix_progs) in
  all_panics st = [] /\ map s_pc (scopes (sh st)) = [CNone; CFinished; CFinished] /\
  map (fun th => isnil (t_cur th) && isnil (t_todo th)) (ths st) = [true; true; true; true; true; true].
Proof. vm_compute. repeat split. Qed.
(** the discipline is needed: a signal after the Close of the same scope, and a second Close *)
Example C12_discipline_needed :
  all_panics (run cfg_current (repeat (t 0) 40) (init [[ONewRoot; OClose 0; OKill 0]])) = [OPanic PClosed] /\
  all_panics (run cfg_current (repeat (t 0) 10 ++ repeat (t 1) 10) (init [[ONewRoot; OClose 0]; [OClose 0]]))
    = [OPanic PDouble].
Proof. vm_compute. split; reflexivity. Qed.

(** wait-free: thread 2 signals a scope whose Close (thread 1) is parked on a task nobody finishes;
    31 = thw slots later it has finished, the Close is still parked *)
Definition wf_progs : list (list op) :=
  [[ONewRoot; OAddTasks 0]; [OClose 0]; [OKill 0; OStop 0; OAppendError 0 [Some 1%N]]].
Example C12_wait_free_example :
  let st0 := run cfg_current (repeat (t 0) 2 ++ repeat (t 1) 5) (init wf_progs) in
  map free_thread (ths st0) = [true; false; true] /\ map thw (ths st0) = [0; 1; 31] /\
  let st1 := run cfg_current (flat_map (fun _ => [t 1; t 2]) (seq 0 31)) st0 in
  map finished (ths st1) = [true; false; true] /\ all_panics st1 = [] /\
  map t_cur (ths st1) = [[]; [IRunClose 0]; []] /\ errs_of (sh st1) 0 = [Canceled; 1%N].
Proof. vm_compute. repeat split. Qed.
