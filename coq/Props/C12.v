(** C12 — Scope failure signalling is safe from any number of goroutines.
    Statements only; every proof is [exact <lemma of Proofs/Scope.v>].
    System: [init progs] = any number of threads, each with any list of operations (contexts,
    root scopes, children and isolated children are created by operations, so every tree shape
    is covered); [run cfg_current sched] = any interleaving of their micro-steps (Model/Scope.v).
    [cfg_current] = the code as it is: Stop is one locked test-and-close (F19), NewChild remembers
    the registration only if the parent accepted it (F20), closed is set after the wait (b43446f). *)
From GC Require Import Common.Base Model.Scope Proofs.Scope.
From Coq Require Import ZArith Permutation.
Local Open Scope nat_scope.

(** No call panics.  The callers' operations: anything except Close and DoneTask (AppendError,
    Kill, Stop, IsDone, Err, Wait, AddTasks, On, creation of contexts, roots, shared and isolated
    children — on scopes and on bare context objects).  No scope is being closed here:
    AppendError/Kill/Stop on a scope whose Close has passed its wait panic by design
    (preventClosed) and are outside the property's quantifier. *)
Theorem C12_no_panic : forall (progs : list (list op)) (sched : list tid),
  Forall (Forall (fun o => op_safe o = true)) progs ->
  all_panics (run cfg_current sched (init progs)) = [].
Proof. exact (fun progs sched => no_panic cfg_current progs sched eq_refl). Qed.
Print Assumptions C12_no_panic.

(** ... and calls racing with a Close that has started but is still waiting for its tasks are
    accepted too (commit b43446f): in every reachable state of ANY programs, preventClosed does not
    fire on a scope whose Close has not yet passed the wait, and the wait cannot return while an
    accepted task is outstanding. *)
Theorem C12_no_panic_while_close_waits : forall progs sched s,
  let st := run cfg_current sched (init progs) in
  (before_closed (s_pc (gets (sh st) s)) = true ->
   forall b, exec cfg_current b (IChkClosed s) (sh st) = xok (sh st)) /\
  (s_pc (gets (sh st) s) = CWait -> (0 < s_tasks (gets (sh st) s))%Z ->
   close_step cfg_current (sh st) s = XBlocked).
Proof. exact waiting_accepts. Qed.
Print Assumptions C12_no_panic_while_close_waits.

(** Every appended error is retained: in every reachable state the error list of every context is
    a permutation of: the errors of all COMPLETED AppendError/Kill calls (one Canceled per Kill;
    nil arguments dropped), the errors already appended by calls still in progress, and the
    listener errors appended by Close calls ([c_sys]).  Nothing is lost, nothing is duplicated. *)
Theorem C12_errors_retained : forall progs sched c,
  let st := run cfg_current sched (init progs) in
  Permutation (c_errors (getc (sh st) c))
              (c_sys (getc (sh st) c) ++ completed c st ++ inflight c st).
Proof. exact (fun progs sched c => retained cfg_current progs sched c eq_refl). Qed.
Print Assumptions C12_errors_retained.

(** ... and the list only ever grows at its end. *)
Theorem C12_errors_never_lost : forall progs s1 s2 c,
  exists suf, c_errors (getc (sh (run cfg_current (s1 ++ s2) (init progs))) c)
              = c_errors (getc (sh (run cfg_current s1 (init progs))) c) ++ suf.
Proof. exact (errors_never_lost cfg_current). Qed.
Print Assumptions C12_errors_never_lost.

(** The accessors report non-nil iff the list is non-empty (Err / Wait / the return of Close). *)
Theorem C12_accessors : forall sh b c s,
  exec cfg_current b (IErr c) sh = XOk sh [] [OBool (negb (isnil (c_errors (getc sh c))))] [] [] /\
  (valids sh s = true -> s_wg (gets sh s) = 0%Z ->
   exec cfg_current b (IWait s) sh = xpush sh [IErr (s_ctx (gets sh s))]) /\
  (s_pc (gets sh s) = CRet ->
   close_step cfg_current sh s =
   XOk (set_pc sh s CFinished) [] [OClosed s (negb (isnil (errs_of sh s)))] [] []).
Proof. exact accessors. Qed.
Print Assumptions C12_accessors.

(** The done signal fires once: it never goes back, and it is on after every completed
    AppendError of a non-nil error / Kill / Stop (a completed call is recorded in [t_acks]). *)
Theorem C12_done_once : forall progs,
  (forall s1 s2 c, c_done (getc (sh (run cfg_current s1 (init progs))) c) = true ->
                   c_done (getc (sh (run cfg_current (s1 ++ s2) (init progs))) c) = true) /\
  (forall sched th c es, let st := run cfg_current sched (init progs) in
     In th (ths st) -> In (c, es) (t_acks th) -> c_done (getc (sh st) c) = true).
Proof. exact done_once. Qed.
Print Assumptions C12_done_once.

(** Creating and closing children of scopes that are done (or not), racing with anything the
    parent's users do short of calling DoneTask themselves: the WaitGroup counter never goes
    negative and the only panics ever observed are the refusals by design
    (preventClosed / preventDoubleClosed / use of a closed scope's nil fields). *)
Theorem C12_child_of_done : forall progs sched,
  Forall (Forall (fun o => op_nodone o = true)) progs ->
  let st := run cfg_current sched (init progs) in
  (forall s, (0 <= s_wg (gets (sh st) s))%Z) /\
  (forall th, In th (ths st) -> Forall (fun o => bad_panic o = false) (t_out th)).
Proof. exact (fun progs sched => child_of_done cfg_current progs sched eq_refl eq_refl). Qed.
Print Assumptions C12_child_of_done.

(** Regression witnesses: the same statements are FALSE for the code before the fixes. *)
Definition cfg_F19 := {| stop_atomic := false; remember_reg := true; late_closed := true |}.
Definition cfg_F20 := {| stop_atomic := true; remember_reg := false; late_closed := true |}.
Definition cfg_old_close := {| stop_atomic := true; remember_reg := true; late_closed := false |}.

Definition t (n : nat) : tid := (n, true).

Theorem C12_F19_refuted : exists progs sched,
  Forall (Forall (fun o => op_safe o = true)) progs /\
  all_panics (run cfg_F19 sched (init progs)) = [OPanic PChan].
Proof.
  exists [[ONewCtx]; [OCStop 0]; [OCStop 0]], [t 0; t 1; t 2; t 1; t 2].
  split; [repeat constructor|vm_compute; reflexivity].
Qed.
Print Assumptions C12_F19_refuted.

Theorem C12_F20_refuted : exists progs sched,
  Forall (Forall (fun o => op_nodone o = true)) progs /\
  all_panics (run cfg_F20 sched (init progs)) = [OPanic PNegWG].
Proof.
  exists [[ONewRoot; OKill 0; ONewChild 0 false; OClose 1]], (repeat (t 0) 30).
  split; [repeat constructor|vm_compute; reflexivity].
Qed.
Print Assumptions C12_F20_refuted.

(** A task reports an error while the scope's Close waits for it: refused by the old Close. *)
Definition waiting_progs : list (list op) :=
  [[ONewRoot; OAddTasks 0]; [OClose 0]; [OAppendError 0 [Some 7%N]; ODoneTask 0]].
Definition waiting_sched : list tid := repeat (t 0) 2 ++ repeat (t 1) 5 ++ repeat (t 2) 8 ++ repeat (t 1) 20.

Theorem C12_closing_refuted :
  all_panics (run cfg_old_close waiting_sched (init waiting_progs)) = [OPanic PClosed].
Proof. vm_compute. reflexivity. Qed.
Print Assumptions C12_closing_refuted.

(** Non-vacuity. *)
Example C12_waiting_now_accepted :
  let st := run cfg_current waiting_sched (init waiting_progs) in
  all_panics st = [] /\ errs_of (sh st) 0 = [7%N] /\
  close_word (log (sh st)) 0 = full_word false /\
  map t_out (ths st) = [[OAdd true]; [OClosed 0 true]; []].
Proof. vm_compute. repeat split. Qed.

Definition ex_progs : list (list op) :=
  [[ONewRoot; ONewChild 0 true; ONewCtx; ONewIso 1];
   [OAppendError 0 [Some 1%N; None; Some 2%N]; OKill 1; OCKill 1];
   [OStop 0; OKill 0; OCAppend 1 [Some 3%N]; OErr 0; OIsDone 1];
   [OCStop 2; OCAppend 2 [None]; OAppendError 1 [Some 4%N]]].
Definition ex_sched : list tid :=
  repeat (t 0) 4 ++ flat_map (fun _ => [t 1; t 2; t 3; (4, false); (5, true)]) (seq 0 12).

Example C12_example_safe : Forall (Forall (fun o => op_safe o = true)) ex_progs.
Proof. repeat constructor. Qed.
Example C12_example_run :
  let st := run cfg_current ex_sched (init ex_progs) in
  c_errors (getc (sh st) 0) = [1; 2; Canceled]%N /\ c_done (getc (sh st) 0) = true /\
  c_errors (getc (sh st) 1) = [4; Canceled; Canceled; 3; Canceled]%N /\
  c_errors (getc (sh st) 3) = [Canceled]%N /\
  completed 0 st = [1; 2; Canceled]%N /\ length (completed 1 st) = 5 /\
  all_panics st = [].
Proof. vm_compute. repeat split. Qed.
(** a state with an append in flight (appended, Stop not yet executed) *)
Example C12_example_inflight :
  let st := run cfg_current [t 0; t 1] (init [[ONewCtx]; [OCAppend 0 [Some 5%N]]]) in
  inflight 0 st = [5%N] /\ completed 0 st = [] /\ c_errors (getc (sh st) 0) = [5%N] /\
  c_done (getc (sh st) 0) = false.
Proof. vm_compute. repeat split. Qed.
(** child of a done scope, shared and isolated, closed before/after the parent *)
Example C12_example_child_of_done :
  let st := run cfg_current (repeat (t 0) 60)
     (init [[ONewRoot; OKill 0; ONewChild 0 false; ONewChild 0 true; OClose 1; OClose 2; OClose 0]]) in
  all_panics st = [] /\ map s_wg (scopes (sh st)) = [0; 0; 0]%Z /\
  t_out (nth 0 (ths st) (mk_thread [])) = [OClosed 1 true; OClosed 2 false; OClosed 0 true].
Proof. vm_compute. repeat split. Qed.
