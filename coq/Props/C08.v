(** C08 — Concurrent tree walk visits every selected node exactly once and then stops.
    Statements only; every proof is [exact <lemma of Proofs/Loop.v>].

    All theorems quantify over: every configuration [cfg] (file/dir filter predicates, OnDir/OnFile
    present or nil, listing-error and callback-error predicates, producer limit, consumer limit,
    both queue capacities), every base path, every tree [root] (empty, deep, wider than the queue
    capacity, ...) and EVERY schedule [sched : list tid] of producers, consumers, the completion
    goroutine, the caller of Wait and the environment's Kill.  [run] skips disabled steps.

    NOT proved: termination of the busy-poll loop (that every fair schedule eventually makes all
    consumers exit).  It needs fairness of the Go scheduler, which is not modelled;
    C08_no_stuck_partial only shows that nothing is ever stuck. *)
From GC Require Import Common.Base Model.Loop Proofs.Loop.
From Coq Require Import Permutation.
Open Scope N_scope.

(** Callbacks begun so far ([log], OnDir/OnFile arguments) form a sub-multiset of the selected
    nodes: nothing is visited twice, nothing outside the selection is visited.  If the listing
    has no duplicate paths (any real file tree), the log literally has no duplicates. *)
Theorem C08_at_most_once : forall cfg base root sched,
  let s := run cfg sched (init cfg base root) in
  (exists rest, Permutation (log s ++ rest) (sel_list cfg base root)) /\
  (forall x, In x (log s) -> In x (sel_list cfg base root)) /\
  (NoDup (sel_list cfg base root) -> NoDup (log s)).
Proof. exact at_most_once_full. Qed.
Print Assumptions C08_at_most_once.

(** For a well-formed tree (no "/" in a name, sibling names distinct — every real file tree) the
    callback log never contains the same item twice. *)
Theorem C08_no_duplicates : forall cfg base root sched,
  wf_list root = true -> NoDup (log (run cfg sched (init cfg base root))).
Proof. exact log_nodup_wf. Qed.
Print Assumptions C08_no_duplicates.

(** With the exit test of the current tree (step read before the two len() reads), whenever all
    consumers have exited and the lifecycle was not killed (then the error list is empty too, last
    conjunct), the callbacks made are exactly the selected nodes, each once, and both queues are
    empty — under any scheduling.  (Producer limit and capacities may be anything, including 0:
    then producers block for ever and the hypothesis is never met.) *)
Theorem C08_exactly_once : forall cfg base root sched,
  xt cfg = ClosedThenEmpty -> (1 <= cmax cfg)%nat ->
  let s := run cfg sched (init cfg base root) in
  all_exited s = true -> killed s = false ->
  Permutation (log s) (sel_list cfg base root) /\ dq s = [] /\ fq s = [] /\ errs s = [].
Proof. exact exactly_once. Qed.
Print Assumptions C08_exactly_once.

(** Never more callbacks in progress than the consumer limit. *)
Theorem C08_bounded : forall cfg base root sched,
  (running (run cfg sched (init cfg base root)) <= cmax cfg)%nat.
Proof. exact bounded. Qed.
Print Assumptions C08_bounded.

(** Loop.Wait() can return exactly when the consumer pool counter is 0; at that moment, and in
    every state after Wait returned, no callback is running and every consumer has exited. *)
Theorem C08_wait : forall cfg base root sched,
  let s := run cfg sched (init cfg base root) in
  (step cfg TW s <> None <-> (waited s = false /\ ccount s = 0%nat)) /\
  (ccount s = 0%nat -> running s = 0%nat /\ all_exited s = true) /\
  (waited s = true -> running s = 0%nat /\ all_exited s = true).
Proof. exact wait_full. Qed.
Print Assumptions C08_wait.

(** Errors: a callback that returned an error is in the error list, or its consumer is at the
    (always enabled) statement that appends it; once all consumers exited it is in the list; a
    failed listing is in the list; a non-empty list implies killed; the list only grows. *)
Theorem C08_errors : forall cfg base root sched,
  let s := run cfg sched (init cfg base root) in
  (forall it, In it (ended s) -> cberr cfg it = true -> In (ECb it) (errs s) \/ In (CErr it) (cons s)) /\
  (all_exited s = true -> forall it, In it (ended s) -> cberr cfg it = true -> In (ECb it) (errs s)) /\
  (forall p, In p (lfail s) -> In (ELs p) (errs s)) /\
  (errs s <> [] -> killed s = true) /\
  (forall sched', exists more, errs (run cfg sched' s) = more ++ errs s).
Proof. exact errors_full. Qed.
Print Assumptions C08_errors.

(** F16 (the tree before e5b87a5, exit test "queues empty, then closed"): one producer, one
    consumer, one file; the consumer exits with the file still queued and an empty error list. *)
Definition f16_cfg (x : exit_test) : config :=
  mkCfg (fun _ => true) (fun _ => true) false true true (fun _ => false) (fun _ => false) 1%nat 1%nat 1000%nat 1000%nat x.
Definition f16_root : list tree := [File [111; 110; 108; 121; 46; 116; 120; 116]].   (* only.txt *)
Definition f16_base : path := [46; 47].                                             (* ./ *)
Definition f16_sched : list tid :=
  [TC 0%nat; TC 0%nat; TC 0%nat;               (* not killed; len(dirChan)=0; len(fileChan)=0: now in the gap *)
   TP 0%nat; TP 0%nat; TP 0%nat; TP 0%nat; TP 0%nat;   (* ReadDir; fileChan <- ./only.txt; kill test; loop end; pool.Done *)
   TK; TK;                         (* producerPool.Wait returns; NextStep(StepClose) *)
   TC 0%nat; TC 0%nat].                    (* reads Closed: return; pool.Done *)

Theorem C08_F16_refuted :
  let cfg := f16_cfg EmptyThenClosed in
  let s := run cfg f16_sched (init cfg f16_base f16_root) in
  all_exited s = true /\ killed s = false /\ errs s = [] /\ ccount s = 0%nat /\
  log s = [] /\ fq s = [f16_base ++ [111; 110; 108; 121; 46; 116; 120; 116]] /\
  sel_list cfg f16_base f16_root = [IFile (f16_base ++ [111; 110; 108; 121; 46; 116; 120; 116])].
Proof. vm_compute. repeat split. Qed.
Print Assumptions C08_F16_refuted.

(** Nothing is ever stuck: a consumer that has not exited always has an enabled step; a blocked
    producer faces a full queue; the completion goroutine waits only while a producer is alive;
    no send on a closed channel ever happens; the queues respect their capacities.
    PARTIAL: termination under fairness of the busy-poll loop is not proved (see header). *)
Theorem C08_no_stuck_partial : forall cfg base root sched,
  let s := run cfg sched (init cfg base root) in
  (forall i c, nth_error (cons s) i = Some c -> c <> CExit -> step cfg (TC i) s <> None) /\
  (all_exited s = false -> exists i, step cfg (TC i) s <> None) /\
  (forall i p, nth_error (prods s) i = Some p -> p <> PExit -> step cfg (TP i) s = None ->
               (length (dq s) >= dcap cfg)%nat \/ (length (fq s) >= fcap cfg)%nat) /\
  (comp s <> KEnd -> step cfg TK s = None -> exists i p, nth_error (prods s) i = Some p /\ p <> PExit) /\
  panicked s = false /\ (length (dq s) <= dcap cfg)%nat /\ (length (fq s) <= fcap cfg)%nat.
Proof. exact no_stuck_full. Qed.
Print Assumptions C08_no_stuck_partial.

(** ---------- the hypotheses are satisfiable by non-trivial runs (vm_compute) *)

(* a/ {x, b/ {y}}, z ; two producers, two consumers, queue capacity 1 (sends do block) *)
Definition ex_root : list tree := [Dir [97] [File [120]; Dir [98] [File [121]]]; File [122]].
Definition ex_cfg : config :=
  mkCfg (fun _ => true) (fun _ => true) true true true (fun _ => false) (fun _ => false) 2%nat 2%nat 1%nat 1%nat ClosedThenEmpty.
Definition ex_sched : list tid := concat (repeat [TP 0%nat; TC 0%nat; TP 1%nat; TC 1%nat; TK; TP 2%nat; TW] 60%nat).

(* the same schedule that loses the item under EmptyThenClosed loses nothing now: the consumer,
   held in the gap with isClosed = false, goes round once more *)
Example C08_F16_schedule_now :
  let cfg := f16_cfg ClosedThenEmpty in
  let s := run cfg ([TC 0%nat; TC 0%nat; TP 0%nat; TP 0%nat; TP 0%nat; TP 0%nat; TP 0%nat; TK; TK] ++ repeat (TC 0%nat) 14%nat) (init cfg f16_base f16_root) in
  all_exited s = true /\ killed s = false /\ log s = [IFile (f16_base ++ [111; 110; 108; 121; 46; 116; 120; 116])].
Proof. vm_compute. repeat split. Qed.

Example C08_wf_nonvacuous : wf_list ex_root = true /\ wf_list f16_root = true.
Proof. vm_compute. split; reflexivity. Qed.

Example C08_exactly_once_nonvacuous :
  let s := run ex_cfg ex_sched (init ex_cfg f16_base ex_root) in
  xt ex_cfg = ClosedThenEmpty /\ (1 <= cmax ex_cfg)%nat /\ all_exited s = true /\ killed s = false /\
  waited s = true /\ length (log s) = 5%nat /\ length (prods s) = 2%nat.
Proof. vm_compute. repeat split; auto. Qed.

(* a callback error: the error is listed, the lifecycle is killed, the consumer still runs the file
   callback of the same iteration, then exits; queued items are dropped *)
Example C08_errors_nonvacuous :
  let cfg := mkCfg (fun _ => true) (fun _ => true) false true true (fun _ => false)
                   (fun it => match it with IDir _ => true | _ => false end) 1%nat 1%nat 4%nat 4%nat ClosedThenEmpty in
  let s := run cfg (concat (repeat [TP 0%nat; TC 0%nat] 30%nat)) (init cfg f16_base ex_root) in
  all_exited s = true /\ ended s = [IFile [46; 47; 97; 47; 120]; IDir [46; 47; 97]] /\
  dq s = [[46; 47; 97; 47; 98]] /\ errs s = [ECb (IDir [46; 47; 97])] /\ killed s = true.
Proof. vm_compute. repeat split. Qed.

(* a blocked producer exists in a reachable state (capacity 1, nobody consuming) *)
Example C08_blocked_producer :
  let s := run ex_cfg (repeat (TP 0%nat) 10%nat ++ repeat (TP 1%nat) 10%nat) (init ex_cfg f16_base ex_root) in
  step ex_cfg (TP 1%nat) s = None /\ nth_error (prods s) 1%nat = Some (PRun PE [([46; 47; 97; 47], [File [120]; Dir [98] [File [121]]])]) /\
  length (fq s) = 1%nat.
Proof. vm_compute. repeat split. Qed.
