(** C08 — Concurrent tree walk visits every selected node exactly once and then stops.
    Statements only; every proof is [exact <lemma of Proofs/Loop.v>].

    All theorems quantify over: every configuration [cfg] (file/dir filter predicates, OnDir/OnFile
    present or nil, listing-error and callback-error predicates, producer limit, consumer limit,
    both queue capacities), every base path, every tree [root] (empty, deep, wider than the queue
    capacity, ...) and EVERY schedule [sched : list tid] of producers, consumers, the completion
    goroutine, the caller of Wait and the environment's Kill.  [run] skips disabled steps.

    Termination (second half of the file).  Fairness of the Go scheduler is not an axiom here.
    What is proved instead, for every consumer limit >= 1 and queue capacities >= 1:
    a progress measure [work] that every step other than a consumer's polling step makes strictly
    smaller (C08_work_measure); every stretch of a schedule in which each thread gets a turn and each
    consumer POLL = 9 turns makes [work] smaller unless the walk has ended (C08_round_progress); hence
    [work s] such stretches after ANY reachable state [s] end the walk: every consumer has exited
    and Wait has returned, and, unless the lifecycle was killed, every producer and the completion
    goroutine have ended too and the callbacks made are exactly the selected nodes
    (C08_fair_finish); the round-robin schedule of explicit length is such a continuation
    (C08_wait_can_return, C08_round_robin_finishes, C08_round_robin_bound), so no reachable state
    is a trap (C08_can_finish).  After a kill the producers and the completion goroutine CAN be
    left blocked for ever on a full queue (C08_kill_leak_refuted; also true of the Go code).
    NOT proved: anything about schedules that starve a thread for ever (then the walk really does
    not end: a consumer may poll for ever while the producer it waits for is never scheduled).
    Third part (end of the file, proof audit): termination for every weakly fair INFINITE schedule
    with no bound on the unfairness (C08_fair_terminates), and the Wait, error and no-error clauses
    in terms of what the caller observes. *)
From GC Require Import Common.Base Model.Loop Model.LoopLive Proofs.Loop Proofs.LoopLive.
From Coq Require Import Permutation.
Open Scope N_scope.

(** Callbacks begun so far ([log], OnDir/OnFile arguments) form a sub-multiset of the selected
    nodes: nothing is visited twice, nothing outside the selection is visited.  If the listing
    has no duplicate paths (any real file tree), the log literally has no duplicates. *)
Theorem C08_at_most_once : forall cfg base root sched,
  let s := run cfg sched (init cfg base root) in
  (exists rest, Permutation (log s ++ rest) (sel_list cfg base root)) /\
  (forall x, In x (log s) -> In x (sel_list cfg base root)) /\
  (NoDup (sel_list cfg base root) -> NoDup (log s)).
Proof. exact at_most_once_full. Qed.
Print Assumptions C08_at_most_once.

(** For a well-formed tree (no "/" in a name, sibling names distinct — every real file tree) the
    callback log never contains the same item twice. *)
Theorem C08_no_duplicates : forall cfg base root sched,
  wf_list root = true -> NoDup (log (run cfg sched (init cfg base root))).
Proof. exact log_nodup_wf. Qed.
Print Assumptions C08_no_duplicates.

(** With the exit test of the current tree (step read before the two len() reads), whenever all
    consumers have exited and the lifecycle was not killed (then the error list is empty too, last
    conjunct), the callbacks made are exactly the selected nodes, each once, and both queues are
    empty — under any scheduling.  (Producer limit and capacities may be anything, including 0:
    then producers block for ever and the hypothesis is never met.) *)
Theorem C08_exactly_once : forall cfg base root sched,
  xt cfg = ClosedThenEmpty -> (1 <= cmax cfg)%nat ->
  let s := run cfg sched (init cfg base root) in
  all_exited s = true -> killed s = false ->
  Permutation (log s) (sel_list cfg base root) /\ dq s = [] /\ fq s = [] /\ errs s = [].
Proof. exact exactly_once. Qed.
Print Assumptions C08_exactly_once.

(** Never more callbacks in progress than the consumer limit. *)
Theorem C08_bounded : forall cfg base root sched,
  (running (run cfg sched (init cfg base root)) <= cmax cfg)%nat.
Proof. exact bounded. Qed.
Print Assumptions C08_bounded.

(** Loop.Wait() can return exactly when the consumer pool counter is 0; at that moment, and in
    every state after Wait returned, no callback is running and every consumer has exited. *)
Theorem C08_wait : forall cfg base root sched,
  let s := run cfg sched (init cfg base root) in
  (step cfg TW s <> None <-> (waited s = false /\ ccount s = 0%nat)) /\
  (ccount s = 0%nat -> running s = 0%nat /\ all_exited s = true) /\
  (waited s = true -> running s = 0%nat /\ all_exited s = true).
Proof. exact wait_full. Qed.
Print Assumptions C08_wait.

(** Errors: a callback that returned an error is in the error list, or its consumer is at the
    (always enabled) statement that appends it; once all consumers exited it is in the list; a
    failed listing is in the list; a non-empty list implies killed; the list only grows. *)
Theorem C08_errors : forall cfg base root sched,
  let s := run cfg sched (init cfg base root) in
  (forall it, In it (ended s) -> cberr cfg it = true -> In (ECb it) (errs s) \/ In (CErr it) (cons s)) /\
  (all_exited s = true -> forall it, In it (ended s) -> cberr cfg it = true -> In (ECb it) (errs s)) /\
  (forall p, In p (lfail s) -> In (ELs p) (errs s)) /\
  (errs s <> [] -> killed s = true) /\
  (forall sched', exists more, errs (run cfg sched' s) = more ++ errs s).
Proof. exact errors_full. Qed.
Print Assumptions C08_errors.

(** F16 (the tree before e5b87a5, exit test "queues empty, then closed"): one producer, one
    consumer, one file; the consumer exits with the file still queued and an empty error list. *)
Definition f16_cfg (x : exit_test) : config :=
  mkCfg (fun _ => true) (fun _ => true) false true true (fun _ => false) (fun _ => false) 1%nat 1%nat 1000%nat 1000%nat x.
Definition f16_root : list tree := [File [111; 110; 108; 121; 46; 116; 120; 116]].   (* only.txt *)
Definition f16_base : path := [46; 47].                                             (* ./ *)
Definition f16_sched : list tid :=
  [TC 0%nat; TC 0%nat; TC 0%nat;               (* not killed; len(dirChan)=0; len(fileChan)=0: now in the gap *)
   TP 0%nat; TP 0%nat; TP 0%nat; TP 0%nat; TP 0%nat;   (* ReadDir; fileChan <- ./only.txt; kill test; loop end; pool.Done *)
   TK; TK;                         (* producerPool.Wait returns; NextStep(StepClose) *)
   TC 0%nat; TC 0%nat].                    (* reads Closed: return; pool.Done *)

Theorem C08_F16_refuted :
  let cfg := f16_cfg EmptyThenClosed in
  let s := run cfg f16_sched (init cfg f16_base f16_root) in
  all_exited s = true /\ killed s = false /\ errs s = [] /\ ccount s = 0%nat /\
  log s = [] /\ fq s = [f16_base ++ [111; 110; 108; 121; 46; 116; 120; 116]] /\
  sel_list cfg f16_base f16_root = [IFile (f16_base ++ [111; 110; 108; 121; 46; 116; 120; 116])].
Proof. vm_compute. repeat split. Qed.
Print Assumptions C08_F16_refuted.

(** Nothing is ever stuck: a consumer that has not exited always has an enabled step; a blocked
    producer faces a full queue; the completion goroutine waits only while a producer is alive;
    no send on a closed channel ever happens; the queues respect their capacities.
    PARTIAL: termination under fairness of the busy-poll loop is not proved (see header). *)
Theorem C08_no_stuck_partial : forall cfg base root sched,
  let s := run cfg sched (init cfg base root) in
  (forall i c, nth_error (cons s) i = Some c -> c <> CExit -> step cfg (TC i) s <> None) /\
  (all_exited s = false -> exists i, step cfg (TC i) s <> None) /\
  (forall i p, nth_error (prods s) i = Some p -> p <> PExit -> step cfg (TP i) s = None ->
               (length (dq s) >= dcap cfg)%nat \/ (length (fq s) >= fcap cfg)%nat) /\
  (comp s <> KEnd -> step cfg TK s = None -> exists i p, nth_error (prods s) i = Some p /\ p <> PExit) /\
  panicked s = false /\ (length (dq s) <= dcap cfg)%nat /\ (length (fq s) <= fcap cfg)%nat.
Proof. exact no_stuck_full. Qed.
Print Assumptions C08_no_stuck_partial.

(** ---------- the hypotheses are satisfiable by non-trivial runs (vm_compute) *)

(* a/ {x, b/ {y}}, z ; two producers, two consumers, queue capacity 1 (sends do block) *)
Definition ex_root : list tree := [Dir [97] [File [120]; Dir [98] [File [121]]]; File [122]].
Definition ex_cfg : config :=
  mkCfg (fun _ => true) (fun _ => true) true true true (fun _ => false) (fun _ => false) 2%nat 2%nat 1%nat 1%nat ClosedThenEmpty.
Definition ex_sched : list tid := concat (repeat [TP 0%nat; TC 0%nat; TP 1%nat; TC 1%nat; TK; TP 2%nat; TW] 60%nat).

(* the same schedule that loses the item under EmptyThenClosed loses nothing now: the consumer,
   held in the gap with isClosed = false, goes round once more *)
Example C08_F16_schedule_now :
  let cfg := f16_cfg ClosedThenEmpty in
  let s := run cfg ([TC 0%nat; TC 0%nat; TP 0%nat; TP 0%nat; TP 0%nat; TP 0%nat; TP 0%nat; TK; TK] ++ repeat (TC 0%nat) 14%nat) (init cfg f16_base f16_root) in
  all_exited s = true /\ killed s = false /\ log s = [IFile (f16_base ++ [111; 110; 108; 121; 46; 116; 120; 116])].
Proof. vm_compute. repeat split. Qed.

Example C08_wf_nonvacuous : wf_list ex_root = true /\ wf_list f16_root = true.
Proof. vm_compute. split; reflexivity. Qed.

Example C08_exactly_once_nonvacuous :
  let s := run ex_cfg ex_sched (init ex_cfg f16_base ex_root) in
  xt ex_cfg = ClosedThenEmpty /\ (1 <= cmax ex_cfg)%nat /\ all_exited s = true /\ killed s = false /\
  waited s = true /\ length (log s) = 5%nat /\ length (prods s) = 2%nat.
Proof. vm_compute. repeat split; auto. Qed.

(* a callback error: the error is listed, the lifecycle is killed, the consumer still runs the file
   callback of the same iteration, then exits; queued items are dropped *)
Example C08_errors_nonvacuous :
  let cfg := mkCfg (fun _ => true) (fun _ => true) false true true (fun _ => false)
                   (fun it => match it with IDir _ => true | _ => false end) 1%nat 1%nat 4%nat 4%nat ClosedThenEmpty in
  let s := run cfg (concat (repeat [TP 0%nat; TC 0%nat] 30%nat)) (init cfg f16_base ex_root) in
  all_exited s = true /\ ended s = [IFile [46; 47; 97; 47; 120]; IDir [46; 47; 97]] /\
  dq s = [[46; 47; 97; 47; 98]] /\ errs s = [ECb (IDir [46; 47; 97])] /\ killed s = true.
Proof. vm_compute. repeat split. Qed.

(* a blocked producer exists in a reachable state (capacity 1, nobody consuming) *)
Example C08_blocked_producer :
  let s := run ex_cfg (repeat (TP 0%nat) 10%nat ++ repeat (TP 1%nat) 10%nat) (init ex_cfg f16_base ex_root) in
  step ex_cfg (TP 1%nat) s = None /\ nth_error (prods s) 1%nat = Some (PRun PE [([46; 47; 97; 47], [File [120]; Dir [98] [File [121]]])]) /\
  length (fq s) = 1%nat.
Proof. vm_compute. repeat split. Qed.

(** ---------- termination *)

(** The progress measure.  Every enabled step of every thread makes [work] strictly smaller (and
    never starts more producers than it takes off [work]), with two exceptions that change nothing
    else: a consumer moving inside the polling part of its loop as described by [cnext] (only that
    consumer's program counter changes), and a Kill of a lifecycle that is killed already. *)
Theorem C08_work_measure : forall cfg t s s',
  step cfg t s = Some s' ->
  ((work s' < work s)%nat /\ (length (prods s') + work s' <= length (prods s) + work s)%nat) \/
  (exists i c c', t = TC i /\ nth_error (cons s) i = Some c /\ cnext_of cfg s c = Some c' /\
                  s' = setc i c' s /\ work s' = work s) \/
  (t = TX /\ killed s = true /\ s' = s).
Proof. exact work_measure_full. Qed.
Print Assumptions C08_work_measure.

(** In every reachable state one round of the round-robin schedule (every producer slot once, every
    consumer POLL = 9 times, the completion goroutine, the caller of Wait) makes [work] strictly
    smaller, unless every consumer has exited and Wait has returned and - if the lifecycle is not
    killed - the producers and the completion goroutine have ended as well.  So in every state
    that is not final some step that is not a polling step is at most one round away. *)
Theorem C08_round_progress : forall cfg base root sched P,
  (1 <= cmax cfg)%nat -> (1 <= dcap cfg)%nat -> (1 <= fcap cfg)%nat ->
  let s := run cfg sched (init cfg base root) in
  (length (prods s) <= P)%nat ->
  (work (run cfg (rr_block cfg P) s) < work s)%nat \/
  (all_exited s = true /\ waited s = true /\ (killed s = false -> finished s = true)).
Proof. exact round_progress_full. Qed.
Print Assumptions C08_round_progress.

(** Bounded fairness is enough.  After any schedule [sched] (state [s]), let the run continue with
    [work s] stretches, in each of which every producer slot, the completion goroutine and the
    caller of Wait are scheduled at least once and every consumer at least POLL times, in any order,
    with any other steps (also kills) in between ([complete]).  Then every consumer has exited and
    Wait has returned; and if the lifecycle is not killed at the end, producers and completion
    goroutine have ended and (current exit test) the callbacks made are exactly the selected
    nodes, each once, with both queues empty and no error. *)
Theorem C08_fair_finish : forall cfg base root sched P segs,
  (1 <= cmax cfg)%nat -> (1 <= dcap cfg)%nat -> (1 <= fcap cfg)%nat ->
  let s := run cfg sched (init cfg base root) in
  (length (prods s) + work s <= P)%nat ->
  Forall (fun seg => complete cfg P seg = true) segs -> (work s <= length segs)%nat ->
  let s' := run cfg (sched ++ concat segs) (init cfg base root) in
  all_exited s' = true /\ waited s' = true /\
  (killed s' = false ->
   finished s' = true /\
   (xt cfg = ClosedThenEmpty ->
    Permutation (log s') (sel_list cfg base root) /\ dq s' = [] /\ fq s' = [] /\ errs s' = [])).
Proof. exact fair_finish_full. Qed.
Print Assumptions C08_fair_finish.

(** Wait can always return: from every reachable state - after errors and kills too - the
    round-robin continuation [rr_from] (no Kill in it) makes every consumer exit and Wait return. *)
Theorem C08_wait_can_return : forall cfg base root sched,
  (1 <= cmax cfg)%nat -> (1 <= dcap cfg)%nat -> (1 <= fcap cfg)%nat ->
  let s := run cfg sched (init cfg base root) in
  let s' := run cfg (sched ++ rr_from cfg s) (init cfg base root) in
  ~ In TX (rr_from cfg s) /\ all_exited s' = true /\ waited s' = true /\
  (killed s' = false ->
   finished s' = true /\
   (xt cfg = ClosedThenEmpty ->
    Permutation (log s') (sel_list cfg base root) /\ dq s' = [] /\ fq s' = [] /\ errs s' = [])).
Proof. exact wait_returns_full. Qed.
Print Assumptions C08_wait_can_return.

(** No reachable state is a trap.  With no listing error and no callback error in the
    configuration, after every schedule that has not killed the lifecycle there is a continuation
    without Kill after which all producers, the completion goroutine and all consumers have ended,
    Wait has returned, the lifecycle is still not killed, and (current exit test) the callbacks
    made are exactly the selected nodes. *)
Theorem C08_can_finish : forall cfg base root sched,
  (1 <= cmax cfg)%nat -> (1 <= dcap cfg)%nat -> (1 <= fcap cfg)%nat ->
  (forall p, rderr cfg p = false) -> (forall it, cberr cfg it = false) ->
  killed (run cfg sched (init cfg base root)) = false ->
  exists sched', ~ In TX sched' /\
    let s' := run cfg (sched ++ sched') (init cfg base root) in
    finished s' = true /\ killed s' = false /\
    (xt cfg = ClosedThenEmpty ->
     Permutation (log s') (sel_list cfg base root) /\ dq s' = [] /\ fq s' = [] /\ errs s' = []).
Proof. exact can_finish_ex. Qed.
Print Assumptions C08_can_finish.

(** The continuation of C08_can_finish, explicitly: [work s] rounds of round robin over
    [length (prods s) + work s] producer slots. *)
Theorem C08_round_robin_finishes : forall cfg base root sched,
  (1 <= cmax cfg)%nat -> (1 <= dcap cfg)%nat -> (1 <= fcap cfg)%nat ->
  (forall p, rderr cfg p = false) -> (forall it, cberr cfg it = false) ->
  let s := run cfg sched (init cfg base root) in
  killed s = false ->
  let s' := run cfg (sched ++ rr_from cfg s) (init cfg base root) in
  finished s' = true /\ killed s' = false /\
  (xt cfg = ClosedThenEmpty ->
   Permutation (log s') (sel_list cfg base root) /\ dq s' = [] /\ fq s' = [] /\ errs s' = []).
Proof. exact can_finish_rr. Qed.
Print Assumptions C08_round_robin_finishes.

(** Its length, and the measure of the initial state: 12 + 2 per consumer + 5 per file + 13 per
    directory of the tree. *)
Theorem C08_round_robin_bound : forall cfg base root P n,
  length (rr cfg P n) = (n * (P + POLL * cmax cfg + 2))%nat /\
  work (init cfg base root) = (12 + lsz root + 2 * cmax cfg)%nat.
Proof. exact (fun cfg base root P n => conj (rr_length cfg P n) (work_init cfg base root)). Qed.
Print Assumptions C08_round_robin_bound.

(** What does NOT hold: after a kill the rest of the machinery need not end.  No error anywhere,
    limits and capacities 1, two files: the producer queues the first file and passes its kill
    test, the lifecycle is killed, the consumer sees the kill and leaves, Wait returns.  The
    producer then stays blocked in "fileChan <- second file" (queue full, no consumer left), the
    completion goroutine stays blocked in producerPool.Wait(), the channels are never closed:
    whatever is scheduled afterwards, the state does not change any more. *)
Theorem C08_kill_leak_refuted :
  let cfg := kl_cfg in
  let s := run cfg kl_sched (init cfg kl_base kl_root) in
  ((1 <= cmax cfg)%nat /\ (1 <= dcap cfg)%nat /\ (1 <= fcap cfg)%nat /\
   (forall p, rderr cfg p = false) /\ (forall it, cberr cfg it = false)) /\
  all_exited s = true /\ waited s = true /\ killed s = true /\ errs s = [] /\ log s = [] /\
  comp s = K1 /\ closed s = false /\ length (fq s) = fcap cfg /\
  nth_error (prods s) 0%nat = Some (PRun PE [(kl_base, [File [98]])]) /\
  step cfg (TP 0%nat) s = None /\ step cfg TK s = None /\ finished s = false /\
  forall sched', run cfg (kl_sched ++ sched') (init cfg kl_base kl_root) = s.
Proof. exact kill_leak_full. Qed.
Print Assumptions C08_kill_leak_refuted.

(** ---------- non-vacuity of the termination theorems (vm_compute) *)

(* the measure on the example tree, and the round-robin continuation from the initial state *)
Example C08_work_example :
  let s0 := init ex_cfg f16_base ex_root in
  work s0 = 57%nat /\ length (rr_from ex_cfg s0) = 4446%nat /\
  complete ex_cfg 58%nat (rr_block ex_cfg 58%nat) = true /\
  let s := run ex_cfg (rr_from ex_cfg s0) s0 in
  finished s = true /\ killed s = false /\ length (log s) = 5%nat /\ work s = 1%nat.
Proof. vm_compute. repeat split. Qed.

(* from a state in which a producer is blocked on a full queue (C08_blocked_producer) *)
Example C08_can_finish_nonvacuous :
  let s1 := run ex_cfg (repeat (TP 0%nat) 10%nat ++ repeat (TP 1%nat) 10%nat) (init ex_cfg f16_base ex_root) in
  killed s1 = false /\ step ex_cfg (TP 1%nat) s1 = None /\ work s1 = 44%nat /\
  let s := run ex_cfg (rr_from ex_cfg s1) s1 in
  finished s = true /\ killed s = false /\ length (log s) = 5%nat.
Proof. vm_compute. repeat split. Qed.

(* a fair stretch need not be round robin: any order, kills in between *)
Example C08_complete_example :
  complete ex_cfg 2%nat ([TW; TX; TK] ++ repeat (TC 1%nat) 9%nat ++ [TP 1%nat] ++ repeat (TC 0%nat) 9%nat ++ [TP 0%nat]) = true /\
  complete ex_cfg 2%nat ([TW; TK] ++ repeat (TC 1%nat) 9%nat ++ [TP 1%nat] ++ repeat (TC 0%nat) 8%nat ++ [TP 0%nat]) = false.
Proof. vm_compute. split; reflexivity. Qed.

(* after a callback error (C08_errors_nonvacuous) Wait still returns; the lifecycle is killed *)
Example C08_wait_can_return_nonvacuous :
  let cfg := mkCfg (fun _ => true) (fun _ => true) false true true (fun _ => false)
                   (fun it => match it with IDir _ => true | _ => false end) 1%nat 1%nat 4%nat 4%nat ClosedThenEmpty in
  let s1 := run cfg [TP 0%nat; TP 0%nat; TC 0%nat; TC 0%nat; TC 0%nat; TC 0%nat; TC 0%nat; TC 0%nat; TC 0%nat] (init cfg f16_base ex_root) in
  all_exited s1 = false /\
  let s := run cfg (rr_from cfg s1) s1 in
  all_exited s = true /\ waited s = true /\ killed s = true /\ errs s = [ECb (IDir [46; 47; 97])].
Proof. vm_compute. repeat split. Qed.

(** ========== third part (proof audit): the clauses of the statement at full strength.
    Lemmas in Proofs/C08More.v; the model is unchanged.

    - the Wait clause: [running s = 0] (C08_wait) says that no callback is in progress; what the
      statement asks is that every callback that was BEGUN has RETURNED, and that none begins later.
      C08_wait_after_last_callback: in every reachable state the callbacks begun are the callbacks
      returned plus the ones in flight; after Wait has returned nothing is in flight, begun =
      returned, and both histories are final whatever is scheduled afterwards.
    - the error clause: C08_errors gives "a failure is listed"; C08_errors_exact adds that every
      entry of the list is a failure that happened (a failed callback that has returned, a failed
      listing), that every callback begun that fails is listed once all consumers have exited, and
      that a kill not caused by a Kill event of the environment leaves an entry.
    - "with no error nothing is skipped or repeated under any scheduling": C08_exactly_once assumes
      [killed s = false], a fact about the internal state.  C08_no_error_exactly_once assumes what
      the caller sees: Loop.Errors() (the recorded errors followed by the context error, [reported])
      is empty after Wait returned - for ALL schedules, Kill events included; or the recorded
      errors are empty and no Kill event happened.  Conclusion: callbacks begun and callbacks
      RETURNED are each exactly the selected nodes.  Supersedes C08_exactly_once (kept).
    - the selected set: [sel_list] is an executable function; C08_selected_iff gives the declarative
      reading (file accepted / directory accepted / below an accepted directory, and only those).
    - "and then stops": C08_fair_finish needs a bound on the unfairness.  C08_fair_terminates has
      none: for every INFINITE schedule [f : nat -> tid] that is weakly fair (every thread other
      than the environment again and again gets a turn or is disabled; Kill events at any time)
      there is a length from which on every prefix of [f] has ended the walk: consumers exited,
      Wait returned, and without a kill producers and completion goroutine ended and the callbacks
      are exactly the selected nodes.  This is the termination statement that the header of this
      file lists as not proved; what remains false is termination when a thread is starved.
    - REFUTED, model and Go code: the error list is not final when Wait returns
      (C08_late_error_refuted; reproduced 200/200 on fsloop with a gated ReadDir,
      notes/C08-audit/LATE-ERROR). *)
From GC Require Import Proofs.C08More.
Open Scope N_scope.

Theorem C08_wait_after_last_callback : forall cfg base root sched,
  let s := run cfg sched (init cfg base root) in
  Permutation (log s) (ended s ++ flight s) /\ length (flight s) = running s /\
  (waited s = true ->
   flight s = [] /\ Permutation (log s) (ended s) /\
   forall sched', let s' := run cfg sched' s in
                  log s' = log s /\ ended s' = ended s /\ running s' = 0%nat).
Proof. exact wait_last_full. Qed.
Print Assumptions C08_wait_after_last_callback.

Theorem C08_errors_exact : forall cfg base root sched,
  let s := run cfg sched (init cfg base root) in
  (forall it, In (ECb it) (errs s) -> cberr cfg it = true /\ In it (ended s)) /\
  (forall p, In (ELs p) (errs s) -> rderr cfg p = true /\ In p (lfail s)) /\
  ((forall it, In it (ended s) -> cberr cfg it = false) -> lfail s = [] -> errs s = []) /\
  (all_exited s = true -> forall it, In it (log s) -> cberr cfg it = true -> In (ECb it) (errs s)) /\
  (~ In TX sched -> killed s = true -> errs s <> []).
Proof. exact errors_exact_full. Qed.
Print Assumptions C08_errors_exact.

(** Loop.Errors() is empty exactly when the lifecycle is not killed. *)
Theorem C08_reported_empty : forall cfg base root sched,
  let s := run cfg sched (init cfg base root) in
  reported s = [] <-> killed s = false.
Proof. exact reported_nil. Qed.
Print Assumptions C08_reported_empty.

Theorem C08_no_error_exactly_once : forall cfg base root sched,
  xt cfg = ClosedThenEmpty -> (1 <= cmax cfg)%nat ->
  let s := run cfg sched (init cfg base root) in
  (waited s = true \/ all_exited s = true) ->
  (reported s = [] \/ (~ In TX sched /\ errs s = [])) ->
  killed s = false /\
  Permutation (log s) (sel_list cfg base root) /\ Permutation (ended s) (sel_list cfg base root) /\
  dq s = [] /\ fq s = [].
Proof. exact no_error_exact_full. Qed.
Print Assumptions C08_no_error_exactly_once.

Theorem C08_selected_iff : forall cfg base l it,
  In it (sel_list cfg base l) <-> Selected cfg base l it.
Proof. exact selected_iff. Qed.
Print Assumptions C08_selected_iff.

Theorem C08_fair_terminates : forall cfg base root f,
  (1 <= cmax cfg)%nat -> (1 <= dcap cfg)%nat -> (1 <= fcap cfg)%nat ->
  wfair cfg (init cfg base root) f ->
  exists N, forall m, (N <= m)%nat ->
    let s' := run cfg (pre f m) (init cfg base root) in
    all_exited s' = true /\ waited s' = true /\
    (killed s' = false ->
     finished s' = true /\
     (xt cfg = ClosedThenEmpty ->
      Permutation (log s') (sel_list cfg base root) /\ dq s' = [] /\ fq s' = [] /\ errs s' = [])).
Proof. exact fair_terminates_full. Qed.
Print Assumptions C08_fair_terminates.

(** Weak fairness is implied by "every thread but the environment gets a turn again and again"
    (whatever the configuration and the start state), and such a schedule exists: [tri_sched]. *)
Theorem C08_fair_schedules : 
  (forall cfg s0 f, fair f -> wfair cfg s0 f) /\ fair tri_sched.
Proof. exact (conj fair_wfair tri_fair). Qed.
Print Assumptions C08_fair_schedules.

Theorem C08_late_error_refuted :
  let s := run le_cfg le_sched (init le_cfg le_base le_root) in
  let s' := run le_cfg le_more s in
  waited s = true /\ all_exited s = true /\ reported s = [RCancel] /\ lfail s = [] /\
  reported s' = [RErr (ELs [46; 47; 97; 47]); RCancel] /\ lfail s' = [[46; 47; 97; 47]] /\
  log s' = [].
Proof. exact late_error_full. Qed.
Print Assumptions C08_late_error_refuted.

(** ---------- non-vacuity of the third part (vm_compute) *)

(* a callback in flight: begun, not returned *)
Example C08_flight_example :
  let s := run ex_cfg [TP 0%nat; TP 0%nat; TC 0%nat; TC 0%nat; TC 0%nat; TC 0%nat; TC 0%nat] (init ex_cfg f16_base ex_root) in
  log s = [IDir [46; 47; 97]] /\ ended s = [] /\ flight s = [IDir [46; 47; 97]] /\ running s = 1%nat /\ waited s = false.
Proof. vm_compute. repeat split. Qed.

(* Wait returned, Errors() empty, no Kill event in the schedule: both hypotheses of
   C08_no_error_exactly_once hold; five callbacks begun and returned *)
Example C08_no_error_nonvacuous :
  let s := run ex_cfg ex_sched (init ex_cfg f16_base ex_root) in
  waited s = true /\ reported s = [] /\ ~ In TX ex_sched /\ errs s = [] /\
  length (ended s) = 5%nat /\ flight s = [].
Proof.
  vm_compute. repeat split; auto.
  intros H. repeat (destruct H as [H|H]; [discriminate H|]). exact H.
Qed.

(* a Kill event and nothing else: the recorded errors are empty although nothing was visited, so
   the second alternative of C08_no_error_exactly_once does need "no Kill event"; Errors() is
   not empty (the context error), so the first alternative does not *)
Example C08_kill_event_reported :
  let s := run kl_cfg kl_sched (init kl_cfg kl_base kl_root) in
  waited s = true /\ errs s = [] /\ reported s = [RCancel] /\ log s = [] /\ In TX kl_sched /\
  length (sel_list kl_cfg kl_base kl_root) = 2%nat.
Proof. vm_compute. repeat split; auto. Qed.

(* a failed callback: killed without any Kill event, and the list holds exactly that failure *)
Example C08_errors_exact_nonvacuous :
  let cfg := mkCfg (fun _ => true) (fun _ => true) false true true (fun _ => false)
                   (fun it => match it with IDir _ => true | _ => false end) 1%nat 1%nat 4%nat 4%nat ClosedThenEmpty in
  let sched := concat (repeat [TP 0%nat; TC 0%nat] 30%nat) in
  let s := run cfg sched (init cfg f16_base ex_root) in
  all_exited s = true /\ killed s = true /\ errs s = [ECb (IDir [46; 47; 97])] /\
  In (IDir [46; 47; 97]) (ended s) /\
  reported s = [RErr (ECb (IDir [46; 47; 97])); RCancel].
Proof. vm_compute. repeat split; auto. Qed.

(* the selected set of the example tree, read off the declarative definition: b/ is below a/ *)
Example C08_selected_example :
  Selected ex_cfg f16_base ex_root (IFile [46; 47; 97; 47; 98; 47; 121]).
Proof.
  apply (Sel_below ex_cfg f16_base ex_root [97] [File [120]; Dir [98] [File [121]]]); [left; reflexivity|right; reflexivity|].
  apply (Sel_below ex_cfg _ _ [98] [File [121]]); [right; left; reflexivity|right; reflexivity|].
  apply (Sel_file ex_cfg ((((f16_base ++ [97]) ++ [SLASH]) ++ [98]) ++ [SLASH]) [File [121]] [121]); [left; reflexivity|reflexivity|reflexivity].
Qed.

(* the fair schedule [tri_sched] on the example tree: ended after 600 positions (and from then on) *)
Example C08_fair_terminates_nonvacuous :
  wfair ex_cfg (init ex_cfg f16_base ex_root) tri_sched /\
  let s := run ex_cfg (pre tri_sched 600%nat) (init ex_cfg f16_base ex_root) in
  finished s = true /\ killed s = false /\ length (log s) = 5%nat /\
  finished (run ex_cfg (pre tri_sched 300%nat) (init ex_cfg f16_base ex_root)) = false.
Proof. split; [apply fair_wfair; exact tri_fair|]. vm_compute. repeat split. Qed.

(** ---------- fourth part: the pair a caller holds after Wait, as the executable relation that the
    correspondence check evaluates on EVERY run of the real loop (case [CRep] of Corr/C08.v).

    [rep_ok n failed obs sel] (Model/LoopRep.v): n = 0 entries in Loop.Errors() => no failure was
    returned to the loop and the callbacks are the selected set; n > 0 => the callbacks lie within
    the selected set.  C08_reported_decides: the model satisfies it after Wait on every schedule -
    Kill events of the environment (a Kill or Error event of the scope the loop is attached to, the
    deadline) at any point included.  So a walk that was ended early, by whatever, never comes with
    an empty error list; C08_rep_ok_empty is the reading of an accepted case. *)
From GC Require Import Model.LoopRep Proofs.LoopRep.

Theorem C08_reported_decides : forall cfg base root sched,
  xt cfg = ClosedThenEmpty -> (1 <= cmax cfg)%nat ->
  let s := run cfg sched (init cfg base root) in
  waited s = true ->
  rep_ok (length (reported s)) (failed_b cfg s) (log s) (sel_list cfg base root) = true.
Proof. exact reported_decides. Qed.
Print Assumptions C08_reported_decides.

Theorem C08_rep_ok_empty : forall failed obs sel,
  rep_ok 0%nat failed obs sel = true -> failed = false /\ Permutation obs sel.
Proof. exact rep_ok_empty. Qed.
Print Assumptions C08_rep_ok_empty.

(* non-vacuity: the Kill-event-only run of C08_kill_event_reported (nothing visited, two nodes
   selected) passes the relation only because its error list is not empty; with the length 0 that a
   loop hiding the cancellation would report, the same observation is rejected *)
Example C08_reported_decides_nonvacuous :
  let s := run kl_cfg kl_sched (init kl_cfg kl_base kl_root) in
  waited s = true /\ length (reported s) = 1%nat /\
  rep_ok (length (reported s)) (failed_b kl_cfg s) (log s) (sel_list kl_cfg kl_base kl_root) = true /\
  rep_ok 0%nat (failed_b kl_cfg s) (log s) (sel_list kl_cfg kl_base kl_root) = false.
Proof. vm_compute. repeat split. Qed.
