(** C11 — Scope close protocol: ordered events, commit xor rollback, waits for children.
    Statements only; every proof is [exact <lemma>] (Proofs/Scope.v, Proofs/ScopeClose.v).
    System: [init progs] = any number of threads with any operation lists — scope trees of any depth
    with shared and isolated children and any listener sets (failing listeners included) are built
    by the operations themselves; [run cfg_current sched] = any interleaving (Model/Scope.v).
    The log holds one record per Trigger call (event, firing scope, listener calls made). *)
From GC Require Import Common.Base Model.Scope Proofs.Scope Proofs.ScopeClose.
From Coq Require Import ZArith Permutation.
Local Open Scope nat_scope.

(** The close events fired BY scope [s] — under any programs and any schedule — are exactly the word
    determined by the program counter of its Close: a prefix, without repetition, of
    BeforeClose (BeforeCommit Commit AfterCommit | BeforeRollback Rollback AfterRollback) AfterClose;
    nothing before Close is called, the whole word once it has returned. *)
Theorem C11_event_grammar : forall progs sched s,
  let st := run cfg_current sched (init progs) in
  s < length (scopes (sh st)) ->
  let w := close_word (log (sh st)) s in
  let sc := gets (sh st) s in
  w = word_of (s_pc sc) (s_branch sc) /\
  is_prefix w (full_word (br_default (s_branch sc))) /\ NoDup w /\
  (s_pc sc = CNone -> w = []) /\
  (s_pc sc = CFinished -> exists b, s_branch sc = Some b /\ w = full_word b).
Proof. exact event_grammar. Qed.
Print Assumptions C11_event_grammar.

(** Inside one Trigger: the ancestors' listeners come first (root first), then the scope's own, each
    table in registration order; a listener that never fails and has no failing predecessor is
    called; the first failing listener is called, ends the trigger, and its error is returned. *)
Theorem C11_listener_order :
  (forall f sh s e, chain (S f) sh s e =
     (match s_parent (gets sh s) with Some p => chain f sh p e | None => [] end) ++ table (gets sh s) s e) /\
  (forall l, Forall (fun x => snd x = None) l -> run_listeners l = (map fst l, None)) /\
  (forall l1 o lid x l2, Forall (fun y => snd y = None) l1 ->
     run_listeners (l1 ++ (o, lid, Some x) :: l2) = (map fst l1 ++ [(o, lid)], Some x)).
Proof. exact (conj chain_order (conj run_listeners_all run_listeners_first)). Qed.
Print Assumptions C11_listener_order.

(** Commit xor rollback: the branch is decided once, right after the wait, as "the error list is
    empty now"; it never changes afterwards; the events fired follow it. *)
Theorem C11_commit_xor_rollback :
  (forall cf sh s, s_pc (gets sh s) = CDecide ->
     close_step cf sh s = xok (set_pc (upd_scope sh s (s_set_branch (Some (isnil (errs_of sh s))))) s CMark)) /\
  (forall progs s1 s2 s b,
     s_branch (gets (sh (run cfg_current s1 (init progs))) s) = Some b ->
     s_branch (gets (sh (run cfg_current (s1 ++ s2) (init progs))) s) = Some b) /\
  (forall progs sched s, let st := run cfg_current sched (init progs) in
     s < length (scopes (sh st)) -> s_pc (gets (sh st) s) = CFinished ->
     exists b, s_branch (gets (sh st) s) = Some b /\
       close_word (log (sh st)) s = BC :: (if b then [BCo; Co; ACo] else [BR; Ro; AR]) ++ [AC]).
Proof. exact commit_xor_rollback. Qed.
Print Assumptions C11_commit_xor_rollback.

(** Close waits: the counter is always (accepted tasks not yet done) + (children whose registration
    was accepted and that have not signed off); the wait returns exactly when it is 0; so — provided
    DoneTask is only called for accepted tasks (the ghost count is not negative) — when the wait
    returns every accepted task is done and every registered child has signed off; a registration
    is cleared only by the child's own sign-off step, which follows its AfterClose. *)
Theorem C11_waits :
  (forall progs sched s, let st := run cfg_current sched (init progs) in
   s < length (scopes (sh st)) ->
   s_wg (gets (sh st) s) = (s_tasks (gets (sh st) s) + Z.of_nat (open_children (scopes (sh st)) s))%Z /\
   (s_pc (gets (sh st) s) = CWait ->
    (close_step cfg_current (sh st) s <> XBlocked <-> s_wg (gets (sh st) s) = 0%Z) /\
    (close_step cfg_current (sh st) s <> XBlocked -> (0 <= s_tasks (gets (sh st) s))%Z ->
     s_tasks (gets (sh st) s) = 0%Z /\ forall c, s_reg (gets (sh st) c) <> Some s))) /\
  (forall cf b i sh sh' p o a sp c q,
   exec cf b i sh = XOk sh' p o a sp -> c < length (scopes sh) ->
   s_reg (gets sh c) = Some q -> s_reg (gets sh' c) <> Some q ->
   i = IRunClose c /\ s_pc (gets sh c) = CSignOff).
Proof. exact (conj waits reg_cleared_by_signoff). Qed.
Print Assumptions C11_waits.

Theorem C11_result : forall cf sh s, s_pc (gets sh s) = CRet ->
  close_step cf sh s = XOk (set_pc sh s CFinished) [] [OClosed s (negb (isnil (errs_of sh s)))] [] [].
Proof. exact close_result. Qed.
Print Assumptions C11_result.

(** A second Close is a panic, and a panicking step changes nothing shared (no event is added);
    by C11_event_grammar no event of the word can be repeated by anyone either. *)
Theorem C11_double_close :
  (forall cf b sh s, valids sh s = true -> closing (gets sh s) = true -> exec cf b (IC0 s) sh = XPanic PDouble) /\
  (forall cf t st st', step cf t st = Some st' ->
     length (all_panics st') > length (all_panics st) -> sh st' = sh st).
Proof. exact (conj double_close panic_keeps_shared). Qed.
Print Assumptions C11_double_close.

(** Shared context: once an AppendError(non-nil)/Kill on ANY scope or handle of context [c] has
    completed, every scope on that context — the parent of a default child in particular — holds
    the error (so its Err is non-nil). *)
Theorem C11_shared : forall progs sched th c es e s,
  let st := run cfg_current sched (init progs) in
  In th (ths st) -> In (c, es) (t_acks th) -> In e es ->
  s_ctx (gets (sh st) s) = c -> In e (errs_of (sh st) s).
Proof. exact shared_error. Qed.
Print Assumptions C11_shared.

(** Isolated context: a micro-step appends only to the context it targets (an operation on a scope
    targets that scope's context; Close targets the closing scope's context), so errors of an
    isolated child never reach the parent's list; and once the parent's context is done the child's
    watcher is enabled: it reads the parent's list and kills the child with exactly one Canceled if
    it is non-empty, stops it otherwise. *)
Theorem C11_isolated :
  (forall cf b i sh sh' p o a sp c, exec cf b i sh = XOk sh' p o a sp -> ~ In c (targets sh i) ->
     validc sh c = true -> c_errors (getc sh' c) = c_errors (getc sh c)) /\
  (forall cf b sh c p, c_iso (getc sh c) = Some p -> c_done (getc sh p) = true -> c_done (getc sh c) = false ->
     exec cf b (IWatch c) sh = xpush sh [IWatchRead c] /\
     exec cf b (IWatchRead c) sh =
       xpush sh [if isnil (c_errors (getc sh p)) then ICStop c [] else ICAppend c [Canceled]]) /\
  (forall sh c, validc sh c = true ->
     exec cfg_current true (ICAppend c [Canceled]) sh = xpush (upd_ctx sh c (c_append [Canceled])) [ICStop c [Canceled]] /\
     (forall es, exec cfg_current true (ICStop c es) sh = XOk (upd_ctx sh c c_close) [] [] [(c, es)] []) /\
     c_done (getc (upd_ctx sh c c_close) c) = true /\
     c_errors (getc (upd_ctx sh c (c_append [Canceled])) c) = c_errors (getc sh c) ++ [Canceled]).
Proof. exact (conj exec_frame (conj watcher_steps watcher_kills)). Qed.
Print Assumptions C11_isolated.

(** Partial (liveness under fairness is not proved): the only blocked micro-steps are a Close or a
    Wait waiting for an outstanding task/child, and a watcher neither of whose contexts is done. *)
Theorem C11_no_stuck_partial : forall cf b i sh,
  exec cf b i sh = XBlocked ->
  (exists s, i = IRunClose s /\ s_pc (gets sh s) = CWait /\ s_wg (gets sh s) <> 0%Z) \/
  (exists s, i = IWait s /\ s_wg (gets sh s) <> 0%Z) \/
  (exists c p, i = IWatch c /\ c_iso (getc sh c) = Some p /\
               c_done (getc sh p) = false /\ c_done (getc sh c) = false).
Proof. exact blocked_only. Qed.
Print Assumptions C11_no_stuck_partial.

(** Non-vacuity: a tree (root 0, shared child 1, isolated child 2, grand-child 3 of 1) with listeners
    on root and child, one of them failing on Commit; tasks; closes issued child-last so that the
    parents block; three threads. *)
Definition t (n : nat) : tid := (n, true).
Definition ex_progs : list (list op) :=
  [[ONewRoot; OOn 0 ECommit 1 None; OOn 0 EAfterClose 2 None; OOn 0 EBeforeRollback 3 None;
    ONewChild 0 false; ONewChild 0 true; ONewChild 1 false; OOn 1 ECommit 4 (Some 9%N);
    OAddTasks 0; OClose 0];
   [OClose 1; OErr 0];
   [OClose 2; OClose 3; ODoneTask 0; OClose 3]].
Definition ex_sched : list tid :=
  repeat (t 0) 40 ++ repeat (t 1) 10 ++ repeat (t 2) 60 ++ repeat (t 1) 40 ++ repeat (t 0) 40 ++ repeat (3, true) 5.

Example C11_example :
  let st := run cfg_current ex_sched (init ex_progs) in
  map s_pc (scopes (sh st)) = [CFinished; CFinished; CFinished; CFinished] /\
  map s_branch (scopes (sh st)) = [Some false; Some false; Some true; Some true] /\
  close_word (log (sh st)) 0 = full_word false /\ close_word (log (sh st)) 3 = full_word true /\
  map t_out (firstn 3 (ths st)) =
    [[OAdd true; OClosed 0 true]; [OClosed 1 true; OBool true]; [OClosed 2 false; OClosed 3 true; OPanic PDouble]] /\
  c_errors (getc (sh st) 0) = [9%N] /\ c_errors (getc (sh st) 1) = [Canceled] /\
  map s_wg (scopes (sh st)) = [0; 0; 0; 0]%Z.
Proof. vm_compute. repeat split. Qed.
