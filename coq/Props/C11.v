(** C11 — Scope close protocol: ordered events, commit xor rollback, waits for children.
    Statements only; every proof is [exact <lemma>] (Proofs/Scope.v, Proofs/ScopeClose.v,
    Proofs/ScopeLive.v for the liveness part, Proofs/TaskCounter.v for the counter, Proofs/C11More.v
    for the trace-level statements added by the proof audit at the end of this file).
    System: [init progs] = any number of threads with any operation lists — scope trees of any depth
    with shared and isolated children and any listener sets (failing listeners included) are built
    by the operations themselves; [run cfg_current sched] = any interleaving (Model/Scope.v).
    The log holds one record per Trigger call (event, firing scope, listener calls made). *)
From GC Require Import Common.Base Model.Scope Model.ScopeLive Model.TaskCounter.
From GC Require Import Proofs.Scope Proofs.ScopeClose Proofs.ScopeLive Proofs.TaskCounter Proofs.C11More.
From Coq Require Import ZArith Permutation.
Local Open Scope nat_scope.

(** The close events fired BY scope [s] — under any programs and any schedule — are exactly the word
    determined by the program counter of its Close: a prefix, without repetition, of
    BeforeClose (BeforeCommit Commit AfterCommit | BeforeRollback Rollback AfterRollback) AfterClose;
    nothing before Close is called, the whole word once it has returned. *)
Theorem C11_event_grammar : forall progs sched s,
  let st := run cfg_current sched (init progs) in
  s < length (scopes (sh st)) ->
  let w := close_word (log (sh st)) s in
  let sc := gets (sh st) s in
  w = word_of (s_pc sc) (s_branch sc) /\
  is_prefix w (full_word (br_default (s_branch sc))) /\ NoDup w /\
  (s_pc sc = CNone -> w = []) /\
  (s_pc sc = CFinished -> exists b, s_branch sc = Some b /\ w = full_word b).
Proof. exact event_grammar. Qed.
Print Assumptions C11_event_grammar.

(** Inside one Trigger: the ancestors' listeners come first (root first), then the scope's own, each
    table in registration order; a listener that never fails and has no failing predecessor is
    called; the first failing listener is called, ends the trigger, and its error is returned. *)
Theorem C11_listener_order :
  (forall f sh s e, chain (S f) sh s e =
     (match s_parent (gets sh s) with Some p => chain f sh p e | None => [] end) ++ table (gets sh s) s e) /\
  (forall l, Forall (fun x => snd x = None) l -> run_listeners l = (map fst l, None)) /\
  (forall l1 o lid x l2, Forall (fun y => snd y = None) l1 ->
     run_listeners (l1 ++ (o, lid, Some x) :: l2) = (map fst l1 ++ [(o, lid)], Some x)).
Proof. exact (conj chain_order (conj run_listeners_all run_listeners_first)). Qed.
Print Assumptions C11_listener_order.

(** Commit xor rollback: the branch is decided once, right after the wait, as "the error list is
    empty now"; it never changes afterwards; the events fired follow it. *)
Theorem C11_commit_xor_rollback :
  (forall cf sh s, s_pc (gets sh s) = CDecide ->
     close_step cf sh s = xok (set_pc (upd_scope sh s (s_set_branch (Some (isnil (errs_of sh s))))) s CMark)) /\
  (forall progs s1 s2 s b,
     s_branch (gets (sh (run cfg_current s1 (init progs))) s) = Some b ->
     s_branch (gets (sh (run cfg_current (s1 ++ s2) (init progs))) s) = Some b) /\
  (forall progs sched s, let st := run cfg_current sched (init progs) in
     s < length (scopes (sh st)) -> s_pc (gets (sh st) s) = CFinished ->
     exists b, s_branch (gets (sh st) s) = Some b /\
       close_word (log (sh st)) s = BC :: (if b then [BCo; Co; ACo] else [BR; Ro; AR]) ++ [AC]).
Proof. exact commit_xor_rollback. Qed.
Print Assumptions C11_commit_xor_rollback.

(** Close waits: the counter is always (accepted tasks not yet done) + (children whose registration
    was accepted and that have not signed off); the wait returns exactly when it is 0; so — provided
    DoneTask is only called for accepted tasks (the ghost count is not negative) — when the wait
    returns every accepted task is done and every registered child has signed off; a registration
    is cleared only by the child's own sign-off step, which follows its AfterClose. *)
Theorem C11_waits :
  (forall progs sched s, let st := run cfg_current sched (init progs) in
   s < length (scopes (sh st)) ->
   s_wg (gets (sh st) s) = (s_tasks (gets (sh st) s) + Z.of_nat (open_children (scopes (sh st)) s))%Z /\
   (s_pc (gets (sh st) s) = CWait ->
    (close_step cfg_current (sh st) s <> XBlocked <-> s_wg (gets (sh st) s) = 0%Z) /\
    (close_step cfg_current (sh st) s <> XBlocked -> (0 <= s_tasks (gets (sh st) s))%Z ->
     s_tasks (gets (sh st) s) = 0%Z /\ forall c, s_reg (gets (sh st) c) <> Some s))) /\
  (forall cf b i sh sh' p o a sp c q,
   exec cf b i sh = XOk sh' p o a sp -> c < length (scopes sh) ->
   s_reg (gets sh c) = Some q -> s_reg (gets sh' c) <> Some q ->
   i = IRunClose c /\ s_pc (gets sh c) = CSignOff).
Proof. exact (conj waits reg_cleared_by_signoff). Qed.
Print Assumptions C11_waits.

Theorem C11_result : forall cf sh s, s_pc (gets sh s) = CRet ->
  close_step cf sh s = XOk (set_pc sh s CFinished) [] [OClosed s (negb (isnil (errs_of sh s)))] [] [].
Proof. exact close_result. Qed.
Print Assumptions C11_result.

(** A second Close is a panic, and a panicking step changes nothing shared (no event is added);
    by C11_event_grammar no event of the word can be repeated by anyone either. *)
Theorem C11_double_close :
  (forall cf b sh s, valids sh s = true -> closing (gets sh s) = true -> exec cf b (IC0 s) sh = XPanic PDouble) /\
  (forall cf t st st', step cf t st = Some st' ->
     length (all_panics st') > length (all_panics st) -> sh st' = sh st).
Proof. exact (conj double_close panic_keeps_shared). Qed.
Print Assumptions C11_double_close.

(** Shared context: once an AppendError(non-nil)/Kill on ANY scope or handle of context [c] has
    completed, every scope on that context — the parent of a default child in particular — holds
    the error (so its Err is non-nil). *)
Theorem C11_shared : forall progs sched th c es e s,
  let st := run cfg_current sched (init progs) in
  In th (ths st) -> In (c, es) (t_acks th) -> In e es ->
  s_ctx (gets (sh st) s) = c -> In e (errs_of (sh st) s).
Proof. exact shared_error. Qed.
Print Assumptions C11_shared.

(** Isolated context: a micro-step appends only to the context it targets (an operation on a scope
    targets that scope's context; Close targets the closing scope's context), so errors of an
    isolated child never reach the parent's list; and once the parent's context is done the child's
    watcher is enabled: it reads the parent's list and kills the child with exactly one Canceled if
    it is non-empty, stops it otherwise. *)
Theorem C11_isolated :
  (forall cf b i sh sh' p o a sp c, exec cf b i sh = XOk sh' p o a sp -> ~ In c (targets sh i) ->
     validc sh c = true -> c_errors (getc sh' c) = c_errors (getc sh c)) /\
  (forall cf b sh c p, c_iso (getc sh c) = Some p -> c_done (getc sh p) = true -> c_done (getc sh c) = false ->
     exec cf b (IWatch c) sh = xpush sh [IWatchRead c] /\
     exec cf b (IWatchRead c) sh =
       xpush sh [if isnil (c_errors (getc sh p)) then ICStop c [] else ICAppend c [Canceled]]) /\
  (forall sh c, validc sh c = true ->
     exec cfg_current true (ICAppend c [Canceled]) sh = xpush (upd_ctx sh c (c_append [Canceled])) [ICStop c [Canceled]] /\
     (forall es, exec cfg_current true (ICStop c es) sh = XOk (upd_ctx sh c c_close) [] [] [(c, es)] []) /\
     c_done (getc (upd_ctx sh c c_close) c) = true /\
     c_errors (getc (upd_ctx sh c (c_append [Canceled])) c) = c_errors (getc sh c) ++ [Canceled]).
Proof. exact (conj exec_frame (conj watcher_steps watcher_kills)). Qed.
Print Assumptions C11_isolated.

(** The only blocked micro-steps are a Close or a Wait waiting for an outstanding task/child, and a
    watcher neither of whose contexts is done.  (Named partial because it is a safety statement; the
    liveness statements are C11_close_returns and C11_close_inevitable below.) *)
Theorem C11_no_stuck_partial : forall cf b i sh,
  exec cf b i sh = XBlocked ->
  (exists s, i = IRunClose s /\ s_pc (gets sh s) = CWait /\ s_wg (gets sh s) <> 0%Z) \/
  (exists s, i = IWait s /\ s_wg (gets sh s) <> 0%Z) \/
  (exists c p, i = IWatch c /\ c_iso (getc sh c) = Some p /\
               c_done (getc sh p) = false /\ c_done (getc sh c) = false).
Proof. exact blocked_only. Qed.
Print Assumptions C11_no_stuck_partial.

(** Non-vacuity: a tree (root 0, shared child 1, isolated child 2, grand-child 3 of 1) with listeners
    on root and child, one of them failing on Commit; tasks; closes issued child-last so that the
    parents block; three threads. *)
Definition t (n : nat) : tid := (n, true).
Definition ex_progs : list (list op) :=
  [[ONewRoot; OOn 0 ECommit 1 None; OOn 0 EAfterClose 2 None; OOn 0 EBeforeRollback 3 None;
    ONewChild 0 false; ONewChild 0 true; ONewChild 1 false; OOn 1 ECommit 4 (Some 9%N);
    OAddTasks 0; OClose 0];
   [OClose 1; OErr 0];
   [OClose 2; OClose 3; ODoneTask 0; OClose 3]].
Definition ex_sched : list tid :=
  repeat (t 0) 40 ++ repeat (t 1) 10 ++ repeat (t 2) 60 ++ repeat (t 1) 40 ++ repeat (t 0) 40 ++ repeat (3, true) 5.

Example C11_example :
  let st := run cfg_current ex_sched (init ex_progs) in
  map s_pc (scopes (sh st)) = [CFinished; CFinished; CFinished; CFinished] /\
  map s_branch (scopes (sh st)) = [Some false; Some false; Some true; Some true] /\
  close_word (log (sh st)) 0 = full_word false /\ close_word (log (sh st)) 3 = full_word true /\
  map t_out (firstn 3 (ths st)) =
    [[OAdd true; OClosed 0 true]; [OClosed 1 true; OBool true]; [OClosed 2 false; OClosed 3 true; OPanic PDouble]] /\
  c_errors (getc (sh st) 0) = [9%N] /\ c_errors (getc (sh st) 1) = [Canceled] /\
  map s_wg (scopes (sh st)) = [0; 0; 0; 0]%Z.
Proof. vm_compute. repeat split. Qed.

(** ** Liveness of Close

    [C11_no_stuck_partial] above says what a blocked micro-step can be; the theorems below say that
    nothing else is needed for Close to return.  The first [k = length progs] threads of a state are
    the program threads (later ones are watchers of isolated contexts).  The premise [live_ok k st]
    (Model/ScopeLive.v, executable) is about what the programs have left to do in [st]:
    no AddTasks/NewChild is left (wind-down); for every scope the DoneTask operations left are
    exactly its accepted, unfinished tasks; every started Close is being run by a program thread;
    every registered child has its Close running or left in some program; and the programs do not
    wait for each other in a circle: a Close s / Wait s on a scope whose counter is not zero is
    followed, in the same thread, only by DoneTask a / Close a with a < s (children have larger
    numbers than their parents).

    In every reachable state with that premise there is a continuation schedule after which
    every program thread has run to its end (so every Close call has come back), every scope is
    either never closed or completely closed: its Close returned to its caller and the scope fired
    the whole word BeforeClose, commit or rollback triple, AfterClose; this includes every Close that
    had started and every Close still announced by a program for an existing scope.
    Since the task counter of the model is the mutex/cond counter at the granularity of its
    critical sections, this is: no lost wake-up, and no circular wait between a parent and its
    children inside the library. *)
Theorem C11_close_returns : forall progs sched,
  let k := length progs in
  let st := run cfg_current sched (init progs) in
  live_ok k st = true ->
  exists sched',
    let st' := run cfg_current sched' st in
    (forall th, In th (pthreads k st') -> t_cur th = [] /\ t_todo th = []) /\
    (forall s, s < length (scopes (sh st')) ->
       s_pc (gets (sh st') s) = CNone \/
       (s_pc (gets (sh st') s) = CFinished /\ returned s st' = true /\
        exists b, close_word (log (sh st')) s = full_word b)) /\
    (forall s, s_pc (gets (sh st) s) <> CNone -> s_pc (gets (sh st') s) = CFinished) /\
    (forall s th, valids (sh st) s = true -> In th (pthreads k st) -> In (OClose s) (t_todo th) ->
       s_pc (gets (sh st') s) = CFinished).
Proof. exact close_returns. Qed.
Print Assumptions C11_close_returns.

(** Stronger: not only is there a good schedule - no schedule can go wrong.  From such a state,
    under EVERY continuation [sched1] (any interleaving of all threads, watchers included): the
    program threads take at most N successful micro-steps altogether (N depends on the state only:
    the micro-steps left in the programs plus the distance of every Close from its end); as long as
    some program thread has not finished, some program thread can take a step (the thread parked on
    the scope with the largest number waits for a thread that is not parked; a thread that can move
    stays able to move, because no counter rises any more); and once all have finished everything
    said in [C11_close_returns] holds.  Hence Close returns under every schedule that does not stop
    scheduling a thread that can move. *)
Theorem C11_close_inevitable : forall progs sched,
  let k := length progs in
  let st := run cfg_current sched (init progs) in
  live_ok k st = true ->
  exists N, forall sched1, let st1 := run cfg_current sched1 st in
    psteps k sched1 st <= N /\
    (forallb finished (pthreads k st1) = false ->
     exists n st2, n < k /\ step cfg_current (n, true) st1 = Some st2) /\
    (forallb finished (pthreads k st1) = true ->
     (forall th, In th (pthreads k st1) -> t_cur th = [] /\ t_todo th = []) /\
     (forall s, s < length (scopes (sh st1)) ->
        s_pc (gets (sh st1) s) = CNone \/
        (s_pc (gets (sh st1) s) = CFinished /\ returned s st1 = true /\
         exists b, close_word (log (sh st1)) s = full_word b)) /\
     (forall s, s_pc (gets (sh st) s) <> CNone -> s_pc (gets (sh st1) s) = CFinished) /\
     (forall s th, valids (sh st) s = true -> In th (pthreads k st) -> In (OClose s) (t_todo th) ->
        s_pc (gets (sh st1) s) = CFinished)).
Proof. exact close_inevitable_ex. Qed.
Print Assumptions C11_close_inevitable.

(** The premise is necessary (expected behaviour, not a defect): if an accepted task of a scope whose
    Close is waiting is never finished - no DoneTask for it is left in any program - the Close stays
    blocked in its wait under EVERY continuation; only BeforeClose has been fired. *)
Theorem C11_close_blocks_without_done : forall progs sched s,
  let st := run cfg_current sched (init progs) in
  s_pc (gets (sh st) s) = CWait -> (0 < s_tasks (gets (sh st) s))%Z ->
  (forall th, In th (ths st) -> ~ In (ODoneTask s) (t_todo th)) ->
  forall sched', let st' := run cfg_current sched' st in
    s_pc (gets (sh st') s) = CWait /\ close_step cfg_current (sh st') s = XBlocked /\
    close_word (log (sh st')) s = [BC].
Proof. exact close_blocks_forever. Qed.
Print Assumptions C11_close_blocks_without_done.

(** Non-vacuity of the premise.  The example above, once thread 0 has built the tree and parked in
    Close 0 (task 1 outstanding, children 1 and 2 open), satisfies it (before that it does not:
    AddTasks/NewChild are still to come); so does a history of the shape the harness generates
    (main thread + one goroutine per Close) at its drain phase. *)
Example C11_live_example :
  live_ok 3 (init ex_progs) = false /\
  live_ok 3 (run cfg_current (repeat (t 0) 40) (init ex_progs)) = true /\
  live_ok 3 (run cfg_current (repeat (t 0) 40 ++ repeat (t 1) 10 ++ repeat (t 2) 20) (init ex_progs)) = true.
Proof. vm_compute. repeat split. Qed.

Definition ex_hist : list hop :=
  [HOp ONewRoot; HOp (ONewChild 0 false); HOp (ONewChild 1 true); HOp (OAddTasks 1); HOp (OAddTasks 0);
   HClose 0; HOp (OKill 2); HOp (ODoneTask 1); HClose 1; HOp (OErr 0); HClose 2; HOp (ODoneTask 0)].
Example C11_live_harness_shape :
  let st := run cfg_current (repeat (t 0) 5 ++ repeat (t 1) 12) (init (progs_of ex_hist)) in
  map s_pc (scopes (sh st)) = [CWait; CNone; CNone] /\ map s_wg (scopes (sh st)) = [2; 2; 0]%Z /\
  live_ok 4 st = true.
Proof. vm_compute. repeat split. Qed.

(** Necessity, concretely.  (a) The DoneTask is missing: the premise fails and Close 0 is blocked
    for ever.  (b) Two programs wait for each other (each closes a scope and only then finishes the
    task of the other scope): the ordering clause of the premise fails, and indeed no thread can
    move any more - a deadlock of the callers, not of the library. *)
Definition ex_nodone : list (list op) := [[ONewRoot; OAddTasks 0; OClose 0; OErr 0]].
Example C11_blocks_example :
  let st := run cfg_current (repeat (t 0) 10) (init ex_nodone) in
  live_ok 1 st = false /\
  forall sched', s_pc (gets (sh (run cfg_current sched' st)) 0) = CWait.
Proof.
  split. vm_compute; reflexivity.
  intros sched'. apply (C11_close_blocks_without_done ex_nodone (repeat (t 0) 10) 0).
  - vm_compute; reflexivity.
  - vm_compute; reflexivity.
  - vm_compute. intros th [<-|[]]; simpl; intuition discriminate.
Qed.

Definition ex_circular : list (list op) :=
  [[ONewRoot; ONewRoot; OAddTasks 0; OAddTasks 1];
   [OClose 0; ODoneTask 1];
   [OClose 1; ODoneTask 0]].
Example C11_circular_example :
  let st := run cfg_current (repeat (t 0) 4 ++ repeat (t 1) 9 ++ repeat (t 2) 9) (init ex_circular) in
  map s_pc (scopes (sh st)) = [CWait; CWait] /\
  forallb (ordered_thread (sh st)) (pthreads 3 st) = false /\ live_ok 3 st = false /\
  forall sched', run cfg_current sched' st = st.
Proof.
  split. vm_compute; reflexivity. split. vm_compute; reflexivity. split. vm_compute; reflexivity.
  apply deadlocked_stuck. vm_compute. reflexivity.
Qed.

(** ** The task counter below the granularity of [Scope.v] (Model/TaskCounter.v)

    The theorems above use the counter as 'the wait can return iff the counter is 0'.  The finer
    model has the lazily created condition variable, the notify list and the re-test loop of
    taskcounter.go (one step per region protected by the mutex; cond.Wait splits Wait in two).
    For all programs of Add(d)/Wait calls from any number of goroutines and all schedules:
    the counter is never negative (a refused decrement leaves it unchanged), and a goroutine asleep
    in cond.Wait implies a non-zero counter - no wake-up is lost, whether the condition variable
    existed or not when the counter reached zero. *)
Theorem C11_counter_no_lost_wakeup : forall progs sched,
  let st := trun sched (tinit progs) in
  (0 <= tc_counter st)%Z /\
  forall m, pcl (tc_ths st) m = TParked -> tc_counter st <> 0%Z /\ tc_cond st = true.
Proof. exact no_lost_wakeup. Qed.
Print Assumptions C11_counter_no_lost_wakeup.

(** Wait returns exactly at zero, which is the granularity of [CWait]/[IWait]: in a reachable state
    with counter 0 a goroutine inside Wait is awake and its own next step returns; and a step in
    which some Wait returns is a step of that goroutine taken with the counter at 0. *)
Theorem C11_counter_wait_at_zero : forall progs sched,
  let st := trun sched (tinit progs) in
  (forall m, tc_counter st = 0%Z -> pcl (tc_ths st) m <> TIdle ->
     exists st', tstep m st = Some st' /\ pcl (tc_ths st') m = TIdle /\
                 waits_of (tc_ths st') m = S (waits_of (tc_ths st) m) /\ tc_counter st' = 0%Z) /\
  (forall n m st', tstep n st = Some st' -> waits_of (tc_ths st') m <> waits_of (tc_ths st) m ->
     m = n /\ tc_counter st = 0%Z /\ tc_counter st' = 0%Z /\ pcl (tc_ths st') m = TIdle).
Proof. exact wait_returns_at_zero. Qed.
Print Assumptions C11_counter_wait_at_zero.

(** Non-vacuity: two waiters sleep, the counter passes through 1 and reaches 0, both are woken and
    return; a third Wait called at zero returns at once; a decrement below zero is refused. *)
Example C11_counter_example :
  let progs := [[KAdd 2; KWait]; [KWait; KAdd (-1)]; [KAdd (-1); KAdd (-1)]] in
  let s1 := trun [0; 0; 1] (tinit progs) in
  let s2 := trun [2; 2] s1 in
  let s3 := trun [0; 1; 1; 2] s2 in
  (tc_counter s1, map tt_pc (tc_ths s1)) = (2%Z, [TParked; TParked; TIdle]) /\
  (tc_counter s2, map tt_pc (tc_ths s2)) = (0%Z, [TWoken; TWoken; TIdle]) /\
  (tc_counter s3, map tt_pc (tc_ths s3), map tt_out (tc_ths s3)) =
    (0%Z, [TIdle; TIdle; TIdle],
     [[TOAdd true; TOWait]; [TOWait; TOAdd false]; [TOAdd true; TOAdd true]]).
Proof. vm_compute. repeat split. Qed.

(** ** Proof audit: the clauses at trace level (Proofs/C11More.v)

    The theorems of the first part state several clauses as facts about ONE micro-step on an
    arbitrary shared state (C11_result, C11_double_close, the first part of C11_commit_xor_rollback,
    the second of C11_waits, C11_isolated) or about functions (C11_listener_order).  The theorems
    below state them about [run cfg_current sched (init progs)] for all programs and schedules, in
    one state or between two states of one run ([s1] and [s1 ++ s2]). *)

(** The scope tree, any depth: a parent is numbered before its child; a child shares its parent's
    context or owns an isolated context on it; a registration is on the structural parent; a child
    that is neither registered nor completely closed was created when the parent's context was
    already done (the parent refused it).  And the fuel of [chain] is enough at any depth: more
    fuel gives the same listener chain, so a Trigger reaches the listeners of every ancestor up to
    the root (this is what C11_listener_order, about [chain (S f)], left open). *)
Theorem C11_tree_shape : forall progs sched,
  let st := run cfg_current sched (init progs) in
  (forall c p, s_parent (gets (sh st) c) = Some p ->
     p < c /\ c < length (scopes (sh st)) /\
     (s_ctx (gets (sh st) c) = s_ctx (gets (sh st) p) \/
      c_iso (getc (sh st) (s_ctx (gets (sh st) c))) = Some (s_ctx (gets (sh st) p))) /\
     (s_reg (gets (sh st) c) = Some p \/ closed_pc (s_pc (gets (sh st) c)) = true \/
      c_done (getc (sh st) (s_ctx (gets (sh st) p))) = true)) /\
  (forall c q, s_reg (gets (sh st) c) = Some q -> s_parent (gets (sh st) c) = Some q) /\
  (forall f s e, s < f -> chain f (sh st) s e = chain (S s) (sh st) s e).
Proof. exact tree_shape. Qed.
Print Assumptions C11_tree_shape.

(** Closing twice, at trace level (supersedes C11_double_close, which is one step): over a whole
    run at most one Close call per scope is ever accepted - [tokens] counts the threads that hold
    the token of the scope's Close state machine, [returns] the [OClosed s _] observed by all
    threads; none before Close is called, exactly one return and no token once it has finished, so
    Close returns at most once, to one caller; every other call met [closing] and panicked. *)
Theorem C11_close_once : forall progs sched s,
  let st := run cfg_current sched (init progs) in
  tokens s st + returns s st <= 1 /\
  (s_pc (gets (sh st) s) = CNone -> tokens s st = 0 /\ returns s st = 0) /\
  (returns s st = 1 <-> s_pc (gets (sh st) s) = CFinished) /\
  (s_pc (gets (sh st) s) = CFinished -> tokens s st = 0) /\
  (forall th h, In th (ths st) -> In (OClosed s h) (t_out th) ->
     returns s st = 1 /\ s_pc (gets (sh st) s) = CFinished).
Proof. exact close_once. Qed.
Print Assumptions C11_close_once.

(** The result, at trace level (supersedes C11_result, which is one step).  Whatever any thread has
    observed as the return of Close on [s]: the scope has fired its whole word; a rollback was
    reported as an error; a reported error is held by the scope now (and for ever: error lists only
    grow); and in the very step in which Close returns the answer is 'the error list is non-empty',
    read in that step. *)
Theorem C11_result_holds : forall progs sched th s h,
  let st := run cfg_current sched (init progs) in
  In th (ths st) -> In (OClosed s h) (t_out th) ->
  s_pc (gets (sh st) s) = CFinished /\ returns s st = 1 /\
  exists b, s_branch (gets (sh st) s) = Some b /\ close_word (log (sh st)) s = full_word b /\
            (b = false -> h = true) /\ (h = true -> errs_of (sh st) s <> []).
Proof. exact result_holds. Qed.
Print Assumptions C11_result_holds.

Theorem C11_result_at_return : forall progs s1 t st' th' s h,
  let st := run cfg_current s1 (init progs) in
  step cfg_current t st = Some st' -> returns s st = 0 ->
  In th' (ths st') -> In (OClosed s h) (t_out th') ->
  s_pc (gets (sh st) s) = CRet /\ h = negb (isnil (errs_of (sh st) s)) /\
  errs_of (sh st') s = errs_of (sh st) s /\ s_pc (gets (sh st') s) = CFinished.
Proof. exact result_at_return. Qed.
Print Assumptions C11_result_at_return.

(** Commit xor rollback, at trace level.  The decision has ONE moment: if the branch of [s] is open
    after [s1] and is [b] after [s1 ++ s2], then [s2] splits around one step taken with the Close of
    [s] at CDecide, and [b] is 'the error list of that state is empty'.  A rollback scope holds an
    error in every reachable state. *)
Theorem C11_decision_moment : forall progs s1 s2 s b,
  let st1 := run cfg_current s1 (init progs) in
  let st2 := run cfg_current (s1 ++ s2) (init progs) in
  s_branch (gets (sh st1) s) = None -> s_branch (gets (sh st2) s) = Some b ->
  exists s3 t s4, s2 = s3 ++ t :: s4 /\
    let stm := run cfg_current (s1 ++ s3) (init progs) in
    s_pc (gets (sh stm) s) = CDecide /\ s_branch (gets (sh stm) s) = None /\
    b = isnil (errs_of (sh stm) s) /\
    s_branch (gets (sh (run cfg_current (s1 ++ s3 ++ [t]) (init progs))) s) = Some b.
Proof. exact decision_moment. Qed.
Print Assumptions C11_decision_moment.

Theorem C11_rollback_holds_error : forall progs sched s,
  let st := run cfg_current sched (init progs) in
  s_branch (gets (sh st) s) = Some false -> errs_of (sh st) s <> [].
Proof. exact (fun progs sched => rb_reach cfg_current progs sched). Qed.
Print Assumptions C11_rollback_holds_error.

(** An error or kill in a child that shares the parent's context fails the parent - end to end
    (C11_shared stops at 'the parent holds the error').  If a signalling call with a non-nil error
    on the context of [s] has completed - on ANY scope or handle of that context: a shared child
    (C11_tree_shape: same context), a grand-child, the scope itself - before the Close of [s] has
    decided, then [s] can never take the commit branch, and once its Close has finished it has
    fired the rollback word and every caller that got an answer got an error.  The second theorem
    is the same for any held error, however it came to be held. *)
Theorem C11_shared_error_fails_parent : forall progs s1 s2 th c es e s,
  let st1 := run cfg_current s1 (init progs) in
  let st2 := run cfg_current (s1 ++ s2) (init progs) in
  In th (ths st1) -> In (c, es) (t_acks th) -> In e es ->
  valids (sh st1) s = true -> s_ctx (gets (sh st1) s) = c -> s_branch (gets (sh st1) s) = None ->
  s_branch (gets (sh st2) s) <> Some true /\
  (s_pc (gets (sh st2) s) = CFinished ->
   s_branch (gets (sh st2) s) = Some false /\ close_word (log (sh st2)) s = full_word false /\
   forall th2 h, In th2 (ths st2) -> In (OClosed s h) (t_out th2) -> h = true).
Proof. exact completed_error_fails. Qed.
Print Assumptions C11_shared_error_fails_parent.

Theorem C11_error_before_decision : forall progs s1 s2 s,
  let st1 := run cfg_current s1 (init progs) in
  let st2 := run cfg_current (s1 ++ s2) (init progs) in
  valids (sh st1) s = true -> s_branch (gets (sh st1) s) = None -> errs_of (sh st1) s <> [] ->
  s_branch (gets (sh st2) s) <> Some true /\
  (s_pc (gets (sh st2) s) = CFinished ->
   s_branch (gets (sh st2) s) = Some false /\ close_word (log (sh st2)) s = full_word false /\
   forall th h, In th (ths st2) -> In (OClosed s h) (t_out th) -> h = true).
Proof. exact error_before_decision. Qed.
Print Assumptions C11_error_before_decision.

(** Close waits for its children, at trace level (C11_waits gives the counter identity, the state
    in which the wait returns, and the step that clears a registration; this is their combination
    over a run).  If child [c] is registered on [s] after [s1] and the Close of [s] has not passed
    its wait there (not called, in BeforeClose, or waiting), then in any later state in which it
    HAS passed the wait - deciding, or firing the commit/rollback triple or AfterClose, or returned -
    [c] has completely closed: it fired its whole word, AfterClose included, and signed off.  The
    hypothesis is the documented discipline 'DoneTask only for accepted tasks': the ghost count of
    [s] is never negative on the way (it is needed: C11_waits_needs_discipline).  With
    C11_tree_shape this is every child except those the parent refused because its context was
    already done - for which the clause is false: C11_waits_every_child_refuted. *)
Theorem C11_waits_for_children : forall progs s1 s2 s c,
  let st1 := run cfg_current s1 (init progs) in
  let st2 := run cfg_current (s1 ++ s2) (init progs) in
  s_reg (gets (sh st1) c) = Some s ->
  past_wait (s_pc (gets (sh st1) s)) = false ->
  past_wait (s_pc (gets (sh st2) s)) = true ->
  (forall s3 s4, s2 = s3 ++ s4 ->
     (0 <= s_tasks (gets (sh (run cfg_current (s1 ++ s3) (init progs))) s))%Z) ->
  closed_pc (s_pc (gets (sh st2) c)) = true /\ s_reg (gets (sh st2) c) = None /\
  exists b, s_branch (gets (sh st2) c) = Some b /\ close_word (log (sh st2)) c = full_word b.
Proof. exact waits_for_children. Qed.
Print Assumptions C11_waits_for_children.

(** The clause 'waits until every child scope has been closed' is FALSE for a child created on a
    parent whose context is already done: AddTasks refuses it (ErrDoned), NewChild does not
    register it (that is the repair F20), and the parent's Close commits and returns nil while the
    child has not started to close.  Here the parent was stopped (done, no error).  The
    implementation does the same (throw-away test against /repo at 3f81e38: root.Stop(),
    NewChild(root), root.Close() returns nil at once, the child closes afterwards without a panic). *)
Theorem C11_waits_every_child_refuted : exists progs sched s c,
  let st := run cfg_current sched (init progs) in
  Forall (Forall (fun o => op_nodone o = true)) progs /\
  s_parent (gets (sh st) c) = Some s /\ s_pc (gets (sh st) c) = CNone /\
  s_pc (gets (sh st) s) = CFinished /\ close_word (log (sh st)) s = full_word true /\
  (exists th, In th (ths st) /\ In (OClosed s false) (t_out th)) /\
  c_done (getc (sh st) (s_ctx (gets (sh st) s))) = true /\ errs_of (sh st) s = [].
Proof. exact waits_every_child_refuted. Qed.
Print Assumptions C11_waits_every_child_refuted.

(** An isolated child is still stopped when the parent stops (C11_isolated gives the watcher's
    micro-steps; nothing there says that a watcher thread exists or that it gets through).  In
    every reachable state, for every isolated context [c] on [p] with [p] done, there is a thread
    [w] - the watcher - such that under EVERY continuation, whatever the other threads do in
    between: as long as [c] is not done [w] can take a step (either value of the choice bit), and
    after [w] has been scheduled four times [c] is done. *)
Theorem C11_isolated_stopped_with_parent : forall progs sched c p,
  let st := run cfg_current sched (init progs) in
  validc (sh st) c = true -> c_iso (getc (sh st) c) = Some p -> c_done (getc (sh st) p) = true ->
  exists w,
    (forall sched1, 4 <= sched_count w sched1 -> c_done (getc (sh (run cfg_current sched1 st)) c) = true) /\
    (forall sched1, let st1 := run cfg_current sched1 st in
       c_done (getc (sh st1) c) = false -> forall b, exists st2, step cfg_current (w, b) st1 = Some st2).
Proof. exact isolated_stopped. Qed.
Print Assumptions C11_isolated_stopped_with_parent.

(** Non-vacuity of the audit theorems (every hypothesis is met by a reachable, non-trivial state). *)
Example C11_tree_example :
  let st := run cfg_current ex_sched (init ex_progs) in
  map s_parent (scopes (sh st)) = [None; Some 0; Some 0; Some 1] /\
  map s_ctx (scopes (sh st)) = [0; 0; 1; 0] /\ map c_iso (ctxs (sh st)) = [None; Some 0] /\
  chain 9 (sh st) 3 ECommit = chain 4 (sh st) 3 ECommit /\
  chain 4 (sh st) 3 ECommit = [(0, 1, None); (1, 4, Some 9%N)].
Proof. vm_compute. repeat split. Qed.

Example C11_close_once_example :
  let st := run cfg_current ex_sched (init ex_progs) in
  map (fun s => (tokens s st, returns s st)) [0; 1; 2; 3; 4] = [(0, 1); (0, 1); (0, 1); (0, 1); (0, 0)] /\
  (let st1 := run cfg_current (repeat (t 0) 40) (init ex_progs) in
   (tokens 0 st1, returns 0 st1, s_pc (gets (sh st1) 0)) = (1, 0, CWait)) /\
  exists th, In th (ths st) /\ In (OClosed 3 true) (t_out th) /\ In (OPanic PDouble) (t_out th).
Proof.
  vm_compute. split; auto. split; auto. eexists. split. right; right; left; reflexivity.
  simpl. split. right; left; reflexivity. right; right; left; reflexivity.
Qed.

Example C11_result_example :
  let st := run cfg_current ex_sched (init ex_progs) in
  (exists th, In th (ths st) /\ In (OClosed 0 true) (t_out th)) /\
  s_branch (gets (sh st) 0) = Some false /\ errs_of (sh st) 0 = [9%N] /\
  (exists th, In th (ths st) /\ In (OClosed 2 false) (t_out th)) /\
  s_branch (gets (sh st) 2) = Some true.
Proof.
  vm_compute. split. eexists. split. left; reflexivity. simpl. right; left; reflexivity.
  split; auto. split; auto. split; auto. eexists. split. right; right; left; reflexivity. simpl. left; reflexivity.
Qed.

Definition ex_refused : list (list op) := [[ONewRoot; OStop 0; ONewChild 0 false; OClose 0; OClose 1]].
Example C11_result_at_return_example :
  let st := run cfg_current (repeat (t 0) 15) (init ex_refused) in
  returns 0 st = 0 /\ s_pc (gets (sh st) 0) = CRet /\
  option_map (fun st' => (map t_out (ths st'), s_pc (gets (sh st') 0))) (step cfg_current (t 0) st)
  = Some ([[OClosed 0 false]], CFinished).
Proof. vm_compute. repeat split. Qed.

Example C11_decision_example :
  s_branch (gets (sh (run cfg_current [] (init ex_progs))) 0) = None /\
  s_branch (gets (sh (run cfg_current ([] ++ ex_sched) (init ex_progs))) 0) = Some false /\
  s_branch (gets (sh (run cfg_current ([] ++ ex_sched) (init ex_progs))) 2) = Some true.
Proof. vm_compute. repeat split. Qed.

(** a Kill on the shared child 1 completes (the ack is recorded) while the Close of the parent 0 is
    waiting; the parent then rolls back and reports the error *)
Definition ex_kill : list (list op) := [[ONewRoot; ONewChild 0 false; OClose 0]; [OKill 1; OClose 1]].
Example C11_shared_fails_example :
  let s1 := repeat (t 0) 6 ++ repeat (t 1) 5 in
  let s2 := repeat (t 1) 30 ++ repeat (t 0) 30 in
  let st1 := run cfg_current s1 (init ex_kill) in
  let st2 := run cfg_current (s1 ++ s2) (init ex_kill) in
  (exists th, In th (ths st1) /\ In (0, [Canceled]) (t_acks th)) /\
  valids (sh st1) 0 = true /\ s_ctx (gets (sh st1) 0) = 0 /\ s_ctx (gets (sh st1) 1) = 0 /\
  s_parent (gets (sh st1) 1) = Some 0 /\
  s_pc (gets (sh st1) 0) = CWait /\ s_branch (gets (sh st1) 0) = None /\ errs_of (sh st1) 0 = [Canceled] /\
  s_pc (gets (sh st2) 0) = CFinished /\ close_word (log (sh st2)) 0 = full_word false /\
  map t_out (ths st2) = [[OClosed 0 true]; [OClosed 1 true]].
Proof. vm_compute. split. eexists. split. right; left; reflexivity. simpl. left; reflexivity. repeat split. Qed.

(** the parent parks in its wait with a task and a registered child outstanding; the other thread
    finishes the task and closes the child; the ghost count is never negative on the way *)
Definition ex_wait : list (list op) :=
  [[ONewRoot; ONewChild 0 false; OAddTasks 0; OClose 0]; [ODoneTask 0; OClose 1]].
Example C11_waits_for_children_example :
  let s1 := repeat (t 0) 12 in
  let s2 := repeat (t 1) 30 ++ repeat (t 0) 30 in
  let st1 := run cfg_current s1 (init ex_wait) in
  let st2 := run cfg_current (s1 ++ s2) (init ex_wait) in
  s_reg (gets (sh st1) 1) = Some 0 /\ s_pc (gets (sh st1) 0) = CWait /\
  past_wait (s_pc (gets (sh st1) 0)) = false /\ past_wait (s_pc (gets (sh st2) 0)) = true /\
  (forall s3 s4, s2 = s3 ++ s4 ->
     (0 <= s_tasks (gets (sh (run cfg_current (s1 ++ s3) (init ex_wait))) 0))%Z) /\
  s_pc (gets (sh st2) 1) = CFinished.
Proof.
  split. vm_compute; reflexivity. split. vm_compute; reflexivity. split. vm_compute; reflexivity.
  split. vm_compute; reflexivity. split; [|vm_compute; reflexivity].
  apply tasks_prefix_check. vm_compute. reflexivity.
Qed.

(** The discipline is needed: one DoneTask too many takes the registration of the child, the parent
    passes its wait while the child has not started to close (and the child's sign-off will panic). *)
Definition ex_misuse : list (list op) := [[ONewRoot; ONewChild 0 false; ODoneTask 0; OClose 0; OClose 1]].
Example C11_waits_needs_discipline :
  let st1 := run cfg_current (repeat (t 0) 2) (init ex_misuse) in
  let st2 := run cfg_current (repeat (t 0) 2 ++ repeat (t 0) 6) (init ex_misuse) in
  s_reg (gets (sh st1) 1) = Some 0 /\ past_wait (s_pc (gets (sh st1) 0)) = false /\
  past_wait (s_pc (gets (sh st2) 0)) = true /\ s_pc (gets (sh st2) 1) = CNone /\
  s_tasks (gets (sh st2) 0) = (-1)%Z /\
  all_panics (run cfg_current (repeat (t 0) 40) (init ex_misuse)) = [OPanic PNegWG].
Proof. vm_compute. repeat split. Qed.

(** the running example just before the watcher of the isolated context 1 moves: the parent's
    context 0 is done (a listener error), context 1 is not; four steps of thread 3, either choice
    bit, and it is done, killed because the parent holds an error *)
Example C11_isolated_stopped_example :
  let sched0 := repeat (t 0) 40 ++ repeat (t 1) 10 ++ repeat (t 2) 60 ++ repeat (t 1) 40 ++ repeat (t 0) 40 in
  let st := run cfg_current sched0 (init ex_progs) in
  validc (sh st) 1 = true /\ c_iso (getc (sh st) 1) = Some 0 /\ c_done (getc (sh st) 0) = true /\
  c_done (getc (sh st) 1) = false /\
  c_done (getc (sh (run cfg_current (repeat (3, false) 3) st)) 1) = false /\
  (let st' := run cfg_current (repeat (3, false) 4) st in
   c_done (getc (sh st') 1) = true /\ c_errors (getc (sh st') 1) = [Canceled] /\
   c_errors (getc (sh st') 0) = [9%N]).
Proof. vm_compute. repeat split. Qed.
