(** C17 — Command-line splitting is total, byte-preserving and reversible for quoted input.
    This file contains only statements; every proof is [exact <lemma of Proofs/Args.v>]. *)
From GC Require Import Common.Base Model.Args Proofs.Args.

(** Splitting any byte string never panics (termination is structural: [read_args] is a fold
    over the input, so it always returns arguments or an error). *)
Theorem C17_total : forall input : bytes, read_args input <> RPanic.
Proof. exact read_args_total. Qed.
Print Assumptions C17_total.

(** Blank-separated sequences of tokens — plain words, reference-quoted arguments, heredoc
    arguments, backslash-newline continued words, freely mixed — come back as exactly the
    denoted arguments, the call does not report EOF, and the reader is left exactly after the
    command's newline (so the next call returns the next command). *)
Theorem C17_tokens : forall ts args r,
  Forall2 (token false) ts args ->
  read_args (join_sp ts ++ NL :: r) = ROk args false r.
Proof. exact read_args_tokens. Qed.
Print Assumptions C17_tokens.

Theorem C17_tokens_eof : forall ts args,
  Forall2 (token false) ts args -> read_args (join_sp ts) = ROk args true [].
Proof. exact read_args_tokens_eof. Qed.
Print Assumptions C17_tokens_eof.

(** The token kinds.  A plain word: no blank, tab, newline, quote, backslash, and no "=<<". *)
Theorem C17_word_token : forall w, good_word w = true -> token false w w.
Proof. exact (token_word false). Qed.
Print Assumptions C17_word_token.

(** Any byte string at all (blanks, quotes, newlines, backslashes, empty, non-ASCII), rendered
    with the reference quoting function, is one token denoting itself. *)
Theorem C17_quoted_token : forall a, token false (quote1 a) a.
Proof. exact (token_quote1 false). Qed.
Print Assumptions C17_quoted_token.

Theorem C17_heredoc_token : forall k M t,
  good_word (k ++ [EQS; LT]) = true ->
  M <> [] -> forallb is_marker_char M = true ->
  first_match_at_end (NL :: M) (t ++ NL :: M) = true ->
  token false (k ++ [EQS; LT; LT] ++ M ++ NL :: t ++ NL :: M) (k ++ EQS :: trim t).
Proof. exact (token_heredoc false). Qed.
Print Assumptions C17_heredoc_token.

Theorem C17_continuation_token : forall w1 w2,
  w1 <> [] -> good_word (w1 ++ w2) = true -> token false (w1 ++ BSL :: NL :: w2) (w1 ++ w2).
Proof. exact (token_continuation false). Qed.
Print Assumptions C17_continuation_token.

(** Corollaries in the property's own words. *)
Theorem C17_words : forall ws r,
  forallb good_word ws = true -> read_args (join_sp ws ++ NL :: r) = ROk ws false r.
Proof. exact read_args_words. Qed.
Print Assumptions C17_words.

Theorem C17_quote_roundtrip : forall args r, read_args (quote args ++ NL :: r) = ROk args false r.
Proof. exact read_args_quote_roundtrip. Qed.
Print Assumptions C17_quote_roundtrip.

(** Whatever the input, a successful non-EOF read consumed a prefix ending in a newline, left
    everything after it unread, and its answer does not depend on what follows. *)
Theorem C17_stops_at_newline : forall input args rest,
  read_args input = ROk args false rest ->
  exists pre, input = pre ++ NL :: rest /\
              forall rest', read_args (pre ++ NL :: rest') = ROk args false rest'.
Proof. exact read_args_stops_at_newline. Qed.
Print Assumptions C17_stops_at_newline.

(** Named arguments are mapped to keys, positional ones to $0, $1, ... in order. *)
Theorem C17_inject_positional : forall args i,
  map snd (filter is_pos_entry (inject_from i args)) = filter (fun a => negb (is_named a)) args /\
  map fst (filter is_pos_entry (inject_from i args))
  = map KPos (seq i (length (filter (fun a => negb (is_named a)) args))).
Proof. exact inject_from_positional. Qed.
Print Assumptions C17_inject_positional.

Theorem C17_inject_named : forall args i,
  filter (fun e => negb (is_pos_entry e)) (inject_from i args) = map named_kv (filter is_named args).
Proof. exact inject_from_named. Qed.
Print Assumptions C17_inject_named.

(** Non-vacuity: concrete inputs meeting the hypotheses, evaluated by the model. *)
Example C17_ex_words :
  read_args [97; 195; 32; 98; 61; 60; 10; 99] = ROk [[97; 195]; [98; 61; 60]] false [99].
Proof. vm_compute. reflexivity. Qed.
Example C17_ex_heredoc_hyp :
  good_word ([107] ++ [EQS; LT]) = true /\
  first_match_at_end (NL :: [69; 79; 70]) ([32; 120; 10; 121; 32] ++ NL :: [69; 79; 70]) = true.
Proof. vm_compute. split; reflexivity. Qed.
Example C17_ex_heredoc :
  read_args ([107; 61; 60; 60; 69; 79; 70; 10; 32; 120; 10; 121; 32; 10; 69; 79; 70; 10])
  = ROk [[107; 61; 120; 10; 121]] false [].
Proof. vm_compute. reflexivity. Qed.
Example C17_ex_quote :
  read_args (quote [[97; 32; 34; 92; 10]; []; [92]] ++ [NL]) = ROk [[97; 32; 34; 92; 10]; []; [92]] false [].
Proof. vm_compute. reflexivity. Qed.

(** Regression witnesses for the code before the repairs (F22): machine-checked. *)
Theorem C17_F22_refuted_old : read_args_old [BSL; 97] = RPanic.
Proof. exact read_args_old_panics. Qed.
Print Assumptions C17_F22_refuted_old.
