(** C17 — Command-line splitting is total, byte-preserving and reversible for quoted input.
    This file contains only statements; every proof is [exact <lemma of Proofs/Args.v>]
    (second part, from the proof audit: lemmas of Proofs/C17More.v). *)
From GC Require Import Common.Base Model.Args Proofs.Args Proofs.C17More.

(** Splitting any byte string never panics (termination is structural: [read_args] is a fold
    over the input, so it always returns arguments or an error). *)
Theorem C17_total : forall input : bytes, read_args input <> RPanic.
Proof. exact read_args_total. Qed.
Print Assumptions C17_total.

(** Blank-separated sequences of tokens — plain words, reference-quoted arguments, heredoc
    arguments, backslash-newline continued words, freely mixed — come back as exactly the
    denoted arguments, the call does not report EOF, and the reader is left exactly after the
    command's newline (so the next call returns the next command).
    (Since the repair F40 the hypothesis is the WEAK token notion [wtoken] - the equation is
    required only for continuations that begin with a blank, a tab, a newline or are empty -
    because a heredoc ends only where such a byte follows its marker; every [token] is a
    [wtoken]: [C17_token_wtoken].  The statement is thereby stronger than before.) *)
Theorem C17_tokens : forall ts args r,
  Forall2 (wtoken false) ts args ->
  read_args (join_sp ts ++ NL :: r) = ROk args false r.
Proof. exact read_args_tokens. Qed.
Print Assumptions C17_tokens.

Theorem C17_tokens_eof : forall ts args,
  Forall2 (wtoken false) ts args -> read_args (join_sp ts) = ROk args true [].
Proof. exact read_args_tokens_eof. Qed.
Print Assumptions C17_tokens_eof.

Theorem C17_token_wtoken : forall t a, token false t a -> wtoken false t a.
Proof. exact (token_wtoken false). Qed.
Print Assumptions C17_token_wtoken.

(** The token kinds.  A plain word: no blank, tab, newline, quote, backslash, and no "=<<". *)
Theorem C17_word_token : forall w, good_word w = true -> token false w w.
Proof. exact (token_word false). Qed.
Print Assumptions C17_word_token.

(** Any byte string at all (blanks, quotes, newlines, backslashes, empty, non-ASCII), rendered
    with the reference quoting function, is one token denoting itself. *)
Theorem C17_quoted_token : forall a, token false (quote1 a) a.
Proof. exact (token_quote1 false). Qed.
Print Assumptions C17_quoted_token.

(** Heredoc (semantics of the repair F40), hypothesis on the scanning: the data loop, started with
    the value NL, does not stop before the end of the text and the marker ([no_early]).  The
    conditions on the text alone are [C17_heredoc_text] / [C17_heredoc_lines_fixed] below. *)
Theorem C17_heredoc_token : forall k M t,
  good_word (k ++ [EQS; LT]) = true ->
  M <> [] -> forallb is_marker_char M = true ->
  no_early (NL :: M) [NL] (t ++ NL :: M) = true ->
  wtoken false (k ++ [EQS; LT; LT] ++ M ++ NL :: t ++ NL :: M) (k ++ EQS :: trim t).
Proof. exact (token_heredoc false). Qed.
Print Assumptions C17_heredoc_token.

Theorem C17_continuation_token : forall w1 w2,
  w1 <> [] -> good_word (w1 ++ w2) = true -> token false (w1 ++ BSL :: NL :: w2) (w1 ++ w2).
Proof. exact (token_continuation false). Qed.
Print Assumptions C17_continuation_token.

(** Corollaries in the property's own words. *)
Theorem C17_words : forall ws r,
  forallb good_word ws = true -> read_args (join_sp ws ++ NL :: r) = ROk ws false r.
Proof. exact read_args_words. Qed.
Print Assumptions C17_words.

Theorem C17_quote_roundtrip : forall args r, read_args (quote args ++ NL :: r) = ROk args false r.
Proof. exact read_args_quote_roundtrip. Qed.
Print Assumptions C17_quote_roundtrip.

(** Whatever the input, a successful non-EOF read consumed a prefix ending in a newline, left
    everything after it unread, and its answer does not depend on what follows. *)
Theorem C17_stops_at_newline : forall input args rest,
  read_args input = ROk args false rest ->
  exists pre, input = pre ++ NL :: rest /\
              forall rest', read_args (pre ++ NL :: rest') = ROk args false rest'.
Proof. exact read_args_stops_at_newline. Qed.
Print Assumptions C17_stops_at_newline.

(** Named arguments are mapped to keys, positional ones to $0, $1, ... in order. *)
Theorem C17_inject_positional : forall args i,
  map snd (filter is_pos_entry (inject_from i args)) = filter (fun a => negb (is_named a)) args /\
  map fst (filter is_pos_entry (inject_from i args))
  = map KPos (seq i (length (filter (fun a => negb (is_named a)) args))).
Proof. exact inject_from_positional. Qed.
Print Assumptions C17_inject_positional.

Theorem C17_inject_named : forall args i,
  filter (fun e => negb (is_pos_entry e)) (inject_from i args) = map named_kv (filter is_named args).
Proof. exact inject_from_named. Qed.
Print Assumptions C17_inject_named.

(** Non-vacuity: concrete inputs meeting the hypotheses, evaluated by the model. *)
Example C17_ex_words :
  read_args [97; 195; 32; 98; 61; 60; 10; 99] = ROk [[97; 195]; [98; 61; 60]] false [99].
Proof. vm_compute. reflexivity. Qed.
Example C17_ex_heredoc_hyp :
  good_word ([107] ++ [EQS; LT]) = true /\
  no_early (NL :: [69; 79; 70]) [NL] ([32; 120; 10; 121; 32] ++ NL :: [69; 79; 70]) = true.
Proof. vm_compute. split; reflexivity. Qed.
Example C17_ex_heredoc :
  read_args ([107; 61; 60; 60; 69; 79; 70; 10; 32; 120; 10; 121; 32; 10; 69; 79; 70; 10])
  = ROk [[107; 61; 120; 10; 121]] false [].
Proof. vm_compute. reflexivity. Qed.
Example C17_ex_quote :
  read_args (quote [[97; 32; 34; 92; 10]; []; [92]] ++ [NL]) = ROk [[97; 32; 34; 92; 10]; []; [92]] false [].
Proof. vm_compute. reflexivity. Qed.

(** Regression witnesses for the code before the repairs (F22): machine-checked. *)
Theorem C17_F22_refuted_old : read_args_old [BSL; 97] = RPanic.
Proof. exact read_args_old_panics. Qed.
Print Assumptions C17_F22_refuted_old.

(** * Proof audit: the clauses at the strength the property states them. *)

(** Arguments or an error, nothing else; and an EOF answer leaves nothing unread. *)
Theorem C17_outcome : forall input,
  (exists args eof rest, read_args input = ROk args eof rest /\ (eof = true -> rest = []))
  \/ read_args input = RErr.
Proof. exact read_args_outcome. Qed.
Print Assumptions C17_outcome.

(** SEPARATED BY BLANKS, in full: the tokens of a command may be separated by any run of
    spaces, tabs and backslash-newline pairs containing at least one blank, and such runs (a
    blank is not needed there) may stand before the first and behind the last token.
    Supersedes [C17_tokens] / [C17_tokens_eof] / [C17_words] (one space, nothing around; they
    are the instance [sp_gaps]) and extends [C17_continuation_token] to continuation lines
    BETWEEN arguments, at the start and at the end of a command.
    [gtoken (t, g) a]: [t] is a token for [a] in the strong sense, or in the weak sense (a
    heredoc) and then the gap [g] behind it is empty or begins with a blank or a tab (behind a
    heredoc's marker a backslash would be text).  [C17_gtoken_of_tokens]: strong tokens with any
    gaps qualify. *)
Theorem C17_gtoken_of_tokens : forall l args,
  Forall2 (token false) (map fst l) args -> Forall2 gtoken l args.
Proof. exact Forall2_token_gtoken. Qed.
Print Assumptions C17_gtoken_of_tokens.

Theorem C17_tokens_any_gaps : forall g0 l args r,
  is_filler g0 = true -> gaps_ok l = true ->
  Forall2 gtoken l args ->
  read_args (g0 ++ join_gaps l ++ NL :: r) = ROk args false r.
Proof. exact read_args_tokens_gaps. Qed.
Print Assumptions C17_tokens_any_gaps.

Theorem C17_tokens_any_gaps_eof : forall g0 l args,
  is_filler g0 = true -> gaps_ok l = true ->
  Forall2 gtoken l args ->
  read_args (g0 ++ join_gaps l) = ROk args true [].
Proof. exact read_args_tokens_gaps_eof. Qed.
Print Assumptions C17_tokens_any_gaps_eof.

Theorem C17_words_any_blanks : forall g0 l r,
  is_filler g0 = true -> gaps_ok l = true ->
  forallb good_word (map fst l) = true ->
  read_args (g0 ++ join_gaps l ++ NL :: r) = ROk (map fst l) false r.
Proof. exact read_args_words_gaps. Qed.
Print Assumptions C17_words_any_blanks.

(** A BACKSLASH-NEWLINE CONTINUES THE LINE, in full: at every point of every input at which the
    splitter is outside quotes and heredocs and not behind another backslash ([feed] = the state
    after the prefix), inserting backslash-newline changes nothing - arguments, EOF flag, what
    is left unread, or the error. *)
Theorem C17_continuation_anywhere : forall pre s post,
  feed init_st pre = Some s -> s_mode s = Main -> s_esc s = false ->
  read_args (pre ++ BSL :: NL :: post) = read_args (pre ++ post).
Proof. exact continuation_anywhere. Qed.
Print Assumptions C17_continuation_anywhere.

(** THE NEXT CALL RETURNS THE NEXT COMMAND, in full.  [is_command cl args]: the bytes [cl]
    followed by a newline are read as one whole command.  Then whatever follows is left for
    the next call, and a script of any number of commands (last line with or without newline)
    is read command by command. *)
Theorem C17_next_command : forall cl args,
  is_command cl args -> forall rest, read_args (cl ++ NL :: rest) = ROk args false rest.
Proof. exact command_then_rest. Qed.
Print Assumptions C17_next_command.

Theorem C17_script : forall cls argss last lastargs n,
  Forall2 is_command cls argss ->
  read_args last = ROk lastargs true [] ->
  (length cls < n)%nat ->
  read_all n (script cls ++ last)
  = map (fun a => ROk a false []) argss ++ [ROk lastargs true []].
Proof. exact read_all_script. Qed.
Print Assumptions C17_script.

Theorem C17_tokens_command : forall g0 l args,
  is_filler g0 = true -> gaps_ok l = true ->
  Forall2 gtoken l args ->
  is_command (g0 ++ join_gaps l) args.
Proof. exact tokens_is_command. Qed.
Print Assumptions C17_tokens_command.

(** BYTE-PRESERVING, for ALL inputs (no token shape assumed): the returned arguments,
    concatenated in order, are a subsequence of the bytes consumed - nothing is invented,
    re-encoded (F23), duplicated or reordered, and nothing comes from behind the newline. *)
Theorem C17_provenance : forall input args eof rest,
  read_args input = ROk args eof rest ->
  exists pre, input = pre ++ rest /\ subseq (concat args) pre.
Proof. exact read_args_provenance. Qed.
Print Assumptions C17_provenance.

Theorem C17_bytes_from_input : forall input args eof rest a c,
  read_args input = ROk args eof rest -> In a args -> In c a -> In c input.
Proof. exact read_args_bytes_from_input. Qed.
Print Assumptions C17_bytes_from_input.

(** HEREDOC in terms of the text (semantics of the repair F40).  The text between the marker
    lines comes back, trimmed, for EVERY text - the empty one included - none of whose lines is
    a terminator line: the marker followed by nothing, a blank or a tab ([term_line]).
    [C17_heredoc_text] states the condition on the bytes (no newline, the one before the text
    included, is directly followed by the marker and a blank, a tab or a newline),
    [C17_heredoc_condition_lines] shows the two conditions equal, [C17_heredoc_empty] is the
    heredoc without any line.  A heredoc is a token in the weak sense only
    ([C17_heredoc_not_strong_token]: behind the marker the text goes on unless a blank, a tab, a
    newline or the end of the input follows). *)
Theorem C17_heredoc_text : forall k M t,
  good_word (k ++ [EQS; LT]) = true ->
  M <> [] -> forallb is_marker_char M = true ->
  no_term M (NL :: t ++ [NL]) = true ->
  wtoken false (k ++ [EQS; LT; LT] ++ M ++ NL :: t ++ NL :: M) (k ++ EQS :: trim t).
Proof. exact (token_heredoc_text false). Qed.
Print Assumptions C17_heredoc_text.

Theorem C17_heredoc_lines_fixed : forall k M t,
  good_word (k ++ [EQS; LT]) = true ->
  M <> [] -> forallb is_marker_char M = true ->
  forallb (fun l => negb (term_line M l)) (lines t) = true ->
  wtoken false (k ++ [EQS; LT; LT] ++ M ++ NL :: t ++ NL :: M) (k ++ EQS :: trim t).
Proof. exact (token_heredoc_lines false). Qed.
Print Assumptions C17_heredoc_lines_fixed.

Theorem C17_heredoc_condition_lines : forall M t,
  forallb is_marker_char M = true ->
  no_term M (NL :: t ++ [NL]) = forallb (fun l => negb (term_line M l)) (lines t).
Proof. exact no_term_lines. Qed.
Print Assumptions C17_heredoc_condition_lines.

Theorem C17_heredoc_empty : forall k M,
  good_word (k ++ [EQS; LT]) = true ->
  M <> [] -> forallb is_marker_char M = true ->
  wtoken false (k ++ [EQS; LT; LT] ++ M ++ NL :: M) (k ++ [EQS]).
Proof. exact (token_heredoc_empty false). Qed.
Print Assumptions C17_heredoc_empty.

Theorem C17_heredoc_not_strong_token :
  ~ token false [107; 61; 60; 60; 69; 10; 97; 10; 69] [107; 61; 97].
Proof. exact heredoc_not_strong_token. Qed.
Print Assumptions C17_heredoc_not_strong_token.

(** Regression witnesses for the heredoc scanner BEFORE the repair F40 ([run_hd_old] /
    [read_args_hd_old]; checked against the unrepaired varutil.ReadArguments with a throw-away
    test: the same answers), each with its counterpart on the repaired scanner.  (The first three
    were C17_heredoc_lines_refuted, C17_heredoc_marker_prefix_refuted and
    C17_heredoc_empty_refuted while the code was unrepaired.)  The clause as worded - no line of
    the text IS the marker - was false: a line that only BEGINS with the marker ended the heredoc;
    and an empty heredoc swallowed the commands behind it. *)
Theorem C17_heredoc_lines_refuted_old : ~ heredoc_by_lines_old.
Proof. exact heredoc_by_lines_old_refuted. Qed.
Print Assumptions C17_heredoc_lines_refuted_old.

Theorem C17_heredoc_marker_prefix_refuted_old :
  read_all_hd_old 3 [107; 61; 60; 60; 69; 79; 70; 10; 97; 10; 69; 79; 70; 88; 10; 69; 79; 70; 10]
  = [ROk [[107; 61; 97; 88]] false []; ROk [[69; 79; 70]] false []; ROk [] true []].
Proof. exact heredoc_marker_prefix_old_witness. Qed.
Print Assumptions C17_heredoc_marker_prefix_refuted_old.

Theorem C17_heredoc_marker_prefix_fixed :
  read_all 3 [107; 61; 60; 60; 69; 79; 70; 10; 97; 10; 69; 79; 70; 88; 10; 69; 79; 70; 10]
  = [ROk [[107; 61; 97; 10; 69; 79; 70; 88]] false []; ROk [] true []].
Proof. exact heredoc_marker_prefix_fixed. Qed.
Print Assumptions C17_heredoc_marker_prefix_fixed.

Theorem C17_heredoc_empty_refuted_old :
  read_args_hd_old [107; 61; 60; 60; 69; 79; 70; 10; 69; 79; 70; 10; 110; 101; 120; 116; 10] = RErr.
Proof. exact heredoc_empty_old_witness. Qed.
Print Assumptions C17_heredoc_empty_refuted_old.

Theorem C17_heredoc_empty_fixed :
  read_all 3 [107; 61; 60; 60; 69; 79; 70; 10; 69; 79; 70; 10; 110; 101; 120; 116; 10]
  = [ROk [[107; 61]] false []; ROk [[110; 101; 120; 116]] false []; ROk [] true []].
Proof. exact heredoc_empty_fixed. Qed.
Print Assumptions C17_heredoc_empty_fixed.

(** Quoting that escapes a backslash INSIDE the quotes is not reversible (the backslash is
    lost), which is why the reference quoting function writes it outside. *)
Theorem C17_naive_quote_refuted : ~ (forall a, token false (quote1_naive a) a).
Proof. exact quote1_naive_refuted. Qed.
Print Assumptions C17_naive_quote_refuted.

(** NAMED TO KEYS, POSITIONAL TO $0,$1,.. IN ORDER, in terms of the argument text alone and
    keeping the interleaving: the j-th argument makes the j-th SetValue call; it is named iff
    it contains '='; key = text before the first '=' without up to two leading dashes, value =
    everything after it; a positional one is bound to $n, n = number of positional arguments
    before it.  Everything behind the FIRST bare -- is passed through and not numbered.
    ([C17_inject_positional] / [C17_inject_named] state the two projections with [is_named]
    defined through the model's own helper.) *)
Theorem C17_inject_nth : forall args i j a,
  nth_error args j = Some a ->
  nth_error (inject_from i args) j
  = Some (if has_eq a then named_kv a else (KPos (i + count_pos (firstn j args)), a)).
Proof. exact inject_from_nth. Qed.
Print Assumptions C17_inject_nth.

Theorem C17_inject_length : forall args i, length (inject_from i args) = length args.
Proof. exact inject_from_length. Qed.
Print Assumptions C17_inject_length.

Theorem C17_named_iff_contains_eq : forall a, is_named a = has_eq a.
Proof. exact is_named_has_eq. Qed.
Print Assumptions C17_named_iff_contains_eq.

Theorem C17_named_key_value : forall k v,
  has_eq k = false -> named_kv (k ++ EQS :: v) = (KName (trim_dash (trim_dash k)), v).
Proof. exact named_kv_spec. Qed.
Print Assumptions C17_named_key_value.

Theorem C17_inject_args_sep : forall args rest,
  forallb (fun a => negb (is_sep_arg a)) args = true ->
  inject_args (args ++ [DASH; DASH] :: rest) = (inject_from 0 args, rest).
Proof. exact inject_args_sep. Qed.
Print Assumptions C17_inject_args_sep.

Theorem C17_inject_args_nosep : forall args,
  forallb (fun a => negb (is_sep_arg a)) args = true ->
  inject_args args = (inject_from 0 args, []).
Proof. exact inject_args_nosep. Qed.
Print Assumptions C17_inject_args_nosep.

(** Non-vacuity of the new implications: concrete inputs meeting every hypothesis.
    SP TAB a SP \ NL TAB b TAB TAB \ NL SP c SP \ NL NL x *)
Example C17_ex_gaps_hyp :
  is_filler [32; 9] = true /\
  gaps_ok [([97], [32; 92; 10; 9]); ([98], [9; 9; 92; 10; 32]); ([99], [32; 92; 10])] = true /\
  forallb good_word (map fst [([97], [32; 92; 10; 9]); ([98], [9; 9; 92; 10; 32]); ([99], [32; 92; 10])]) = true.
Proof. vm_compute. repeat split; reflexivity. Qed.
Example C17_ex_gaps :
  read_args ([32; 9] ++ join_gaps [([97], [32; 92; 10; 9]); ([98], [9; 9; 92; 10; 32]); ([99], [32; 92; 10])] ++ NL :: [120])
  = ROk [[97]; [98]; [99]] false [120].
Proof. vm_compute. reflexivity. Qed.
Example C17_ex_sp_gaps : forall ts, gaps_ok (sp_gaps ts) = true /\ map fst (sp_gaps ts) = ts.
Proof. intros ts. split; [apply sp_gaps_ok|apply sp_gaps_fst]. Qed.
(** between two arguments, and inside a quoted section where the hypothesis fails and so does
    the conclusion *)
Example C17_ex_continuation_hyp :
  exists s, feed init_st [97; 32] = Some s /\ s_mode s = Main /\ s_esc s = false.
Proof. eexists. vm_compute. repeat split; reflexivity. Qed.
Example C17_ex_continuation_quote :
  (exists s, feed init_st [97; 32; 34; 98] = Some s /\ s_mode s = InQuote) /\
  read_args ([97; 32; 34; 98] ++ BSL :: NL :: [34; 10]) <> read_args ([97; 32; 34; 98] ++ [34; 10]).
Proof. split; [eexists; vm_compute; split; reflexivity|vm_compute; discriminate]. Qed.
Example C17_ex_script_hyp :
  Forall2 is_command [[97; 32; 98]; []; [34; 120; 10; 34]] [[[97]; [98]]; []; [[120; 10]]] /\
  read_args [99] = ROk [[99]] true [].
Proof. split; [repeat constructor|]; vm_compute; reflexivity. Qed.
Example C17_ex_script :
  read_all 5 (script [[97; 32; 98]; []; [34; 120; 10; 34]] ++ [99])
  = [ROk [[97]; [98]] false []; ROk [] false []; ROk [[120; 10]] false []; ROk [[99]] true []].
Proof. vm_compute. reflexivity. Qed.
Example C17_ex_provenance_hyp :
  read_args [34; 97; 32; 195; 92; 34; 34; 98; 10; 99] = ROk [[97; 32; 195; 34; 98]] false [99].
Proof. vm_compute. reflexivity. Qed.
(** text  EOFX NL SP EOF NL EO  has no terminator line;  a NL EOF SP x  has one *)
Example C17_ex_heredoc_text_hyp :
  no_term [69; 79; 70] (NL :: [69; 79; 70; 88; 10; 32; 69; 79; 70; 10; 69; 79] ++ [NL]) = true /\
  forallb (fun l => negb (term_line [69; 79; 70] l)) (lines [69; 79; 70; 88; 10; 32; 69; 79; 70; 10; 69; 79]) = true /\
  no_term [69; 79; 70] (NL :: [97; 10; 69; 79; 70; 32; 120] ++ [NL]) = false.
Proof. vm_compute. repeat split; reflexivity. Qed.
(** c k=<<E NL a NL E SP t NL : a heredoc between two words; the gap behind it begins with a blank *)
Example C17_ex_gtoken_heredoc :
  starts_sep [32] = true /\
  read_args (join_gaps [([99], [32]); ([107; 61; 60; 60; 69; 10; 97; 10; 69], [32]); ([116], [])] ++ NL :: [120])
  = ROk [[99]; [107; 61; 97]; [116]] false [120].
Proof. vm_compute. split; reflexivity. Qed.
(** a, --k=v=w, -b, --, c *)
Example C17_ex_inject :
  inject_args [[97]; [45; 45; 107; 61; 118; 61; 119]; [45; 98]; [45; 45]; [99]]
  = ([(KPos 0, [97]); (KName [107], [118; 61; 119]); (KPos 1, [45; 98])], [[99]]).
Proof. vm_compute. reflexivity. Qed.
Example C17_ex_inject_hyp :
  forallb (fun a => negb (is_sep_arg a)) [[97]; [45; 45; 107; 61; 118; 61; 119]; [45; 98]] = true /\
  nth_error [[97]; [45; 45; 107; 61; 118; 61; 119]; [45; 98]] 2 = Some [45; 98] /\
  has_eq [45; 45; 107] = false.
Proof. vm_compute. repeat split; reflexivity. Qed.
