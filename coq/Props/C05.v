(** C05 — Encrypted filespace: round-trip, secrecy, integrity, no crash on bad data.
    Statements only; every proof is [exact <lemma of Proofs/Enc.v>].

    The primitives (AES-256-GCM seal/open, SHA3-256 hash, the host id) are universally quantified;
    what is assumed about them appears as premises:
      H1 aead_correct    open k n (seal k n p) = Some p
      H2 aead_ideal      open k n c = Some p -> c = seal k n p          (ideal integrity)
      H4 aead_len        length (seal k n p) = length p + 16
      H5 aead_separated  a sealed message opens only under its own key and (12-byte) nonce
      H3                 hash injective on the two key materials compared (premise of C05_wrong_key)
    [toy_seal]/[toy_open] satisfy H1, H2, H4, H5 (C05_premises_satisfiable), so no theorem is vacuous. *)
From GC Require Import Common.Base Model.Enc Proofs.Enc.
From Coq Require Import ZArith.

(** Whatever is written (whole file, or stream in any chunking), with any settings, either cipher,
    any 12-byte nonce, at any path of any base, is read back identically through either path. *)
Theorem C05_roundtrip :
  forall key seal open (hash : bytes -> key) hostid, aead_correct seal open ->
  forall (rp : rpath) (c : cipher) (s : settings) (n : nonce) (st : fsst) (p : path) (w : wreq),
    length n = NONCE_SIZE ->
    fst (fs_read key open hash hostid rp c s (fs_write key seal hash hostid c s n st p w) p) = Ok (wreq_data w).
Proof. exact roundtrip_fs. Qed.
Print Assumptions C05_roundtrip.

(** The same on the stored bytes themselves (cipher level). *)
Theorem C05_roundtrip_stored :
  forall key seal open (hash : bytes -> key), aead_correct seal open ->
  forall rp c km n w, length n = NONCE_SIZE ->
    read_stored key open hash rp c km (store key seal hash c km n w) = Ok (wreq_data w).
Proof. exact roundtrip_stored. Qed.
Print Assumptions C05_roundtrip_stored.

(** Integrity: whatever byte string is in the base, a read that answers with data means that the
    string is EXACTLY what Encrypt produces for that data under this key (with the nonce found in
    the string).  Hence anything else -- modified, truncated, emptied -- is answered Err
    (it is never Panic: C05_no_panic). *)
Theorem C05_tamper :
  forall key seal open (hash : bytes -> key), aead_ideal seal open ->
  forall rp c km (s p : bytes),
    read_stored key open hash rp c km s = Ok p ->
    s = encrypt key seal hash c km (nonce_field c s) p /\ length (nonce_field c s) = NONCE_SIZE.
Proof. exact tamper_main. Qed.
Print Assumptions C05_tamper.

(** Corollaries.  (a) the empty string (no premise at all). *)
Theorem C05_tamper_empty :
  forall key open (hash : bytes -> key) rp c km, read_stored key open hash rp c km [] = Err.
Proof. exact tamper_empty_c. Qed.
Print Assumptions C05_tamper_empty.

(** (b) every string shorter than header + nonce + GCM tag: in particular every truncation of a
    stored value to fewer than 28 (raw) / 32 (tagged) bytes. *)
Theorem C05_tamper_short :
  forall key seal open (hash : bytes -> key), aead_ideal seal open -> aead_len seal ->
  forall rp c km s,
    (length s < length (header c) + NONCE_SIZE + OVERHEAD)%nat -> read_stored key open hash rp c km s = Err.
Proof. exact tamper_short. Qed.
Print Assumptions C05_tamper_short.

(** (c) EVERY truncation length m < len of a stored value.  For m that keeps at least 16 bytes of
    the sealed part the residue is an error unless that prefix of the sealed message is itself a
    sealed message under the same key and nonce, i.e. unless the primitive admits a forgery. *)
Theorem C05_tamper_trunc :
  forall key seal open (hash : bytes -> key), aead_ideal seal open -> aead_len seal ->
  forall rp c km n p m,
    length n = NONCE_SIZE ->
    (m < length (encrypt key seal hash c km n p))%nat ->
    (let j := (m - length (header c) - NONCE_SIZE)%nat in
     (OVERHEAD <= j)%nat -> ~ sealed_under seal (hash km) n (firstn j (seal (hash km) n p))) ->
    read_stored key open hash rp c km (firstn m (encrypt key seal hash c km n p)) = Err.
Proof. exact tamper_trunc. Qed.
Print Assumptions C05_tamper_trunc.

(** (d) any replacement c' of the sealed part that is not itself a sealed message. *)
Theorem C05_tamper_sealed :
  forall key seal open (hash : bytes -> key), aead_ideal seal open ->
  forall rp c km n c',
    length n = NONCE_SIZE -> ~ sealed_under seal (hash km) n c' ->
    read_stored key open hash rp c km (header c ++ n ++ c') = Err.
Proof. exact tamper_sealed. Qed.
Print Assumptions C05_tamper_sealed.

(** (e) a change of one byte of the sealed part (ciphertext or GCM tag) never gives back the data. *)
Theorem C05_tamper_byte :
  forall key seal open (hash : bytes -> key), aead_ideal seal open ->
  forall rp c km n p i b,
    length n = NONCE_SIZE ->
    (i < length (seal (hash km) n p))%nat -> b <> nth i (seal (hash km) n p) 0 ->
    read_stored key open hash rp c km
      (header c ++ n ++ firstn i (seal (hash km) n p) ++ b :: skipn (S i) (seal (hash km) n p)) <> Ok p.
Proof. exact tamper_byte_not_original. Qed.
Print Assumptions C05_tamper_byte.

(** (f) any change of the 4-byte cipher tag (no premise about the primitives). *)
Theorem C05_tamper_tag :
  forall key open (hash : bytes -> key) rp km b0 b1 b2 b3 r,
    [b0; b1; b2; b3] <> cipher_tag ->
    read_stored key open hash rp Tagged km (b0 :: b1 :: b2 :: b3 :: r) = Err.
Proof. exact tamper_tag_c. Qed.
Print Assumptions C05_tamper_tag.

(** (g) any change of the nonce field. *)
Theorem C05_tamper_nonce :
  forall key seal open (hash : bytes -> key), aead_separated seal open ->
  forall rp c km n n' p,
    length n = NONCE_SIZE -> length n' = NONCE_SIZE -> n' <> n ->
    read_stored key open hash rp c km (header c ++ n' ++ seal (hash km) n p) = Err.
Proof. exact tamper_nonce. Qed.
Print Assumptions C05_tamper_nonce.

(** No byte string makes a read panic: every Go slice expression and the little-endian decoder
    are reached only with enough bytes.  Both ciphers, both read paths; and also when the base
    stream fails or its Close fails. *)
Theorem C05_no_panic :
  forall key open (hash : bytes -> key) rp c km (s : bytes), read_stored key open hash rp c km s <> Panic.
Proof. exact read_stored_no_panic_c. Qed.
Print Assumptions C05_no_panic.

Theorem C05_no_panic_faulty_stream :
  forall key open (hash : bytes -> key) c km (st : stream), fst (decrypt_reader key open hash c km st) <> Panic.
Proof. exact decrypt_reader_no_panic_c. Qed.
Print Assumptions C05_no_panic_faulty_stream.

(** The base reader is closed exactly once on every path of DecryptReader (success, short data,
    unknown tag, authentication failure, read error, close error) ... *)
Theorem C05_no_leak_closed_once :
  forall key open (hash : bytes -> key) c km (st : stream),
    s_closes (snd (decrypt_reader key open hash c km st)) = S (s_closes st).
Proof. exact decrypt_reader_closes_c. Qed.
Print Assumptions C05_no_leak_closed_once.

(** ... so after Reader / ReadFile on ANY stored bytes the number of open handles of the base is
    what it was, success or error, and the files are untouched. *)
Theorem C05_no_leak :
  forall key open (hash : bytes -> key) hostid rp c s (st : fsst) p,
    handles (snd (fs_read key open hash hostid rp c s st p)) = handles st /\
    files (snd (fs_read key open hash hostid rp c s st p)) = files st.
Proof. exact fs_read_no_leak_c. Qed.
Print Assumptions C05_no_leak.

Theorem C05_no_leak_handles :
  forall key open (hash : bytes -> key) c km d,
    open_handles (snd (decrypt_reader key open hash c km (mkstream d))) = 0%Z.
Proof. exact decrypt_reader_handles_c. Qed.
Print Assumptions C05_no_leak_handles.

(** Data written under settings s1 and read under settings whose key material differs (as a byte
    string) is answered Err.  H3 is the third premise.
    The FULL-STRENGTH statement of the property -- "another secret or salt => error" -- is FALSE
    for the code: see C05_F30_refuted. *)
Theorem C05_wrong_key :
  forall key seal open (hash : bytes -> key) hostid, aead_separated seal open ->
  forall rp c s1 s2 n (st : fsst) p w,
    length n = NONCE_SIZE ->
    keymat hostid s1 <> keymat hostid s2 ->
    (hash (keymat hostid s1) = hash (keymat hostid s2) -> keymat hostid s1 = keymat hostid s2) ->
    fst (fs_read key open hash hostid rp c s2 (fs_write key seal hash hostid c s1 n st p w) p) = Err.
Proof. exact wrong_key_fs. Qed.
Print Assumptions C05_wrong_key.

(** Known finding F30 (open, not repaired: changing the derivation would orphan existing data):
    two settings that differ in BOTH secret and salt ("ab","c" / "a","bc") have the same key
    material, so each reads the other's data. *)
Theorem C05_F30_refuted :
  exists s1 s2 : settings,
    secret s1 <> secret s2 /\ salt s1 <> salt s2 /\ hostonly s1 = hostonly s2 /\
    forall key seal open (hash : bytes -> key) hostid, aead_correct seal open ->
    forall rp c n st p w, length n = NONCE_SIZE ->
      fst (fs_read key open hash hostid rp c s2 (fs_write key seal hash hostid c s1 n st p w) p) = Ok (wreq_data w).
Proof. exact f30_refuted. Qed.
Print Assumptions C05_F30_refuted.

(** Two encryptions with different nonces store different bytes (whatever the data, same or not). *)
Theorem C05_fresh :
  forall key seal (hash : bytes -> key) c km n1 n2 w1 w2,
    length n1 = NONCE_SIZE -> length n2 = NONCE_SIZE -> n1 <> n2 ->
    store key seal hash c km n1 w1 <> store key seal hash c km n2 w2.
Proof. exact fresh_store. Qed.
Print Assumptions C05_fresh.

(** Secrecy, structural part only (PARTIAL).  Full statement: "the underlying filespace never
    contains the plaintext" and "two writes of the same data give different stored bytes" -- the
    first is a confidentiality property of AES-GCM, the second holds except when two random
    96-bit nonces coincide; neither is a theorem about this code.  Proved: the stored bytes are
    tag ++ nonce ++ seal(hash(keymat), nonce, data) and nothing else -- the data enters only
    through [seal] -- for both write paths and any chunking. *)
Theorem C05_secrecy_structure_partial :
  forall key seal (hash : bytes -> key) c km n w,
    store key seal hash c km n w = header c ++ n ++ seal (hash km) n (wreq_data w).
Proof. exact store_structure. Qed.
Print Assumptions C05_secrecy_structure_partial.

Theorem C05_secrecy_only_through_seal_partial :
  forall key seal (hash : bytes -> key) c km n w1 w2,
    seal (hash km) n (wreq_data w1) = seal (hash km) n (wreq_data w2) ->
    store key seal hash c km n w1 = store key seal hash c km n w2.
Proof. exact store_only_through_seal. Qed.
Print Assumptions C05_secrecy_only_through_seal_partial.

(** Name-space operations: result and effect are the base's. *)
Theorem C05_namespace :
  forall nsop nsres (base_ns : nsop -> (path -> option bytes) -> nsres * (path -> option bytes)) op (st : fsst),
    fs_ns nsop nsres base_ns op st =
    (fst (base_ns op (files st)), {| files := snd (base_ns op (files st)); handles := handles st |}).
Proof. exact fs_ns_passthrough. Qed.
Print Assumptions C05_namespace.

(** The premises are jointly satisfiable. *)
Theorem C05_premises_satisfiable :
  aead_correct toy_seal toy_open /\ aead_ideal toy_seal toy_open /\ aead_len toy_seal /\ aead_separated toy_seal toy_open.
Proof. exact (conj toy_H1 (conj toy_H2 (conj toy_H4 toy_H5))). Qed.
Print Assumptions C05_premises_satisfiable.

(** * Non-vacuity: concrete values meeting the premises of each implication. *)
Definition ex_n : nonce := [1; 2; 3; 4; 5; 6; 7; 8; 9; 10; 11; 12].
Definition ex_s : settings := {| secret := [115; 51]; salt := [120]; hostonly := true |}.
Definition ex_s' : settings := {| secret := [115; 51]; salt := [121]; hostonly := true |}.
Definition ex_st : fsst := {| files := fun _ => None; handles := 3 |}.
Definition ex_w : wreq := WriteStream [[104; 105]; []; [33; 200; 0]].
Definition ex_km := keymat [] ex_s.
Definition ex_stored := store N toy_seal toy_hash Tagged ex_km ex_n ex_w.

Example ex_roundtrip :
  length ex_n = NONCE_SIZE /\
  fst (fs_read N toy_open toy_hash [] RStream Tagged ex_s (fs_write N toy_seal toy_hash [] Tagged ex_s ex_n ex_st [47; 97] ex_w) [47; 97])
  = Ok [104; 105; 33; 200; 0].
Proof. vm_compute. split; reflexivity. Qed.

(* premise of C05_tamper: a read that answers Ok *)
Example ex_tamper_premise : read_stored N toy_open toy_hash RFile Tagged ex_km ex_stored = Ok [104; 105; 33; 200; 0].
Proof. vm_compute. reflexivity. Qed.

(* premises of C05_tamper_short / _trunc / _sealed / _byte: the truncations and a changed byte,
   and the model's answers on them *)
Example ex_tamper_short : (length (firstn 31 ex_stored) < length (header Tagged) + NONCE_SIZE + OVERHEAD)%nat.
Proof. vm_compute. repeat constructor. Qed.
Example ex_trunc_all_lengths :
  forallb (fun m => match read_stored N toy_open toy_hash RStream Tagged ex_km (firstn m ex_stored) with Err => true | _ => false end)
          (seq 0 (length ex_stored)) = true /\ length ex_stored = 37%nat.
Proof. vm_compute. split; reflexivity. Qed.
Example ex_not_sealed :   (* 33 - 4 - 12 = 17 >= 16 bytes of the sealed part kept: not a sealed message *)
  ~ sealed_under toy_seal (toy_hash ex_km) ex_n (firstn 17 (toy_seal (toy_hash ex_km) ex_n (wreq_data ex_w))).
Proof. apply (not_sealed_of_open_none N toy_seal toy_open toy_H1). vm_compute. reflexivity. Qed.
Example ex_byte :
  let c := toy_seal (toy_hash ex_km) ex_n (wreq_data ex_w) in
  (2 < length c)%nat /\ 34 <> nth 2 c 0 /\
  read_stored N toy_open toy_hash RFile Tagged ex_km (header Tagged ++ ex_n ++ firstn 2 c ++ 34 :: skipn 3 c) = Err.
Proof. vm_compute. split; [repeat constructor|split; [discriminate|reflexivity]]. Qed.
Example ex_tag : [0; 0; 1; 0] <> cipher_tag /\ read_stored N toy_open toy_hash RStream Tagged ex_km (0 :: 0 :: 1 :: 0 :: skipn 4 ex_stored) = Err.
Proof. split; [discriminate|vm_compute; reflexivity]. Qed.
Example ex_nonce :
  let n' := [1; 2; 3; 4; 5; 6; 7; 8; 9; 10; 11; 13] in
  length n' = NONCE_SIZE /\ n' <> ex_n /\
  read_stored N toy_open toy_hash RFile Raw ex_km (header Raw ++ n' ++ toy_seal (toy_hash ex_km) ex_n [5; 6]) = Err.
Proof. vm_compute. split; [reflexivity|split; [discriminate|reflexivity]]. Qed.

(* premises of C05_wrong_key: different key material, hash separates them *)
Example ex_wrong_key :
  keymat [] ex_s <> keymat [] ex_s' /\ toy_hash (keymat [] ex_s) <> toy_hash (keymat [] ex_s') /\
  fst (fs_read N toy_open toy_hash [] RFile Raw ex_s' (fs_write N toy_seal toy_hash [] Raw ex_s ex_n ex_st [97] ex_w) [97]) = Err.
Proof. vm_compute. split; [discriminate|split; [discriminate|reflexivity]]. Qed.

(* F30 on the toy instance, and the handle counter after a failed stream read *)
Example ex_f30 :
  fst (fs_read N toy_open toy_hash [] RFile Tagged f30_s2 (fs_write N toy_seal toy_hash [] Tagged f30_s1 ex_n ex_st [97] ex_w) [97])
  = Ok [104; 105; 33; 200; 0].
Proof. vm_compute. reflexivity. Qed.
Example ex_no_leak :
  let st := fs_write N toy_seal toy_hash [] Tagged ex_s ex_n ex_st [97] ex_w in
  let r := fs_read N toy_open toy_hash [] RStream Tagged ex_s' st [97] in
  fst r = Err /\ handles (snd r) = 3%nat.
Proof. vm_compute. split; reflexivity. Qed.
Example ex_fresh : ex_n <> pad12 [9] /\ length (pad12 [9]) = NONCE_SIZE.
Proof. vm_compute. split; [discriminate|reflexivity]. Qed.
