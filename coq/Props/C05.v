(** C05 — Encrypted filespace: round-trip, secrecy, integrity, no crash on bad data.
    Statements only; every proof is [exact <lemma of Proofs/Enc.v or Proofs/EncMore.v>].

    The primitives (AES-256-GCM seal/open, SHA3-256 hash, the host id) are universally quantified;
    what is assumed about them appears as premises:
      H1 aead_correct    open k n (seal k n p) = Some p
      H2 aead_ideal      open k n c = Some p -> c = seal k n p          (ideal integrity)
      H4 aead_len        length (seal k n p) = length p + 16
      H5 aead_separated  a sealed message opens only under its own key and (12-byte) nonce
      H3                 hash injective on the two key materials compared (premise of C05_wrong_key)
    [toy_seal]/[toy_open] satisfy H1, H2, H4, H5 (C05_premises_satisfiable), so no theorem is vacuous. *)
From GC Require Import Common.Base Model.Enc Model.EncMore Proofs.Enc Proofs.EncMore.
From Coq Require Import ZArith.

(** Whatever is written (whole file, or stream in any chunking), with any settings, either cipher,
    any 12-byte nonce, at any path of any base, is read back identically through either path. *)
Theorem C05_roundtrip :
  forall key seal open (hash : bytes -> key) hostid, aead_correct seal open ->
  forall (rp : rpath) (c : cipher) (s : settings) (n : nonce) (st : fsst) (p : path) (w : wreq),
    length n = NONCE_SIZE ->
    fst (fs_read key open hash hostid rp c s (fs_write key seal hash hostid c s n st p w) p) = Ok (wreq_data w).
Proof. exact roundtrip_fs. Qed.
Print Assumptions C05_roundtrip.

(** The same on the stored bytes themselves (cipher level). *)
Theorem C05_roundtrip_stored :
  forall key seal open (hash : bytes -> key), aead_correct seal open ->
  forall rp c km n w, length n = NONCE_SIZE ->
    read_stored key open hash rp c km (store key seal hash c km n w) = Ok (wreq_data w).
Proof. exact roundtrip_stored. Qed.
Print Assumptions C05_roundtrip_stored.

(** Integrity: whatever byte string is in the base, a read that answers with data means that the
    string is EXACTLY what Encrypt produces for that data under this key (with the nonce found in
    the string).  Hence anything else -- modified, truncated, emptied -- is answered Err
    (it is never Panic: C05_no_panic). *)
Theorem C05_tamper :
  forall key seal open (hash : bytes -> key), aead_ideal seal open ->
  forall rp c km (s p : bytes),
    read_stored key open hash rp c km s = Ok p ->
    s = encrypt key seal hash c km (nonce_field c s) p /\ length (nonce_field c s) = NONCE_SIZE.
Proof. exact tamper_main. Qed.
Print Assumptions C05_tamper.

(** Corollaries.  (a) the empty string (no premise at all). *)
Theorem C05_tamper_empty :
  forall key open (hash : bytes -> key) rp c km, read_stored key open hash rp c km [] = Err.
Proof. exact tamper_empty_c. Qed.
Print Assumptions C05_tamper_empty.

(** (b) every string shorter than header + nonce + GCM tag: in particular every truncation of a
    stored value to fewer than 28 (raw) / 32 (tagged) bytes. *)
Theorem C05_tamper_short :
  forall key seal open (hash : bytes -> key), aead_ideal seal open -> aead_len seal ->
  forall rp c km s,
    (length s < length (header c) + NONCE_SIZE + OVERHEAD)%nat -> read_stored key open hash rp c km s = Err.
Proof. exact tamper_short. Qed.
Print Assumptions C05_tamper_short.

(** (c) EVERY truncation length m < len of a stored value.  For m that keeps at least 16 bytes of
    the sealed part the residue is an error unless that prefix of the sealed message is itself a
    sealed message under the same key and nonce, i.e. unless the primitive admits a forgery. *)
Theorem C05_tamper_trunc :
  forall key seal open (hash : bytes -> key), aead_ideal seal open -> aead_len seal ->
  forall rp c km n p m,
    length n = NONCE_SIZE ->
    (m < length (encrypt key seal hash c km n p))%nat ->
    (let j := (m - length (header c) - NONCE_SIZE)%nat in
     (OVERHEAD <= j)%nat -> ~ sealed_under seal (hash km) n (firstn j (seal (hash km) n p))) ->
    read_stored key open hash rp c km (firstn m (encrypt key seal hash c km n p)) = Err.
Proof. exact tamper_trunc. Qed.
Print Assumptions C05_tamper_trunc.

(** (d) any replacement c' of the sealed part that is not itself a sealed message. *)
Theorem C05_tamper_sealed :
  forall key seal open (hash : bytes -> key), aead_ideal seal open ->
  forall rp c km n c',
    length n = NONCE_SIZE -> ~ sealed_under seal (hash km) n c' ->
    read_stored key open hash rp c km (header c ++ n ++ c') = Err.
Proof. exact tamper_sealed. Qed.
Print Assumptions C05_tamper_sealed.

(** (e) a change of one byte of the sealed part (ciphertext or GCM tag) never gives back the data. *)
Theorem C05_tamper_byte :
  forall key seal open (hash : bytes -> key), aead_ideal seal open ->
  forall rp c km n p i b,
    length n = NONCE_SIZE ->
    (i < length (seal (hash km) n p))%nat -> b <> nth i (seal (hash km) n p) 0 ->
    read_stored key open hash rp c km
      (header c ++ n ++ firstn i (seal (hash km) n p) ++ b :: skipn (S i) (seal (hash km) n p)) <> Ok p.
Proof. exact tamper_byte_not_original. Qed.
Print Assumptions C05_tamper_byte.

(** (f) any change of the 4-byte cipher tag (no premise about the primitives). *)
Theorem C05_tamper_tag :
  forall key open (hash : bytes -> key) rp km b0 b1 b2 b3 r,
    [b0; b1; b2; b3] <> cipher_tag ->
    read_stored key open hash rp Tagged km (b0 :: b1 :: b2 :: b3 :: r) = Err.
Proof. exact tamper_tag_c. Qed.
Print Assumptions C05_tamper_tag.

(** (g) any change of the nonce field. *)
Theorem C05_tamper_nonce :
  forall key seal open (hash : bytes -> key), aead_separated seal open ->
  forall rp c km n n' p,
    length n = NONCE_SIZE -> length n' = NONCE_SIZE -> n' <> n ->
    read_stored key open hash rp c km (header c ++ n' ++ seal (hash km) n p) = Err.
Proof. exact tamper_nonce. Qed.
Print Assumptions C05_tamper_nonce.

(** No byte string makes a read panic: every Go slice expression and the little-endian decoder
    are reached only with enough bytes.  Both ciphers, both read paths; and also when the base
    stream fails or its Close fails. *)
Theorem C05_no_panic :
  forall key open (hash : bytes -> key) rp c km (s : bytes), read_stored key open hash rp c km s <> Panic.
Proof. exact read_stored_no_panic_c. Qed.
Print Assumptions C05_no_panic.

Theorem C05_no_panic_faulty_stream :
  forall key open (hash : bytes -> key) c km (st : stream), fst (decrypt_reader key open hash c km st) <> Panic.
Proof. exact decrypt_reader_no_panic_c. Qed.
Print Assumptions C05_no_panic_faulty_stream.

(** The base reader is closed exactly once on every path of DecryptReader (success, short data,
    unknown tag, authentication failure, read error, close error) ... *)
Theorem C05_no_leak_closed_once :
  forall key open (hash : bytes -> key) c km (st : stream),
    s_closes (snd (decrypt_reader key open hash c km st)) = S (s_closes st).
Proof. exact decrypt_reader_closes_c. Qed.
Print Assumptions C05_no_leak_closed_once.

(** ... so after Reader / ReadFile on ANY stored bytes the number of open handles of the base is
    what it was, success or error, and the files are untouched. *)
Theorem C05_no_leak :
  forall key open (hash : bytes -> key) hostid rp c s (st : fsst) p,
    handles (snd (fs_read key open hash hostid rp c s st p)) = handles st /\
    files (snd (fs_read key open hash hostid rp c s st p)) = files st.
Proof. exact fs_read_no_leak_c. Qed.
Print Assumptions C05_no_leak.

Theorem C05_no_leak_handles :
  forall key open (hash : bytes -> key) c km d,
    open_handles (snd (decrypt_reader key open hash c km (mkstream d))) = 0%Z.
Proof. exact decrypt_reader_handles_c. Qed.
Print Assumptions C05_no_leak_handles.

(** Data written under settings s1 and read under settings whose key material differs (as a byte
    string) is answered Err.  H3 is the third premise.
    The FULL-STRENGTH statement of the property -- "another secret or salt => error" -- is FALSE
    for the code: see C05_F30_refuted. *)
Theorem C05_wrong_key :
  forall key seal open (hash : bytes -> key) hostid, aead_separated seal open ->
  forall rp c s1 s2 n (st : fsst) p w,
    length n = NONCE_SIZE ->
    keymat hostid s1 <> keymat hostid s2 ->
    (hash (keymat hostid s1) = hash (keymat hostid s2) -> keymat hostid s1 = keymat hostid s2) ->
    fst (fs_read key open hash hostid rp c s2 (fs_write key seal hash hostid c s1 n st p w) p) = Err.
Proof. exact wrong_key_fs. Qed.
Print Assumptions C05_wrong_key.

(** Known finding F30 (open, not repaired: changing the derivation would orphan existing data):
    two settings that differ in BOTH secret and salt ("ab","c" / "a","bc") have the same key
    material, so each reads the other's data. *)
Theorem C05_F30_refuted :
  exists s1 s2 : settings,
    secret s1 <> secret s2 /\ salt s1 <> salt s2 /\ hostonly s1 = hostonly s2 /\
    forall key seal open (hash : bytes -> key) hostid, aead_correct seal open ->
    forall rp c n st p w, length n = NONCE_SIZE ->
      fst (fs_read key open hash hostid rp c s2 (fs_write key seal hash hostid c s1 n st p w) p) = Ok (wreq_data w).
Proof. exact f30_refuted. Qed.
Print Assumptions C05_F30_refuted.

(** Two encryptions with different nonces store different bytes (whatever the data, same or not). *)
Theorem C05_fresh :
  forall key seal (hash : bytes -> key) c km n1 n2 w1 w2,
    length n1 = NONCE_SIZE -> length n2 = NONCE_SIZE -> n1 <> n2 ->
    store key seal hash c km n1 w1 <> store key seal hash c km n2 w2.
Proof. exact fresh_store. Qed.
Print Assumptions C05_fresh.

(** Two writes of the SAME data under the same key store the same bytes exactly when they used the
    same nonce: whatever brings the nonce source back to an earlier value (a generator, clock,
    counter or process in the state it had before) repeats the stored bytes.  The harness pins those
    surroundings in two processes and compares the stored bytes. *)
Theorem C05_repeat_iff_nonce_repeats :
  forall key seal (hash : bytes -> key) c km n1 n2 w,
    length n1 = NONCE_SIZE -> length n2 = NONCE_SIZE ->
    (store key seal hash c km n1 w = store key seal hash c km n2 w <-> n1 = n2).
Proof. exact same_store_iff_same_nonce. Qed.
Print Assumptions C05_repeat_iff_nonce_repeats.

(** Secrecy, structural part only (PARTIAL).  Full statement: "the underlying filespace never
    contains the plaintext" and "two writes of the same data give different stored bytes" -- the
    first is a confidentiality property of AES-GCM, the second holds except when two random
    96-bit nonces coincide; neither is a theorem about this code.  Proved: the stored bytes are
    tag ++ nonce ++ seal(hash(keymat), nonce, data) and nothing else -- the data enters only
    through [seal] -- for both write paths and any chunking. *)
Theorem C05_secrecy_structure_partial :
  forall key seal (hash : bytes -> key) c km n w,
    store key seal hash c km n w = header c ++ n ++ seal (hash km) n (wreq_data w).
Proof. exact store_structure. Qed.
Print Assumptions C05_secrecy_structure_partial.

Theorem C05_secrecy_only_through_seal_partial :
  forall key seal (hash : bytes -> key) c km n w1 w2,
    seal (hash km) n (wreq_data w1) = seal (hash km) n (wreq_data w2) ->
    store key seal hash c km n w1 = store key seal hash c km n w2.
Proof. exact store_only_through_seal. Qed.
Print Assumptions C05_secrecy_only_through_seal_partial.

(** Name-space operations: result and effect are the base's. *)
Theorem C05_namespace :
  forall nsop nsres (base_ns : nsop -> (path -> option bytes) -> nsres * (path -> option bytes)) op (st : fsst),
    fs_ns nsop nsres base_ns op st =
    (fst (base_ns op (files st)), {| files := snd (base_ns op (files st)); handles := handles st |}).
Proof. exact fs_ns_passthrough. Qed.
Print Assumptions C05_namespace.

(** The premises are jointly satisfiable. *)
Theorem C05_premises_satisfiable :
  aead_correct toy_seal toy_open /\ aead_ideal toy_seal toy_open /\ aead_len toy_seal /\ aead_separated toy_seal toy_open.
Proof. exact (conj toy_H1 (conj toy_H2 (conj toy_H4 toy_H5))). Qed.
Print Assumptions C05_premises_satisfiable.

(** * Second group (proof audit): histories, every single-byte corruption, the exact reach of
      "another secret or salt", host binding, faulty base streams, and two negative results.
    Definitions: Model/EncMore.v; proofs: Proofs/EncMore.v.  One more premise:
      H6 aead_dist2   two sealed messages under one key and nonce never differ in exactly one byte
                      (for AES-GCM: true for every key whose hash subkey is not zero). *)

(** Round trip over ALL histories.  The base is shared by any number of encrypted filespaces
    (every write/read names its own cipher and settings) and by name-space operations.  After ANY
    prefix h1 (overwrites of p with longer or shorter data, through either path, by any settings,
    with any nonces, included), a write at p, and any operations h2 that leave the stored bytes at p
    alone (writes elsewhere by anyone, reads of anything -- failed ones too --, name-space
    operations that do not reach p), a read at p through either path gives exactly what was
    written.  Supersedes C05_roundtrip (the case h1 = h2 = []). *)
Theorem C05_roundtrip_history :
  forall key seal open (hash : bytes -> key) hostid nsop nsres
         (base_ns : nsop -> (path -> option bytes) -> nsres * (path -> option bytes)),
  aead_correct seal open ->
  forall (h1 h2 : list (eop nsop)) rp c s n p w (st : fsst),
    length n = NONCE_SIZE -> Forall (quiet nsop nsres base_ns p) h2 ->
    fst (fs_read key open hash hostid rp c s
           (erun key seal open hash hostid nsop nsres base_ns (h1 ++ EWrite nsop c s n p w :: h2) st) p)
    = Ok (wreq_data w).
Proof. exact roundtrip_history. Qed.
Print Assumptions C05_roundtrip_history.

(** The same with the read as one more operation of the history: the entry of the trace of
    answers that belongs to it. *)
Theorem C05_roundtrip_trace :
  forall key seal open (hash : bytes -> key) hostid nsop nsres
         (base_ns : nsop -> (path -> option bytes) -> nsres * (path -> option bytes)),
  aead_correct seal open ->
  forall (h1 h2 h3 : list (eop nsop)) rp c s n p w (st : fsst),
    length n = NONCE_SIZE -> Forall (quiet nsop nsres base_ns p) h2 ->
    let h := h1 ++ EWrite nsop c s n p w :: h2 in
    nth (length (etrace key seal open hash hostid nsop nsres base_ns h st))
        (etrace key seal open hash hostid nsop nsres base_ns (h ++ ERead nsop rp c s p :: h3) st) Panic
    = Ok (wreq_data w).
Proof. exact roundtrip_trace. Qed.
Print Assumptions C05_roundtrip_trace.

(** No read of any history panics, and no history changes the number of open handles of the
    base (no premise about the primitives, none about the base). *)
Theorem C05_no_panic_history :
  forall key seal open (hash : bytes -> key) hostid nsop nsres
         (base_ns : nsop -> (path -> option bytes) -> nsres * (path -> option bytes))
         (h : list (eop nsop)) (st : fsst),
    Forall (fun r => r <> Panic) (etrace key seal open hash hostid nsop nsres base_ns h st).
Proof. exact etrace_no_panic. Qed.
Print Assumptions C05_no_panic_history.

Theorem C05_no_leak_history :
  forall key seal open (hash : bytes -> key) hostid nsop nsres
         (base_ns : nsop -> (path -> option bytes) -> nsres * (path -> option bytes))
         (h : list (eop nsop)) (st : fsst),
    handles (erun key seal open hash hostid nsop nsres base_ns h st) = handles st.
Proof. exact erun_handles. Qed.
Print Assumptions C05_no_leak_history.

(** EVERY single-byte corruption of a stored value -- any position (cipher tag, nonce,
    ciphertext, GCM tag), any other byte value, either cipher, either write path and chunking,
    either read path -- is answered Err.  Supersedes C05_tamper_byte (whose conclusion is only
    "not the original data", and only for the sealed part) and joins it with C05_tamper_tag /
    C05_tamper_nonce. *)
Theorem C05_corrupt_any_byte :
  forall key seal open (hash : bytes -> key),
  aead_ideal seal open -> aead_separated seal open -> aead_dist2 seal ->
  forall rp c km n w i b,
    length n = NONCE_SIZE ->
    (i < length (store key seal hash c km n w))%nat -> b <> nth i (store key seal hash c km n w) 0 ->
    read_stored key open hash rp c km (set_nth i b (store key seal hash c km n w)) = Err.
Proof. exact corrupt_any_byte. Qed.
Print Assumptions C05_corrupt_any_byte.

(** ... at the filespace level, after any history: the base holds exactly the stored value, and
    with one byte of it changed behind the filespace's back the read is an error. *)
Theorem C05_corrupt_any_byte_fs :
  forall key seal open (hash : bytes -> key) hostid nsop nsres
         (base_ns : nsop -> (path -> option bytes) -> nsres * (path -> option bytes)),
  aead_ideal seal open -> aead_separated seal open -> aead_dist2 seal ->
  forall (h1 h2 : list (eop nsop)) rp c s n p w (st : fsst) i b,
    let st1 := erun key seal open hash hostid nsop nsres base_ns (h1 ++ EWrite nsop c s n p w :: h2) st in
    let d := store key seal hash c (keymat hostid s) n w in
    length n = NONCE_SIZE -> Forall (quiet nsop nsres base_ns p) h2 ->
    (i < length d)%nat -> b <> nth i d 0 ->
    files st1 p = Some d /\
    fst (fs_read key open hash hostid rp c s
           {| files := upd (files st1) p (set_nth i b d); handles := handles st1 |} p) = Err.
Proof. exact corrupt_any_byte_fs. Qed.
Print Assumptions C05_corrupt_any_byte_fs.

(** Another secret or salt, EXACTLY: data written under s1 and read under s2 is answered with the
    data when the two key materials are the same byte string and with Err otherwise (H3 for the
    pair).  Supersedes C05_wrong_key (the else branch) and C05_F30_refuted (an instance of the
    then branch). *)
Theorem C05_cross_read_exact :
  forall key seal open (hash : bytes -> key) hostid,
  aead_correct seal open -> aead_separated seal open ->
  forall rp c s1 s2 n (st : fsst) p w,
    length n = NONCE_SIZE ->
    (hash (keymat hostid s1) = hash (keymat hostid s2) -> keymat hostid s1 = keymat hostid s2) ->
    fst (fs_read key open hash hostid rp c s2 (fs_write key seal hash hostid c s1 n st p w) p)
    = if bytes_eqb (keymat hostid s1) (keymat hostid s2) then Ok (wreq_data w) else Err.
Proof. exact cross_read_exact. Qed.
Print Assumptions C05_cross_read_exact.

(** The clause as the property words it -- another secret OR salt => error -- for every pair of
    settings except those of the shape of F30: it is enough that the two secrets, or the two
    salts, have the same length (in particular: only one of the two was changed). *)
Theorem C05_wrong_secret_or_salt :
  forall key seal open (hash : bytes -> key) hostid, aead_separated seal open ->
  forall rp c s1 s2 n (st : fsst) p w,
    length n = NONCE_SIZE ->
    hostonly s1 = hostonly s2 ->
    length (secret s1) = length (secret s2) \/ length (salt s1) = length (salt s2) ->
    other_secret_or_salt s1 s2 ->
    (hash (keymat hostid s1) = hash (keymat hostid s2) -> keymat hostid s1 = keymat hostid s2) ->
    fst (fs_read key open hash hostid rp c s2 (fs_write key seal hash hostid c s1 n st p w) p) = Err.
Proof. exact wrong_secret_or_salt. Qed.
Print Assumptions C05_wrong_secret_or_salt.

(** ... and it stays an error after any history that leaves p alone. *)
Theorem C05_wrong_key_history :
  forall key seal open (hash : bytes -> key) hostid nsop nsres
         (base_ns : nsop -> (path -> option bytes) -> nsres * (path -> option bytes)),
  aead_separated seal open ->
  forall (h1 h2 : list (eop nsop)) rp c s1 s2 n p w (st : fsst),
    length n = NONCE_SIZE -> Forall (quiet nsop nsres base_ns p) h2 ->
    keymat hostid s1 <> keymat hostid s2 ->
    (hash (keymat hostid s1) = hash (keymat hostid s2) -> keymat hostid s1 = keymat hostid s2) ->
    fst (fs_read key open hash hostid rp c s2
           (erun key seal open hash hostid nsop nsres base_ns (h1 ++ EWrite nsop c s1 n p w :: h2) st) p) = Err.
Proof. exact wrong_key_history. Qed.
Print Assumptions C05_wrong_key_history.

(** Host binding: with a non-empty host id, the same secret and salt with the other HostOnly
    setting cannot read the data ... *)
Theorem C05_wrong_host_binding :
  forall key seal open (hash : bytes -> key) hostid, aead_separated seal open ->
  forall rp c s1 s2 n (st : fsst) p w,
    length n = NONCE_SIZE ->
    secret s1 = secret s2 -> salt s1 = salt s2 -> hostonly s1 <> hostonly s2 -> hostid <> [] ->
    (hash (keymat hostid s1) = hash (keymat hostid s2) -> keymat hostid s1 = keymat hostid s2) ->
    fst (fs_read key open hash hostid rp c s2 (fs_write key seal hash hostid c s1 n st p w) p) = Err.
Proof. exact wrong_host_binding. Qed.
Print Assumptions C05_wrong_host_binding.

(** ... and with the empty host id -- what idutil.HostID() returns in the current tree, where
    the named result shadows the package variable -- HostOnly binds nothing: whatever the two
    HostOnly settings are, the data is read back. *)
Theorem C05_host_binding_void_refuted :
  forall key seal open (hash : bytes -> key), aead_correct seal open ->
  forall rp c s1 s2 n (st : fsst) p w,
    length n = NONCE_SIZE -> secret s1 = secret s2 -> salt s1 = salt s2 ->
    fst (fs_read key open hash [] rp c s2 (fs_write key seal hash [] c s1 n st p w) p) = Ok (wreq_data w).
Proof. exact host_binding_void. Qed.
Print Assumptions C05_host_binding_void_refuted.

(** The stream reader on ANY base stream: a stream that ends in an I/O error, or whose Close
    fails, is answered Err (never data); otherwise the answer is Decrypt of the bytes.
    Supersedes C05_no_panic_faulty_stream. *)
Theorem C05_stream_reader_spec :
  forall key open (hash : bytes -> key) c km (st : stream),
    fst (decrypt_reader key open hash c km st)
    = if s_fail st || s_close_err st then Err else decrypt key open hash c km (s_data st).
Proof. exact decrypt_reader_spec_c. Qed.
Print Assumptions C05_stream_reader_spec.

Theorem C05_faulty_stream_err :
  forall key open (hash : bytes -> key) c km (st : stream),
    s_fail st = true \/ s_close_err st = true -> fst (decrypt_reader key open hash c km st) = Err.
Proof. exact faulty_stream_err_c. Qed.
Print Assumptions C05_faulty_stream_err.

(** NEGATIVE: the truncation clause without the no-forgery premise of C05_tamper_trunc is false,
    even under all six premises: for a plaintext that ends in the 16 bytes the primitive appends
    to its own front part, the stored value cut after them is answered with the front part.
    (Scenario run against the real AES-GCM code with a fixed nonce source: see DESIGN.md.) *)
Theorem C05_trunc_unconditional_refuted :
  ~ (forall key seal open (hash : bytes -> key),
       aead_correct seal open -> aead_ideal seal open -> aead_len seal -> aead_separated seal open -> aead_dist2 seal ->
       forall rp c km n p m, length n = NONCE_SIZE -> (m < length (encrypt key seal hash c km n p))%nat ->
         read_stored key open hash rp c km (firstn m (encrypt key seal hash c km n p)) = Err).
Proof. exact trunc_unconditional_refuted. Qed.
Print Assumptions C05_trunc_unconditional_refuted.

(** NEGATIVE: secrecy does not follow from H1, H2, H4, H5, H6 -- the toy AEAD meets all of them
    (so the premises, H6 included, are jointly satisfiable) and keeps the plaintext in the stored
    bytes.  The secrecy clause therefore stays with the oracles on the real AES-GCM. *)
Theorem C05_secrecy_not_implied_by_premises :
  aead_correct toy_seal toy_open /\ aead_ideal toy_seal toy_open /\ aead_len toy_seal /\
  aead_separated toy_seal toy_open /\ aead_dist2 toy_seal /\
  forall c km n w, exists a b, store N toy_seal toy_hash c km n w = a ++ wreq_data w ++ b.
Proof. exact secrecy_not_implied. Qed.
Print Assumptions C05_secrecy_not_implied_by_premises.

(** * Non-vacuity: concrete values meeting the premises of each implication. *)
Definition ex_n : nonce := [1; 2; 3; 4; 5; 6; 7; 8; 9; 10; 11; 12].
Definition ex_s : settings := {| secret := [115; 51]; salt := [120]; hostonly := true |}.
Definition ex_s' : settings := {| secret := [115; 51]; salt := [121]; hostonly := true |}.
Definition ex_st : fsst := {| files := fun _ => None; handles := 3 |}.
Definition ex_w : wreq := WriteStream [[104; 105]; []; [33; 200; 0]].
Definition ex_km := keymat [] ex_s.
Definition ex_stored := store N toy_seal toy_hash Tagged ex_km ex_n ex_w.

Example ex_roundtrip :
  length ex_n = NONCE_SIZE /\
  fst (fs_read N toy_open toy_hash [] RStream Tagged ex_s (fs_write N toy_seal toy_hash [] Tagged ex_s ex_n ex_st [47; 97] ex_w) [47; 97])
  = Ok [104; 105; 33; 200; 0].
Proof. vm_compute. split; reflexivity. Qed.

(* premise of C05_tamper: a read that answers Ok *)
Example ex_tamper_premise : read_stored N toy_open toy_hash RFile Tagged ex_km ex_stored = Ok [104; 105; 33; 200; 0].
Proof. vm_compute. reflexivity. Qed.

(* premises of C05_tamper_short / _trunc / _sealed / _byte: the truncations and a changed byte,
   and the model's answers on them *)
Example ex_tamper_short : (length (firstn 31 ex_stored) < length (header Tagged) + NONCE_SIZE + OVERHEAD)%nat.
Proof. vm_compute. repeat constructor. Qed.
Example ex_trunc_all_lengths :
  forallb (fun m => match read_stored N toy_open toy_hash RStream Tagged ex_km (firstn m ex_stored) with Err => true | _ => false end)
          (seq 0 (length ex_stored)) = true /\ length ex_stored = 37%nat.
Proof. vm_compute. split; reflexivity. Qed.
Example ex_not_sealed :   (* 33 - 4 - 12 = 17 >= 16 bytes of the sealed part kept: not a sealed message *)
  ~ sealed_under toy_seal (toy_hash ex_km) ex_n (firstn 17 (toy_seal (toy_hash ex_km) ex_n (wreq_data ex_w))).
Proof. apply (not_sealed_of_open_none N toy_seal toy_open toy_H1). vm_compute. reflexivity. Qed.
Example ex_byte :
  let c := toy_seal (toy_hash ex_km) ex_n (wreq_data ex_w) in
  (2 < length c)%nat /\ 34 <> nth 2 c 0 /\
  read_stored N toy_open toy_hash RFile Tagged ex_km (header Tagged ++ ex_n ++ firstn 2 c ++ 34 :: skipn 3 c) = Err.
Proof. vm_compute. split; [repeat constructor|split; [discriminate|reflexivity]]. Qed.
Example ex_tag : [0; 0; 1; 0] <> cipher_tag /\ read_stored N toy_open toy_hash RStream Tagged ex_km (0 :: 0 :: 1 :: 0 :: skipn 4 ex_stored) = Err.
Proof. split; [discriminate|vm_compute; reflexivity]. Qed.
Example ex_nonce :
  let n' := [1; 2; 3; 4; 5; 6; 7; 8; 9; 10; 11; 13] in
  length n' = NONCE_SIZE /\ n' <> ex_n /\
  read_stored N toy_open toy_hash RFile Raw ex_km (header Raw ++ n' ++ toy_seal (toy_hash ex_km) ex_n [5; 6]) = Err.
Proof. vm_compute. split; [reflexivity|split; [discriminate|reflexivity]]. Qed.

(* premises of C05_wrong_key: different key material, hash separates them *)
Example ex_wrong_key :
  keymat [] ex_s <> keymat [] ex_s' /\ toy_hash (keymat [] ex_s) <> toy_hash (keymat [] ex_s') /\
  fst (fs_read N toy_open toy_hash [] RFile Raw ex_s' (fs_write N toy_seal toy_hash [] Raw ex_s ex_n ex_st [97] ex_w) [97]) = Err.
Proof. vm_compute. split; [discriminate|split; [discriminate|reflexivity]]. Qed.

(* F30 on the toy instance, and the handle counter after a failed stream read *)
Example ex_f30 :
  fst (fs_read N toy_open toy_hash [] RFile Tagged f30_s2 (fs_write N toy_seal toy_hash [] Tagged f30_s1 ex_n ex_st [97] ex_w) [97])
  = Ok [104; 105; 33; 200; 0].
Proof. vm_compute. reflexivity. Qed.
Example ex_no_leak :
  let st := fs_write N toy_seal toy_hash [] Tagged ex_s ex_n ex_st [97] ex_w in
  let r := fs_read N toy_open toy_hash [] RStream Tagged ex_s' st [97] in
  fst r = Err /\ handles (snd r) = 3%nat.
Proof. vm_compute. split; reflexivity. Qed.
Example ex_fresh : ex_n <> pad12 [9] /\ length (pad12 [9]) = NONCE_SIZE.
Proof. vm_compute. split; [discriminate|reflexivity]. Qed.

(** * Non-vacuity of the second group. *)
(* a base with one name-space operation: remove the file at a path *)
Definition ex_rm (q : path) (f : path -> option bytes) : unit * (path -> option bytes) :=
  (tt, fun x => if bytes_eqb x q then None else f x).
Definition ex_h1 : list (eop path) :=
  [EWrite path Raw ex_s' (pad12 [7]) [97] (WriteFile [1; 2; 3; 4; 5; 6; 7; 8; 9]);   (* another filespace, longer data, same path *)
   ENs path [97];
   EWrite path Tagged ex_s (pad12 [6]) [97] (WriteStream [[1]; [2; 3]])].
Definition ex_h2 : list (eop path) :=
  [EWrite path Tagged ex_s' (pad12 [8]) [98] ex_w;    (* another filespace writes elsewhere *)
   ERead path RFile Tagged ex_s' [97];                (* and fails to read our file *)
   ENs path [99]; ENs path [98]].
(* premises of C05_roundtrip_history / _trace / C05_wrong_key_history: h2 is quiet at the path;
   the trace of the whole history on the toy instance *)
Example ex_history_quiet : Forall (quiet path unit ex_rm [97]) ex_h2.
Proof.
  repeat constructor; cbn [quiet]; try discriminate; intros f; reflexivity.
Qed.
Example ex_history_trace :
  etrace N toy_seal toy_open toy_hash [] path unit ex_rm
    (ex_h1 ++ EWrite path Tagged ex_s ex_n [97] ex_w :: ex_h2 ++ [ERead path RStream Tagged ex_s [97]; ERead path RFile Tagged ex_s [98]]) ex_st
  = [Err; Ok [104; 105; 33; 200; 0]; Err] /\
  handles (erun N toy_seal toy_open toy_hash [] path unit ex_rm (ex_h1 ++ EWrite path Tagged ex_s ex_n [97] ex_w :: ex_h2) ex_st) = 3%nat.
Proof. vm_compute. split; reflexivity. Qed.

(* premises of C05_corrupt_any_byte(_fs): every position of a stored value (37 resp. 33 bytes),
   the byte there replaced by three other values; the model answers Err on each *)
Example ex_corrupt_all_positions :
  forallb (fun c =>
    let d := store N toy_seal toy_hash c ex_km ex_n ex_w in
    forallb (fun i => forallb (fun delta =>
      let b := nth i d 0 + delta in
      Nat.ltb i (length d) && negb (N.eqb b (nth i d 0)) &&
      match read_stored N toy_open toy_hash RStream c ex_km (set_nth i b d) with Err => true | _ => false end)
      [1; 128; 255]) (seq 0 (length d))) [Raw; Tagged] = true.
Proof. vm_compute. reflexivity. Qed.

(* premises of C05_cross_read_exact / C05_wrong_secret_or_salt: only the salt differs, same
   lengths, the hash separates the two key materials *)
Example ex_wrong_secret_or_salt :
  hostonly ex_s = hostonly ex_s' /\ length (secret ex_s) = length (secret ex_s') /\
  other_secret_or_salt ex_s ex_s' /\
  (toy_hash (keymat [] ex_s) = toy_hash (keymat [] ex_s') -> keymat [] ex_s = keymat [] ex_s') /\
  bytes_eqb (keymat [] ex_s) (keymat [] ex_s') = false /\ bytes_eqb (keymat [] f30_s1) (keymat [] f30_s2) = true.
Proof.
  split; [reflexivity|]. split; [reflexivity|]. split; [right; discriminate|].
  split; [vm_compute; discriminate|]. split; reflexivity.
Qed.

(* premises of C05_wrong_host_binding (a host id of one byte) and of C05_host_binding_void_refuted *)
Definition ex_s_nohost : settings := {| secret := [115; 51]; salt := [120]; hostonly := false |}.
Example ex_host_binding :
  hostonly ex_s <> hostonly ex_s_nohost /\ [9] <> @nil byte /\
  (toy_hash (keymat [9] ex_s) = toy_hash (keymat [9] ex_s_nohost) -> keymat [9] ex_s = keymat [9] ex_s_nohost) /\
  fst (fs_read N toy_open toy_hash [9] RFile Tagged ex_s_nohost (fs_write N toy_seal toy_hash [9] Tagged ex_s ex_n ex_st [97] ex_w) [97]) = Err /\
  fst (fs_read N toy_open toy_hash [] RFile Tagged ex_s_nohost (fs_write N toy_seal toy_hash [] Tagged ex_s ex_n ex_st [97] ex_w) [97])
  = Ok [104; 105; 33; 200; 0].
Proof.
  split; [discriminate|]. split; [discriminate|]. split; [vm_compute; discriminate|].
  split; vm_compute; reflexivity.
Qed.

(* premise of C05_faulty_stream_err: a well-formed stored value on a stream whose end is an I/O
   error, resp. whose Close fails *)
Example ex_faulty_stream :
  let r1 := decrypt_reader N toy_open toy_hash Tagged ex_km {| s_data := ex_stored; s_fail := true; s_close_err := false; s_closes := 0 |} in
  let r2 := decrypt_reader N toy_open toy_hash Raw ex_km {| s_data := skipn 4 ex_stored; s_fail := false; s_close_err := true; s_closes := 0 |} in
  let r3 := decrypt_reader N toy_open toy_hash Raw ex_km (mkstream (skipn 4 ex_stored)) in
  fst r1 = Err /\ s_closes (snd r1) = 1%nat /\ fst r2 = Err /\ s_closes (snd r2) = 1%nat /\ fst r3 = Ok [104; 105; 33; 200; 0].
Proof. vm_compute. repeat split; reflexivity. Qed.

(* the witness of C05_trunc_unconditional_refuted, all four cipher / read-path combinations *)
Example ex_trunc_refuted :
  forall rp c,
    let s := encrypt N toy_seal toy_hash c trunc_km trunc_n trunc_p in
    let m := (length (header c) + NONCE_SIZE + length trunc_front + OVERHEAD)%nat in
    (m < length s)%nat /\ trunc_front <> trunc_p /\
    read_stored N toy_open toy_hash rp c trunc_km (firstn m s) = Ok trunc_front.
Proof. exact trunc_refuted_witness. Qed.
