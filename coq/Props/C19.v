(** C19 — Template providers: layered definitions, isolated views, cache-transparent.
    This file contains only statements; every proof is [exact <lemma of Proofs/Tmpl.v or
    Proofs/C19More.v>] (or a computation for the witnesses).

    Reading guide (Model/Tmpl.v): [fl : flavour] selects html/text provider and pre/post-fix
    variants; [good fl] = "an html provider hands out clones of its cached base/layout and the
    views cache key determines (layout, view)" (true for the current html provider [html_now] and
    the current text provider [text_now]); [run_obs fl cached fs qs] = the answers (error / the
    definition map of the returned template) to the request sequence [qs] on the file set [fs];
    [dir_defs files] = the definitions of one directory's files in walk order.  There is no
    restriction on layout or view names any more (the key collision was repaired in 7035bfe;
    [C19_keycollision_refuted] is the witness for the old key). *)
From GC Require Import Common.Base Model.Tmpl Model.TmplOpen Proofs.Tmpl Proofs.C19More.

(** Master statement: whatever was requested before (including callers executing what they got),
    caching on or off, html or text: the answers are exactly the specified ones — each Base /
    Layout / View answer is a function of the file set alone. *)
Theorem C19_answers_spec : forall fl c fs qs,
  good fl -> run_obs fl c fs qs = spec_run fs qs.
Proof. exact run_spec_good. Qed.
Print Assumptions C19_answers_spec.

(** The old string key (layout ++ ":" ++ view) gives the same as long as no layout name in a
    View request contains ':'. *)
Theorem C19_answers_spec_oldkey : forall fl c fs qs,
  good_clone fl -> forallb req_ok qs = true -> run_obs fl c fs qs = spec_run fs qs.
Proof. exact run_spec_oldkey. Qed.
Print Assumptions C19_answers_spec_oldkey.

(** Layers: at any position of any request history, a view has the helper definitions, the
    definitions of its layout and its own, the more specific layer overriding. *)
Theorem C19_layers : forall fl c fs qs i l v Hd Ld Vd,
  good fl -> nth_error qs i = Some (RView l v) -> v <> [] ->
  dir_defs (helper_files fs) = Some Hd ->
  dir_defs (layout_files fs (defname l)) = Some Ld ->
  dir_defs (view_files fs v) = Some Vd ->
  exists d, nth_error (run_obs fl c fs qs) i = Some (OTmpl d) /\
    forall n, lookup n d = match lookup n Vd with
                           | Some b => Some b
                           | None => match lookup n Ld with Some b => Some b | None => lookup n Hd end
                           end.
Proof. exact layers. Qed.
Print Assumptions C19_layers.

(** ... and it is an error exactly when the view name is empty or one of the three layers has
    an empty / malformed file (together with [C19_layers] this covers every case). *)
Theorem C19_layers_err : forall fl c fs qs i l v,
  good fl -> nth_error qs i = Some (RView l v) ->
  (v = [] \/ dir_defs (helper_files fs) = None \/ dir_defs (layout_files fs (defname l)) = None \/
   dir_defs (view_files fs v) = None) ->
  nth_error (run_obs fl c fs qs) i = Some OErr.
Proof. exact layers_err. Qed.
Print Assumptions C19_layers_err.

(** Isolation: a definition name that occurs only in the files of view v1 is absent from the
    base, from every layout and from every other view — for every request history. *)
Theorem C19_isolation : forall fl c fs qs i q n v1,
  good fl -> nth_error qs i = Some q ->
  only_in_view fs n v1 ->
  match q with RBase | RLayout _ => True | RView _ v2 => v2 <> v1 | RExec _ => False end ->
  exists o, nth_error (run_obs fl c fs qs) i = Some o /\ absent n o.
Proof. exact isolation. Qed.
Print Assumptions C19_isolation.

(** Caching is transparent: same answers with caching on and off, for every file set and every
    request sequence including Execute steps. *)
Theorem C19_cache_transparent : forall fl fs qs,
  good fl -> run_obs fl true fs qs = run_obs fl false fs qs.
Proof. exact cache_transparent. Qed.
Print Assumptions C19_cache_transparent.

(** Asking twice (anywhere in a history) gives equal templates. *)
Theorem C19_twice : forall fl c fs qs i j q,
  good fl -> nth_error qs i = Some q -> nth_error qs j = Some q ->
  pure_req q = true -> nth_error (run_obs fl c fs qs) i = nth_error (run_obs fl c fs qs) j.
Proof. exact twice. Qed.
Print Assumptions C19_twice.

(** The html and the text provider give the same answers. *)
Theorem C19_providers_agree : forall c c' fs qs,
  run_obs html_now c fs qs = run_obs text_now c' fs qs.
Proof. exact providers_agree. Qed.
Print Assumptions C19_providers_agree.

(** Concurrent first use, all interleavings: no reachable state has a thread about to write a
    cache while another thread is about to read or write the same cache. *)
Theorem C19_race_free : forall fl c fs qs sched,
  locked_fast fl = true -> raceb (crun fl c fs sched (cinit fl qs)) = false.
Proof. exact race_free. Qed.
Print Assumptions C19_race_free.

(** ... and every thread that has finished serves its own request and holds exactly the
    specified answer (so all callers of one request get equal definition maps). *)
Theorem C19_concurrent_answers : forall fl c fs qs sched t q r,
  inj_key fl = true ->
  nth_error (cthr (crun fl c fs sched (cinit fl qs))) t = Some (TDone q r) ->
  nth_error qs t = Some q /\ obs_of (cp (crun fl c fs sched (cinit fl qs))) r = creq_spec fs q.
Proof. exact conc_answers_full. Qed.
Print Assumptions C19_concurrent_answers.

Theorem C19_concurrent_equal : forall fl c fs qs sched t1 t2 q r1 r2,
  inj_key fl = true ->
  let s := crun fl c fs sched (cinit fl qs) in
  nth_error (cthr s) t1 = Some (TDone q r1) -> nth_error (cthr s) t2 = Some (TDone q r2) ->
  obs_of (cp s) r1 = obs_of (cp s) r2.
Proof. exact conc_equal. Qed.
Print Assumptions C19_concurrent_equal.

(* ------------------------------------------------------------------------------------------ *)
(** Regression witnesses (pre-fix flavours) and the known, unrepaired key collision. *)

Definition fsW : tfs :=
  {| f_ext := [46;116];                                                            (* ".t" *)
     f_helpers := Some [NFile [104;46;116] (Some [([97], 1%N)])];                   (* h.t: a=1 *)
     f_layouts := [(DEFAULT, [NFile [108;46;116] (Some [([98], 2%N)])])];           (* l.t: b=2 *)
     f_views := [([118], [NFile [118;46;116] (Some [([97], 3%N); ([120], 4%N)])]);  (* v: a=3 x=4 *)
                 ([119], [NDir [115] [NFile [119;46;116] (Some [([98], 5%N)])];
                          NFile [110;46;116;120] (Some [([97], 9%N)])])] |}.        (* w/s/w.t: b=5 *)

(** F29 (before 66989e3): the cached html provider handed out its cached layout itself; once the
    caller executed it, every later view of that layout failed — cached differs from uncached. *)
Theorem C19_F29_refuted :
  let qs := [RLayout []; RExec 0%nat; RView [] [118]] in
  nth_error (run_obs html_F29 true fsW qs) 2%nat = Some OErr /\
  nth_error (run_obs html_F29 false fsW qs) 2%nat = Some (OTmpl [([120], 4%N); ([97], 3%N); ([98], 2%N); ([97], 1%N)]) /\
  run_obs html_F29 true fsW qs <> run_obs html_F29 false fsW qs.
Proof. vm_compute. repeat split; discriminate. Qed.
Print Assumptions C19_F29_refuted.

(** F25 (before 05e32e3/2a99b33): the fast path read the cache without the lock; a schedule
    with a read concurrent with a write. *)
Theorem C19_F25_refuted :
  exists sched, raceb (crun html_F25 true fsW sched (cinit html_F25 [CBase; CBase])) = true /\
                raceb (crun text_F25 true fsW sched (cinit text_F25 [CBase; CBase])) = true.
Proof. exists [0; 0; 0]%nat. vm_compute. split; reflexivity. Qed.
Print Assumptions C19_F25_refuted.

(** Before 7035bfe the views cache was keyed by layout ++ ":" ++ view, so ("a:b","c") and
    ("a","b:c") collided: with caching on the second request got the first template.  With the
    current key the same history is answered correctly. *)
Definition fsK : tfs :=
  {| f_ext := [46;116]; f_helpers := None; f_layouts := [];
     f_views := [([99], [NFile [102;46;116] (Some [([97], 1%N)])]);
                 ([98;58;99], [NFile [102;46;116] (Some [([97], 2%N)])])] |}.
Theorem C19_keycollision_refuted :
  let qs := [RView [97;58;98] [99]; RView [97] [98;58;99]] in
  run_obs html_oldkey true fsK qs <> run_obs html_oldkey false fsK qs /\
  run_obs text_oldkey true fsK qs <> run_obs text_oldkey false fsK qs /\
  run_obs html_now true fsK qs = [OTmpl [([97], 1%N)]; OTmpl [([97], 2%N)]].
Proof. vm_compute. repeat split; discriminate. Qed.
Print Assumptions C19_keycollision_refuted.

(* ------------------------------------------------------------------------------------------ *)
(** Non-vacuity: the hypotheses are met by concrete, non-trivial values. *)

Example ex_good_html : good html_now. Proof. exact good_html_now. Qed.
Example ex_good_text : good text_now. Proof. exact good_text_now. Qed.

Definition qsW : list req :=
  [RLayout []; RExec 0%nat; RView [] [118]; RView DEFAULT [119]; RExec 2%nat; RBase; RView [] [118]; RView [] []; RView [] [122]].

Example ex_oldkey_hyps : good_clone html_oldkey /\ good_clone text_oldkey /\ forallb req_ok qsW = true.
Proof. repeat split; intros; try reflexivity; discriminate. Qed.

(** the current providers on a history with Execute steps: all four configurations agree, the
    view has all three layers with the view overriding "a", the nested file of view w is found,
    n.tx is not loaded, the missing view directory "z" yields the layout. *)
Example ex_run :
  run_obs html_now true fsW qsW =
  [OTmpl [([98], 2%N); ([97], 1%N)];
   OTmpl [([98], 2%N); ([97], 1%N)];
   OTmpl [([120], 4%N); ([97], 3%N); ([98], 2%N); ([97], 1%N)];
   OTmpl [([98], 5%N); ([98], 2%N); ([97], 1%N)];
   OTmpl [([120], 4%N); ([97], 3%N); ([98], 2%N); ([97], 1%N)];
   OTmpl [([97], 1%N)];
   OTmpl [([120], 4%N); ([97], 3%N); ([98], 2%N); ([97], 1%N)];
   OErr;
   OTmpl [([98], 2%N); ([97], 1%N)]]
  /\ run_obs html_now false fsW qsW = run_obs html_now true fsW qsW
  /\ run_obs text_now true fsW qsW = run_obs html_now true fsW qsW
  /\ run_obs text_now false fsW qsW = run_obs html_now true fsW qsW.
Proof. vm_compute. repeat split; reflexivity. Qed.

Example ex_layers_hyps :
  dir_defs (helper_files fsW) = Some [([97], 1%N)] /\
  dir_defs (layout_files fsW (defname [])) = Some [([98], 2%N)] /\
  dir_defs (view_files fsW [118]) = Some [([120], 4%N); ([97], 3%N)] /\
  nth_error qsW 2%nat = Some (RView [] [118]).
Proof. vm_compute. repeat split; reflexivity. Qed.

(** "x" occurs only in view v; it is requested-for in view w at position 3 of the history *)
Example ex_only_in_view : only_in_view fsW [120] [118].
Proof.
  unfold only_in_view. split; [vm_compute; auto|]. split; [vm_compute; intuition (try discriminate)|]. split.
  - intros nm. unfold layout_files. cbn [fsW f_layouts assoc f_ext].
    destruct (bytes_eqb DEFAULT nm); cbv; intuition (try discriminate).
  - intros v Hv. unfold view_files. cbn [fsW f_views assoc f_ext].
    destruct (bytes_eqb [118] v) eqn:E.
    + apply bytes_eqb_spec in E. congruence.
    + destruct (bytes_eqb [119] v); cbv; intuition (try discriminate).
Qed.

(** a bad file: the error case of C19_layers_err is reachable *)
Example ex_bad_file :
  let fsB := {| f_ext := [46;116]; f_helpers := Some [NFile [104;46;116] None]; f_layouts := []; f_views := [] |} in
  dir_defs (helper_files fsB) = None /\ run_obs text_now true fsB [RView [] [118]] = [OErr].
Proof. vm_compute. split; reflexivity. Qed.

(** concurrent first use: three threads; a schedule under which all of them finish, and one under
    which thread 0 holds the views lock while thread 2 is blocked on it *)
Definition qsC : list creq := [CView [] [118]; CLayout []; CView [] [118]].
Example ex_inj_key : inj_key html_now = true /\ inj_key text_now = true. Proof. split; reflexivity. Qed.
Example ex_all_done :
  let sched := (repeat 0 26 ++ repeat 1 13 ++ repeat 2 17)%nat in
  let s := crun html_now true fsW sched (cinit html_now qsC) in
  all_done s = true /\
  map (fun t => match t with TDone q r => obs_of (cp s) r | _ => OPanic end) (cthr s) = map (creq_spec fsW) qsC.
Proof. vm_compute. split; reflexivity. Qed.
Example ex_blocked :
  let s := crun html_now true fsW [2;2;2;0;0;0;0;2;2;2;2]%nat (cinit html_now qsC) in
  holdsW 2%nat (nth 0%nat (cthr s) (TDone CBase Err)) = true /\
  nth 2%nat (cthr s) (TDone CBase Err) = TRun (CView [] [118]) [(LvV DEFAULT [118], PLock)].
Proof. vm_compute. split; reflexivity. Qed.

(* ------------------------------------------------------------------------------------------ *)
(** Deadlock freedom and termination of the concurrent protocol.

    Reading guide: [cstep fl c fs s t] = the step of thread [t] in state [s], [None] when the
    thread has returned or is blocked on a mutex (RLock needs: no other thread holds the write
    lock; Lock needs: no other thread holds the read or the write lock).  [all_done s] = every
    thread has returned.  The statements hold for every flavour (also the pre-fix ones), every
    file set, cached or not, every list of requests and every schedule. *)

(** (1) In no reachable state are the unfinished threads all blocked. *)
Theorem C19_no_deadlock : forall fl c fs qs sched,
  let s := crun fl c fs sched (cinit fl qs) in
  (forall t, cstep fl c fs s t = None) -> all_done s = true.
Proof. exact no_deadlock. Qed.
Print Assumptions C19_no_deadlock.

(** The same under the writer preference of sync.RWMutex (a Lock() that waits for the readers to
    leave blocks every new RLock()): whichever of the threads standing in front of Lock() are
    counted as waiting writers ([pend], any set), some thread is still enabled.  [pend = none] is
    the statement above, [pend = all] the most restrictive reading of the documentation. *)
Theorem C19_no_deadlock_writer_pref : forall pend fl c fs qs sched,
  let s := crun fl c fs sched (cinit fl qs) in
  (forall t, cstep_wp pend fl c fs s t = None) -> all_done s = true.
Proof. exact no_deadlock_wp. Qed.
Print Assumptions C19_no_deadlock_writer_pref.

(** No lock upgrade and no recursive locking: in every reachable state the mutex a thread is
    about to RLock or Lock is held (for reading or writing) by no frame of that thread itself.
    [cstep] tests the other threads only; this theorem is why that is the real enabledness. *)
Theorem C19_no_lock_upgrade : forall fl c fs qs sched t th lk,
  nth_error (cthr (crun fl c fs sched (cinit fl qs))) t = Some th ->
  next_act th = ARLock lk \/ next_act th = ALock lk ->
  holdsW lk th = false /\ holdsR lk th = false.
Proof. exact no_upgrade. Qed.
Print Assumptions C19_no_lock_upgrade.

(** No livelock: whatever the schedule, at most 22 steps per request are ever taken (a request
    is RLock, read, RUnlock, Lock, re-check, build, Unlock at each of at most three levels, plus
    the hand-out).  Together with (1): every schedule that keeps choosing enabled threads ends,
    after at most 22 * #requests steps, in a state where every request has returned. *)
Theorem C19_bounded_steps : forall fl c fs qs sched,
  (csteps fl c fs sched (cinit fl qs) <= 22 * length qs)%nat.
Proof. exact bounded_steps. Qed.
Print Assumptions C19_bounded_steps.

(** (2) From every reachable state there is a continuation after which every request has
    returned, and (for the unambiguous views key) thread t has returned the specified answer to
    request t - the answer of the uncached provider, see [C19_answers_spec]. *)
Theorem C19_can_finish : forall fl c fs qs sched,
  exists sched', let s := crun fl c fs (sched ++ sched') (cinit fl qs) in
    all_done s = true /\
    (inj_key fl = true -> forall t q, nth_error qs t = Some q ->
       exists r, nth_error (cthr s) t = Some (TDone q r) /\ obs_of (cp s) r = creq_spec fs q).
Proof. exact can_finish. Qed.
Print Assumptions C19_can_finish.

(** ... and the continuation can be chosen among the steps that are enabled under writer
    preference with any set [pend] of waiting writers ([crun_wp] skips what [cstep_wp] refuses;
    it arrives at the same state as the plain run). *)
Theorem C19_can_finish_writer_pref : forall pend fl c fs qs sched,
  exists sched',
    all_done (crun fl c fs (sched ++ sched') (cinit fl qs)) = true /\
    crun_wp pend fl c fs sched' (crun fl c fs sched (cinit fl qs))
      = crun fl c fs (sched ++ sched') (cinit fl qs).
Proof. exact can_finish_wp. Qed.
Print Assumptions C19_can_finish_writer_pref.

(** Non-vacuity.  In the state of [ex_blocked] thread 2 is blocked (thread 0 holds the views
    lock), threads 0 and 1 are enabled, index 3 is no thread; 7 of the at most 66 steps are
    taken. *)
Definition is_some {A} (o : option A) : bool := match o with Some _ => true | None => false end.
Example ex_blocked_enabled :
  let sched := [2;2;2;0;0;0;0;2;2;2;2]%nat in
  let s := crun html_now true fsW sched (cinit html_now qsC) in
  map (fun t => is_some (cstep html_now true fsW s t)) [0;1;2;3]%nat = [true; true; false; false] /\
  all_done s = false /\
  csteps html_now true fsW sched (cinit html_now qsC) = 7%nat /\
  total_msr (cthr (cinit html_now qsC)) = 59%nat /\ total_msr (cthr s) = 52%nat.
Proof. vm_compute. repeat split; reflexivity. Qed.

(** a single View request on an empty cache takes 21 steps (the bound is 22) *)
Example ex_steps_view :
  csteps html_now true fsW (repeat 0%nat 30) (cinit html_now [CView [] [118]]) = 21%nat /\
  all_done (crun html_now true fsW (repeat 0%nat 30) (cinit html_now [CView [] [118]])) = true.
Proof. vm_compute. split; reflexivity. Qed.

(** writer preference matters: thread 0 stands in front of Lock(views), thread 1 holds the read
    lock, thread 2 is about to RLock: enabled in the plain semantics, refused when thread 0 counts
    as a waiting writer; thread 1 (the reader, about to leave) is enabled in both. *)
Example ex_writer_pref :
  let qsV := [CView [] [118]; CView [] [118]; CView [] [118]] in
  let s := crun html_now true fsW [0;0;0;1]%nat (cinit html_now qsV) in
  map next_act (cthr s) = [ALock 2%nat; ANone; ARLock 2%nat] /\
  map (holdsR 2%nat) (cthr s) = [false; true; false] /\
  map (fun t => is_some (cstep html_now true fsW s t)) [0;1;2]%nat = [false; true; true] /\
  map (fun t => is_some (cstep_wp (fun _ => true) html_now true fsW s t)) [0;1;2]%nat = [false; true; false].
Proof. vm_compute. repeat split; reflexivity. Qed.

(* ------------------------------------------------------------------------------------------ *)
(** The provider as an open system (proof audit; Model/TmplOpen.v, Proofs/C19More.v).

    The concurrent theorems above speak of a fixed set of goroutines, one request each, on a fresh
    provider, and nobody executes a template while another goroutine is still building - the
    situation of F29 (an executed html template can not be cloned) is covered for one caller only
    ([C19_answers_spec]).  The property says: used by many goroutines from its first use on.
    [xrun fl c fs acts xinit] is the state after ANY finite sequence [acts] of
      [XSpawn q] a goroutine calls the provider (at any time: a goroutine that asks again is a new
                 thread from that moment on, so request sequences per goroutine are covered),
      [XStep t]  thread t takes its next step of the locking protocol (skipped when blocked),
      [XExec t]  the caller of thread t executes the template it got,
    over the same step functions ([cstep], [set_exec]) as above.  The theorems hold for every such
    sequence: all interleavings, all arrival orders, all renderings in between. *)

(** The closed scenario is an instance: everybody calls first, nobody executes. *)
Theorem C19_open_generalises : forall fl c fs qs sched,
  crun fl c fs sched (cinit fl qs) = xrun fl c fs (map XSpawn qs ++ map XStep sched) xinit.
Proof. exact crun_is_xrun. Qed.
Print Assumptions C19_open_generalises.

(** Every thread that has returned serves its own call (the t-th call made) and holds exactly
    the specified answer.  Supersedes [C19_concurrent_answers] and, together with
    [C19_open_fair_answers], [C19_can_finish]. *)
Theorem C19_open_answers : forall fl c fs acts t q r,
  good fl ->
  nth_error (cthr (xrun fl c fs acts xinit)) t = Some (TDone q r) ->
  nth_error (spawned acts) t = Some q /\ obs_of (cp (xrun fl c fs acts xinit)) r = creq_spec fs q.
Proof. exact open_answers. Qed.
Print Assumptions C19_open_answers.

(** All callers of one request hold equal templates, whenever they asked (supersedes
    [C19_concurrent_equal]; with two calls of one goroutine it is the clause about asking twice). *)
Theorem C19_open_equal : forall fl c fs acts t1 t2 q r1 r2,
  good fl ->
  let s := xrun fl c fs acts xinit in
  nth_error (cthr s) t1 = Some (TDone q r1) -> nth_error (cthr s) t2 = Some (TDone q r2) ->
  obs_of (cp s) r1 = obs_of (cp s) r2.
Proof. exact open_equal. Qed.
Print Assumptions C19_open_equal.

(** Isolation and cache transparency in one statement: the answer to a request depends on the
    template files of the directories the request names (helpers, its layout, its view) and on
    nothing else - not on any other view or layout directory, not on files without the extension,
    not on html/text, not on caching, not on who asked before, not on the schedule. *)
Theorem C19_open_named_dirs : forall fl fl' c c' fs fs' acts acts' t t' q r r',
  good fl -> good fl' -> same_dirs fs fs' q ->
  let s := xrun fl c fs acts xinit in
  let s' := xrun fl' c' fs' acts' xinit in
  nth_error (cthr s) t = Some (TDone q r) -> nth_error (cthr s') t' = Some (TDone q r') ->
  obs_of (cp s) r = obs_of (cp s') r'.
Proof. exact open_named_dirs. Qed.
Print Assumptions C19_open_named_dirs.

(** The same for the request histories of one caller ([run_obs] is what the correspondence check
    evaluates): two file sets that agree on the directories named in the history give the same
    answers, in every pair of configurations.  Generalises [C19_cache_transparent] and
    [C19_providers_agree] (take fs' = fs) and the isolation clause: the files of view v1 can be
    changed at will without changing any answer about the base, a layout or another view. *)
Theorem C19_named_dirs : forall fl fl' c c' fs fs' qs,
  good fl -> good fl' -> (forall q, In q qs -> same_dirs_req fs fs' q) ->
  run_obs fl c fs qs = run_obs fl' c' fs' qs.
Proof. exact seq_named_dirs. Qed.
Print Assumptions C19_named_dirs.

(** No call crashes: no thread ever carries a panic (the model panics where the code would
    dereference a template it does not have), and no answer of a request history is one. *)
Theorem C19_open_no_panic : forall fl c fs acts t th,
  good fl -> nth_error (cthr (xrun fl c fs acts xinit)) t = Some th -> thread_panics th = false.
Proof. exact open_no_panic. Qed.
Print Assumptions C19_open_no_panic.

Theorem C19_no_panic : forall fl c fs qs, good fl -> ~ In OPanic (run_obs fl c fs qs).
Proof. exact seq_no_panic. Qed.
Print Assumptions C19_no_panic.

(** No data race on the caches (supersedes [C19_race_free]). *)
Theorem C19_open_race_free : forall fl c fs acts,
  locked_fast fl = true -> raceb (xrun fl c fs acts xinit) = false.
Proof. exact open_race_free. Qed.
Print Assumptions C19_open_race_free.

(** No deadlock, also under writer preference with any set of waiting writers (supersedes
    [C19_no_deadlock(_writer_pref)]), and no lock upgrade. *)
Theorem C19_open_no_deadlock : forall pend fl c fs acts,
  let s := xrun fl c fs acts xinit in
  (forall t, cstep_wp pend fl c fs s t = None) -> all_done s = true.
Proof. exact open_no_deadlock. Qed.
Print Assumptions C19_open_no_deadlock.

Theorem C19_open_no_lock_upgrade : forall fl c fs acts t th lk,
  nth_error (cthr (xrun fl c fs acts xinit)) t = Some th ->
  next_act th = ARLock lk \/ next_act th = ALock lk ->
  holdsW lk th = false /\ holdsR lk th = false.
Proof. exact open_no_upgrade. Qed.
Print Assumptions C19_open_no_lock_upgrade.

(** Termination under bounded fairness.  From any reachable state with n threads: EVERY
    continuation made of at least 22 * n blocks, in each of which nobody new calls and every
    thread gets at least one turn ([fair_block]; turns of blocked threads are skipped, callers
    may execute at any point), ends with every thread returned.  [C19_can_finish] gave the
    existence of one such continuation only. *)
Theorem C19_open_fair_terminates : forall fl c fs acts blocks,
  let s := xrun fl c fs acts xinit in
  forallb (fair_block (length (cthr s))) blocks = true ->
  (22 * length (cthr s) <= length blocks)%nat ->
  all_done (xrun fl c fs (concat blocks) s) = true.
Proof. exact open_fair_terminates. Qed.
Print Assumptions C19_open_fair_terminates.

(** ... and then every call made has returned the specified answer. *)
Theorem C19_open_fair_answers : forall fl c fs acts blocks,
  good fl ->
  let s := xrun fl c fs acts xinit in
  forallb (fair_block (length (cthr s))) blocks = true ->
  (22 * length (cthr s) <= length blocks)%nat ->
  let s' := xrun fl c fs (concat blocks) s in
  all_done s' = true /\
  forall t q, nth_error (spawned acts) t = Some q ->
    exists r, nth_error (cthr s') t = Some (TDone q r) /\ obs_of (cp s') r = creq_spec fs q.
Proof. exact open_fair_answers. Qed.
Print Assumptions C19_open_fair_answers.

(** Non-vacuity and regression witness.  [actsA]: goroutine 0 asks for the default layout,
    goroutine 1 for view v; 1 is pre-empted in front of Lock(views); 0 runs to the end and its
    caller EXECUTES what it got; 1 goes on and reads the cached layout - it now carries the
    cached layout object from the layouts level to the views level while 0's template is an
    executed one. *)
Definition actsA : list xact :=
  [XSpawn (CLayout []); XSpawn (CView [] [118])] ++ map XStep (repeat 1 3 ++ repeat 0 15)%nat
  ++ [XExec 0%nat] ++ map XStep (repeat 1%nat 5).
(** ... then 0 executes again, goroutine 2 asks for the layout and executes it, 1 finishes and
    executes, 3 gets the cached view and executes it, 4 asks for the base, 5 for view w. *)
Definition actsB : list xact :=
  [XExec 0; XSpawn (CLayout [])]%nat ++ map XStep (repeat 2 15)%nat ++ [XExec 2%nat] ++ map XStep (repeat 1 2)%nat
  ++ [XExec 1%nat; XSpawn (CView [] [118])] ++ map XStep (repeat 3 3)%nat ++ [XExec 3%nat; XSpawn CBase]
  ++ map XStep (repeat 4 4)%nat ++ [XSpawn (CView DEFAULT [119])]
  ++ map XStep (repeat 5 4 ++ repeat 4 5 ++ repeat 5 20)%nat ++ [XExec 4; XExec 5]%nat.

Example ex_open_mid :
  let s := xrun html_now true fsW actsA xinit in
  map thread_ref (cthr s) = [Some (KV, 2); Some (KL, 1)]%nat /\
  map o_exec (heap (cp s)) = [false; false; true] /\
  c_lay (cp s) = [(DEFAULT, 1%nat)] /\ all_done s = false.
Proof. vm_compute. repeat split; reflexivity. Qed.

Example ex_open_run :
  let s := xrun html_now true fsW (actsA ++ actsB) xinit in
  all_done s = true /\ answers s = map (creq_spec fsW) (spawned (actsA ++ actsB)) /\
  map o_exec (heap (cp s)) = [false; false; true; true; true; true; true] /\
  existsb thread_panics (cthr s) = false /\
  (forall t, In t (seq 0 7) -> cstep_wp (fun _ => true) html_now true fsW s t = None).
Proof.
  vm_compute. repeat split; try reflexivity.
  intros t H. repeat (destruct H as [<-|H]; [reflexivity|]). destruct H.
Qed.

(** The flavour before 66989e3 in the same interleaving: goroutine 0 got the cached layout
    itself, its caller executed it, and goroutine 1 - in the middle of building its view - fails
    although the file set is fine.  With the current flavour it gets the specified view. *)
Theorem C19_open_F29_refuted :
  let acts := actsA ++ map XStep (repeat 1%nat 2) in
  nth_error (cthr (xrun html_F29 true fsW acts xinit)) 1 = Some (TDone (CView [] [118]) Err) /\
  creq_spec fsW (CView [] [118]) = OTmpl [([120], 4%N); ([97], 3%N); ([98], 2%N); ([97], 1%N)] /\
  nth_error (answers (xrun html_now true fsW acts xinit)) 1 = Some (creq_spec fsW (CView [] [118])).
Proof. vm_compute. repeat split; reflexivity. Qed.
Print Assumptions C19_open_F29_refuted.

(** bounded fairness: from the state of [ex_open_mid] (2 threads), 44 blocks that each give
    thread 1 a turn, let the caller of 0 execute again, and give thread 0 a (skipped) turn; and
    six goroutines that call at once followed by 132 round-robin rounds, in all four
    configurations *)
Example ex_fair_mid :
  let s := xrun html_now true fsW actsA xinit in
  let blocks := repeat [XStep 1; XExec 0; XStep 0]%nat 44 in
  forallb (fair_block (length (cthr s))) blocks = true /\ (22 * length (cthr s) <= length blocks)%nat /\
  all_done (xrun html_now true fsW (concat blocks) s) = true.
Proof. split; [vm_compute; reflexivity|split; [vm_compute; apply le_n|vm_compute; reflexivity]]. Qed.

Definition qs6 : list creq := [CView [] [118]; CLayout []; CView [] [118]; CBase; CView DEFAULT [119]; CView [] []].
Example ex_fair_rr :
  let acts := map XSpawn qs6 in
  let blocks := repeat (map XStep (seq 0 6)) 132 in
  forallb (fun flc : flavour * bool =>
    let s := xrun (fst flc) (snd flc) fsW acts xinit in
    let s' := xrun (fst flc) (snd flc) fsW (concat blocks) s in
    forallb (fair_block (length (cthr s))) blocks && Nat.leb (22 * length (cthr s)) (length blocks)
    && all_done s' && Nat.eqb (length (answers s')) 6
    && forallb (fun o => match o with OPanic => false | _ => true end) (answers s'))
    [(html_now, true); (html_now, false); (text_now, true); (text_now, false)] = true /\
  answers (xrun html_now true fsW (acts ++ concat blocks) xinit) = map (creq_spec fsW) qs6.
Proof. vm_compute. split; reflexivity. Qed.

(** named directories: [fsW2] differs from [fsW] in the files of view w, has one more view and
    one more layout, and a file without the extension among the helpers; every request that does
    not name w or the new directories is answered as on [fsW] *)
Definition fsW2 : tfs :=
  {| f_ext := [46;116];
     f_helpers := Some [NFile [104;46;116] (Some [([97], 1%N)]); NFile [122;46;116;120] None];
     f_layouts := [(DEFAULT, [NFile [108;46;116] (Some [([98], 2%N)])]);
                   ([109], [NFile [109;46;116] (Some [([120], 7%N)])])];
     f_views := [([118], [NFile [118;46;116] (Some [([97], 3%N); ([120], 4%N)])]);
                 ([119], [NFile [119;46;116] (Some [([120], 8%N); ([97], 6%N)])]);
                 ([121], [NFile [121;46;116] None])] |}.
Example ex_same_dirs :
  same_dirs fsW fsW2 (CView [] [118]) /\ same_dirs fsW fsW2 (CLayout []) /\ same_dirs fsW fsW2 CBase /\
  view_files fsW [119] <> view_files fsW2 [119] /\
  (forall q, In q [RLayout []; RView [] [118]; RExec 1%nat; RBase; RView DEFAULT [118]] -> same_dirs_req fsW fsW2 q) /\
  run_obs html_now true fsW [RView [] [119]] <> run_obs html_now true fsW2 [RView [] [119]].
Proof.
  repeat split; try (vm_compute; reflexivity); try (vm_compute; discriminate).
  intros q H. repeat (destruct H as [<-|H]; [vm_compute; auto|]). destruct H.
Qed.

Example ex_locked_fast : locked_fast html_now = true /\ locked_fast text_now = true.
Proof. split; reflexivity. Qed.
