(** C04 — Streams and cross-filespace copies are byte-exact and replace old content.
    Statements only; every proof is [exact <lemma of Proofs/Stream.v, Proofs/Copy.v, Proofs/CopySched.v>].

    Quantifiers: every previous content (absent / shorter / longer: [old : option bytes], every
    tree [t]); every chunk list; every content and every list of read-buffer sizes (including 0);
    every io.Copy buffer size >= 1; both EOF conventions (memfs/decrypting reader: EOF with the
    last bytes; os.File: EOF on the next call); destinations whose Writer creates parents or not
    (memfs/cache vs. disk); every source tree and destination tree (well formed); EVERY order in
    which the walk may deliver its callbacks (all permutations of the source entries — by
    C08_exactly_once this covers every schedule of the walk that ends with an empty error list,
    see C04_treecopy_any_schedule); EVERY fault plan [pl : fault -> bool] (no failure, one, or any
    set of failing primitive calls).

    Backends: the theorems are about the abstract tree/stream model.  memfs is tied to it by the
    C01 correspondence and by this property's harness; diskfs, encryptfs over memfs/diskfs and
    the cache view only through this property's harness (L1 on the projected tree walk, L2
    byte-exactness oracles); the encrypted framing itself is C05's subject. *)
From GC Require Import Common.Base Model.Paths Model.Fs Model.Stream Model.Copy
     Proofs.Fs Proofs.Stream Proofs.Copy Proofs.CopySched.
From GC Require Model.Loop.
From Coq Require Import Permutation.
Open Scope N_scope.

(** Writer: open + any writes + close leaves exactly the concatenation of the chunks, whatever was
    there (policy model), and through the filespace step function on any well-formed tree (the
    path may be absent, hold a shorter or a longer file): the file holds the concatenation, every
    other node is unchanged. *)
Theorem C04_writer_exact :
  (forall old chunks, writer_result Truncate old chunks = concat chunks) /\
  (forall t s chunks p, WF t -> reduce_node s = Some p -> snd (mem_step t (OWriter s chunks)) = RUnit ->
     let t' := fst (mem_step t (OWriter s chunks)) in
     WF t' /\ lookup t' p = Some (F (concat chunks)) /\
     (forall q, q <> p -> lookup t q <> None -> lookup t' q = lookup t q)).
Proof. exact writer_exact_full. Qed.
Print Assumptions C04_writer_exact.

(** Reader, any buffer sizes, both EOF conventions: every chunk fits its buffer; never more calls
    than buffers; the chunks concatenate to a prefix of the data and to ALL of it once EOF was
    reported; EOF is reported by the last call only (never early); with all sizes >= 1 and more
    calls than bytes EOF is reached. *)
Theorem C04_reader_exact : forall st data bufs,
  let r := read_calls st data bufs in
  Forall chunk_le (combine r bufs) /\
  (length r <= length bufs)%nat /\
  (exists rest, data = chunks_concat r ++ rest /\ (saw_eof r = true -> rest = [])) /\
  (forall pre c post, r = pre ++ (c, true) :: post -> post = [] /\ chunks_concat r = data) /\
  (Forall (fun n => (1 <= n)%nat) bufs -> (length data < length bufs)%nat -> saw_eof r = true).
Proof. exact reader_exact. Qed.
Print Assumptions C04_reader_exact.

(** A zero-size buffer makes no progress and signals EOF only at the end. *)
Theorem C04_reader_zero_buffer : forall st rest,
  fst (read_one st rest 0) = [] /\ (snd (read_one st rest 0) = true -> rest = []).
Proof. exact read_one_zero. Qed.
Print Assumptions C04_reader_zero_buffer.

(** io.Copy with any buffer size >= 1: terminates within length data + 1 iterations (the fuel is
    never exhausted), an Ok result delivered exactly the data, and without faults it is Ok. *)
Theorem C04_io_copy_exact : forall pl st B data kr kw, (1 <= B)%nat ->
  fst (fst (fst (io_copy pl st B data kr kw))) <> CFuel /\
  (forall acc kr' kw', io_copy pl st B data kr kw = (COk, acc, kr', kw') -> acc = data) /\
  ((forall f, pl f = false) -> exists kr' kw', io_copy pl st B data kr kw = (COk, data, kr', kw')).
Proof. exact io_copy_exact. Qed.
Print Assumptions C04_io_copy_exact.

(** StreamCopy / Copier.copyFile.  (1) For EVERY fault plan and every destination: result Ok =>
    the destination file is byte-for-byte the source file, all other destination nodes are kept,
    new nodes are parent directories (contrapositive: an incomplete copy is reported).
    (2) No fault, the source is a file and the writer can be opened => Ok.
    (3) Any single failing call that the fault-free run makes (Reader, Writer, the k-th Read, the
    k-th Write, either Close) => Err. *)
Theorem C04_streamcopy :
  (forall pl st mkpar B src dst ps pd c r_dst c',
     (1 <= B)%nat -> WF dst -> good_path pd = true -> pd <> [] ->
     stream_copy_at pl st mkpar B src dst ps pd c = (COk, r_dst, c') ->
     exists data, lookup src ps = Some (F data) /\ WF r_dst /\ lookup r_dst pd = Some (F data) /\
       (forall q, q <> pd -> lookup dst q <> None -> lookup r_dst q = lookup dst q) /\
       (forall q, q <> pd -> lookup dst q = None -> lookup r_dst q <> None ->
                  lookup r_dst q = Some D /\ is_prefix q (removelast pd) = true)) /\
  (forall pl st mkpar B src dst ps pd c data d1,
     (1 <= B)%nat -> (forall f, pl f = false) ->
     lookup src ps = Some (F data) -> writer_open mkpar dst pd = Some d1 ->
     fst (fst (stream_copy_at pl st mkpar B src dst ps pd c)) = COk) /\
  (forall st mkpar B src dst ps pd data f,
     (1 <= B)%nat -> lookup src ps = Some (F data) -> reached data st B f ->
     fst (fst (stream_copy_at (single f) st mkpar B src dst ps pd ctr0)) = CErr).
Proof. exact streamcopy_full. Qed.
Print Assumptions C04_streamcopy.

(** Tree copy (fshelper.Copy / Copier.copyDirectory).  (1) For every well-formed source and
    destination, EVERY order of the callbacks (permutation of the source entries) and EVERY fault
    plan: result Ok => every source node is in the destination byte-for-byte at the same relative
    path, destination nodes that are not overwritten files are kept, nothing outside the
    destination root changes.  (2) Without faults and without file/directory conflicts the copy
    is Ok, in every order. *)
Theorem C04_treecopy :
  (forall k src s d dst cbs t,
     (1 <= cc_buf k)%nat -> WF src -> WF dst -> good_path d = true ->
     Permutation cbs (cbs_of src s) ->
     tree_copy k src s d dst cbs = (COk, t) ->
     WF t /\
     (forall x e, x <> [] -> lookup src (s ++ x) = Some e -> lookup t (d ++ x) = Some e) /\
     (forall q e, lookup dst q = Some e ->
                  (forall y data, lookup src (s ++ y) = Some (F data) -> q <> d ++ y) -> lookup t q = Some e) /\
     (lookup dst d = Some D -> forall q, is_prefix d q = false -> lookup t q = lookup dst q)) /\
  (forall k src s d dst cbs,
     (1 <= cc_buf k)%nat -> WF src -> WF dst -> good_path d = true ->
     (forall f, cc_plan k f = false) -> cc_file_mkdir k = true ->
     lookup dst d = Some D -> no_conflict src s dst d ->
     Permutation cbs (cbs_of src s) ->
     exists t, tree_copy k src s d dst cbs = (COk, t)).
Proof. exact treecopy_full. Qed.
Print Assumptions C04_treecopy.

(** Composition with the walk (imports C08's exactly-once theorem): for EVERY schedule of the
    fsloop model that ends with all consumers exited and not killed, the copy driven by the
    callback log is complete when it reports Ok — provided the walk's selected set corresponds to
    the source entries under the argument translation [f] (instance: C04_walk_ties_example). *)
Theorem C04_treecopy_any_schedule :
  forall (cfg : Model.Loop.config) base root sched (f : Model.Loop.item -> cb) k src s d dst t,
    Model.Loop.xt cfg = Model.Loop.ClosedThenEmpty -> (1 <= Model.Loop.cmax cfg)%nat ->
    let st := Model.Loop.run cfg sched (Model.Loop.init cfg base root) in
    Model.Loop.all_exited st = true -> Model.Loop.killed st = false ->
    Permutation (map f (Model.Loop.sel_list cfg base root)) (cbs_of src s) ->
    (1 <= cc_buf k)%nat -> WF src -> WF dst -> good_path d = true ->
    tree_copy k src s d dst (map f (Model.Loop.log st)) = (COk, t) ->
    WF t /\ forall x e, x <> [] -> lookup src (s ++ x) = Some e -> lookup t (d ++ x) = Some e.
Proof. exact treecopy_any_schedule. Qed.
Print Assumptions C04_treecopy_any_schedule.

(** The callback argument "./" ++ a/b/c reduces to the relative path [a; b; c]. *)
Theorem C04_callback_paths : forall x, good_path x = true -> reduce ([DOT; SLASH] ++ join x) = Some x.
Proof. exact reduce_dot_slash. Qed.
Print Assumptions C04_callback_paths.

(** ---------- refutations of the pre-fix writers (regression witnesses) *)

(** F05 (memfs before f5ca759): the writer appended to the previous content. *)
Theorem C04_F05_refuted : exists old chunks, writer_result Append old chunks <> concat chunks.
Proof. exists (Some [111; 108; 100]), [[110; 101]; [119]]. vm_compute. discriminate. Qed.
Print Assumptions C04_F05_refuted.

(** F06 (diskfs before d1df29a): no O_TRUNC — a shorter write leaves the tail of the old file. *)
Theorem C04_F06_refuted : exists old chunks, writer_result OverwriteInPlace old chunks <> concat chunks.
Proof. exists (Some [108; 111; 110; 103; 101; 114]), [[97]; [98]]. vm_compute. discriminate. Qed.
Print Assumptions C04_F06_refuted.

(** Mutation "OnFile without MkdirAll(path.Dir)": on a destination whose Writer does not create
    parents (disk) a conflict-free, fault-free copy fails when the file callback precedes the
    directory callback, and succeeds in the other order — the result would depend on the schedule. *)
Definition mut_src : fs := [([[97]], D); ([[97]; [102]], F [1; 2; 3])].
Definition mut_cfg (mk : bool) : copy_cfg := mkCopyCfg no_fault EofLazy false 8%nat mk.
Theorem C04_file_mkdir_needed_refuted :
  fst (tree_copy (mut_cfg false) mut_src [] [] [] [CbFile [[97]; [102]]; CbDir [[97]]]) = CErr /\
  fst (tree_copy (mut_cfg false) mut_src [] [] [] [CbDir [[97]]; CbFile [[97]; [102]]]) = COk /\
  fst (tree_copy (mut_cfg true) mut_src [] [] [] [CbFile [[97]; [102]]; CbDir [[97]]]) = COk.
Proof. vm_compute. repeat split. Qed.
Print Assumptions C04_file_mkdir_needed_refuted.

(** ---------- the hypotheses are satisfiable by non-trivial values (vm_compute) *)

(* writer over absent / shorter / longer previous content, with empty chunks in between *)
Example C04_writer_examples :
  writer_result Truncate None [[1; 2]; []; [3]] = [1; 2; 3] /\
  writer_result Truncate (Some [9]) [[1; 2]; []; [3]] = [1; 2; 3] /\
  writer_result Truncate (Some [9; 9; 9; 9; 9; 9]) [[1; 2]; []; [3]] = [1; 2; 3] /\
  writer_result Append (Some [9]) [[1; 2]; [3]] = [9; 1; 2; 3] /\
  writer_result OverwriteInPlace (Some [9; 9; 9; 9; 9; 9]) [[1; 2]; [3]] = [1; 2; 3; 9; 9; 9].
Proof. vm_compute. repeat split. Qed.

Definition ex_t : fs := [([[100]], D); ([[100]; [102]], F [9; 9; 9; 9; 9; 9]); ([[107]], F [7])].
Example C04_writer_step_nonvacuous :
  WF ex_t /\ reduce_node [46; 47; 100; 47; 102] = Some [[100]; [102]] /\
  snd (mem_step ex_t (OWriter [46; 47; 100; 47; 102] [[1]; []; [2; 3]])) = RUnit /\
  lookup (fst (mem_step ex_t (OWriter [46; 47; 100; 47; 102] [[1]; []; [2; 3]]))) [[100]; [102]] = Some (F [1; 2; 3]).
Proof.
  split; [|vm_compute; repeat split].
  split; [vm_compute; repeat constructor; simpl; intuition discriminate|].
  intros p e [H|[H|[H|[]]]]; inversion H; subst; vm_compute; repeat split; discriminate.
Qed.

Example C04_reader_examples :
  read_calls EofEager [1; 2; 3; 4; 5] [0; 2; 0; 1; 5; 7]%nat = [([], false); ([1; 2], false); ([], false); ([3], false); ([4; 5], true)] /\
  read_calls EofLazy [1; 2; 3; 4; 5] [0; 2; 0; 1; 5; 0; 7; 7]%nat =
    [([], false); ([1; 2], false); ([], false); ([3], false); ([4; 5], false); ([], false); ([], true)] /\
  read_calls EofEager [] [0; 3]%nat = [([], true)] /\
  read_calls EofLazy [] [0; 3]%nat = [([], false); ([], true)].
Proof. vm_compute. repeat split. Qed.

(* io.Copy with a 2-byte buffer over 5 bytes: 3 reads/3 writes (eager), 4 reads/3 writes (lazy);
   failing the 2nd write or the last read gives Err *)
Example C04_io_copy_examples :
  io_copy no_fault EofEager 2 [1; 2; 3; 4; 5] 0 0 = (COk, [1; 2; 3; 4; 5], 3%nat, 3%nat) /\
  io_copy no_fault EofLazy 2 [1; 2; 3; 4; 5] 0 0 = (COk, [1; 2; 3; 4; 5], 4%nat, 3%nat) /\
  io_copy no_fault EofEager 2 [] 0 0 = (COk, [], 1%nat, 0%nat) /\
  io_copy (single (FWrite 1)) EofEager 2 [1; 2; 3; 4; 5] 0 0 = (CErr, [1; 2], 2%nat, 2%nat) /\
  io_copy (single (FRead 3)) EofLazy 2 [1; 2; 3; 4; 5] 0 0 = (CErr, [1; 2; 3; 4; 5], 4%nat, 3%nat) /\
  reached [1; 2; 3; 4; 5] EofLazy 2 (FRead 3) /\ reached [1; 2; 3; 4; 5] EofLazy 2 (FCloseW 0) /\
  ~ reached [1; 2; 3; 4; 5] EofEager 2 (FRead 3).
Proof. vm_compute. repeat split; try lia. Qed.

(* StreamCopy onto a longer existing file, into a tree with other content *)
Definition ex_src : fs := [([[100]], D); ([[100]; [102]], F [1; 2; 3])].
Example C04_streamcopy_nonvacuous :
  let r := stream_copy_at no_fault EofLazy false 2 ex_src ex_t [[100]; [102]] [[100]; [102]] ctr0 in
  fst (fst r) = COk /\ lookup (snd (fst r)) [[100]; [102]] = Some (F [1; 2; 3]) /\
  lookup (snd (fst r)) [[107]] = Some (F [7]) /\
  writer_open false ex_t [[100]; [102]] <> None /\
  fst (fst (stream_copy_at (single (FCloseW 0)) EofLazy false 2 ex_src ex_t [[100]; [102]] [[100]; [102]] ctr0)) = CErr /\
  fst (fst (stream_copy_at no_fault EofLazy false 2 ex_src [] [[100]; [102]] [[100]; [102]] ctr0)) = CErr /\
  fst (fst (stream_copy_at no_fault EofLazy true 2 ex_src [] [[100]; [102]] [[100]; [102]] ctr0)) = COk.
Proof. vm_compute. repeat split; discriminate. Qed.

(* a tree copy in a non-source order into a destination holding a longer file at the same path and
   an unrelated file; every hypothesis of C04_treecopy holds for it *)
Definition ex_src2 : fs :=
  [([[97]], D); ([[97]; [120]], F [1; 2; 3]); ([[97]; [98]], D); ([[122]], F []); ([[97]; [98]; [121]], F [4])].
Definition ex_dst2 : fs := [([[111]], D); ([[111]; [97]], D); ([[111]; [97]; [120]], F [9; 9; 9; 9; 9]); ([[111]; [107]], F [7])].
Definition ex_cbs2 : list cb := [CbFile [[97]; [98]; [121]]; CbFile [[122]]; CbDir [[97]; [98]]; CbFile [[97]; [120]]; CbDir [[97]]].
Definition ex_k (pl : plan) : copy_cfg := mkCopyCfg pl EofEager false 2%nat true.

Lemma ex_src2_WF : WF ex_src2.
Proof.
  split; [vm_compute; repeat constructor; simpl; intuition discriminate|].
  intros p e H. repeat (destruct H as [H|H]; [inversion H; subst; vm_compute; repeat split; discriminate|]). destruct H.
Qed.
Lemma ex_dst2_WF : WF ex_dst2.
Proof.
  split; [vm_compute; repeat constructor; simpl; intuition discriminate|].
  intros p e H. repeat (destruct H as [H|H]; [inversion H; subst; vm_compute; repeat split; discriminate|]). destruct H.
Qed.

Example C04_treecopy_nonvacuous :
  WF ex_src2 /\ WF ex_dst2 /\ good_path [[111]] = true /\ lookup ex_dst2 [[111]] = Some D /\
  Permutation ex_cbs2 (cbs_of ex_src2 []) /\
  (exists t, tree_copy (ex_k no_fault) ex_src2 [] [[111]] ex_dst2 ex_cbs2 = (COk, t) /\
             lookup t [[111]; [97]; [120]] = Some (F [1; 2; 3]) /\ lookup t [[111]; [107]] = Some (F [7]) /\
             lookup t [[111]; [97]; [98]; [121]] = Some (F [4])) /\
  fst (tree_copy (ex_k (single (FWrite 1))) ex_src2 [] [[111]] ex_dst2 ex_cbs2) = CErr /\
  fst (tree_copy (ex_k (single (FReadDir 2))) ex_src2 [] [[111]] ex_dst2 ex_cbs2) = CErr /\
  fst (tree_copy (ex_k (single (FMkdir 4))) ex_src2 [] [[111]] ex_dst2 ex_cbs2) = CErr.
Proof.
  split; [exact ex_src2_WF|]. split; [exact ex_dst2_WF|]. split; [reflexivity|]. split; [reflexivity|].
  split.
  - change (cbs_of ex_src2 []) with [CbDir [[97]]; CbFile [[97]; [120]]; CbDir [[97]; [98]]; CbFile [[122]]; CbFile [[97]; [98]; [121]]].
    change [CbDir [[97]]; CbFile [[97]; [120]]; CbDir [[97]; [98]]; CbFile [[122]]; CbFile [[97]; [98]; [121]]] with (rev ex_cbs2).
    apply Permutation_rev.
  - split; [|vm_compute; repeat split]. eexists. vm_compute. repeat split.
Qed.

Example C04_no_conflict_nonvacuous : no_conflict ex_src2 [] ex_dst2 [[111]].
Proof.
  intros x e e' Hx Hs Hd.
  assert (Hin : In (x, e) (src_entries ex_src2 [])) by (apply src_entries_complete; assumption).
  vm_compute in Hin.
  repeat (destruct Hin as [Hin|Hin]; [inversion Hin; subst; vm_compute in Hd; inversion Hd; reflexivity || discriminate|]).
  destruct Hin.
Qed.

(* the walk's selected set for a concrete tree corresponds to the source entries under
   cb_of_item; a complete schedule exists: the hypotheses of C04_treecopy_any_schedule are met *)
Definition ex_root : list Model.Loop.tree :=
  [Model.Loop.Dir [97] [Model.Loop.File [120]; Model.Loop.Dir [98] [Model.Loop.File [121]]]; Model.Loop.File [122]].
Definition ex_src3 : fs :=
  [([[97]], D); ([[97]; [120]], F [1; 2; 3]); ([[97]; [98]], D); ([[97]; [98]; [121]], F [4]); ([[122]], F [])].
Definition ex_sched : list Model.Loop.tid :=
  concat (repeat [Model.Loop.TP 0%nat; Model.Loop.TC 0%nat; Model.Loop.TK] 80%nat).
Example C04_walk_ties_example :
  map cb_of_item (Model.Loop.sel_list copy_walk_cfg [46; 47] ex_root) = cbs_of ex_src3 [] /\
  let st := Model.Loop.run copy_walk_cfg ex_sched (Model.Loop.init copy_walk_cfg [46; 47] ex_root) in
  Model.Loop.all_exited st = true /\ Model.Loop.killed st = false /\
  fst (tree_copy (ex_k no_fault) ex_src3 [] [[111]] ex_dst2 (map cb_of_item (Model.Loop.log st))) = COk.
Proof. vm_compute. repeat split. Qed.

(** ====================================================================================
    Proof audit (round 5): the clauses that were stated only conditionally, only for one
    scenario, or not at all.  Lemmas in Proofs/C04Faults.v, Proofs/C04Exact.v,
    Proofs/C04Session.v. *)
From GC Require Import Proofs.C04Faults Proofs.C04Exact Proofs.C04Session.

(** ---------- every injected failure, every helper, every plan *)

(** StreamCopy / Copier.copyFile started in ANY counter state, under ANY plan, relative to the
    fault-free run: a plan that spares the calls of the fault-free run changes nothing; an Ok run
    left the same tree, made the same calls and none of them was planned to fail; a plan failing
    at least one of those calls gives Err.  Supersedes part (3) of C04_streamcopy (one fault,
    fresh counters). *)
Theorem C04_streamcopy_every_plan : forall pl st mkpar B src dst ps pd c t0 c0, (1 <= B)%nat ->
  stream_copy_at no_fault st mkpar B src dst ps pd c = (COk, t0, c0) ->
  ((forall f, in_range c c0 f -> pl f = false) ->
     stream_copy_at pl st mkpar B src dst ps pd c = (COk, t0, c0)) /\
  (forall t c', stream_copy_at pl st mkpar B src dst ps pd c = (COk, t, c') ->
     t = t0 /\ c' = c0 /\ forall f, in_range c c0 f -> pl f = false) /\
  (forall f, in_range c c0 f -> pl f = true ->
     fst (fst (stream_copy_at pl st mkpar B src dst ps pd c)) = CErr).
Proof. exact stream_copy_plan. Qed.
Print Assumptions C04_streamcopy_every_plan.

(** fshelper.Copy, any callback list, ANY plan: the calls of the copy are the counted calls of the
    fault-free run and the ReadDir calls of the walk ([walk_reached]); the result is Ok with the
    fault-free tree when the plan spares them all, and Err as soon as it fails one of them
    (Reader, Writer, k-th Read, k-th Write, either Close, MkdirAll, ReadDir).  This is the
    quantifier "every single injected I/O failure during a copy" for trees, which the older
    theorems state only through Ok => complete. *)
Theorem C04_treecopy_every_plan : forall k pl src s d dst l t0 c0, (1 <= cc_buf k)%nat ->
  run_cbs (set_plan k no_fault) src s d dst ctr0 l = (COk, t0, c0) ->
  ((forall f, walk_reached ctr0 c0 l f -> pl f = false) -> tree_copy (set_plan k pl) src s d dst l = (COk, t0)) /\
  (forall t, tree_copy (set_plan k pl) src s d dst l = (COk, t) ->
             t = t0 /\ forall f, walk_reached ctr0 c0 l f -> pl f = false) /\
  (forall f, walk_reached ctr0 c0 l f -> pl f = true -> fst (tree_copy (set_plan k pl) src s d dst l) = CErr).
Proof. exact tree_copy_plan. Qed.
Print Assumptions C04_treecopy_every_plan.

(** The same for Copier.copyDirectory (MkdirAll of the destination root is one more call). *)
Theorem C04_copier_dir_every_plan : forall k pl src s d dst l t1 c1 t0 c0, (1 <= cc_buf k)%nat ->
  is_dir_at src s = true ->
  mkdir_step no_fault dst d ctr0 = (COk, t1, c1) ->
  run_cbs (set_plan k no_fault) src s d t1 c1 l = (COk, t0, c0) ->
  ((forall f, walk_reached ctr0 c0 l f -> pl f = false) -> copier_dir (set_plan k pl) src s d dst l = (COk, t0)) /\
  (forall t, copier_dir (set_plan k pl) src s d dst l = (COk, t) ->
             t = t0 /\ forall f, walk_reached ctr0 c0 l f -> pl f = false) /\
  (forall f, walk_reached ctr0 c0 l f -> pl f = true -> fst (copier_dir (set_plan k pl) src s d dst l) = CErr).
Proof. exact copier_dir_plan. Qed.
Print Assumptions C04_copier_dir_every_plan.

(** ---------- exactness: the destination at EVERY path *)

(** StreamCopy Ok => the destination is, at every path, the file / its parent chain / what was
    there ([expected_file]); nothing else appears.  Supersedes the lookup clauses of part (1) of
    C04_streamcopy. *)
Theorem C04_streamcopy_exact : forall pl st mkpar B src dst ps pd c r c',
  (1 <= B)%nat -> WF dst -> good_path pd = true -> pd <> [] ->
  stream_copy_at pl st mkpar B src dst ps pd c = (COk, r, c') ->
  exists data, lookup src ps = Some (F data) /\ WF r /\
    forall q, lookup r q = expected_file dst pd data q.
Proof. exact stream_copy_exact. Qed.
Print Assumptions C04_streamcopy_exact.

(** ... and it is literally the tree WriteFile(pd, data) gives from the old destination (same
    nodes in the same creation order): the Writer's truncation at open leaves no trace. *)
Theorem C04_streamcopy_is_write : forall pl st mkpar B src dst ps pd c r c',
  (1 <= B)%nat -> WF dst -> good_path pd = true -> pd <> [] ->
  stream_copy_at pl st mkpar B src dst ps pd c = (COk, r, c') ->
  exists data, lookup src ps = Some (F data) /\ write_at dst pd data = Some r.
Proof. exact stream_copy_is_write. Qed.
Print Assumptions C04_streamcopy_is_write.

(** The front ends on RAW path strings (no theorem named them before): fshelper.StreamCopy and
    Copier.copyFile, every spelling of the paths, every plan. *)
Theorem C04_streamcopy_raw_exact : forall pl st mkpar B src dst s c r c',
  (1 <= B)%nat -> WF dst -> stream_copy pl st mkpar B src dst s c = (COk, r, c') ->
  exists p data, reduce_node s = Some p /\ lookup src p = Some (F data) /\ WF r /\
    forall q, lookup r q = expected_file dst p data q.
Proof. exact stream_copy_raw_exact. Qed.
Print Assumptions C04_streamcopy_raw_exact.

Theorem C04_copier_file_exact : forall pl st mkpar B src dst s d c r c',
  (1 <= B)%nat -> WF dst -> copier_file pl st mkpar B src dst s d c = (COk, r, c') ->
  exists ps pd data, reduce_node s = Some ps /\ reduce_node d = Some pd /\
    lookup src ps = Some (F data) /\ WF r /\ forall q, lookup r q = expected_file dst pd data q.
Proof. exact copier_file_exact. Qed.
Print Assumptions C04_copier_file_exact.

(** When the destination Writer can be opened, on both kinds of backend (parents created or
    not): exactly when the target is not a directory and the parent chain is free / present.
    This discharges the hypothesis [writer_open ... = Some d1] of part (2) of C04_streamcopy. *)
Theorem C04_writer_open_iff : forall mkpar t p, WF t -> good_path p = true -> p <> [] ->
  ((exists t1, writer_open mkpar t p = Some t1) <-> lookup t p <> Some D /\ parents_free mkpar t p).
Proof. exact writer_open_iff. Qed.
Print Assumptions C04_writer_open_iff.

(** Total statement for one file: without a planned fault Copier.copyFile is Ok EXACTLY when both
    strings name a node, the source is a file and the Writer can be opened. *)
Theorem C04_copier_file_total : forall pl st mkpar B src dst s d c,
  (1 <= B)%nat -> WF dst -> (forall f, pl f = false) ->
  ((exists r c', copier_file pl st mkpar B src dst s d c = (COk, r, c')) <->
   (exists ps pd data, reduce_node s = Some ps /\ reduce_node d = Some pd /\
      lookup src ps = Some (F data) /\ lookup dst pd <> Some D /\ parents_free mkpar dst pd)).
Proof. exact copier_file_total. Qed.
Print Assumptions C04_copier_file_total.

(** Tree copy Ok => the destination is EXACTLY [expected] at every path: below the destination
    root the source nodes, everything else as before, nothing more (the L2 oracle's refusal of
    entries that are neither old nor in the source, as a theorem); every callback order, every
    plan.  Supersedes the lookup clauses of part (1) of C04_treecopy when the destination root
    exists. *)
Theorem C04_treecopy_exact : forall k src s d dst cbs t,
  (1 <= cc_buf k)%nat -> WF src -> WF dst -> good_path d = true ->
  lookup dst d = Some D ->
  Permutation cbs (cbs_of src s) ->
  tree_copy k src s d dst cbs = (COk, t) ->
  WF t /\ forall q, lookup t q = expected src s d dst q.
Proof. exact treecopy_exact. Qed.
Print Assumptions C04_treecopy_exact.

(** Hence the result does not depend on the order of the callbacks nor on the plan. *)
Theorem C04_treecopy_order_independent : forall k1 k2 src s d dst cbs1 cbs2 t1 t2,
  (1 <= cc_buf k1)%nat -> (1 <= cc_buf k2)%nat -> WF src -> WF dst -> good_path d = true ->
  lookup dst d = Some D ->
  Permutation cbs1 (cbs_of src s) -> Permutation cbs2 (cbs_of src s) ->
  tree_copy k1 src s d dst cbs1 = (COk, t1) -> tree_copy k2 src s d dst cbs2 = (COk, t2) ->
  forall q, lookup t1 q = lookup t2 q.
Proof. exact treecopy_order_independent. Qed.
Print Assumptions C04_treecopy_order_independent.

(** Into an empty directory the copy is a mirror of the source subtree. *)
Theorem C04_treecopy_mirror : forall k src s d dst cbs t,
  (1 <= cc_buf k)%nat -> WF src -> WF dst -> good_path d = true ->
  lookup dst d = Some D -> (forall x, x <> [] -> lookup dst (d ++ x) = None) ->
  Permutation cbs (cbs_of src s) ->
  tree_copy k src s d dst cbs = (COk, t) ->
  forall x, x <> [] -> lookup t (d ++ x) = lookup src (s ++ x).
Proof. exact treecopy_mirror. Qed.
Print Assumptions C04_treecopy_mirror.

(** Total correctness of fshelper.Copy: no planned fault, no file/directory conflict, any order
    => Ok AND exactly the expected tree.  Supersedes part (2) of C04_treecopy. *)
Theorem C04_treecopy_total : forall k src s d dst cbs,
  (1 <= cc_buf k)%nat -> WF src -> WF dst -> good_path d = true ->
  (forall f, cc_plan k f = false) -> cc_file_mkdir k = true ->
  lookup dst d = Some D -> no_conflict src s dst d ->
  Permutation cbs (cbs_of src s) ->
  exists t, tree_copy k src s d dst cbs = (COk, t) /\ WF t /\ forall q, lookup t q = expected src s d dst q.
Proof. exact treecopy_total. Qed.
Print Assumptions C04_treecopy_total.

(** Copier.copyDirectory (checked by the correspondence, named by no theorem before): Ok => the
    source is a directory, the destination root was made, and the result is exactly the expected
    tree over it; and it IS Ok when nothing is in the way. *)
Theorem C04_copier_dir_exact : forall k src s d dst cbs t,
  (1 <= cc_buf k)%nat -> WF src -> WF dst -> good_path d = true ->
  Permutation cbs (cbs_of src s) ->
  copier_dir k src s d dst cbs = (COk, t) ->
  is_dir_at src s = true /\
  exists t1, mkdir_all dst d = Some t1 /\ WF t /\ forall q, lookup t q = expected src s d t1 q.
Proof. exact copier_dir_exact. Qed.
Print Assumptions C04_copier_dir_exact.

Theorem C04_copier_dir_total : forall k src s d dst cbs,
  (1 <= cc_buf k)%nat -> WF src -> WF dst -> good_path d = true ->
  (forall f, cc_plan k f = false) -> cc_file_mkdir k = true ->
  is_dir_at src s = true ->
  (forall q data, is_prefix q d = true -> lookup dst q <> Some (F data)) ->
  no_conflict src s dst d ->
  Permutation cbs (cbs_of src s) ->
  exists t t1, copier_dir k src s d dst cbs = (COk, t) /\ mkdir_all dst d = Some t1 /\
               WF t /\ forall q, lookup t q = expected src s d t1 q.
Proof. exact copier_dir_total. Qed.
Print Assumptions C04_copier_dir_total.

(** ---------- Writer and Reader sessions on the tree *)

(** A Writer session succeeds EXACTLY when the string names a node that is not a directory and no
    file lies on the way (discharges the hypothesis [... = RUnit] of C04_writer_exact). *)
Theorem C04_writer_succeeds_iff : forall t s chunks, WF t ->
  (snd (mem_step t (OWriter s chunks)) = RUnit <->
   exists p, reduce_node s = Some p /\ lookup t p <> Some D /\ parents_free true t p).
Proof. exact writer_step_iff. Qed.
Print Assumptions C04_writer_succeeds_iff.

(** The bytes the step stores are those of the handle-level session (truncate at open, each Write
    at the offset), whatever the file held. *)
Theorem C04_writer_step_is_session : forall t s chunks old,
  mem_step t (OWriter s chunks) = mem_step t (OWriteFile s (writer_result Truncate old chunks)).
Proof. exact writer_step_is_session. Qed.
Print Assumptions C04_writer_step_is_session.

(** Writer then Reader: through any two spellings of the path and any buffer sizes the Reader
    delivers read_seq of the concatenation, ReadFile the concatenation itself; with enough
    non-empty buffers EOF is reported and the chunks read concatenate to the chunks written. *)
Theorem C04_writer_reader_roundtrip : forall t s s' chunks bufs p,
  WF t -> reduce_node s = Some p -> reduce_node s' = Some p ->
  snd (mem_step t (OWriter s chunks)) = RUnit ->
  let t' := fst (mem_step t (OWriter s chunks)) in
  let r := read_seq (concat chunks) bufs in
  mem_step t' (OReader s' bufs) = (t', RChunks r) /\
  mem_step t' (OReadFile s') = (t', RData (concat chunks)) /\
  (exists rest, concat chunks = chunks_concat r ++ rest /\ (saw_eof r = true -> rest = [])) /\
  (Forall (fun n => (1 <= n)%nat) bufs -> (length (concat chunks) < length bufs)%nat ->
     saw_eof r = true /\ chunks_concat r = concat chunks).
Proof. exact writer_reader_roundtrip. Qed.
Print Assumptions C04_writer_reader_roundtrip.

(** A second session on the file cannot fail and replaces the content (shorter, longer, empty). *)
Theorem C04_writer_second_session : forall t s s' chunks chunks' p,
  WF t -> reduce_node s = Some p -> reduce_node s' = Some p ->
  snd (mem_step t (OWriter s chunks)) = RUnit ->
  let t' := fst (mem_step t (OWriter s chunks)) in
  snd (mem_step t' (OWriter s' chunks')) = RUnit /\
  lookup (fst (mem_step t' (OWriter s' chunks'))) p = Some (F (concat chunks')).
Proof. exact writer_second_session. Qed.
Print Assumptions C04_writer_second_session.

(** A second write gives the very tree a single write would have given (node order included). *)
Theorem C04_write_twice : forall t p a b t1,
  WF t -> good_path p = true -> p <> [] ->
  write_at t p a = Some t1 -> write_at t1 p b = write_at t p b.
Proof. exact write_at_twice. Qed.
Print Assumptions C04_write_twice.

(** Reader, ANY buffer sizes with zero-length buffers in between, both EOF conventions: once more
    non-empty buffers were offered than the file has bytes, EOF was reported and exactly the
    stored bytes were delivered.  Supersedes the last clause of C04_reader_exact (all sizes >= 1). *)
Theorem C04_reader_eof_reached : forall st data bufs,
  (length data < length (nonzero bufs))%nat ->
  saw_eof (read_calls st data bufs) = true /\ chunks_concat (read_calls st data bufs) = data.
Proof. exact reader_eof_reached. Qed.
Print Assumptions C04_reader_eof_reached.

(** ---------- the hypotheses of the audit theorems are satisfiable by non-trivial values *)

(* the fault-free StreamCopy of 3 bytes with a 2-byte buffer (lazy EOF) makes 1 Reader, 1 Writer,
   3 Read, 2 Write and 2 Close calls; a plan with two faults outside them changes nothing, a plan
   with two faults one of which is the last Read gives Err *)
Definition ex_two (a b : fault) : plan := fun f => fault_eqb a f || fault_eqb b f.
Example C04_streamcopy_every_plan_nonvacuous :
  exists t0 c0,
    stream_copy_at no_fault EofLazy false 2 ex_src ex_t [[100]; [102]] [[100]; [102]] ctr0 = (COk, t0, c0) /\
    c0 = mkCtr 1 1 3 2 1 1 0 /\
    in_range ctr0 c0 (FRead 2) /\ in_range ctr0 c0 (FCloseR 0) /\ ~ in_range ctr0 c0 (FRead 3) /\
    (forall f, in_range ctr0 c0 f -> ex_two (FRead 3) (FMkdir 0) f = false) /\
    stream_copy_at (ex_two (FRead 3) (FMkdir 0)) EofLazy false 2 ex_src ex_t [[100]; [102]] [[100]; [102]] ctr0 = (COk, t0, c0) /\
    fst (fst (stream_copy_at (ex_two (FRead 2) (FWrite 7)) EofLazy false 2 ex_src ex_t [[100]; [102]] [[100]; [102]] ctr0)) = CErr.
Proof.
  eexists. eexists. split; [vm_compute; reflexivity|]. split; [reflexivity|].
  split; [cbn; lia|]. split; [cbn; lia|]. split; [cbn; lia|]. split; [|split; vm_compute; reflexivity].
  intros f Hf. destruct f as [j|j|j|j|j|j|j|j]; cbn in Hf |- *; try reflexivity; try lia.
  destruct j as [|[|[|[|j]]]]; try reflexivity; lia.
Qed.

(* tree copy: the calls of the fault-free run of C04_treecopy_nonvacuous, reached faults of every
   kind, and a plan with several faults *)
Example C04_treecopy_every_plan_nonvacuous :
  exists t0 c0,
    run_cbs (set_plan (ex_k no_fault) no_fault) ex_src2 [] [[111]] ex_dst2 ctr0 ex_cbs2 = (COk, t0, c0) /\
    c0 = mkCtr 3 3 4 3 3 3 5 /\
    walk_reached ctr0 c0 ex_cbs2 (FMkdir 4) /\ walk_reached ctr0 c0 ex_cbs2 (FReadDir 2) /\
    walk_reached ctr0 c0 ex_cbs2 (FCloseW 2) /\ walk_reached ctr0 c0 ex_cbs2 (FReader 1) /\
    ~ walk_reached ctr0 c0 ex_cbs2 (FReadDir 3) /\
    tree_copy (set_plan (ex_k no_fault) (ex_two (FReadDir 3) (FMkdir 5))) ex_src2 [] [[111]] ex_dst2 ex_cbs2 = (COk, t0) /\
    fst (tree_copy (set_plan (ex_k no_fault) (ex_two (FCloseW 2) (FRead 0))) ex_src2 [] [[111]] ex_dst2 ex_cbs2) = CErr.
Proof.
  eexists. eexists. split; [vm_compute; reflexivity|]. split; [reflexivity|].
  split; [left; cbn; lia|]. split; [right; exists 2%nat; split; [reflexivity|vm_compute; lia]|].
  split; [left; cbn; lia|]. split; [left; cbn; lia|].
  split; [|split; vm_compute; reflexivity].
  intros [H|(i & E & Hi)]; [exact H|]. inversion E; subst i. vm_compute in Hi. lia.
Qed.

(* Copier.copyDirectory of the subtree a/ into a destination root that does not exist yet *)
Definition ex_cbs_a : list cb := rev (cbs_of ex_src2 [[97]]).
Example C04_copier_dir_every_plan_nonvacuous :
  is_dir_at ex_src2 [[97]] = true /\
  exists t1 c1 t0 c0,
    mkdir_step no_fault ex_dst2 [[110]; [101]] ctr0 = (COk, t1, c1) /\
    run_cbs (set_plan (ex_k no_fault) no_fault) ex_src2 [[97]] [[110]; [101]] t1 c1 ex_cbs_a = (COk, t0, c0) /\
    walk_reached ctr0 c0 ex_cbs_a (FMkdir 0) /\ walk_reached ctr0 c0 ex_cbs_a (FWrite 1) /\
    copier_dir (set_plan (ex_k no_fault) no_fault) ex_src2 [[97]] [[110]; [101]] ex_dst2 ex_cbs_a = (COk, t0) /\
    lookup t0 [[110]; [101]; [98]; [121]] = Some (F [4]) /\
    fst (copier_dir (set_plan (ex_k no_fault) (single (FMkdir 0))) ex_src2 [[97]] [[110]; [101]] ex_dst2 ex_cbs_a) = CErr /\
    fst (copier_dir (set_plan (ex_k no_fault) (single (FWrite 1))) ex_src2 [[97]] [[110]; [101]] ex_dst2 ex_cbs_a) = CErr.
Proof.
  split; [reflexivity|]. eexists. eexists. eexists. eexists.
  split; [vm_compute; reflexivity|]. split; [vm_compute; reflexivity|].
  split; [left; cbn; lia|]. split; [left; cbn; lia|]. vm_compute. repeat split.
Qed.

(* exactness, evaluated: after the copies of the older examples the destination agrees with the
   executable specification at every key of the result, of the old destination, and at paths
   that exist nowhere *)
Definition probe_paths (a b : fs) : list path := map fst a ++ map fst b ++ [[]; [[33]]; [[111]; [33]]; [[100]; [33]]].
Definition entry_eqb (a b : option entry) : bool :=
  match a, b with
  | None, None | Some D, Some D => true
  | Some (F x), Some (F y) => bytes_eqb x y
  | _, _ => false
  end.
Example C04_exact_evaluated :
  (let r := snd (fst (stream_copy_at no_fault EofLazy true 2 ex_src ex_t [[100]; [102]] [[120]; [121]; [102]] ctr0)) in
   forallb (fun q => entry_eqb (lookup r q) (expected_file ex_t [[120]; [121]; [102]] [1; 2; 3] q))
           ([[120]] :: [[120]; [121]] :: probe_paths r ex_t) = true /\
   write_at ex_t [[120]; [121]; [102]] [1; 2; 3] = Some r) /\
  (let t := snd (tree_copy (ex_k no_fault) ex_src2 [] [[111]] ex_dst2 ex_cbs2) in
   forallb (fun q => entry_eqb (lookup t q) (expected ex_src2 [] [[111]] ex_dst2 q)) (probe_paths t ex_dst2) = true /\
   forallb (fun q => entry_eqb (lookup t q)
                       (lookup (snd (tree_copy (ex_k no_fault) ex_src2 [] [[111]] ex_dst2 (rev ex_cbs2))) q))
           (probe_paths t ex_dst2) = true).
Proof. vm_compute. repeat split. Qed.

(* the Writer can be opened / cannot: parents created or not, a file on the way, a directory as
   target; both sides of C04_writer_open_iff are inhabited *)
Example C04_writer_open_nonvacuous :
  writer_open false ex_t [[100]; [102]] <> None /\ writer_open true ex_t [[120]; [121]; [102]] <> None /\
  writer_open false ex_t [[120]; [121]; [102]] = None /\ writer_open true ex_t [[107]; [102]] = None /\
  writer_open true ex_t [[100]] = None /\
  (lookup ex_t [[120]; [121]; [102]] <> Some D /\ parents_free true ex_t [[120]; [121]; [102]]) /\
  (lookup ex_t [[100]; [102]] <> Some D /\ parents_free false ex_t [[100]; [102]]).
Proof.
  assert (HWF : WF ex_t) by exact (proj1 C04_writer_step_nonvacuous).
  split; [vm_compute; discriminate|]. split; [vm_compute; discriminate|].
  split; [reflexivity|]. split; [reflexivity|]. split; [reflexivity|]. split.
  - apply (proj1 (C04_writer_open_iff true ex_t [[120]; [121]; [102]] HWF eq_refl ltac:(discriminate))).
    eexists. vm_compute. reflexivity.
  - apply (proj1 (C04_writer_open_iff false ex_t [[100]; [102]] HWF eq_refl ltac:(discriminate))).
    eexists. vm_compute. reflexivity.
Qed.

(* Copier.copyFile on raw strings in odd spellings ("./d//f" to "x/../n/./g"): Ok, hence the
   right-hand side of C04_copier_file_total holds; a directory as source is refused *)
Example C04_copier_file_nonvacuous :
  (exists r c', copier_file no_fault EofEager true 2 ex_t ex_t
                  [46; 47; 100; 47; 47; 102] [120; 47; 46; 46; 47; 110; 47; 46; 47; 103] ctr0 = (COk, r, c') /\
                lookup r [[110]; [103]] = Some (F [9; 9; 9; 9; 9; 9]) /\ lookup r [[110]] = Some D) /\
  (exists ps pd data, reduce_node [46; 47; 100; 47; 47; 102] = Some ps /\
      reduce_node [120; 47; 46; 46; 47; 110; 47; 46; 47; 103] = Some pd /\
      lookup ex_t ps = Some (F data) /\ lookup ex_t pd <> Some D /\ parents_free true ex_t pd) /\
  fst (fst (copier_file no_fault EofEager true 2 ex_t ex_t [100] [110] ctr0)) = CErr.
Proof.
  assert (HWF : WF ex_t) by exact (proj1 C04_writer_step_nonvacuous).
  split; [eexists; eexists; vm_compute; repeat split|]. split; [|reflexivity].
  apply (proj1 (C04_copier_file_total no_fault EofEager true 2%nat ex_t ex_t _ _ ctr0 ltac:(lia) HWF (fun _ => eq_refl))).
  eexists. eexists. vm_compute. reflexivity.
Qed.

(* mirror: the destination directory o/ is empty *)
Definition ex_dst_empty : fs := [([[111]], D); ([[107]], F [7])].
Example C04_treecopy_mirror_nonvacuous :
  WF ex_dst_empty /\ lookup ex_dst_empty [[111]] = Some D /\
  (forall x, x <> [] -> lookup ex_dst_empty ([[111]] ++ x) = None) /\
  fst (tree_copy (ex_k no_fault) ex_src2 [] [[111]] ex_dst_empty ex_cbs2) = COk.
Proof.
  assert (HWF : WF ex_dst_empty).
  { split; [vm_compute; repeat constructor; simpl; intuition discriminate|].
    intros p e H. repeat (destruct H as [H|H]; [inversion H; subst; vm_compute; repeat split; discriminate|]). destruct H. }
  split; [exact HWF|]. split; [reflexivity|]. split; [|reflexivity].
  intros x Hx. destruct x as [|a x]; [congruence|]. cbn [app lookup assoc ex_dst_empty path_eqb].
  destruct (bytes_eqb [111] [111] && path_eqb [] (a :: x)) eqn:E1; [cbn in E1; discriminate|]. reflexivity.
Qed.

(* Copier.copyDirectory: every hypothesis of C04_copier_dir_total for the copy of the whole of
   ex_src2 into o/ of ex_dst2 *)
Example C04_copier_dir_total_nonvacuous :
  is_dir_at ex_src2 [] = true /\
  (forall q data, is_prefix q [[111]] = true -> lookup ex_dst2 q <> Some (F data)) /\
  no_conflict ex_src2 [] ex_dst2 [[111]] /\
  fst (copier_dir (ex_k no_fault) ex_src2 [] [[111]] ex_dst2 ex_cbs2) = COk.
Proof.
  split; [reflexivity|]. split; [|split; [exact C04_no_conflict_nonvacuous|reflexivity]].
  intros q data Hp Hq. destruct q as [|a q]; [cbn in Hq; discriminate|].
  destruct q as [|b q]; [|cbn in Hp; rewrite andb_false_r in Hp; discriminate].
  cbn in Hp. rewrite andb_true_r in Hp. apply bytes_eqb_spec in Hp. subst a. vm_compute in Hq. discriminate.
Qed.

(* Writer sessions: the session of C04_writer_step_nonvacuous succeeds, so the right-hand side of
   C04_writer_succeeds_iff holds; a path through a file and a directory as target are refused;
   round trip with zero-length buffers through another spelling; a shorter second session *)
Example C04_sessions_nonvacuous :
  (exists p, reduce_node [46; 47; 100; 47; 102] = Some p /\ lookup ex_t p <> Some D /\ parents_free true ex_t p) /\
  snd (mem_step ex_t (OWriter [107; 47; 120] [[1]])) = RErr /\
  snd (mem_step ex_t (OWriter [100] [[1]])) = RErr /\
  (let t' := fst (mem_step ex_t (OWriter [46; 47; 100; 47; 102] [[1]; []; [2; 3]])) in
   mem_step t' (OReader [100; 47; 47; 102] [0; 2; 0; 5]%nat) = (t', RChunks [([], false); ([1; 2], false); ([], false); ([3], true)]) /\
   reduce_node [100; 47; 47; 102] = Some [[100]; [102]] /\
   lookup (fst (mem_step t' (OWriter [100; 47; 102] [[8]]))) [[100]; [102]] = Some (F [8]) /\
   lookup (fst (mem_step t' (OWriter [100; 47; 102] []))) [[100]; [102]] = Some (F [])) /\
  (length [1; 2; 3] < length (nonzero [0; 2; 0; 0; 1; 0; 4; 9]%nat))%nat /\
  read_calls EofLazy [1; 2; 3] [0; 2; 0; 0; 1; 0; 4; 9]%nat =
    [([], false); ([1; 2], false); ([], false); ([], false); ([3], false); ([], false); ([], true)].
Proof.
  split.
  - apply (proj1 (C04_writer_succeeds_iff ex_t _ [[1]; []; [2; 3]] (proj1 C04_writer_step_nonvacuous))).
    exact (proj1 (proj2 (proj2 C04_writer_step_nonvacuous))).
  - vm_compute. repeat split; lia.
Qed.

(** The hypothesis [lookup dst d = Some D] of C04_treecopy_exact is needed: copying into a view
    whose root directory does not exist yet succeeds and MAKES the root (and its ancestors) on the
    way, which [expected] over the old destination does not show.  Checked on the implementation
    (memfs, Copy into Filespace of a missing directory): the view is handed out, the copy is Ok and
    the directory exists afterwards; benign (a needed parent directory), and Copier.copyDirectory
    makes the root itself first (C04_copier_dir_exact speaks about the tree after that MkdirAll). *)
Theorem C04_treecopy_exact_root_needed_refuted :
  exists t, tree_copy (mut_cfg true) mut_src [] [[111]] [] (cbs_of mut_src []) = (COk, t) /\
            lookup t [[111]] = Some D /\ expected mut_src [] [[111]] [] [[111]] = None.
Proof. eexists. split; [vm_compute; reflexivity|]. vm_compute. split; reflexivity. Qed.
Print Assumptions C04_treecopy_exact_root_needed_refuted.
