(** C04 — Streams and cross-filespace copies are byte-exact and replace old content.
    Statements only; every proof is [exact <lemma of Proofs/Stream.v, Proofs/Copy.v, Proofs/CopySched.v>].

    Quantifiers: every previous content (absent / shorter / longer: [old : option bytes], every
    tree [t]); every chunk list; every content and every list of read-buffer sizes (including 0);
    every io.Copy buffer size >= 1; both EOF conventions (memfs/decrypting reader: EOF with the
    last bytes; os.File: EOF on the next call); destinations whose Writer creates parents or not
    (memfs/cache vs. disk); every source tree and destination tree (well formed); EVERY order in
    which the walk may deliver its callbacks (all permutations of the source entries — by
    C08_exactly_once this covers every schedule of the walk that ends with an empty error list,
    see C04_treecopy_any_schedule); EVERY fault plan [pl : fault -> bool] (no failure, one, or any
    set of failing primitive calls).

    Backends: the theorems are about the abstract tree/stream model.  memfs is tied to it by the
    C01 correspondence and by this property's harness; diskfs, encryptfs over memfs/diskfs and
    the cache view only through this property's harness (L1 on the projected tree walk, L2
    byte-exactness oracles); the encrypted framing itself is C05's subject. *)
From GC Require Import Common.Base Model.Paths Model.Fs Model.Stream Model.Copy
     Proofs.Fs Proofs.Stream Proofs.Copy Proofs.CopySched.
From GC Require Model.Loop.
From Coq Require Import Permutation.
Open Scope N_scope.

(** Writer: open + any writes + close leaves exactly the concatenation of the chunks, whatever was
    there (policy model), and through the filespace step function on any well-formed tree (the
    path may be absent, hold a shorter or a longer file): the file holds the concatenation, every
    other node is unchanged. *)
Theorem C04_writer_exact :
  (forall old chunks, writer_result Truncate old chunks = concat chunks) /\
  (forall t s chunks p, WF t -> reduce_node s = Some p -> snd (mem_step t (OWriter s chunks)) = RUnit ->
     let t' := fst (mem_step t (OWriter s chunks)) in
     WF t' /\ lookup t' p = Some (F (concat chunks)) /\
     (forall q, q <> p -> lookup t q <> None -> lookup t' q = lookup t q)).
Proof. exact writer_exact_full. Qed.
Print Assumptions C04_writer_exact.

(** Reader, any buffer sizes, both EOF conventions: every chunk fits its buffer; never more calls
    than buffers; the chunks concatenate to a prefix of the data and to ALL of it once EOF was
    reported; EOF is reported by the last call only (never early); with all sizes >= 1 and more
    calls than bytes EOF is reached. *)
Theorem C04_reader_exact : forall st data bufs,
  let r := read_calls st data bufs in
  Forall chunk_le (combine r bufs) /\
  (length r <= length bufs)%nat /\
  (exists rest, data = chunks_concat r ++ rest /\ (saw_eof r = true -> rest = [])) /\
  (forall pre c post, r = pre ++ (c, true) :: post -> post = [] /\ chunks_concat r = data) /\
  (Forall (fun n => (1 <= n)%nat) bufs -> (length data < length bufs)%nat -> saw_eof r = true).
Proof. exact reader_exact. Qed.
Print Assumptions C04_reader_exact.

(** A zero-size buffer makes no progress and signals EOF only at the end. *)
Theorem C04_reader_zero_buffer : forall st rest,
  fst (read_one st rest 0) = [] /\ (snd (read_one st rest 0) = true -> rest = []).
Proof. exact read_one_zero. Qed.
Print Assumptions C04_reader_zero_buffer.

(** io.Copy with any buffer size >= 1: terminates within length data + 1 iterations (the fuel is
    never exhausted), an Ok result delivered exactly the data, and without faults it is Ok. *)
Theorem C04_io_copy_exact : forall pl st B data kr kw, (1 <= B)%nat ->
  fst (fst (fst (io_copy pl st B data kr kw))) <> CFuel /\
  (forall acc kr' kw', io_copy pl st B data kr kw = (COk, acc, kr', kw') -> acc = data) /\
  ((forall f, pl f = false) -> exists kr' kw', io_copy pl st B data kr kw = (COk, data, kr', kw')).
Proof. exact io_copy_exact. Qed.
Print Assumptions C04_io_copy_exact.

(** StreamCopy / Copier.copyFile.  (1) For EVERY fault plan and every destination: result Ok =>
    the destination file is byte-for-byte the source file, all other destination nodes are kept,
    new nodes are parent directories (contrapositive: an incomplete copy is reported).
    (2) No fault, the source is a file and the writer can be opened => Ok.
    (3) Any single failing call that the fault-free run makes (Reader, Writer, the k-th Read, the
    k-th Write, either Close) => Err. *)
Theorem C04_streamcopy :
  (forall pl st mkpar B src dst ps pd c r_dst c',
     (1 <= B)%nat -> WF dst -> good_path pd = true -> pd <> [] ->
     stream_copy_at pl st mkpar B src dst ps pd c = (COk, r_dst, c') ->
     exists data, lookup src ps = Some (F data) /\ WF r_dst /\ lookup r_dst pd = Some (F data) /\
       (forall q, q <> pd -> lookup dst q <> None -> lookup r_dst q = lookup dst q) /\
       (forall q, q <> pd -> lookup dst q = None -> lookup r_dst q <> None ->
                  lookup r_dst q = Some D /\ is_prefix q (removelast pd) = true)) /\
  (forall pl st mkpar B src dst ps pd c data d1,
     (1 <= B)%nat -> (forall f, pl f = false) ->
     lookup src ps = Some (F data) -> writer_open mkpar dst pd = Some d1 ->
     fst (fst (stream_copy_at pl st mkpar B src dst ps pd c)) = COk) /\
  (forall st mkpar B src dst ps pd data f,
     (1 <= B)%nat -> lookup src ps = Some (F data) -> reached data st B f ->
     fst (fst (stream_copy_at (single f) st mkpar B src dst ps pd ctr0)) = CErr).
Proof. exact streamcopy_full. Qed.
Print Assumptions C04_streamcopy.

(** Tree copy (fshelper.Copy / Copier.copyDirectory).  (1) For every well-formed source and
    destination, EVERY order of the callbacks (permutation of the source entries) and EVERY fault
    plan: result Ok => every source node is in the destination byte-for-byte at the same relative
    path, destination nodes that are not overwritten files are kept, nothing outside the
    destination root changes.  (2) Without faults and without file/directory conflicts the copy
    is Ok, in every order. *)
Theorem C04_treecopy :
  (forall k src s d dst cbs t,
     (1 <= cc_buf k)%nat -> WF src -> WF dst -> good_path d = true ->
     Permutation cbs (cbs_of src s) ->
     tree_copy k src s d dst cbs = (COk, t) ->
     WF t /\
     (forall x e, x <> [] -> lookup src (s ++ x) = Some e -> lookup t (d ++ x) = Some e) /\
     (forall q e, lookup dst q = Some e ->
                  (forall y data, lookup src (s ++ y) = Some (F data) -> q <> d ++ y) -> lookup t q = Some e) /\
     (lookup dst d = Some D -> forall q, is_prefix d q = false -> lookup t q = lookup dst q)) /\
  (forall k src s d dst cbs,
     (1 <= cc_buf k)%nat -> WF src -> WF dst -> good_path d = true ->
     (forall f, cc_plan k f = false) -> cc_file_mkdir k = true ->
     lookup dst d = Some D -> no_conflict src s dst d ->
     Permutation cbs (cbs_of src s) ->
     exists t, tree_copy k src s d dst cbs = (COk, t)).
Proof. exact treecopy_full. Qed.
Print Assumptions C04_treecopy.

(** Composition with the walk (imports C08's exactly-once theorem): for EVERY schedule of the
    fsloop model that ends with all consumers exited and not killed, the copy driven by the
    callback log is complete when it reports Ok — provided the walk's selected set corresponds to
    the source entries under the argument translation [f] (instance: C04_walk_ties_example). *)
Theorem C04_treecopy_any_schedule :
  forall (cfg : Model.Loop.config) base root sched (f : Model.Loop.item -> cb) k src s d dst t,
    Model.Loop.xt cfg = Model.Loop.ClosedThenEmpty -> (1 <= Model.Loop.cmax cfg)%nat ->
    let st := Model.Loop.run cfg sched (Model.Loop.init cfg base root) in
    Model.Loop.all_exited st = true -> Model.Loop.killed st = false ->
    Permutation (map f (Model.Loop.sel_list cfg base root)) (cbs_of src s) ->
    (1 <= cc_buf k)%nat -> WF src -> WF dst -> good_path d = true ->
    tree_copy k src s d dst (map f (Model.Loop.log st)) = (COk, t) ->
    WF t /\ forall x e, x <> [] -> lookup src (s ++ x) = Some e -> lookup t (d ++ x) = Some e.
Proof. exact treecopy_any_schedule. Qed.
Print Assumptions C04_treecopy_any_schedule.

(** The callback argument "./" ++ a/b/c reduces to the relative path [a; b; c]. *)
Theorem C04_callback_paths : forall x, good_path x = true -> reduce ([DOT; SLASH] ++ join x) = Some x.
Proof. exact reduce_dot_slash. Qed.
Print Assumptions C04_callback_paths.

(** ---------- refutations of the pre-fix writers (regression witnesses) *)

(** F05 (memfs before f5ca759): the writer appended to the previous content. *)
Theorem C04_F05_refuted : exists old chunks, writer_result Append old chunks <> concat chunks.
Proof. exists (Some [111; 108; 100]), [[110; 101]; [119]]. vm_compute. discriminate. Qed.
Print Assumptions C04_F05_refuted.

(** F06 (diskfs before d1df29a): no O_TRUNC — a shorter write leaves the tail of the old file. *)
Theorem C04_F06_refuted : exists old chunks, writer_result OverwriteInPlace old chunks <> concat chunks.
Proof. exists (Some [108; 111; 110; 103; 101; 114]), [[97]; [98]]. vm_compute. discriminate. Qed.
Print Assumptions C04_F06_refuted.

(** Mutation "OnFile without MkdirAll(path.Dir)": on a destination whose Writer does not create
    parents (disk) a conflict-free, fault-free copy fails when the file callback precedes the
    directory callback, and succeeds in the other order — the result would depend on the schedule. *)
Definition mut_src : fs := [([[97]], D); ([[97]; [102]], F [1; 2; 3])].
Definition mut_cfg (mk : bool) : copy_cfg := mkCopyCfg no_fault EofLazy false 8%nat mk.
Theorem C04_file_mkdir_needed_refuted :
  fst (tree_copy (mut_cfg false) mut_src [] [] [] [CbFile [[97]; [102]]; CbDir [[97]]]) = CErr /\
  fst (tree_copy (mut_cfg false) mut_src [] [] [] [CbDir [[97]]; CbFile [[97]; [102]]]) = COk /\
  fst (tree_copy (mut_cfg true) mut_src [] [] [] [CbFile [[97]; [102]]; CbDir [[97]]]) = COk.
Proof. vm_compute. repeat split. Qed.
Print Assumptions C04_file_mkdir_needed_refuted.

(** ---------- the hypotheses are satisfiable by non-trivial values (vm_compute) *)

(* writer over absent / shorter / longer previous content, with empty chunks in between *)
Example C04_writer_examples :
  writer_result Truncate None [[1; 2]; []; [3]] = [1; 2; 3] /\
  writer_result Truncate (Some [9]) [[1; 2]; []; [3]] = [1; 2; 3] /\
  writer_result Truncate (Some [9; 9; 9; 9; 9; 9]) [[1; 2]; []; [3]] = [1; 2; 3] /\
  writer_result Append (Some [9]) [[1; 2]; [3]] = [9; 1; 2; 3] /\
  writer_result OverwriteInPlace (Some [9; 9; 9; 9; 9; 9]) [[1; 2]; [3]] = [1; 2; 3; 9; 9; 9].
Proof. vm_compute. repeat split. Qed.

Definition ex_t : fs := [([[100]], D); ([[100]; [102]], F [9; 9; 9; 9; 9; 9]); ([[107]], F [7])].
Example C04_writer_step_nonvacuous :
  WF ex_t /\ reduce_node [46; 47; 100; 47; 102] = Some [[100]; [102]] /\
  snd (mem_step ex_t (OWriter [46; 47; 100; 47; 102] [[1]; []; [2; 3]])) = RUnit /\
  lookup (fst (mem_step ex_t (OWriter [46; 47; 100; 47; 102] [[1]; []; [2; 3]]))) [[100]; [102]] = Some (F [1; 2; 3]).
Proof.
  split; [|vm_compute; repeat split].
  split; [vm_compute; repeat constructor; simpl; intuition discriminate|].
  intros p e [H|[H|[H|[]]]]; inversion H; subst; vm_compute; repeat split; discriminate.
Qed.

Example C04_reader_examples :
  read_calls EofEager [1; 2; 3; 4; 5] [0; 2; 0; 1; 5; 7]%nat = [([], false); ([1; 2], false); ([], false); ([3], false); ([4; 5], true)] /\
  read_calls EofLazy [1; 2; 3; 4; 5] [0; 2; 0; 1; 5; 0; 7; 7]%nat =
    [([], false); ([1; 2], false); ([], false); ([3], false); ([4; 5], false); ([], false); ([], true)] /\
  read_calls EofEager [] [0; 3]%nat = [([], true)] /\
  read_calls EofLazy [] [0; 3]%nat = [([], false); ([], true)].
Proof. vm_compute. repeat split. Qed.

(* io.Copy with a 2-byte buffer over 5 bytes: 3 reads/3 writes (eager), 4 reads/3 writes (lazy);
   failing the 2nd write or the last read gives Err *)
Example C04_io_copy_examples :
  io_copy no_fault EofEager 2 [1; 2; 3; 4; 5] 0 0 = (COk, [1; 2; 3; 4; 5], 3%nat, 3%nat) /\
  io_copy no_fault EofLazy 2 [1; 2; 3; 4; 5] 0 0 = (COk, [1; 2; 3; 4; 5], 4%nat, 3%nat) /\
  io_copy no_fault EofEager 2 [] 0 0 = (COk, [], 1%nat, 0%nat) /\
  io_copy (single (FWrite 1)) EofEager 2 [1; 2; 3; 4; 5] 0 0 = (CErr, [1; 2], 2%nat, 2%nat) /\
  io_copy (single (FRead 3)) EofLazy 2 [1; 2; 3; 4; 5] 0 0 = (CErr, [1; 2; 3; 4; 5], 4%nat, 3%nat) /\
  reached [1; 2; 3; 4; 5] EofLazy 2 (FRead 3) /\ reached [1; 2; 3; 4; 5] EofLazy 2 (FCloseW 0) /\
  ~ reached [1; 2; 3; 4; 5] EofEager 2 (FRead 3).
Proof. vm_compute. repeat split; try lia. Qed.

(* StreamCopy onto a longer existing file, into a tree with other content *)
Definition ex_src : fs := [([[100]], D); ([[100]; [102]], F [1; 2; 3])].
Example C04_streamcopy_nonvacuous :
  let r := stream_copy_at no_fault EofLazy false 2 ex_src ex_t [[100]; [102]] [[100]; [102]] ctr0 in
  fst (fst r) = COk /\ lookup (snd (fst r)) [[100]; [102]] = Some (F [1; 2; 3]) /\
  lookup (snd (fst r)) [[107]] = Some (F [7]) /\
  writer_open false ex_t [[100]; [102]] <> None /\
  fst (fst (stream_copy_at (single (FCloseW 0)) EofLazy false 2 ex_src ex_t [[100]; [102]] [[100]; [102]] ctr0)) = CErr /\
  fst (fst (stream_copy_at no_fault EofLazy false 2 ex_src [] [[100]; [102]] [[100]; [102]] ctr0)) = CErr /\
  fst (fst (stream_copy_at no_fault EofLazy true 2 ex_src [] [[100]; [102]] [[100]; [102]] ctr0)) = COk.
Proof. vm_compute. repeat split; discriminate. Qed.

(* a tree copy in a non-source order into a destination holding a longer file at the same path and
   an unrelated file; every hypothesis of C04_treecopy holds for it *)
Definition ex_src2 : fs :=
  [([[97]], D); ([[97]; [120]], F [1; 2; 3]); ([[97]; [98]], D); ([[122]], F []); ([[97]; [98]; [121]], F [4])].
Definition ex_dst2 : fs := [([[111]], D); ([[111]; [97]], D); ([[111]; [97]; [120]], F [9; 9; 9; 9; 9]); ([[111]; [107]], F [7])].
Definition ex_cbs2 : list cb := [CbFile [[97]; [98]; [121]]; CbFile [[122]]; CbDir [[97]; [98]]; CbFile [[97]; [120]]; CbDir [[97]]].
Definition ex_k (pl : plan) : copy_cfg := mkCopyCfg pl EofEager false 2%nat true.

Lemma ex_src2_WF : WF ex_src2.
Proof.
  split; [vm_compute; repeat constructor; simpl; intuition discriminate|].
  intros p e H. repeat (destruct H as [H|H]; [inversion H; subst; vm_compute; repeat split; discriminate|]). destruct H.
Qed.
Lemma ex_dst2_WF : WF ex_dst2.
Proof.
  split; [vm_compute; repeat constructor; simpl; intuition discriminate|].
  intros p e H. repeat (destruct H as [H|H]; [inversion H; subst; vm_compute; repeat split; discriminate|]). destruct H.
Qed.

Example C04_treecopy_nonvacuous :
  WF ex_src2 /\ WF ex_dst2 /\ good_path [[111]] = true /\ lookup ex_dst2 [[111]] = Some D /\
  Permutation ex_cbs2 (cbs_of ex_src2 []) /\
  (exists t, tree_copy (ex_k no_fault) ex_src2 [] [[111]] ex_dst2 ex_cbs2 = (COk, t) /\
             lookup t [[111]; [97]; [120]] = Some (F [1; 2; 3]) /\ lookup t [[111]; [107]] = Some (F [7]) /\
             lookup t [[111]; [97]; [98]; [121]] = Some (F [4])) /\
  fst (tree_copy (ex_k (single (FWrite 1))) ex_src2 [] [[111]] ex_dst2 ex_cbs2) = CErr /\
  fst (tree_copy (ex_k (single (FReadDir 2))) ex_src2 [] [[111]] ex_dst2 ex_cbs2) = CErr /\
  fst (tree_copy (ex_k (single (FMkdir 4))) ex_src2 [] [[111]] ex_dst2 ex_cbs2) = CErr.
Proof.
  split; [exact ex_src2_WF|]. split; [exact ex_dst2_WF|]. split; [reflexivity|]. split; [reflexivity|].
  split.
  - change (cbs_of ex_src2 []) with [CbDir [[97]]; CbFile [[97]; [120]]; CbDir [[97]; [98]]; CbFile [[122]]; CbFile [[97]; [98]; [121]]].
    change [CbDir [[97]]; CbFile [[97]; [120]]; CbDir [[97]; [98]]; CbFile [[122]]; CbFile [[97]; [98]; [121]]] with (rev ex_cbs2).
    apply Permutation_rev.
  - split; [|vm_compute; repeat split]. eexists. vm_compute. repeat split.
Qed.

Example C04_no_conflict_nonvacuous : no_conflict ex_src2 [] ex_dst2 [[111]].
Proof.
  intros x e e' Hx Hs Hd.
  assert (Hin : In (x, e) (src_entries ex_src2 [])) by (apply src_entries_complete; assumption).
  vm_compute in Hin.
  repeat (destruct Hin as [Hin|Hin]; [inversion Hin; subst; vm_compute in Hd; inversion Hd; reflexivity || discriminate|]).
  destruct Hin.
Qed.

(* the walk's selected set for a concrete tree corresponds to the source entries under
   cb_of_item; a complete schedule exists: the hypotheses of C04_treecopy_any_schedule are met *)
Definition ex_root : list Model.Loop.tree :=
  [Model.Loop.Dir [97] [Model.Loop.File [120]; Model.Loop.Dir [98] [Model.Loop.File [121]]]; Model.Loop.File [122]].
Definition ex_src3 : fs :=
  [([[97]], D); ([[97]; [120]], F [1; 2; 3]); ([[97]; [98]], D); ([[97]; [98]; [121]], F [4]); ([[122]], F [])].
Definition ex_sched : list Model.Loop.tid :=
  concat (repeat [Model.Loop.TP 0%nat; Model.Loop.TC 0%nat; Model.Loop.TK] 80%nat).
Example C04_walk_ties_example :
  map cb_of_item (Model.Loop.sel_list copy_walk_cfg [46; 47] ex_root) = cbs_of ex_src3 [] /\
  let st := Model.Loop.run copy_walk_cfg ex_sched (Model.Loop.init copy_walk_cfg [46; 47] ex_root) in
  Model.Loop.all_exited st = true /\ Model.Loop.killed st = false /\
  fst (tree_copy (ex_k no_fault) ex_src3 [] [[111]] ex_dst2 (map cb_of_item (Model.Loop.log st))) = COk.
Proof. vm_compute. repeat split. Qed.
