#!/bin/sh
# Full .vo build of the Coq development (never -vos/-vok).
set -e
cd "$(dirname "$0")"
{ cat _CoqProject.head; find Common Model Proofs Props Refuted Corr -name '*.v' | sort; } > _CoqProject
coq_makefile -f _CoqProject -o Makefile >/dev/null
exec timeout ${COQ_TIMEOUT:-3000} make -j${COQ_JOBS:-16} "$@"
