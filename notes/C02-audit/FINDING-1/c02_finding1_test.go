package diskfs

import (
	"os"
	"testing"

	"github.com/goatcms/goatcore/filesystem"
	"github.com/goatcms/goatcore/filesystem/filespace/memfs"
)

// C02 FINDING-1: the os.FileInfo values of the two backends disagree about the KIND bits of Mode():
// a memfs directory answers Mode().IsDir() == false and Mode().IsRegular() == true, a disk directory
// the opposite. All preconditions of C02 are met (MkdirAll of a fresh name, Lstat/ReadDir of an
// existing directory). IsDir() itself agrees.
func TestC02Finding1ModeKindBits(t *testing.T) {
	dir, err := os.MkdirTemp("", "c02-finding1-")
	if err != nil {
		t.Fatal(err)
	}
	defer os.RemoveAll(dir)
	mem, _ := memfs.NewFilespace()
	dsk, _ := NewFilespace(dir)
	for name, fs := range map[string]filesystem.Filespace{"memory": mem, "disk": dsk} {
		if err := fs.MkdirAll("d/sub", 0777); err != nil {
			t.Fatal(err)
		}
		info, err := fs.Lstat("d")
		if err != nil {
			t.Fatal(err)
		}
		list, err := fs.ReadDir("d")
		if err != nil || len(list) != 1 {
			t.Fatal(err, list)
		}
		t.Logf("%-6s Lstat(d): IsDir()=%v Mode().IsDir()=%v Mode().IsRegular()=%v | ReadDir(d)[0]: IsDir()=%v Mode().IsDir()=%v",
			name, info.IsDir(), info.Mode().IsDir(), info.Mode().IsRegular(), list[0].IsDir(), list[0].Mode().IsDir())
		if info.Mode().IsDir() != info.IsDir() || info.Mode().IsRegular() || list[0].Mode().IsDir() != list[0].IsDir() {
			t.Errorf("%s backend: Mode() of a directory does not say directory", name)
		}
	}
}
