package diskfs

import (
	"os"
	"strings"
	"testing"

	"github.com/goatcms/goatcore/filesystem"
	"github.com/goatcms/goatcore/filesystem/filespace/memfs"
)

// C02 FINDING-2: path spellings the host file system cannot store. The preconditions of C02 are met
// (the destination parent - the root - exists, nothing is in the way), yet the results differ:
// memfs stores a node whose name holds a NUL byte or is longer than 255 bytes, diskfs refuses it.
func TestC02Finding2NamesTheHostCannotStore(t *testing.T) {
	dir, err := os.MkdirTemp("", "c02-finding2-")
	if err != nil {
		t.Fatal(err)
	}
	defer os.RemoveAll(dir)
	mem, _ := memfs.NewFilespace()
	dsk, _ := NewFilespace(dir)
	for _, name := range []string{"a\x00b", strings.Repeat("n", 256)} {
		res := map[string]error{}
		for bn, fs := range map[string]filesystem.Filespace{"memory": mem, "disk": dsk} {
			res[bn] = fs.WriteFile(name, []byte("x"), 0644)
		}
		t.Logf("WriteFile(%.12q… %d bytes): memory -> %v, disk -> %v", name, len(name), res["memory"], res["disk"])
		if (res["memory"] == nil) != (res["disk"] == nil) {
			t.Errorf("backends disagree on WriteFile of a %d-byte name", len(name))
		}
	}
}
