package memfs

// Observation made by the C09 coverage audit (not a violation of the literal property text):
// WriteFile / Writer of a NEW file can fail with "node named x exists" when a Copy / CopyFile /
// CopyDirectory puts its node under the same new name at the same time.  WriteFile and Writer hold
// the directory's outer lock across "look the name up, create the file", Copy* inserts with
// Dir.addNode only, so the insertion can land between the lookup and the creation.  On a plain
// tree WriteFile on a missing or an existing FILE never fails, whatever the order of the two calls.
//
// cp finding1_test.go <repo>/filesystem/filespace/memfs/ && cd <repo> &&
//   go test -count=1 -run TestFinding1 ./filesystem/filespace/memfs/

import (
	"fmt"
	"sync"
	"testing"
)

func TestFinding1WriteFileRefusedByConcurrentCopy(t *testing.T) {
	fs, _ := NewFilespace()
	if err := fs.WriteFile("src", []byte("source"), 0o644); err != nil {
		t.Fatal(err)
	}
	refused := 0
	var first error
	for round := 0; round < 20000; round++ {
		dest := fmt.Sprintf("d/x%d", round)
		var wg sync.WaitGroup
		var werr, cerr error
		start := make(chan struct{})
		wg.Add(2)
		go func() { defer wg.Done(); <-start; werr = fs.WriteFile(dest, []byte("written"), 0o644) }()
		go func() { defer wg.Done(); <-start; cerr = fs.CopyFile("src", dest) }()
		close(start)
		wg.Wait()
		_ = cerr // CopyFile may fail: the destination exists when WriteFile came first
		if werr != nil {
			refused++
			if first == nil {
				first = fmt.Errorf("round %d: WriteFile(%s) = %v", round, dest, werr)
			}
		}
	}
	if refused > 0 {
		t.Fatalf("WriteFile of a new file was refused %d times in 20000 rounds while CopyFile created the same name; first: %v", refused, first)
	}
}
