package termexec

// Demonstration on the UNCHANGED library: the failure that RunLoop's reader goroutine signals is still
// inside scope.AppendError (error recorded, done signal fired, ErrorEvent listeners not yet run) when
// the goroutine that waited for the loop - released by that very done signal - closes the scope, as
// terminalm's runLoop does (RunLoop, Wait, deferred Close).  Scope.close() sets EventScope to nil,
// the appender then calls scp.Trigger(app.ErrorEvent, ...) on the nil interface: nil dereference in a
// goroutine of the library that nobody recovers (here: recovered by a thin wrapper so that the test
// can count instead of dying).

import (
	"errors"
	"strings"
	"sync/atomic"
	"testing"

	"github.com/goatcms/goatcore/app"
	"github.com/goatcms/goatcore/app/gio"
	"github.com/goatcms/goatcore/app/goatapp"
	"github.com/goatcms/goatcore/app/scope"
	"github.com/goatcms/goatcore/app/terminal"
)

var errFindingBroken = errors.New("finding: the input stream is broken")

type findingBrokenReader struct{ rd *strings.Reader }

func (r *findingBrokenReader) Read(p []byte) (int, error) {
	if r.rd.Len() != 0 {
		return r.rd.Read(p)
	}
	return 0, errFindingBroken
}

// findingScope forwards AppendError unchanged and only recovers what the library's goroutine would die of
type findingScope struct {
	app.Scope
	panics int32
	last   atomic.Value
	done   chan struct{}
}

func (s *findingScope) AppendError(errs ...error) {
	defer close(s.done)
	defer func() {
		if p := recover(); p != nil {
			atomic.AddInt32(&s.panics, 1)
			s.last.Store(p)
		}
	}()
	s.Scope.AppendError(errs...)
}

type findingIOContext struct {
	scp app.Scope
	io  app.IO
}

func (c findingIOContext) IO() app.IO       { return c.io }
func (c findingIOContext) Scope() app.Scope { return c.scp }
func (c findingIOContext) Close() error     { return c.scp.Close() }

func TestFindingInflightAppendVsCloseAfterRunLoop(t *testing.T) {
	const rounds = 30000
	crashed := 0
	var what interface{}
	for i := 0; i < rounds; i++ {
		mapp, err := goatapp.NewMockupApp(goatapp.Params{IO: goatapp.IO{In: gio.NewAppInput(&findingBrokenReader{rd: strings.NewReader("ok\n")})}})
		if err != nil {
			t.Fatal(err)
		}
		commands := terminal.NewCommands(terminal.NewCommand(terminal.CommandParams{Name: "ok", Callback: func(a app.App, ctx app.IOContext) error { return nil }}))
		scp := &findingScope{Scope: scope.New(scope.Params{}), done: make(chan struct{})}
		rctx := NewRunCtx(RunCtxParams{Application: mapp, Ctx: findingIOContext{scp: scp, io: mapp.IOContext().IO()}, Commands: commands})
		// what terminalm's runLoop does
		if err = RunLoop(rctx, ""); err == nil {
			err = scp.Wait()
		}
		if err == nil {
			t.Fatalf("round %d: the input failure was not reported", i)
		}
		scp.Close()
		<-scp.done
		if atomic.LoadInt32(&scp.panics) != 0 {
			crashed++
			what = scp.last.Load()
		}
	}
	if crashed != 0 {
		t.Fatalf("%d of %d rounds: the reader goroutine's AppendError panicked after the caller closed the scope: %v", crashed, rounds, what)
	}
}
