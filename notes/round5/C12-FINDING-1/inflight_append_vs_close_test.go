package scope

import (
	"errors"
	"testing"
	"time"

	"github.com/goatcms/goatcore/app"
	"github.com/goatcms/goatcore/app/scope/contextscope"
)

// a context whose AppendError returns late: the goroutine that appends is descheduled right after
// the error is recorded and the done signal fired
type slowCtx struct {
	app.ContextScope
}

func (c slowCtx) AppendError(errs ...error) {
	c.ContextScope.AppendError(errs...)
	time.Sleep(100 * time.Millisecond)
}

func TestInflightAppendVsClose(t *testing.T) {
	scp := New(Params{ContextScope: slowCtx{contextscope.New()}})
	res := make(chan interface{}, 1)
	go func() {
		defer func() { res <- recover() }()
		scp.AppendError(errors.New("boom"))
	}()
	<-scp.Done() // a waiter sees the failure ...
	if err := scp.Wait(); err == nil {
		t.Fatal("wait nil")
	}
	if err := scp.Close(); err == nil { // ... and closes the scope
		t.Fatal("close nil")
	}
	if p := <-res; p != nil {
		t.Fatalf("the AppendError that was in flight panicked: %v", p)
	}
}
