package fsloop

import (
	"errors"
	"os"
	"strings"
	"testing"

	"github.com/goatcms/goatcore/filesystem"
	"github.com/goatcms/goatcore/filesystem/filespace/memfs"
)

type raceInner = filesystem.Filespace
type raceFS struct {
	raceInner
}

func (f raceFS) ReadDir(p string) ([]os.FileInfo, error) {
	if strings.Trim(p, "./") == "bad" {
		return nil, errors.New("injected listing error")
	}
	return f.raceInner.ReadDir(p)
}

// a callback error and a listing error in the same walk: Wait() returns once the consumers have
// seen the kill caused by the first error, the caller reads Errors() while the producer is still
// appending the second one
func TestErrorsReadWhileSecondErrorIsAppended(t *testing.T) {
	base, _ := memfs.NewFilespace()
	base.WriteFile("a", []byte("1"), 0o644)
	base.WriteFile("bad/y", []byte("2"), 0o644)
	for i := 0; i < 20000; i++ {
		loop := NewLoop(&LoopData{Filespace: raceFS{base}, Consumers: 2, Producents: 1,
			OnFile: func(fs filesystem.Filespace, p string) error { return errors.New("injected callback error") }}, nil)
		loop.Run("")
		loop.Wait()
		for j, e := range loop.Errors() {
			if e == nil {
				t.Fatalf("walk %d: Errors()[%d] is nil", i, j)
			}
		}
	}
}
