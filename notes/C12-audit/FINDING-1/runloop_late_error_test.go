package termexec

// Demonstration: the reader goroutine of RunLoop outlives RunLoop.  When the loop returned because
// the scope ended, the goroutine may still sit in ReadArguments; the caller closes the scope (as
// every caller of RunLoop does); the next malformed line makes the goroutine call
// Scope().AppendError on the CLOSED scope, which panics (preventClosed) - in a goroutine of the
// library that nobody can recover from: the process dies.
//
//   cp runloop_late_error_test.go <worktree>/app/terminal/termexec/ && cd <worktree> &&
//   go test ./app/terminal/termexec/ -run TestRunLoopLateReadError -count=1

import (
	"io"
	"testing"
	"time"

	"github.com/goatcms/goatcore/app"
	"github.com/goatcms/goatcore/app/gio"
	"github.com/goatcms/goatcore/app/goatapp"
	"github.com/goatcms/goatcore/app/scope"
	"github.com/goatcms/goatcore/app/terminal"
)

func TestRunLoopLateReadError(t *testing.T) {
	mapp, err := goatapp.NewMockupApp(goatapp.Params{})
	if err != nil {
		t.Fatal(err)
	}
	pr, pw := io.Pipe()
	base := mapp.IOContext().IO()
	scp := scope.New(scope.Params{})
	ctx := gio.NewIOContext(scp, gio.NewIO(gio.IOParams{In: gio.NewInput(pr), Out: base.Out(), Err: base.Err(), CWD: base.CWD()}))
	cmds := terminal.NewCommands(terminal.NewCommand(terminal.CommandParams{Name: "noop", Callback: func(a app.App, c app.IOContext) error { return nil }}))
	done := make(chan error, 1)
	go func() { done <- RunLoop(NewRunCtx(RunCtxParams{Application: mapp, Ctx: ctx, Commands: cmds}), "") }()
	time.Sleep(100 * time.Millisecond) // the loop waits for input: its reader goroutine sits in ReadArguments
	scp.Stop()                         // the session is ended from outside, gracefully
	if err = <-done; err != nil {
		t.Fatal(err)
	}
	if err = scp.Close(); err != nil { // the loop is over: the caller closes the session's scope
		t.Fatal(err)
	}
	// the session's input delivers one more, malformed, line
	go func() { pw.Write([]byte("\"never closed\n")); pw.Close() }()
	time.Sleep(300 * time.Millisecond) // the process is gone before this returns
}
