package json

// Demonstration: a map written with WriteJSON cannot be read back with ReadJSON when a value (or
// key) contains the six characters \u003c (or \u003e, \u0026): varutil.JSONMarshal replaces the
// byte sequence `\u003c` by `<` AFTER encoding/json has escaped the backslash to `\\`, which
// leaves `\<` in the file - not a JSON escape.
//
//   cp finding1_test.go <repo>/filesystem/json/ && cd <repo> && go test -count=1 -run TestFinding1 ./filesystem/json/

import (
	"testing"

	"github.com/goatcms/goatcore/filesystem/filespace/memfs"
)

func TestFinding1WriteReadBackslashU003c(t *testing.T) {
	for _, v := range []string{`\u003c`, `a\u0026b`, `C:\u003e`} {
		fs, _ := memfs.NewFilespace()
		in := map[string]string{"k": v}
		if err := WriteJSON(fs, "c.json", in); err != nil {
			t.Fatal(err)
		}
		raw, _ := fs.ReadFile("c.json")
		out := map[string]string{}
		if err := ReadJSON(fs, "c.json", &out); err != nil {
			t.Errorf("value %q: file %q: ReadJSON: %v", v, raw, err)
			continue
		}
		if out["k"] != v {
			t.Errorf("value %q: read back %q (file %q)", v, out["k"], raw)
		}
	}
}
