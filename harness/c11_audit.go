package main

// C11 — families added by the coverage audit (L2 oracles; the sequential histories additionally
// create children through gio.NewChildIOContext and add tasks with a delta, see genCfg.wide):
//   c11GioProbe       app/gio/iocontext.go driven directly: child IOContexts with a shared and with an
//                     isolated context, closed through IOContext.Close (result, events, second Close)
//   c11CloseRace      several goroutines call Close on ONE scope at the same moment
//   c11MultiWaiter    Close and one or more Wait callers parked on the same scope, then the tasks end

import (
	"fmt"
	"runtime"
	"strings"
	"sync"
	"sync/atomic"
	"time"

	"github.com/goatcms/goatcore/app"
	"github.com/goatcms/goatcore/app/gio"
	"github.com/goatcms/goatcore/app/scope"
	"github.com/goatcms/goatcore/app/scope/contextscope"
)

// callGuard runs f in a goroutine of its own and reports (returned error, panic value, finished in time).
func callGuard(f func() error, d time.Duration) (err error, pan interface{}, ok bool) {
	type res struct {
		err error
		pan interface{}
	}
	ch := make(chan res, 1)
	go func() {
		var r res
		defer func() {
			if p := recover(); p != nil {
				r.pan = p
			}
			ch <- r
		}()
		r.err = f()
	}()
	select {
	case r := <-ch:
		return r.err, r.pan, true
	case <-time.After(d):
		return nil, nil, false
	}
}

// closeEvLog records the close events fired by chosen scopes (listeners sit on the root).
type closeEvLog struct {
	mu  sync.Mutex
	seq []string // "<name>:<event index>"
}

func (l *closeEvLog) attach(root app.Scope, names map[string]string) {
	for ev := evBCo; ev <= evAC; ev++ {
		ev := ev
		root.On(goEvents[ev], func(d interface{}) error {
			if sc, ok := d.(app.Scope); ok && sc != nil {
				if n, ok := names[sc.SID()]; ok {
					l.mu.Lock()
					l.seq = append(l.seq, fmt.Sprintf("%s:%d", n, ev))
					l.mu.Unlock()
				}
			}
			return nil
		})
	}
}

func (l *closeEvLog) of(name string) []int {
	l.mu.Lock()
	defer l.mu.Unlock()
	var r []int
	for _, e := range l.seq {
		var n string
		var ev int
		if i := strings.IndexByte(e, ':'); i >= 0 {
			n = e[:i]
			fmt.Sscan(e[i+1:], &ev)
		}
		if n == name {
			r = append(r, ev)
		}
	}
	return r
}

func (l *closeEvLog) index(entry string) int {
	l.mu.Lock()
	defer l.mu.Unlock()
	for i, e := range l.seq {
		if e == entry {
			return i
		}
	}
	return -1
}

func c11GioProbe(o *Out) {
	io := scopeIO()
	for _, iso := range []bool{false, true} {
		for _, withErr := range []bool{false, true} {
			for _, grand := range []bool{false, true} {
				desc := map[string]interface{}{"family": "gio", "isolated": iso, "child_error": withErr, "grandchild": grand}
				fail := func(oracle, what string) { o.Fail(oracle, "gio child context: "+what, "gio_"+oracle, desc) }
				o.CountEval(fmt.Sprintf("gio:%v:%v:%v", iso, withErr, grand), true)
				o.Stat("gio_probe_runs")
				root := scope.New(scope.Params{})
				pioc := gio.NewIOContext(root, io)
				if grand {
					// the parent is itself a child IOContext (sharing the root's context)
					pioc = gio.NewChildIOContext(pioc, gio.ChildIOContextParams{})
				}
				par := pioc.Scope()
				cp := scope.ChildParams{Name: "c"}
				if iso {
					cp.ContextScope = contextscope.NewIsolated(par)
				}
				cioc := gio.NewChildIOContext(pioc, gio.ChildIOContextParams{Scope: cp})
				ch := cioc.Scope()
				lg := &closeEvLog{}
				lg.attach(root, map[string]string{par.SID(): "p", ch.SID(): "c"})
				defer func(c app.ContextScope) { defer func() { recover() }(); c.Stop() }(root.BaseContextScope()) // releases watchers
				if withErr {
					func() { defer func() { recover() }(); ch.AppendError(idErr(5)) }()
					if !ch.IsDone() || len(ch.Errors()) != 1 {
						fail("shared", "the child does not hold the error appended to it")
					}
					if iso && (par.IsDone() || len(par.Errors()) != 0) {
						fail("isolated", fmt.Sprintf("an error appended to a child with an isolated context reached the parent (done=%v, errors=%d)", par.IsDone(), len(par.Errors())))
					}
					if !iso && (!par.IsDone() || len(par.Errors()) != 1) {
						fail("shared", fmt.Sprintf("an error appended to a child sharing the context did not fail the parent (done=%v, errors=%d)", par.IsDone(), len(par.Errors())))
					}
				}
				// the parent's Close parks until the child context has been closed
				pres := make(chan [2]interface{}, 1)
				go func() {
					var r [2]interface{}
					defer func() {
						if p := recover(); p != nil {
							r[1] = p
						}
						pres <- r
					}()
					if e := pioc.Close(); e != nil {
						r[0] = e
					}
				}()
				early := false
				select {
				case <-pres:
					early = true
				case <-time.After(3 * time.Millisecond):
				}
				if early {
					fail("waits", "parent IOContext.Close returned while its child context was still open")
					continue
				}
				cerr, cpan, ok := callGuard(cioc.Close, 5*time.Second)
				if !ok {
					fail("no_hang", "child IOContext.Close did not return")
					continue
				}
				if cpan != nil {
					fail("no_panic", fmt.Sprintf("child IOContext.Close panicked: %.80v", cpan))
				}
				if (cerr != nil) != withErr {
					fail("result", fmt.Sprintf("child IOContext.Close returned error=%v, the scope holds %d errors", cerr != nil, len(ch.Errors())))
				}
				want := commitWord
				if withErr {
					want = rollbackWord
				}
				if got := lg.of("c"); !sameInts(got, want) {
					fail("event_grammar", fmt.Sprintf("child fired %v, want %v", got, want))
				}
				var perr, ppan interface{}
				select {
				case r := <-pres:
					perr, ppan = r[0], r[1]
				case <-time.After(5 * time.Second):
					fail("no_hang", "parent IOContext.Close did not return after the child context was closed")
					continue
				}
				if ppan != nil {
					fail("no_panic", fmt.Sprintf("parent IOContext.Close panicked: %.80v", ppan))
				}
				pwant := commitWord
				if withErr && !iso {
					pwant = rollbackWord
				}
				if (perr != nil) != (withErr && !iso) {
					fail("result", fmt.Sprintf("parent IOContext.Close returned error=%v; child failed=%v, isolated=%v", perr != nil, withErr, iso))
				}
				if got := lg.of("p"); !sameInts(got, pwant) {
					fail("event_grammar", fmt.Sprintf("parent fired %v, want %v", got, pwant))
				}
				// the parent decided only after the child's AfterClose
				ac := lg.index(fmt.Sprintf("c:%d", evAC))
				dec := lg.index(fmt.Sprintf("p:%d", pwant[1]))
				if ac < 0 || dec < 0 || dec < ac {
					fail("waits", fmt.Sprintf("parent decided at log index %d, child's AfterClose at %d", dec, ac))
				}
				// second Close through the IOContext: refused loudly, fires nothing
				before := len(lg.of("c"))
				_, pan2, ok2 := callGuard(cioc.Close, 5*time.Second)
				if !ok2 {
					fail("no_hang", "second child IOContext.Close did not return")
					continue
				}
				if pan2 == nil {
					fail("double_close", "second IOContext.Close of the same context did not panic")
				}
				if n := len(lg.of("c")) - before; n != 0 {
					fail("double_close", fmt.Sprintf("second IOContext.Close fired %d more events", n))
				}
			}
		}
	}
	// isolated child context follows the parent's end
	for how := 0; how < 2; how++ {
		desc := map[string]interface{}{"family": "gio-isolated-follows", "how": how}
		o.CountEval(fmt.Sprintf("gio:follows:%d", how), true)
		root := scope.New(scope.Params{})
		pioc := gio.NewIOContext(root, io)
		cioc := gio.NewChildIOContext(pioc, gio.ChildIOContextParams{Scope: scope.ChildParams{ContextScope: contextscope.NewIsolated(root)}})
		ch := cioc.Scope()
		if how == 0 {
			root.Stop()
		} else {
			root.Kill()
		}
		deadline := time.Now().Add(3 * time.Second)
		for !ch.IsDone() && time.Now().Before(deadline) {
			time.Sleep(50 * time.Microsecond)
		}
		if !ch.IsDone() {
			o.Fail("isolated", "gio child with an isolated context was not stopped when the parent ended", "gio_isolated", desc)
		} else if (len(ch.Errors()) != 0) != (how == 1) {
			o.Fail("isolated", fmt.Sprintf("gio child with an isolated context holds %d errors after the parent's %s", len(ch.Errors()), []string{"Stop", "Kill"}[how]), "gio_isolated", desc)
		}
		callGuard(cioc.Close, 2*time.Second)
		callGuard(pioc.Close, 2*time.Second)
	}
}

// c11CloseRace: n goroutines call Close on the same scope at the same moment (spin barrier, at
// least two processors).  Exactly one call runs the protocol and returns; every other one panics;
// every close event of the scope is fired once.
func c11CloseRace(o *Out, rng *RNG, rounds int) {
	old := runtime.GOMAXPROCS(0)
	defer runtime.GOMAXPROCS(old)
	for i := 0; i < rounds; i++ {
		shape := rng.Intn(3) // 0 root, 1 shared child, 2 isolated child
		withErr := rng.Chance(30)
		n := 2 + rng.Intn(3)
		runtime.GOMAXPROCS(n + 1 + i%3) // the callers spin on the start flag: one processor each and one for the starter
		root := scope.New(scope.Params{})
		target := root
		switch shape {
		case 1:
			target = scope.NewChild(root, scope.ChildParams{})
		case 2:
			target = scope.NewChild(root, scope.ChildParams{ContextScope: contextscope.NewIsolated(root)})
		}
		var counts [11]int32
		tsid := target.SID()
		for ev := evBCo; ev <= evAC; ev++ {
			ev := ev
			root.On(goEvents[ev], func(d interface{}) error {
				if sc, ok := d.(app.Scope); ok && sc != nil && sc.SID() == tsid {
					atomic.AddInt32(&counts[ev], 1)
				}
				return nil
			})
		}
		if withErr {
			target.AppendError(idErr(3))
		}
		var ready, goFlag, returned, panicked int32
		var wg sync.WaitGroup
		for g := 0; g < n; g++ {
			wg.Add(1)
			go func() {
				defer wg.Done()
				defer func() {
					if r := recover(); r != nil {
						atomic.AddInt32(&panicked, 1)
					}
				}()
				atomic.AddInt32(&ready, 1)
				for atomic.LoadInt32(&goFlag) == 0 {
				}
				target.Close()
				atomic.AddInt32(&returned, 1)
			}()
		}
		for atomic.LoadInt32(&ready) != int32(n) {
			runtime.Gosched()
		}
		atomic.StoreInt32(&goFlag, 1)
		fin := make(chan struct{})
		go func() { wg.Wait(); close(fin) }()
		desc := map[string]interface{}{"family": "close-race", "shape": shape, "callers": n, "error_before": withErr, "round": i, "gomaxprocs": runtime.GOMAXPROCS(0)}
		o.CountEval(fmt.Sprintf("closerace:%d:%d:%v", shape, n, withErr), true)
		o.Stat("close_race_rounds")
		select {
		case <-fin:
		case <-time.After(10 * time.Second):
			o.Fail("no_hang", "concurrent Close calls on one scope did not all end", "close_race_hang", desc)
			return
		}
		var cs []int32
		for ev := evBCo; ev <= evAC; ev++ {
			cs = append(cs, atomic.LoadInt32(&counts[ev]))
		}
		desc["event_counts_BCo_Co_ACo_BR_R_AR_BC_AC"] = cs
		desc["returned"], desc["panicked"] = returned, panicked
		if returned != 1 || panicked != int32(n-1) {
			o.Fail("double_close", fmt.Sprintf("%d concurrent Close calls on one scope: %d returned, %d panicked (want 1 and %d)", n, returned, panicked, n-1), "close_race", desc)
		}
		want := []int32{1, 1, 1, 0, 0, 0, 1, 1}
		if withErr {
			want = []int32{0, 0, 0, 1, 1, 1, 1, 1}
		}
		for k := range want {
			if cs[k] != want[k] {
				o.Fail("double_close", fmt.Sprintf("%d concurrent Close calls on one scope fired the close events %v times (BeforeCommit Commit AfterCommit BeforeRollback Rollback AfterRollback BeforeClose AfterClose), want %v", n, cs, want), "close_race_events", desc)
				break
			}
		}
		if shape != 0 {
			// the child signed off exactly once: the parent's counter is back to zero, not below
			_, pan, ok := callGuard(root.Close, 5*time.Second)
			if !ok {
				o.Fail("waits", "parent Close blocked after its only child was closed (by concurrent Close calls)", "close_race_parent", desc)
				return
			}
			if pan != nil {
				o.Fail("double_close", fmt.Sprintf("parent Close panicked after concurrent Close calls on its child: %.80v", pan), "close_race_parent", desc)
			}
		}
	}
}

func parkedInScopeWait() int {
	buf := make([]byte, 1<<16)
	for {
		n := runtime.Stack(buf, true)
		if n < len(buf) {
			buf = buf[:n]
			break
		}
		buf = make([]byte, 2*len(buf))
	}
	cnt := 0
	for _, g := range strings.Split(string(buf), "\n\n") {
		hdr := g
		if i := strings.IndexByte(g, '\n'); i >= 0 {
			hdr = g[:i]
		}
		if strings.Contains(hdr, "[running") || strings.Contains(hdr, "[runnable") {
			continue
		}
		if strings.Contains(g, "scope.(*Scope).Wait(") {
			cnt++
		}
	}
	return cnt
}

// c11MultiWaiter: a Close and m Wait callers are parked on one scope (k tasks outstanding); the
// tasks end; Close must fire its word and return, and every Wait must return (error iff the scope
// holds one).  Close is one of several waiters of the counter here.
func c11MultiWaiter(o *Out, rng *RNG, rounds int) {
	for i := 0; i < rounds; i++ {
		k := 1 + rng.Intn(3)
		m := 1 + rng.Intn(3)
		withErr := rng.Chance(40)
		closeFirst := rng.Bool()
		s := scope.New(scope.Params{})
		s.AddTasks(k)
		var fired int32
		s.On(app.AfterCloseEvent, func(interface{}) error { atomic.AddInt32(&fired, 1); return nil })
		type res struct {
			who string
			err error
			pan interface{}
		}
		ch := make(chan res, m+1)
		start := func(who string, f func() error) {
			go func() {
				r := res{who: who}
				defer func() {
					if p := recover(); p != nil {
						r.pan = p
					}
					ch <- r
				}()
				r.err = f()
			}()
		}
		park := func(n int) bool {
			deadline := time.Now().Add(2 * time.Second)
			for parkedInScopeWait() < n {
				if time.Now().After(deadline) {
					return false
				}
				time.Sleep(20 * time.Microsecond)
			}
			return true
		}
		desc := map[string]interface{}{"family": "multi-waiter", "tasks": k, "waiters": m, "error": withErr, "close_first": closeFirst, "round": i}
		o.CountEval(fmt.Sprintf("multiwait:%d:%d:%v:%v", k, m, withErr, closeFirst), true)
		o.Stat("multi_waiter_rounds")
		if closeFirst {
			start("close", s.Close)
			park(1)
		}
		for j := 0; j < m; j++ {
			start("wait", s.Wait)
		}
		if !closeFirst {
			park(m)
			start("close", s.Close)
		}
		if !park(m + 1) {
			o.Fail("waits", "Close / Wait did not park although tasks are outstanding", "multi_waiter_early", desc)
			return
		}
		if withErr {
			s.AppendError(idErr(9))
		}
		for j := 0; j < k; j++ {
			s.DoneTask()
		}
		deadline := time.After(5 * time.Second)
		got := 0
		for got < m+1 {
			select {
			case r := <-ch:
				got++
				if r.pan != nil {
					o.Fail("no_panic", fmt.Sprintf("%s panicked: %.80v", r.who, r.pan), "multi_waiter_panic", desc)
				} else if (r.err != nil) != withErr {
					o.Fail("result", fmt.Sprintf("%s returned error=%v, scope holds an error: %v", r.who, r.err != nil, withErr), "multi_waiter_result", desc)
				}
			case <-deadline:
				o.Fail("no_hang", fmt.Sprintf("all %d tasks are done, yet only %d of the %d parked callers (1 Close, %d Wait) returned; AfterClose fired %d times", k, got, m+1, m, atomic.LoadInt32(&fired)), "multi_waiter_hang", desc)
				return
			}
		}
		if atomic.LoadInt32(&fired) != 1 {
			o.Fail("event_grammar", fmt.Sprintf("AfterClose fired %d times", fired), "multi_waiter_events", desc)
		}
	}
}
