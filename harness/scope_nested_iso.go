package main

// C11/C12, isolation at depth: "an isolated child is stopped when its parent stops" must hold for
// the DIRECT parent at every depth - an isolated context of an isolated context follows the middle
// one (and through it the root), not the root alone.

import (
	"fmt"
	"time"

	"github.com/goatcms/goatcore/app"
	"github.com/goatcms/goatcore/app/scope"
	"github.com/goatcms/goatcore/app/scope/contextscope"
)

func scopeNestedIsolationProbe(o *Out, prop string) {
	waitDone := func(c app.ContextScope, d time.Duration) bool {
		select {
		case <-c.Done():
			return true
		case <-time.After(d):
			return c.IsDone()
		}
	}
	for depth := 2; depth <= 4; depth++ {
		for stopAt := 0; stopAt < depth; stopAt++ {
			for _, how := range []string{"stop", "kill", "error"} {
				desc := map[string]interface{}{"op": "nested-isolation", "depth": depth, "ended_level": stopAt, "how": how}
				chain := []app.ContextScope{contextscope.New()}
				for i := 1; i <= depth; i++ {
					chain = append(chain, contextscope.NewIsolated(chain[i-1]))
				}
				switch how {
				case "stop":
					chain[stopAt].Stop()
				case "kill":
					chain[stopAt].Kill()
				default:
					chain[stopAt].AppendError(fmt.Errorf("probe"))
				}
				for i := range chain {
					want := i >= stopAt
					got := waitDone(chain[i], map[bool]time.Duration{true: 5 * time.Second, false: 20 * time.Millisecond}[want])
					if got != want {
						o.Fail("isolated", fmt.Sprintf("chain of %d nested isolated contexts, level %d ended by %s: level %d done=%v, expected %v (an isolated context follows its direct parent, never its children)", depth, stopAt, how, i, got, want), "nested-isolation", desc)
						break
					}
				}
				// nothing flows upwards: the levels above stay clean
				for i := 0; i < stopAt; i++ {
					if len(chain[i].Errors()) != 0 {
						o.Fail("isolated", fmt.Sprintf("an error of level %d reached level %d of a chain of isolated contexts", stopAt, i), "nested-isolation-up", desc)
					}
				}
				o.CountEval(fmt.Sprintf("nestiso:%d:%d:%s", depth, stopAt, how), true)
			}
		}
	}
	// the same through scopes: root -> mid (isolated) -> leaf (isolated from mid); stopping mid lets
	// mid.Close() finish because the leaf's tasks see their context end
	root := scope.New(scope.Params{})
	midCtx := contextscope.NewIsolated(root.BaseContextScope())
	mid := scope.NewChild(root, scope.ChildParams{ContextScope: midCtx})
	leafCtx := contextscope.NewIsolated(midCtx)
	leaf := scope.NewChild(mid, scope.ChildParams{ContextScope: leafCtx})
	desc := map[string]interface{}{"op": "nested-isolation-scopes"}
	if err := leaf.AddTasks(1); err == nil {
		go func() {
			<-leaf.Done()
			leaf.DoneTask()
		}()
	}
	mid.Stop()
	closed := make(chan struct{})
	go func() {
		defer func() { recover(); close(closed) }()
		leaf.Close()
		mid.Close()
	}()
	select {
	case <-closed:
	case <-time.After(10 * time.Second):
		o.Fail("isolated", "root -> mid (isolated) -> leaf (isolated from mid): after mid.Stop() the leaf's context never ended, so closing leaf and mid does not return", "nested-isolation-scopes", desc)
	}
	if root.IsDone() {
		o.Fail("isolated", "stopping an isolated child ended the root", "nested-isolation-root", desc)
	}
	o.Stat("nested_isolation_probe")
	_ = prop
}
