module verifharness

go 1.16

require github.com/goatcms/goatcore v0.0.0

replace github.com/goatcms/goatcore => /repo
