module verifharness

go 1.16

require (
	github.com/goatcms/goatcore v0.0.0
	golang.org/x/crypto v0.0.0-20210415154028-4f45737414dc
)

replace github.com/goatcms/goatcore => /repo
