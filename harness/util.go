package main

import (
	"encoding/json"
	"fmt"
	"os"
	"path/filepath"
	"sort"
	"strings"
)

// ---------- deterministic PRNG (splitmix64): every random choice of a run derives from one seed

type RNG struct{ s uint64 }

func NewRNG(seed uint64) *RNG { return &RNG{s: seed*0x9E3779B97F4A7C15 + 0x1234567} }
func (r *RNG) Next() uint64 {
	r.s += 0x9E3779B97F4A7C15
	z := r.s
	z = (z ^ (z >> 30)) * 0xBF58476D1CE4E5B9
	z = (z ^ (z >> 27)) * 0x94D049BB133111EB
	return z ^ (z >> 31)
}
func (r *RNG) Intn(n int) int {
	if n <= 0 {
		return 0
	}
	return int(r.Next() % uint64(n))
}
func (r *RNG) Bool() bool          { return r.Next()&1 == 1 }
func (r *RNG) Chance(pct int) bool { return r.Intn(100) < pct }
func (r *RNG) Fork() *RNG          { return &RNG{s: r.Next()} }

// ---------- Coq literal emitters

func coqBytes(b []byte) string {
	if len(b) == 0 {
		return "[]"
	}
	var sb strings.Builder
	sb.WriteByte('[')
	for i, c := range b {
		if i > 0 {
			sb.WriteByte(';')
		}
		fmt.Fprintf(&sb, "%d", c)
	}
	sb.WriteByte(']')
	return sb.String()
}
func coqStr(s string) string { return coqBytes([]byte(s)) }
func coqBool(b bool) string {
	if b {
		return "true"
	}
	return "false"
}
func coqList(items []string) string {
	if len(items) == 0 {
		return "[]"
	}
	return "[" + strings.Join(items, "; ") + "]"
}
func coqStrList(l []string) string {
	items := make([]string, len(l))
	for i, s := range l {
		items[i] = coqStr(s)
	}
	return coqList(items)
}
func coqNat(n int) string { return fmt.Sprintf("%d%%nat", n) }

// ---------- run output: shards of Coq cases + result.json

type Failure struct {
	Oracle string      `json:"oracle"` // which property-level oracle failed
	What   string      `json:"what"`   // human-readable: expected vs observed
	Case   interface{} `json:"case"`   // the concrete input / history (replayable)
	Sig    string      `json:"sig"`    // signature used to match known findings
}

type Out struct {
	Property    string
	Dir         string
	Imports     string // Coq import line(s) for shards
	CaseType    string // Coq type of a case
	CheckFn     string // Coq function case -> bool
	ShardSize   int
	cases       []string
	caseJSON    []interface{}
	distinct    map[string]bool
	Evaluations int
	Rule        string
	Samples     []interface{}
	Failures    []Failure
	Stats       map[string]int
	Extra       map[string]interface{}
	MaxSamples  int
}

func NewOut(prop, dir string) *Out {
	return &Out{Property: prop, Dir: dir, ShardSize: 400, distinct: map[string]bool{},
		Stats: map[string]int{}, Extra: map[string]interface{}{}, MaxSamples: 6}
}

// AddCase registers one correspondence case (Coq term) with a JSON description for replay.
// key identifies the case for the distinct count; nontrivial says whether it counts.
func (o *Out) AddCase(coqTerm string, desc interface{}, key string, nontrivial bool) {
	o.cases = append(o.cases, coqTerm)
	o.caseJSON = append(o.caseJSON, desc)
	o.Evaluations++
	if nontrivial {
		o.distinct[key] = true
	}
	if len(o.Samples) < o.MaxSamples && nontrivial && (o.Evaluations%97 == 1 || len(o.Samples) == 0) {
		o.Samples = append(o.Samples, desc)
	}
}

// Count an evaluation that has no Coq case (pure L2 oracle run).
func (o *Out) CountEval(key string, nontrivial bool) {
	o.Evaluations++
	if nontrivial {
		o.distinct[key] = true
	}
}

func (o *Out) Fail(oracle, what, sig string, c interface{}) {
	if len(o.Failures) < 50 {
		o.Failures = append(o.Failures, Failure{Oracle: oracle, What: what, Case: c, Sig: sig})
	}
	o.Stats["l2_failures"]++
}

func (o *Out) Stat(k string) { o.Stats[k]++ }

func (o *Out) Finish() {
	must(os.MkdirAll(o.Dir, 0o755))
	var shards []string
	for i := 0; i*o.ShardSize < len(o.cases); i++ {
		lo, hi := i*o.ShardSize, (i+1)*o.ShardSize
		if hi > len(o.cases) {
			hi = len(o.cases)
		}
		name := fmt.Sprintf("shard_%s_%04d.v", o.Property, i)
		var sb strings.Builder
		sb.WriteString(o.Imports + "\n")
		sb.WriteString("Open Scope N_scope.\n")
		fmt.Fprintf(&sb, "Definition cases : list %s := [\n", o.CaseType)
		for j := lo; j < hi; j++ {
			sb.WriteString("  ")
			sb.WriteString(o.cases[j])
			if j+1 < hi {
				sb.WriteString(";")
			}
			sb.WriteString("\n")
		}
		sb.WriteString("].\n")
		fmt.Fprintf(&sb, "Definition M := Eval vm_compute in mismatches %s cases.\nPrint M.\n", o.CheckFn)
		must(os.WriteFile(filepath.Join(o.Dir, name), []byte(sb.String()), 0o644))
		shards = append(shards, name)
	}
	keys := make([]string, 0, len(o.Stats))
	for k := range o.Stats {
		keys = append(keys, k)
	}
	sort.Strings(keys)
	res := map[string]interface{}{
		"property":            o.Property,
		"evaluations":         o.Evaluations,
		"distinct_nontrivial": len(o.distinct),
		"rule":                o.Rule,
		"samples":             o.Samples,
		"failures":            o.Failures,
		"stats":               o.Stats,
		"shards":              shards,
		"shard_size":          o.ShardSize,
		"ncases":              len(o.cases),
		"extra":               o.Extra,
	}
	b, err := json.MarshalIndent(res, "", " ")
	must(err)
	must(os.WriteFile(filepath.Join(o.Dir, "result.json"), b, 0o644))
	// case descriptions, one JSON per line, index-aligned with shards (for replay files)
	f, err := os.Create(filepath.Join(o.Dir, "cases.jsonl"))
	must(err)
	enc := json.NewEncoder(f)
	for _, c := range o.caseJSON {
		must(enc.Encode(c))
	}
	must(f.Close())
}

func must(err error) {
	if err != nil {
		fmt.Fprintln(os.Stderr, "harness error:", err)
		os.Exit(3)
	}
}

// byteList renders bytes as a JSON-friendly int slice (raw bytes may be non-UTF-8).
func byteList(b []byte) []int {
	r := make([]int, len(b))
	for i, c := range b {
		r[i] = int(c)
	}
	return r
}
func strsBytes(l []string) [][]int {
	r := make([][]int, len(l))
	for i, s := range l {
		r[i] = byteList([]byte(s))
	}
	return r
}

// replayIndex: the index of the generated case a replay file names (case.index), -1 when there is no
// replay file. Runners whose cases are generated as `for i { r := rng.Fork(); ... }` replay one case by
// running the loop with the seed and tier of the file and skipping every other index.
func replayIndex(replay string) int {
	if replay == "" {
		return -1
	}
	b, err := os.ReadFile(replay)
	must(err)
	var rp struct {
		Case struct {
			Index *int `json:"index"`
		} `json:"case"`
	}
	must(json.Unmarshal(b, &rp))
	if rp.Case.Index == nil {
		fmt.Println("replay file names no single case (a probe or stress run): repeating the whole run with its seed and tier")
		return -1
	}
	return *rp.Case.Index
}
