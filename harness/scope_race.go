package main

// Targeted race families added to the C11 / C12 harnesses (L2 oracles only).

import (
	"fmt"
	"runtime"
	"sync"
	"sync/atomic"
	"time"

	"github.com/goatcms/goatcore/app"
	"github.com/goatcms/goatcore/app/scope"
	"github.com/goatcms/goatcore/app/scope/contextscope"
)

// ---------- C11: "Close is waiting; a worker does DoneTask immediately followed by AddTasks(1)"
//
// Runs under GOMAXPROCS(1): the worker's DoneTask();AddTasks(1) cannot be separated by the woken
// Close goroutine (no scheduling point in between), so the re-added task is accepted BEFORE the wait
// can return and the oracle is exact: the commit/rollback decision (first post-wait event, stamped by
// a listener) must not be stamped between "accepted" and the stamp taken just before the task's own
// DoneTask.  The child variant replaces the task by NewChild / child.Close (AfterClose stamp).
func c11WaitRecheck(o *Out, rng *RNG, rounds int) {
	old := runtime.GOMAXPROCS(1)
	defer runtime.GOMAXPROCS(old)
	for i := 0; i < rounds; i++ {
		variant := rng.Intn(2) // 0 task, 1 child
		extra := rng.Intn(3)   // tasks held by main and released before the worker runs
		var seq int64
		var decide, accepted, finished int64
		s := scope.New(scope.Params{})
		stampDecide := func(d interface{}) error {
			// a child's Close reaches this listener too (ancestors first): only s's own decision counts
			if sc, ok := d.(app.Scope); ok && sc.SID() == s.SID() {
				atomic.CompareAndSwapInt64(&decide, 0, atomic.AddInt64(&seq, 1))
			}
			return nil
		}
		s.On(app.BeforeCommitEvent, stampDecide)
		s.On(app.BeforeRollbackEvent, stampDecide)
		s.AddTasks(1) // the worker's first task
		for k := 0; k < extra; k++ {
			s.AddTasks(1)
		}
		closed := make(chan struct{})
		var closePanic interface{}
		go func() {
			defer close(closed)
			defer func() { closePanic = recover() }()
			s.Close()
		}()
		for k := 0; k < 3; k++ {
			runtime.Gosched() // the closer runs until it parks in the wait
		}
		for k := 0; k < extra; k++ {
			s.DoneTask()
		}
		wdone := make(chan struct{})
		var workerPanic interface{}
		go func() {
			defer close(wdone)
			defer func() { workerPanic = recover() }()
			if variant == 0 {
				s.DoneTask()
				err := s.AddTasks(1)
				if err == nil {
					atomic.StoreInt64(&accepted, atomic.AddInt64(&seq, 1))
				}
				runtime.Gosched() // let the woken closer run
				runtime.Gosched()
				if err == nil {
					atomic.StoreInt64(&finished, atomic.AddInt64(&seq, 1))
					s.DoneTask()
				}
			} else {
				s.DoneTask()
				ch := scope.NewChild(s, scope.ChildParams{})
				atomic.StoreInt64(&accepted, atomic.AddInt64(&seq, 1))
				ch.On(app.AfterCloseEvent, func(interface{}) error {
					atomic.StoreInt64(&finished, atomic.AddInt64(&seq, 1))
					return nil
				})
				runtime.Gosched()
				runtime.Gosched()
				ch.Close()
			}
		}()
		desc := map[string]interface{}{"family": "wait-recheck", "variant": variant, "extra_tasks": extra, "round": i}
		hang := false
		for _, c := range []chan struct{}{wdone, closed} {
			deadline := time.Now().Add(5 * time.Second)
			for waiting := true; waiting; {
				select {
				case <-c:
					waiting = false
				default:
					if time.Now().After(deadline) {
						hang = true
						waiting = false
					}
					runtime.Gosched()
				}
			}
		}
		o.CountEval(fmt.Sprintf("recheck:%d:%d", variant, extra), true)
		o.Stat("wait_recheck_rounds")
		if hang {
			o.Fail("no_hang", "wait-recheck round did not finish", "hang", desc)
			return
		}
		a, d, f := atomic.LoadInt64(&accepted), atomic.LoadInt64(&decide), atomic.LoadInt64(&finished)
		desc["stamps"] = map[string]int64{"accepted": a, "decide": d, "task_or_child_finished": f}
		if closePanic != nil || workerPanic != nil {
			o.Fail("no_panic", fmt.Sprintf("wait-recheck round panicked: close=%v worker=%v", closePanic, workerPanic), "panic", desc)
		}
		if a != 0 && d != 0 && a < d && (f == 0 || d < f) {
			o.Fail("waits", fmt.Sprintf("Close passed its wait (decision stamp %d) while a task/child accepted before (stamp %d) was still outstanding (finished at stamp %d)", d, a, f), "waits_recheck", desc)
		}
	}
}

// ---------- C12: NewChild racing with the parent's end

// endsAtCheck kills its context right after its k-th IsDone call has read the flag.
type endsAtCheck struct {
	app.ContextScope
	left int32
	how  int // 0 Kill, 1 Stop, 2 AppendError
}

func (c *endsAtCheck) IsDone() bool {
	done := c.ContextScope.IsDone()
	if atomic.AddInt32(&c.left, -1) == 0 {
		switch c.how {
		case 0:
			c.ContextScope.Kill()
		case 1:
			c.ContextScope.Stop()
		default:
			c.ContextScope.AppendError(idErr(7))
		}
	}
	return done
}

func c12ChildRaceOracles(o *Out, parent app.Scope, child *app.Scope, panics *int32, desc map[string]interface{}, wantErr bool) {
	res := make(chan error, 1)
	var closePanic interface{}
	go func() {
		defer func() {
			if r := recover(); r != nil {
				closePanic = r
				res <- nil
			}
		}()
		res <- parent.Close()
	}()
	select {
	case err := <-res:
		if closePanic != nil {
			atomic.AddInt32(panics, 1)
		} else if (err != nil) != wantErr {
			o.Fail("close_iff_nonempty", fmt.Sprintf("parent.Close()!=nil is %v, errors expected: %v", err != nil, wantErr), "close_result", desc)
		}
	case <-time.After(5 * time.Second):
		o.Fail("child_of_done", "parent.Close() blocked: the counter is not back to zero after the child was closed", "child_race_hang", desc)
		return
	}
	if n := atomic.LoadInt32(panics); n != 0 {
		o.Fail("child_of_done", fmt.Sprintf("%d panics while a child was created and closed during the parent's end", n), "child_race_panic", desc)
	}
}

func c12ChildRace(o *Out, rng *RNG, rounds int) {
	// forced: the parent ends exactly at its k-th IsDone call (k = 1 is the one NewChild/AddTasks makes)
	for k := 1; k <= 3; k++ {
		for how := 0; how < 3; how++ {
			for iso := 0; iso < 2; iso++ {
				ctx := &endsAtCheck{ContextScope: contextscope.New(), how: how}
				parent := scope.New(scope.Params{ContextScope: ctx})
				atomic.StoreInt32(&ctx.left, int32(k))
				for j := 1; j < k; j++ {
					parent.IsDone()
				}
				var panics int32
				func() {
					defer func() {
						if r := recover(); r != nil {
							atomic.AddInt32(&panics, 1)
						}
					}()
					var ch app.Scope
					if iso == 1 {
						ch = scope.NewChild(parent, scope.ChildParams{ContextScope: contextscope.NewIsolated(parent)})
					} else {
						ch = scope.NewChild(parent, scope.ChildParams{})
					}
					ch.Close()
				}()
				desc := map[string]interface{}{"family": "child-race-forced", "k": k, "how": how, "isolated": iso == 1}
				o.CountEval(fmt.Sprintf("childforced:%d:%d:%d", k, how, iso), true)
				o.Stat("child_race_forced")
				c12ChildRaceOracles(o, parent, nil, &panics, desc, how != 1)
			}
		}
	}
	// free-running: spin-start barrier, GOMAXPROCS sweep
	old := runtime.GOMAXPROCS(0)
	defer runtime.GOMAXPROCS(old)
	sweep := []int{1, 2, 4, old}
	for i := 0; i < rounds; i++ {
		if i%(rounds/len(sweep)+1) == 0 {
			runtime.GOMAXPROCS(sweep[(i/(rounds/len(sweep)+1))%len(sweep)])
		}
		how := rng.Intn(3)
		iso := rng.Chance(30)
		nch := 1 + rng.Intn(3)
		parent := scope.New(scope.Params{})
		var panics, ready, goFlag int32
		var wg sync.WaitGroup
		spin := func() {
			atomic.AddInt32(&ready, 1)
			for atomic.LoadInt32(&goFlag) == 0 {
				runtime.Gosched()
			}
		}
		guard := func(f func()) {
			defer wg.Done()
			defer func() {
				if r := recover(); r != nil {
					atomic.AddInt32(&panics, 1)
				}
			}()
			spin()
			f()
		}
		for c := 0; c < nch; c++ {
			wg.Add(1)
			go guard(func() {
				var ch app.Scope
				if iso {
					ch = scope.NewChild(parent, scope.ChildParams{ContextScope: contextscope.NewIsolated(parent)})
				} else {
					ch = scope.NewChild(parent, scope.ChildParams{})
				}
				ch.Close()
			})
		}
		wg.Add(1)
		go guard(func() {
			switch how {
			case 0:
				parent.Kill()
			case 1:
				parent.Stop()
			default:
				parent.AppendError(idErr(7))
			}
		})
		for atomic.LoadInt32(&ready) != int32(nch+1) {
			runtime.Gosched()
		}
		atomic.StoreInt32(&goFlag, 1)
		wg.Wait()
		desc := map[string]interface{}{"family": "child-race", "how": how, "isolated": iso, "children": nch, "round": i, "gomaxprocs": runtime.GOMAXPROCS(0)}
		o.CountEval(fmt.Sprintf("childrace:%d:%v:%d", how, iso, nch), true)
		o.Stat("child_race_rounds")
		c12ChildRaceOracles(o, parent, nil, &panics, desc, how != 1)
	}
}
