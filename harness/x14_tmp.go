package main

import (
	"fmt"
	"time"

	"github.com/goatcms/goatcore/app"
	"github.com/goatcms/goatcore/app/gio"
	"github.com/goatcms/goatcore/app/modules/pipelinem/pipservices"
	"github.com/goatcms/goatcore/app/modules/pipelinem/pipservices/namespaces"
	"github.com/goatcms/goatcore/app/scope"
	"github.com/goatcms/goatcore/app/scope/contextscope"
	"github.com/goatcms/goatcore/app/terminal/termexec"
)

func init() { runners["X14"] = runX14 }

func dump(pa *pipApp) {
	ev, mx, h := pa.log.snapshot()
	for _, e := range ev {
		fmt.Printf("  %d %s %s %v\n", e.Seq, e.Kind, e.ID, e.OK)
	}
	fmt.Println("  maxInside", mx, "hangs", h)
}

func runX14(o *Out, rng *RNG, tier string, replay string) {
	pa, err := newPipApp()
	if err != nil {
		panic(err)
	}
	ns := namespaces.NewNamespaces(pipservices.NamasepacesParams{})
	iso := func(root app.Scope, name string) app.Scope {
		return scope.NewChild(root, scope.ChildParams{ContextScope: contextscope.NewIsolated(root.BaseContextScope()), Name: name})
	}
	{
		fmt.Println("E1: nested spawn blocks? spawner a: begin; spawn c {gate g; end}; end")
		pa.log.reset("e1")
		root := scope.New(scope.Params{})
		mgr, _ := pa.tasksUnit.FromScope(root)
		sa := iso(root, "a")
		body := "begin e1.a.0\nspawn e1.a.1 --name=c " + refQuote1("--body=gate e1.c.0\nend e1.c.1") + "\nend e1.a.2\n"
		fmt.Println("run:", pa.runner.Run(pa.pip(sa, ns, "a", nil, body)))
		time.Sleep(200 * time.Millisecond)
		dump(pa)
		fmt.Println("names", mgr.Names())
		pa.log.release("e1.c.0")
		e, p, h := guarded(3*time.Second, mgr.Wait)
		fmt.Println("mgr.Wait", e, p, h)
		dump(pa)
		fmt.Println("sa.Close", sa.Close())
		fmt.Println("root.Close", root.Close())
	}
	{
		fmt.Println("E2: nested failure fails spawner; sibling top-level b independent; w waits a")
		pa.log.reset("e2")
		root := scope.New(scope.Params{})
		mgr, _ := pa.tasksUnit.FromScope(root)
		sa, sb, sw, sx := iso(root, "a"), iso(root, "b"), iso(root, "w"), iso(root, "x")
		body := "begin e2.a.0\nspawn e2.a.1 --name=c " + refQuote1("--body=fail e2.c.0\nend e2.c.1") + "\nend e2.a.2\n"
		fmt.Println("run a:", pa.runner.Run(pa.pip(sa, ns, "a", nil, body)))
		fmt.Println("run b:", pa.runner.Run(pa.pip(sb, ns, "b", nil, "begin e2.b.0\nend e2.b.1\n")))
		fmt.Println("run w:", pa.runner.Run(pa.pip(sw, ns, "w", []string{"b", "a"}, "begin e2.w.0\n")))
		fmt.Println("run x (unknown wait):", pa.runner.Run(pa.pip(sx, ns, "x", []string{"b", "zz"}, "begin e2.x.0\n")))
		fmt.Println("run x (self wait):", pa.runner.Run(pa.pip(sx, ns, "x", []string{"x"}, "begin e2.x.0\n")))
		fmt.Println("run b dup:", pa.runner.Run(pa.pip(sx, ns, "b", nil, "begin e2.x.0\n")))
		e, p, h := guarded(3*time.Second, mgr.Wait)
		fmt.Println("mgr.Wait", e != nil, p, h)
		dump(pa)
		fmt.Println("names", mgr.Names())
		for _, n := range mgr.Names() {
			t, _ := mgr.Get(n)
			fmt.Println("  task", n, "errors", len(t.Errors()), "status", t.Status())
		}
		fmt.Println("root done?", root.IsDone(), "root errs", len(root.Errors()))
		for _, s := range []app.Scope{sa, sb, sw, sx} {
			e, p, h := guarded(time.Second, s.Close)
			fmt.Println("close", e != nil, p, h)
		}
		fmt.Println("root.Close", root.Close())
	}
	try := func(tag, script string, pre func(root app.Scope)) {
		fmt.Println("E-try", tag)
		pa.log.reset(tag)
		root := scope.New(scope.Params{})
		mgr, _ := pa.tasksUnit.FromScope(root)
		if pre != nil {
			pre(root)
		}
		ctx := gio.NewIOContext(root, gio.NewIO(gio.IOParams{In: gio.NewInput(nil), Out: gio.NewNilOutput(), Err: gio.NewNilOutput(), CWD: pa.cwd}))
		e, p, h := guarded(3*time.Second, func() error {
			return termexec.RunString(termexec.NewRunCtx(termexec.RunCtxParams{Application: pa.mapp, Ctx: ctx, Commands: pa.mapp.Terminal()}), script)
		})
		fmt.Println("RunString", e, p, h)
		e, p, h = guarded(3*time.Second, mgr.Wait)
		fmt.Println("mgr.Wait", e != nil, p, h)
		e, p, h = guarded(3*time.Second, root.Wait)
		fmt.Println("root.Wait", e != nil, p, h)
		dump(pa)
		fmt.Println("names", mgr.Names())
		for _, n := range mgr.Names() {
			t, _ := mgr.Get(n)
			fmt.Println("  task", n, "errors", len(t.Errors()), "status", t.Status())
		}
		fmt.Println("root errs", len(root.Errors()), "app errs", len(pa.mapp.Scopes().App().Errors()))
	}
	q := refQuote1
	try("t1", "pip:try --name=T "+q("--body=begin t1.b.0\nspawn t1.b.1 --name=n "+q("--body=begin t1.n.0\nfail t1.n.1")+"\nend t1.b.2")+" "+q("--success=begin t1.s.0")+" "+q("--fail=begin t1.f.0")+" "+q("--finally=begin t1.y.0"), nil)
	try("t2", "pip:try --name=T "+q("--body=begin t2.b.0")+" "+q("--success=begin t2.s.0\nfail t2.s.1")+" "+q("--fail=begin t2.f.0")+" "+q("--finally=begin t2.y.0"), nil)
	if tier == "thorough" {
		// handler submission rejected: name T:finally already registered
		try("t3", "pip:try --name=T "+q("--body=begin t3.b.0")+" "+q("--success=begin t3.s.0")+" "+q("--finally=begin t3.y.0"), func(root app.Scope) {
			fmt.Println("pre:", pa.runner.Run(pa.pip(root, namespaces.NewNamespaces(pipservices.NamasepacesParams{Task: "T"}), "finally", nil, "begin t3.p.0\n")))
		})
	}
}
