package main

// C17 at the level of the terminal loop (anchor app/terminal/termexec/run.go): "reading stops
// exactly at the command's newline so the next call returns the next command" must also hold for
// the loop that feeds ReadArguments - the command it dispatches shares the input, so a command
// that reads its own payload from ctx.IO().In() (as the ssh/container sandboxes do when they
// forward standard input) must find the bytes that follow its command line, and the loop must
// carry on after what the command consumed.

import (
	"fmt"
	"strings"
	"sync"
	"time"

	"github.com/goatcms/goatcore/app"
	"github.com/goatcms/goatcore/app/gio"
	"github.com/goatcms/goatcore/app/goatapp"
	"github.com/goatcms/goatcore/app/terminal"
	"github.com/goatcms/goatcore/app/terminal/termexec"
	"github.com/goatcms/goatcore/varutil"
)

func c17LoopProbe(o *Out, rng *RNG, rounds int) {
	words := []string{"a", "b=c", "x y", "q\"uote", "tab\tin", "\xc3\xa9", "--k=v", "z"}
	for round := 0; round < rounds; round++ {
		nLines := 2 + rng.Intn(6)
		type line struct {
			name string
			args []string
		}
		lines := make([]line, nLines)
		var script strings.Builder
		for i := range lines {
			name := fmt.Sprintf("c%d", rng.Intn(3))
			if rng.Chance(30) {
				name = "eat"
			}
			var args []string
			for k := rng.Intn(3); k > 0; k-- {
				args = append(args, words[rng.Intn(len(words))])
			}
			lines[i] = line{name, args}
			script.WriteString(name)
			for _, a := range args {
				script.WriteByte(' ')
				if strings.ContainsAny(a, " \t\"") || rng.Chance(30) {
					script.WriteString(refQuote1(a))
				} else {
					script.WriteString(a)
				}
			}
			script.WriteByte('\n')
		}
		// expectation: "eat" swallows the following line (as arguments), which is then not run
		var wantRun []string
		var wantEaten [][]string
		for i := 0; i < nLines; i++ {
			wantRun = append(wantRun, lines[i].name)
			if lines[i].name == "eat" && i+1 < nLines {
				wantEaten = append(wantEaten, append([]string{lines[i+1].name}, lines[i+1].args...))
				i++
			} else if lines[i].name == "eat" {
				wantEaten = append(wantEaten, nil)
			}
		}
		var mu sync.Mutex
		var ran []string
		var eaten [][]string
		mk := func(name string) app.TerminalCommand {
			return terminal.NewCommand(terminal.CommandParams{Name: name, Callback: func(a app.App, ctx app.IOContext) error {
				mu.Lock()
				ran = append(ran, name)
				mu.Unlock()
				if name == "eat" {
					args, _, err := varutil.ReadArguments(ctx.IO().In())
					mu.Lock()
					eaten = append(eaten, args)
					mu.Unlock()
					if err != nil {
						return nil // end of input after the last line
					}
				}
				return nil
			}})
		}
		desc := map[string]interface{}{"op": "runloop", "script": byteList([]byte(script.String()))}
		mapp, err := goatapp.NewMockupApp(goatapp.Params{IO: goatapp.IO{In: gio.NewAppInput(strings.NewReader(script.String()))}})
		must(err)
		rctx := termexec.NewRunCtx(termexec.RunCtxParams{Application: mapp, Ctx: mapp.IOContext(),
			Commands: terminal.NewCommands(mk("c0"), mk("c1"), mk("c2"), mk("eat"))})
		done := make(chan error, 1)
		go func() {
			defer func() {
				if r := recover(); r != nil {
					done <- fmt.Errorf("panic: %v", r)
				}
			}()
			done <- termexec.RunLoop(rctx, "")
		}()
		var loopErr error
		select {
		case loopErr = <-done:
		case <-time.After(20 * time.Second):
			o.Fail("no_hang", "the terminal loop did not finish a script of "+fmt.Sprint(nLines)+" lines", "loop-hang", desc)
			o.CountEval(fmt.Sprintf("loop:%d", round), true)
			continue
		}
		mu.Lock()
		gotRun, gotEaten := append([]string{}, ran...), append([][]string{}, eaten...)
		mu.Unlock()
		okEaten := len(gotEaten) == len(wantEaten)
		for i := 0; okEaten && i < len(wantEaten); i++ {
			okEaten = sameArgs(gotEaten[i], wantEaten[i])
		}
		if loopErr != nil || !sameArgs(gotRun, wantRun) || !okEaten {
			o.Fail("stops_at_newline", fmt.Sprintf("terminal loop over %q: ran %q (want %q), a command reading the shared input got %q (want %q), err=%v",
				script.String(), gotRun, wantRun, gotEaten, wantEaten, loopErr), "loop-overread", desc)
		}
		o.Stat("loop_scripts")
		o.CountEval("loop:"+script.String(), len(wantEaten) > 0)
	}
}
