package main

// C17 at the level of the terminal loop (anchor app/terminal/termexec/run.go): "reading stops
// exactly at the command's newline so the next call returns the next command" must also hold for
// the loop that feeds ReadArguments - the command it dispatches shares the input, so a command
// that reads its own payload from ctx.IO().In() (as the ssh/container sandboxes do when they
// forward standard input) must find the bytes that follow its command line, and the loop must
// carry on after what the command consumed.

import (
	"fmt"
	"strings"
	"sync"
	"time"

	"github.com/goatcms/goatcore/app"
	"github.com/goatcms/goatcore/app/gio"
	"github.com/goatcms/goatcore/app/goatapp"
	"github.com/goatcms/goatcore/app/terminal"
	"github.com/goatcms/goatcore/app/terminal/termexec"
	"github.com/goatcms/goatcore/varutil"
)

func c17LoopProbe(o *Out, rng *RNG, rounds int) {
	words := []string{"a", "b=c", "x y", "q\"uote", "tab\tin", "\xc3\xa9", "--k=v", "z"}
	hangs := 0
	for round := 0; round < rounds; round++ {
		// physical commands of the script: real command lines, and (every tenth) lines that hold no
		// command at all - the loop passes over those, a command that reads the shared input gets
		// them as an empty argument list. Arguments may be quoted, continued on the next line or a
		// heredoc; the last line may lack its newline.
		nLines := 2 + rng.Intn(6)
		type line struct {
			name string // "" = a line without a command
			args []string
		}
		lines := make([]line, nLines)
		var script strings.Builder
		for i := range lines {
			if rng.Chance(10) {
				script.WriteString([]string{"", " ", "\t ", " \\\n "}[rng.Intn(4)])
				script.WriteByte('\n')
				continue
			}
			name := fmt.Sprintf("c%d", rng.Intn(3))
			if rng.Chance(30) {
				name = "eat"
			}
			var args []string
			script.WriteString(name)
			for k := rng.Intn(3); k > 0; k-- {
				if rng.Chance(10) {
					script.WriteString(" \\\n")
				} else {
					script.WriteByte(' ')
				}
				if rng.Chance(12) {
					body := []string{"x", "two\nlines", " padded ", "EO\n\nE OF"}[rng.Intn(4)]
					script.WriteString("h=<<EOF\n" + body + "\nEOF")
					args = append(args, "h="+strings.Trim(body, " \t"))
					continue
				}
				a := words[rng.Intn(len(words))]
				args = append(args, a)
				if strings.ContainsAny(a, " \t\"") || rng.Chance(30) {
					script.WriteString(refQuote1(a))
				} else {
					script.WriteString(a)
				}
			}
			lines[i] = line{name, args}
			if i+1 < nLines || !rng.Chance(25) {
				script.WriteByte('\n')
			}
		}
		// expectation: "eat" swallows the following line (as arguments), which is then not run
		var wantRun []string
		var wantEaten [][]string
		for i := 0; i < nLines; i++ {
			if lines[i].name == "" {
				continue
			}
			wantRun = append(wantRun, lines[i].name)
			if lines[i].name == "eat" && i+1 < nLines && lines[i+1].name != "" {
				wantEaten = append(wantEaten, append([]string{lines[i+1].name}, lines[i+1].args...))
				i++
			} else if lines[i].name == "eat" {
				wantEaten = append(wantEaten, nil)
				i++
			}
		}
		var mu sync.Mutex
		var ran []string
		var eaten [][]string
		mk := func(name string) app.TerminalCommand {
			return terminal.NewCommand(terminal.CommandParams{Name: name, Callback: func(a app.App, ctx app.IOContext) error {
				mu.Lock()
				ran = append(ran, name)
				mu.Unlock()
				if name == "eat" {
					args, _, err := varutil.ReadArguments(ctx.IO().In())
					mu.Lock()
					eaten = append(eaten, args)
					mu.Unlock()
					if err != nil {
						return nil // end of input after the last line
					}
				}
				return nil
			}})
		}
		desc := map[string]interface{}{"op": "runloop", "script": byteList([]byte(script.String()))}
		mapp, err := goatapp.NewMockupApp(goatapp.Params{IO: goatapp.IO{In: gio.NewAppInput(strings.NewReader(script.String()))}})
		must(err)
		rctx := termexec.NewRunCtx(termexec.RunCtxParams{Application: mapp, Ctx: mapp.IOContext(),
			Commands: terminal.NewCommands(mk("c0"), mk("c1"), mk("c2"), mk("eat"))})
		done := make(chan error, 1)
		go func() {
			defer func() {
				if r := recover(); r != nil {
					done <- fmt.Errorf("panic: %v", r)
				}
			}()
			done <- termexec.RunLoop(rctx, "")
		}()
		var loopErr error
		select {
		case loopErr = <-done:
		case <-time.After(20 * time.Second):
			o.Fail("no_hang", "the terminal loop did not finish a script of "+fmt.Sprint(nLines)+" lines", "loop-hang", desc)
			o.CountEval(fmt.Sprintf("loop:%d", round), true)
			if hangs++; hangs >= 3 { // reported; every further hang would cost another 20 s
				return
			}
			continue
		}
		mu.Lock()
		gotRun, gotEaten := append([]string{}, ran...), append([][]string{}, eaten...)
		mu.Unlock()
		okEaten := len(gotEaten) == len(wantEaten)
		for i := 0; okEaten && i < len(wantEaten); i++ {
			okEaten = sameArgs(gotEaten[i], wantEaten[i])
		}
		if loopErr != nil || !sameArgs(gotRun, wantRun) || !okEaten {
			o.Fail("stops_at_newline", fmt.Sprintf("terminal loop over %q: ran %q (want %q), a command reading the shared input got %q (want %q), err=%v",
				script.String(), gotRun, wantRun, gotEaten, wantEaten, loopErr), "loop-overread", desc)
		}
		o.Stat("loop_scripts")
		o.CountEval("loop:"+script.String(), len(wantEaten) > 0)
	}
}

// c17Deps is what a command sees of its arguments (the "command" injector of RunCommand).
type c17Deps struct {
	P0 string `command:"?$0"`
	P1 string `command:"?$1"`
	P2 string `command:"?$2"`
	P3 string `command:"?$3"`
	P4 string `command:"?$4"`
	K  string `command:"?k"`
	N  string `command:"?name"`
}

// c17TermExecProbe drives the entry points of app/terminal/termexec/run.go that the loop probe does
// not: RunCommandFromReader (one command per call from a reader the CALLER keeps: after each call the
// reader must stand exactly behind that command's newline), RunString (the first command of a
// string) and RunCommand (the argument list as it is). In each, the command must see its arguments
// mapped as the property says: $0 = the command's name, $1.. the positional ones in order, named
// ones under their keys.
func c17TermExecProbe(o *Out, rng *RNG, rounds int) {
	words := []string{"a", "b", "x y", "q\"uote", "tab\tin", "\xc3\xa9", "z", "--flag", "-", "new\nline", "back\\slash", ""}
	values := []string{"v", "", "x y", "a=b", "\xc3\xa9\xff", "multi\nline", "--"}
	type line struct {
		src  string   // the command line without its newline
		args []string // name + arguments
	}
	genLine := func() line {
		name := fmt.Sprintf("c%d", rng.Intn(3))
		l := line{src: name, args: []string{name}}
		for k := rng.Intn(5); k > 0; k-- {
			sep := " "
			if rng.Chance(20) {
				sep = []string{"\t", "  ", " \\\n", " \\\n "}[rng.Intn(4)]
			}
			switch r := rng.Intn(10); {
			case r < 5:
				w := words[rng.Intn(len(words))]
				if w == "" || strings.ContainsAny(w, " \t\"\n\\") || rng.Chance(30) {
					l.src += sep + refQuote1(w)
				} else {
					l.src += sep + w
				}
				l.args = append(l.args, w)
			case r < 8:
				key := []string{"k", "name", "--k", "-name", "other"}[rng.Intn(5)]
				v := values[rng.Intn(len(values))]
				l.src += sep + refQuote1(key+"="+v)
				l.args = append(l.args, key+"="+v)
			default:
				key := []string{"k", "name"}[rng.Intn(2)]
				body := []string{"x", "two\nlines", "  padded\t", "", "E O\nEO"}[rng.Intn(5)]
				l.src += sep + key + "=<<EOF\n" + body + "\nEOF"
				l.args = append(l.args, key+"="+strings.Trim(body, " \t"))
			}
		}
		if rng.Chance(15) {
			l.src += []string{" ", "\t", " \\\n"}[rng.Intn(3)]
		}
		return l
	}
	expectDeps := func(args []string) c17Deps {
		sets, _ := c17ExpectInject(args)
		var d c17Deps
		for _, s := range sets {
			switch s[0] {
			case "$0":
				d.P0 = s[1]
			case "$1":
				d.P1 = s[1]
			case "$2":
				d.P2 = s[1]
			case "$3":
				d.P3 = s[1]
			case "$4":
				d.P4 = s[1]
			case "k":
				d.K = s[1]
			case "name":
				d.N = s[1]
			}
		}
		return d
	}
	for round := 0; round < rounds; round++ {
		nLines := 1 + rng.Intn(4)
		lines := make([]line, nLines)
		var script strings.Builder
		ends := make([]int, nLines) // offset just behind the newline of line i
		for i := range lines {
			lines[i] = genLine()
			script.WriteString(lines[i].src)
			script.WriteByte('\n')
			ends[i] = script.Len()
		}
		src := script.String()
		var mu sync.Mutex
		var seen []c17Deps
		mk := func(name string) app.TerminalCommand {
			return terminal.NewCommand(terminal.CommandParams{Name: name, Callback: func(a app.App, ctx app.IOContext) error {
				var d c17Deps
				if err := ctx.Scope().InjectTo(&d); err != nil {
					return err
				}
				mu.Lock()
				seen = append(seen, d)
				mu.Unlock()
				return nil
			}})
		}
		mapp, err := goatapp.NewMockupApp(goatapp.Params{IO: goatapp.IO{In: gio.NewAppInput(strings.NewReader(""))}})
		must(err)
		rctx := termexec.NewRunCtx(termexec.RunCtxParams{Application: mapp, Ctx: mapp.IOContext(),
			Commands: terminal.NewCommands(mk("c0"), mk("c1"), mk("c2"))})
		desc := map[string]interface{}{"op": "termexec", "script": byteList([]byte(src))}
		guarded := func(what string, f func() error) (err error, ok bool) {
			done := make(chan error, 1)
			go func() {
				defer func() {
					if r := recover(); r != nil {
						done <- fmt.Errorf("panic: %v", r)
					}
				}()
				done <- f()
			}()
			select {
			case err = <-done:
				return err, true
			case <-time.After(20 * time.Second):
				o.Fail("no_hang", what+" did not return", "loop-hang", desc)
				return nil, false
			}
		}
		take := func() []c17Deps {
			mu.Lock()
			defer mu.Unlock()
			s := seen
			seen = nil
			return s
		}
		sameDeps := func(got []c17Deps, want ...c17Deps) bool {
			if len(got) != len(want) {
				return false
			}
			for i := range got {
				if got[i] != want[i] {
					return false
				}
			}
			return true
		}
		alive := true
		// (a) RunCommandFromReader, one call per line on one reader
		rd := strings.NewReader(src)
		for i := 0; alive && i < nLines; i++ {
			var eof bool
			err, ok := guarded("RunCommandFromReader", func() (e error) { eof, e = termexec.RunCommandFromReader(rctx, rd); return })
			if !ok {
				alive = false
				break
			}
			got, want := take(), expectDeps(lines[i].args)
			if err != nil || eof || !sameDeps(got, want) {
				o.Fail("inject", fmt.Sprintf("RunCommandFromReader, command %d of %q: the command saw %+v (want %+v), eof=%v err=%v", i, src, got, want, eof, err), "termexec", desc)
				break
			}
			if left := rd.Len(); left != len(src)-ends[i] {
				o.Fail("stops_at_newline", fmt.Sprintf("RunCommandFromReader, command %d of %q: %d bytes are left in the caller's reader, %d follow the command's newline",
					i, src, left, len(src)-ends[i]), "termexec", desc)
				break
			}
		}
		// (b) RunString: the first command only
		if alive {
			err, ok := guarded("RunString", func() error { return termexec.RunString(rctx, src) })
			alive = ok
			if got, want := take(), expectDeps(lines[0].args); ok && (err != nil || !sameDeps(got, want)) {
				o.Fail("inject", fmt.Sprintf("RunString(%q): the command saw %+v (want %+v), err=%v", src, got, want, err), "termexec", desc)
			}
		}
		// ... a string that begins with blanks still runs its first command; one that begins with a
		// newline has an empty first command: nothing runs (that RunString reports an error then is
		// left open)
		if alive {
			err, ok := guarded("RunString", func() error { return termexec.RunString(rctx, " \t"+src) })
			alive = ok
			if got, want := take(), expectDeps(lines[0].args); ok && (err != nil || !sameDeps(got, want)) {
				o.Fail("inject", fmt.Sprintf("RunString(%q): the command saw %+v (want %+v), err=%v", " \t"+src, got, want, err), "termexec", desc)
			}
		}
		if alive {
			lead := []string{"\n", " \n", "\t\n\n"}[rng.Intn(3)]
			_, ok := guarded("RunString", func() error { return termexec.RunString(rctx, lead+src) })
			alive = ok
			if got := take(); ok && len(got) != 0 {
				o.Fail("stops_at_newline", fmt.Sprintf("RunString(%q): the first command is empty, yet a command ran and saw %+v", lead+src, got), "termexec", desc)
			}
		}
		// (c) RunCommand: the argument list as it is
		if alive {
			l := lines[rng.Intn(nLines)]
			in := append([]string{}, l.args...)
			err, ok := guarded("RunCommand", func() error { return termexec.RunCommand(rctx, in) })
			if got, want := take(), expectDeps(l.args); ok && (err != nil || !sameDeps(got, want)) {
				o.Fail("inject", fmt.Sprintf("RunCommand(%q): the command saw %+v (want %+v), err=%v", l.args, got, want, err), "termexec", desc)
			}
		}
		o.Stat("termexec_scripts")
		o.CountEval("termexec:"+src, true)
		if !alive {
			break
		}
	}
}
