// Command harness runs goatcore (built from /repo's working tree through the replace directive in
// go.mod) on generated cases and writes (a) Coq correspondence shards holding the inputs together
// with the implementation's observed outputs, (b) result.json with the property-level (L2) oracle
// verdicts, case counts and samples.
package main

import (
	"flag"
	"fmt"
	"os"
)

type runner func(o *Out, rng *RNG, tier string, replay string)

var runners = map[string]runner{}

func main() {
	if len(os.Args) < 2 {
		fmt.Fprintln(os.Stderr, "usage: harness <property> -seed N -tier quick|thorough -out DIR [-replay FILE]")
		os.Exit(3)
	}
	prop := os.Args[1]
	fs := flag.NewFlagSet(prop, flag.ExitOnError)
	seed := fs.Uint64("seed", 1, "seed")
	tier := fs.String("tier", "quick", "tier")
	out := fs.String("out", "", "output dir")
	replay := fs.String("replay", "", "replay file")
	fs.Parse(os.Args[2:])
	r, ok := runners[prop]
	if !ok {
		fmt.Fprintln(os.Stderr, "unknown property", prop)
		os.Exit(3)
	}
	o := NewOut(prop, *out)
	r(o, NewRNG(*seed), *tier, *replay)
	o.Finish()
}
