package main

// Shared set-up for C14 / C16: the real mock application (terminal, commons, oc and pipeline
// modules, exactly as the repository's own tests build it) with probe commands registered in the
// terminal.  Every probe command logs an entry event and an exit event into one mutex-protected
// event log with a global sequence number.

import (
	"fmt"
	"strings"
	"sync"
	"time"

	"github.com/goatcms/goatcore/app"
	"github.com/goatcms/goatcore/app/bootstrap"
	"github.com/goatcms/goatcore/app/gio"
	"github.com/goatcms/goatcore/app/goatapp"
	"github.com/goatcms/goatcore/app/modules/commonm"
	"github.com/goatcms/goatcore/app/modules/ocm"
	"github.com/goatcms/goatcore/app/modules/pipelinem"
	"github.com/goatcms/goatcore/app/modules/pipelinem/pipservices"
	"github.com/goatcms/goatcore/app/modules/pipelinem/pipservices/namespaces"
	"github.com/goatcms/goatcore/app/modules/terminalm"
	"github.com/goatcms/goatcore/app/terminal"
	"github.com/goatcms/goatcore/filesystem"
	"github.com/goatcms/goatcore/filesystem/filespace/memfs"
	"github.com/goatcms/goatcore/varutil/goaterr"
)

// pEvent is one probe event.  Kind: "B" command entry, "E" command exit (OK says how it returns).
type pEvent struct {
	Seq  int    `json:"seq"`
	Kind string `json:"kind"`
	ID   string `json:"id"` // "<case>.<task>.<index>"
	OK   bool   `json:"ok"`
}

type probeLog struct {
	mu     sync.Mutex
	epoch  string // events whose id does not start with "<epoch>." are dropped (stale goroutines)
	events []pEvent
	inside map[string]bool // ids currently between B and E
	maxIn  int             // max number of commands simultaneously inside (overlap witness)
	gates  map[string]chan struct{}
	hangs  int
}

func (l *probeLog) reset(epoch string) {
	l.mu.Lock()
	defer l.mu.Unlock()
	l.epoch = epoch
	l.events = nil
	l.inside = map[string]bool{}
	l.maxIn = 0
	l.gates = map[string]chan struct{}{}
	l.hangs = 0
}

func (l *probeLog) add(kind, id string, ok bool) {
	l.mu.Lock()
	defer l.mu.Unlock()
	if !strings.HasPrefix(id, l.epoch+".") {
		return
	}
	l.events = append(l.events, pEvent{Seq: len(l.events), Kind: kind, ID: id, OK: ok})
	if kind == "B" {
		l.inside[id] = true
		if len(l.inside) > l.maxIn {
			l.maxIn = len(l.inside)
		}
	} else {
		delete(l.inside, id)
	}
}

func (l *probeLog) gate(id string) chan struct{} {
	l.mu.Lock()
	defer l.mu.Unlock()
	g, ok := l.gates[id]
	if !ok {
		g = make(chan struct{})
		l.gates[id] = g
	}
	return g
}

// release opens gate id (idempotent; a gate may be released before it is reached).
func (l *probeLog) release(id string) {
	g := l.gate(id)
	l.mu.Lock()
	defer l.mu.Unlock()
	select {
	case <-g:
	default:
		close(g)
	}
}

func (l *probeLog) snapshot() ([]pEvent, int, int) {
	l.mu.Lock()
	defer l.mu.Unlock()
	return append([]pEvent{}, l.events...), l.maxIn, l.hangs
}

// isInside reports whether command id has logged B but not yet E.
func (l *probeLog) isInside(id string) bool {
	l.mu.Lock()
	defer l.mu.Unlock()
	return l.inside[id]
}

type pipApp struct {
	mapp      *goatapp.MockupApp
	runner    pipservices.Runner
	tasksUnit pipservices.TasksUnit
	cwd       filesystem.Filespace
	log       *probeLog
	gateTmo   time.Duration
}

func newPipApp() (pa *pipApp, err error) {
	pa = &pipApp{log: &probeLog{}, gateTmo: 20 * time.Second}
	pa.log.reset("none")
	if pa.mapp, err = goatapp.NewMockupApp(goatapp.Params{}); err != nil {
		return nil, err
	}
	bootstraper := bootstrap.NewBootstrap(pa.mapp)
	if err = goaterr.ToError(goaterr.AppendError(nil,
		bootstraper.Register(terminalm.NewModule()),
		bootstraper.Register(commonm.NewModule()),
		bootstraper.Register(ocm.NewModule()),
		bootstraper.Register(pipelinem.NewModule()),
	)); err != nil {
		return nil, err
	}
	if err = bootstraper.Init(); err != nil {
		return nil, err
	}
	var deps struct {
		Runner    pipservices.Runner    `dependency:"PipRunner"`
		TasksUnit pipservices.TasksUnit `dependency:"PipTasksUnit"`
	}
	if err = pa.mapp.DependencyProvider().InjectTo(&deps); err != nil {
		return nil, err
	}
	pa.runner, pa.tasksUnit = deps.Runner, deps.TasksUnit
	if pa.cwd, err = memfs.NewFilespace(); err != nil {
		return nil, err
	}
	term := pa.mapp.Terminal()
	argID := func(ctx app.IOContext) string {
		var a struct {
			ID string `command:"?$1"`
		}
		if e := ctx.Scope().InjectTo(&a); e != nil {
			return "?"
		}
		return a.ID
	}
	plain := func(name string) app.TerminalCommand {
		return terminal.NewCommand(terminal.CommandParams{Name: name, Callback: func(a app.App, ctx app.IOContext) error {
			id := argID(ctx)
			pa.log.add("B", id, true)
			pa.log.add("E", id, true)
			return nil
		}})
	}
	term.SetCommand(plain("begin"), plain("end"))
	term.SetCommand(terminal.NewCommand(terminal.CommandParams{Name: "fail", Callback: func(a app.App, ctx app.IOContext) error {
		id := argID(ctx)
		pa.log.add("B", id, true)
		pa.log.add("E", id, false)
		return fmt.Errorf("probe failure %s", id)
	}}))
	term.SetCommand(terminal.NewCommand(terminal.CommandParams{Name: "gate", Callback: func(a app.App, ctx app.IOContext) error {
		id := argID(ctx)
		pa.log.add("B", id, true)
		select {
		case <-pa.log.gate(id):
		case <-time.After(pa.gateTmo):
			pa.log.mu.Lock()
			pa.log.hangs++
			pa.log.mu.Unlock()
		}
		pa.log.add("E", id, true)
		return nil
	}}))
	// spawn <id> --name=.. --body=.. [--wait=..]: logs entry, runs the registered pip:run callback on
	// the very same command context (same scope, same named arguments), logs exit with its result.
	pipRun := term.Command("pip:run")
	if pipRun == nil {
		return nil, fmt.Errorf("pip:run is not registered")
	}
	term.SetCommand(terminal.NewCommand(terminal.CommandParams{Name: "spawn", Callback: func(a app.App, ctx app.IOContext) error {
		id := argID(ctx)
		pa.log.add("B", id, true)
		e := pipRun.Callback()(a, ctx)
		pa.log.add("SR", id, e == nil) // the submission result, logged right after pip:run returned
		return e
	}}))
	// fork <id> --name=a --body=.. --name2=b --body2=..: ONE command that submits TWO nested tasks through
	// Runner.Run on its own command scope (what pip:run does, twice, without waiting in between), waits
	// until the first one has finished and returns nil.  The two tasks run concurrently.
	term.SetCommand(terminal.NewCommand(terminal.CommandParams{Name: "fork", Callback: func(a app.App, ctx app.IOContext) error {
		var d struct {
			ID    string `command:"?$1"`
			Name  string `command:"?name"`
			Body  string `command:"?body"`
			Name2 string `command:"?name2"`
			Body2 string `command:"?body2"`

			NamespacesUnit pipservices.NamespacesUnit `dependency:"PipNamespacesUnit"`
		}
		if e := goaterr.ToError(goaterr.AppendError(nil, ctx.Scope().InjectTo(&d), a.InjectTo(&d))); e != nil {
			return e
		}
		pa.log.add("B", d.ID, true)
		ns, e := d.NamespacesUnit.FromScope(ctx.Scope(), namespaces.NewNamespaces(pipservices.NamasepacesParams{}))
		if e != nil {
			return e
		}
		e1 := pa.runner.Run(pa.pip(ctx.Scope(), ns, d.Name, nil, d.Body))
		e2 := pa.runner.Run(pa.pip(ctx.Scope(), ns, d.Name2, nil, d.Body2))
		pa.log.add("SR", d.ID, e1 == nil && e2 == nil)
		if e1 == nil {
			if mgr, e := pa.tasksUnit.FromScope(ctx.Scope()); e == nil {
				full := d.Name
				if ns.Task() != "" {
					full = ns.Task() + ":" + d.Name
				}
				if t, ok := mgr.Get(full); ok {
					guarded(5*time.Second, func() error { t.Wait(); return nil })
				}
			}
		}
		pa.log.add("FK", d.ID, true) // the command returns now (nil: the error is in the shared context)
		return goaterr.ToError(goaterr.AppendError(nil, e1, e2))
	}}))
	return pa, nil
}

// pip builds a submission whose body is the given script.
func (pa *pipApp) pip(scp app.Scope, ns pipservices.Namespaces, name string, wait []string, body string) pipservices.Pip {
	return pipservices.Pip{
		Context: pipservices.PipContext{
			In:    gio.NewInput(strings.NewReader(body)),
			Out:   gio.NewNilOutput(),
			Err:   gio.NewNilOutput(),
			CWD:   pa.cwd,
			Scope: scp,
		},
		Name:       name,
		Namespaces: ns,
		Sandbox:    "self",
		Wait:       wait,
	}
}

// guarded runs f, turning a panic into (true, nil) and a time-out into hang.
func guarded(tmo time.Duration, f func() error) (err error, panicked bool, hang bool) {
	type r struct {
		err error
		p   bool
	}
	ch := make(chan r, 1)
	go func() {
		defer func() {
			if x := recover(); x != nil {
				ch <- r{nil, true}
			}
		}()
		ch <- r{f(), false}
	}()
	select {
	case x := <-ch:
		return x.err, x.p, false
	case <-time.After(tmo):
		return nil, false, true
	}
}
