package main

// C05 — freshness of the stored bytes when the AMBIENT STATE of the writer repeats.
//
// "Two writes of the same data give different stored bytes" quantifies over all writes: also over
// two writes whose surroundings happen to be the same. A nonce that is drawn from anything but fresh
// randomness - the process-wide math/rand generator, a generator seeded from the clock, the clock
// itself, a counter, the pid, a digest of the data - differs between two writes of ONE undisturbed
// run only because that source moved on in between; the nonce registry and the plain child processes
// of crossProcessFresh let every one of these sources vary, so they cannot tell it from crypto/rand.
// Here the sources are pinned and the writes repeated:
//
//   ambientTwins   two child processes that start in the same ambient state perform the same first
//                  writes: math/rand is not auto-seeded (GODEBUG=randautoseed=0), the clock is the
//                  runtime's fake clock (the harness built once more with the build tag `faketime`:
//                  time stands still while the process computes and both start at the same instant),
//                  both are pid 1 of a pid namespace of their own, same binary, arguments,
//                  environment and working directory. All that may still differ between them is what
//                  the operating system's random source hands out - so no stored value of one may be
//                  a stored value of the other, nor occur twice within one of them.
//   reseedFresh    in this process: another component of the application puts the process-wide
//                  math/rand generator into a state it was in before (rand.Seed(k)) between two writes
//                  of the same data through one filespace.
//
// Nothing is demanded of HOW the nonce is made: any source that is fed by the operating system's
// randomness (crypto/rand, a CSPRNG keyed from it, the runtime's own generator) stays quiet.

import (
	"bytes"
	"context"
	crand "crypto/rand"
	"encoding/binary"
	"encoding/hex"
	"fmt"
	mrand "math/rand"
	"os"
	"os/exec"
	"path/filepath"
	"runtime/debug"
	"strings"
	"syscall"
	"time"
)

const c05GoatcoreModule = "github.com/goatcms/goatcore"

// c05FakeClockBinary builds the harness once more with the runtime's fake clock, against the same
// goatcore tree this binary was built from (read from the build information, so a scratch tree named
// by VERIF_REPO is followed). Returns "" and the reason when the sources of the harness are not
// known (a run by hand without VERIF_ROOT) or when the runtime does not build with the fake clock here.
func c05FakeClockBinary(dir string) (string, string) {
	root := os.Getenv("VERIF_ROOT")
	if root == "" {
		return "", "VERIF_ROOT is not set"
	}
	src := filepath.Join(root, "harness")
	repo, tags := "", "verif"
	if bi, ok := debug.ReadBuildInfo(); ok {
		for _, d := range bi.Deps {
			if d.Path == c05GoatcoreModule && d.Replace != nil {
				repo = d.Replace.Path
			}
		}
		for _, s := range bi.Settings {
			if s.Key == "-tags" && s.Value != "" {
				tags = s.Value
			}
		}
	}
	if repo == "" {
		return "", "the build information does not name the goatcore tree"
	}
	mod, err := os.ReadFile(filepath.Join(src, "go.mod"))
	must(err)
	var out []string
	for _, ln := range strings.Split(string(mod), "\n") {
		if strings.HasPrefix(strings.TrimSpace(ln), "replace "+c05GoatcoreModule+" ") {
			ln = "replace " + c05GoatcoreModule + " => " + repo
		}
		out = append(out, ln)
	}
	modfile := filepath.Join(dir, "fake.mod")
	must(os.WriteFile(modfile, []byte(strings.Join(out, "\n")), 0o644))
	for _, sum := range []string{filepath.Join(repo, "go.sum"), filepath.Join(src, "go.sum")} {
		if b, err := os.ReadFile(sum); err == nil {
			must(os.WriteFile(filepath.Join(dir, "fake.sum"), b, 0o644))
			break
		}
	}
	bin := filepath.Join(dir, "harness.fakeclock")
	ctx, cancel := context.WithTimeout(context.Background(), 15*time.Minute)
	defer cancel()
	cmd := exec.CommandContext(ctx, "go", "build", "-modfile="+modfile, "-tags", strings.ReplaceAll(tags, " ", ",")+",faketime", "-o", bin, ".")
	cmd.Dir = src
	cmd.Env = append(os.Environ(), "GOFLAGS=-mod=mod", "GOPROXY=off", "GOSUMDB=off", "GOTOOLCHAIN=local")
	if msg, err := cmd.CombinedOutput(); err != nil {
		tail := string(msg)
		if len(tail) > 300 {
			tail = tail[len(tail)-300:]
		}
		// the tree under test compiles (this binary was built from it): what failed is the build of
		// the runtime with the fake clock, which says something about the toolchain installed here and
		// nothing about goatcore - the twins then run with the real clock and the evidence says so
		return "", fmt.Sprintf("the harness does not build with the fake clock (tags %s,faketime) against %s: %v: %s", tags, repo, err, strings.TrimSpace(tail))
	}
	return bin, ""
}

// c05RunTwin runs one child (C05_CHILD=1, see runC05) in the pinned ambient state and returns the
// lines it wrote. ownPid says whether it ran as pid 1 of its own pid namespace.
func c05RunTwin(bin, outFile string, tryPidNS bool) (lines []string, ownPid bool, err error) {
	for _, ns := range []bool{true, false} {
		if ns && !tryPidNS {
			continue
		}
		os.Remove(outFile)
		ctx, cancel := context.WithTimeout(context.Background(), 5*time.Minute)
		cmd := exec.CommandContext(ctx, bin, "C05")
		// the last value of a repeated key counts
		cmd.Env = append(os.Environ(), "C05_CHILD=1", "C05_CHILD_OUT="+outFile, "GODEBUG=randautoseed=0")
		if ns {
			cmd.SysProcAttr = &syscall.SysProcAttr{Cloneflags: syscall.CLONE_NEWPID}
		}
		var errb bytes.Buffer
		cmd.Stderr = &errb
		err = cmd.Run()
		cancel()
		if _, exited := err.(*exec.ExitError); err != nil && !exited && ns {
			continue // the namespace could not be made (not permitted here): once more with the pid left free
		}
		if err != nil {
			return nil, ns, fmt.Errorf("%v: %s", err, strings.SplitN(errb.String(), "\n", 2)[0])
		}
		raw, rerr := os.ReadFile(outFile)
		os.Remove(outFile)
		if rerr != nil {
			return nil, ns, rerr
		}
		return strings.Split(strings.TrimSpace(string(raw)), "\n"), ns, nil
	}
	return nil, false, err
}

func (r *c05Run) ambientTwins() {
	dir, err := os.MkdirTemp("", "verif-c05-twins-")
	must(err)
	defer os.RemoveAll(dir)
	bin, why := c05FakeClockBinary(dir)
	pinned := []string{"math/rand not auto-seeded (GODEBUG=randautoseed=0)"}
	if bin != "" {
		pinned = append(pinned, "the runtime's fake clock (build tag faketime)")
	} else {
		bin = os.Args[0]
		r.o.Extra["ambient_twins_clock"] = "real clock: " + why
	}
	outFile := filepath.Join(dir, "writes")
	names := []string{"twin process 1", "twin process 2"}
	runs := map[string][]string{}
	pidNS := true
	for _, who := range names {
		lines, own, err := c05RunTwin(bin, outFile, pidNS)
		if err != nil && bin != os.Args[0] {
			// a child under the fake clock that does not come back is a matter of the fake clock
			// (timers only move while everything is blocked): both twins once more with the real one
			r.o.Extra["ambient_twins_clock"] = fmt.Sprintf("real clock: %s under the fake clock did not finish (%v)", who, err)
			bin, pinned, runs = os.Args[0], pinned[:1], map[string][]string{}
			for _, w := range names {
				if w == who {
					break
				}
				if l2, own2, err2 := c05RunTwin(bin, outFile, pidNS); err2 == nil {
					pidNS = pidNS && own2
					runs[w] = l2
				}
			}
			lines, own, err = c05RunTwin(bin, outFile, pidNS)
		}
		if err != nil {
			r.o.Fail("no_panic", fmt.Sprintf("%s (the first writes of a process whose ambient state is pinned) died: %v", who, err), "child-died", map[string]interface{}{"op": "ambient-twins"})
			continue
		}
		pidNS = pidNS && own // both twins the same way
		runs[who] = lines
	}
	if pidNS {
		pinned = append(pinned, "pid 1 of an own pid namespace")
	}
	state := strings.Join(pinned, ", ")
	r.o.Extra["ambient_twins_pinned"] = state
	seen := map[string]string{}
	for _, who := range names {
		for _, ln := range runs[who] {
			f := strings.Fields(ln)
			if len(f) != 3 {
				continue
			}
			desc := map[string]interface{}{"op": "ambient-twins", "cipher": f[0], "write": f[1], "plaintext": c05ChildPlain, "who": who, "pinned": state}
			where := fmt.Sprintf("%s write #%s of %s", f[0], f[1], who)
			if strings.HasPrefix(f[2], "write-") {
				r.o.Fail("roundtrip", where+": "+f[2], f[2], desc)
				continue
			}
			st, err := hex.DecodeString(f[2])
			if err != nil {
				continue
			}
			r.o.CountEval("twins:"+where, true)
			r.o.Stat("ambient_twin_writes")
			if prev, dup := seen[f[0]+f[2]]; dup {
				r.o.Fail("fresh", fmt.Sprintf("two writes of the same data stored the same bytes: %s and %s. The two processes differ in nothing but what the operating system's "+
					"random source gives them (%s): the stored bytes are a function of the clock / math/rand / pid / a counter / the data, not of fresh randomness", prev, where, state),
					"not-fresh-ambient", desc)
				continue
			}
			seen[f[0]+f[2]] = where
			hdr := 0
			if f[0] == "extcfs" {
				hdr = 4
			}
			if len(st) >= hdr+12 {
				r.noteNonce(st[hdr:hdr+12], where, desc)
			}
		}
	}
}

// reseedFresh: the process-wide math/rand generator is brought back to a state it was in before
// (as any other component of an application may do with rand.Seed) between two writes of the same
// data under the same key.
func (r *c05Run) reseedFresh() {
	defer func() { // leave the generator unpredictable again for whatever runs next in this process
		var b [8]byte
		crand.Read(b[:])
		mrand.Seed(int64(binary.LittleEndian.Uint64(b[:])))
	}()
	s := c05Settings{Secret: []byte("reseed-secret"), Salt: []byte("reseed-salt")}
	pt := []byte(c05ChildPlain)
	for _, c := range r.ciphers {
		for _, stream := range []bool{false, true} {
			for _, k := range []int64{1, 20260101} {
				base := c05NewBase("memfs")
				efs := r.encfs(base.FS, s, c)
				desc := map[string]interface{}{"op": "reseed", "cipher": c.Name, "stream": stream, "plaintext": c05ChildPlain, "math_rand_seed": k, "settings": s.desc()}
				var stored [2][]byte
				ok := true
				for i := range stored {
					mrand.Seed(k)
					name := fmt.Sprintf("w%d", i)
					if kind := c05Write(efs, name, pt, [][]byte{pt[:7], pt[7:]}, stream); kind != "ok" {
						r.o.Fail("roundtrip", fmt.Sprintf("write after rand.Seed(%d): %s", k, kind), "write-"+kind, desc)
						ok = false
						break
					}
					st, err := base.FS.ReadFile(name)
					must(err)
					stored[i] = st
				}
				if ok {
					r.o.CountEval(fmt.Sprintf("reseed:%s:%v:%d", c.Name, stream, k), true)
					r.o.Stat("reseed_write_pairs")
					if bytes.Equal(stored[0], stored[1]) {
						r.o.Fail("fresh", fmt.Sprintf("two writes of the same data stored the same bytes (%s, stream=%v): before each of them the process-wide math/rand generator "+
							"was in the same state (rand.Seed(%d)); the stored bytes follow that generator, not fresh randomness", c.Name, stream, k), "not-fresh-reseed", desc)
					}
				}
				base.Close()
			}
		}
	}
}
