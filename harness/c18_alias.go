package main

// C18 — the maps that cross the API of envs.Environments belong to the caller.
//
// "The start-up script sets each CONFIGURED variable to exactly the CONFIGURED value" and "names that are
// not plain identifiers are rejected WHEN THEY ARE SET": the only ways to configure an Environments object
// are Set and SetAll, and both look at the names.  A Go map is a reference: an object that keeps the map
// it was handed (or hands out the map it works on, or one it hands to the next caller as well) can be
// re-configured afterwards by plain map writes - past the name check, and without any call at all.  The
// model is value-based (Proofs/C18More.v env_run: no aliasing by construction), so the tie is made here, as
// for the buffers of C01/C04: the harness plays a caller that KEEPS every map it passed to SetAll and every
// map it got from All(), writes to them later ("scribble": changes every value to one that would run a
// command, deletes entries, adds a plain name, adds a name that Set refuses and that is a command), passes
// the same map to a second object, and keeps comparing both objects with its own reference
//   L2  All() == what the accepted calls on THIS object configured (oracle configured_only); every build is
//       run by the real shells against the reference; names the caller wrote into its own maps only
//       ("ghosts") must be unset in the shell
//   L1  CHist: the calls made on one object and what they returned, All() afterwards, vs env_run.
// Every way in (SetAll on a fresh object, on one that holds fewer / more variables than the map brings,
// after a refused call, an empty map, the same map twice, one map for two objects) and out (All(), once
// and twice, before and after a write), sizes 0 .. 40, directly and through EnvironmentsUnit.Envs(scope).

import (
	"fmt"
	"sort"
	"strings"
)

// names that Set refuses; the first ones are commands when they reach a script unchecked
var c18ScribbleNames = []string{"X=1;: > canary;Y", "A\n: > canary\nB", "A=$(: > canary)", "A B", "A-B", "1A", "", "_A", "A;B", "A`: > canary`"}

func hAll(on int) hstep                 { return hstep{Op: "all", On: on} }
func hScribble(mode string) hstep       { return hstep{Op: "scribble", Mode: mode} }
func hReuse(src, on int) hstep          { return hstep{Op: "reuse", Src: src, On: on} }
func hOn(st hstep, on int) hstep        { st.On = on; return st }
func c18GhostName(n int) string         { return "GHOST_" + strings.Repeat("x", n%7) + string(rune('A'+n%26)) }
func c18ScribbledValue(v string) string { return "scribbled'; : > canary; '$(: > canary)" + v }

// scribble: what a caller may do with maps that are its own.  mode letters:
//
//	v every value replaced   d every entry deleted   e one entry deleted (the smallest name)
//	n a plain name added     b a name added that Set refuses
func (c *c18) scribble(mode string, n int, ins []*hkept, outs []map[string]string, ghosts map[string]bool) {
	one := func(m map[string]string, salt int) {
		if strings.Contains(mode, "v") {
			for k, v := range m {
				m[k] = c18ScribbledValue(v)
			}
		}
		if strings.Contains(mode, "d") {
			for k := range m {
				delete(m, k)
			}
		}
		if strings.Contains(mode, "e") && len(m) > 0 {
			keys := make([]string, 0, len(m))
			for k := range m {
				keys = append(keys, k)
			}
			sort.Strings(keys)
			delete(m, keys[0])
		}
		if strings.Contains(mode, "n") {
			g := c18GhostName(n)
			m[g] = "ghost " + fmt.Sprint(n)
			ghosts[g] = true
		}
		if strings.Contains(mode, "b") {
			m[c18ScribbleNames[(n+salt)%len(c18ScribbleNames)]] = "v"
		}
	}
	for i, kept := range ins {
		// the caller's knowledge of its map ([want], which shares nothing with the library) follows the
		// caller's own writes to the map object ([m])
		one(kept.want, i)
		one(kept.m, i)
	}
	for i, m := range outs {
		one(m, len(ins)+i)
	}
}

func c18MapDiff(want, got map[string]string) string {
	var parts []string
	var names []string
	for k := range want {
		names = append(names, k)
	}
	for k := range got {
		if _, ok := want[k]; !ok {
			names = append(names, k)
		}
	}
	sort.Strings(names)
	for _, k := range names {
		w, inWant := want[k]
		g, inGot := got[k]
		switch {
		case !inGot:
			parts = append(parts, fmt.Sprintf("%s (configured as %q) is gone", k, trunc(w, 40)))
		case !inWant:
			parts = append(parts, fmt.Sprintf("a variable named %q with value %q appeared that no accepted call set", k, trunc(g, 40)))
		case w != g:
			parts = append(parts, fmt.Sprintf("%s was configured as %q and is now %q", k, trunc(w, 40), trunc(g, 60)))
		}
		if len(parts) == 4 {
			parts = append(parts, "...")
			break
		}
	}
	return strings.Join(parts, "; ")
}

// a map of n variables with shell-significant values; names from [off] on
func c18AliasMap(n, off int) map[string]string {
	m := map[string]string{}
	for i := 0; i < n; i++ {
		m[c18VarName(off+i)] = c18CriticalValues[(off+3*i)%len(c18CriticalValues)] + fmt.Sprint(i)
	}
	return m
}

func (c *c18) aliasHistories(thorough bool, run func([]hstep)) {
	rng := c.rng
	kinds := []string{"ssh", "dcmd"}
	modes := []string{"b", "v", "n", "d", "e", "vnb", "eb", "vn"}
	sizes := []int{1, 2, 3, 5, 8, 9, 17, 40}
	nshape := 14
	rounds := len(modes)
	if thorough {
		rounds = 4 * len(modes)
	}
	for r := 0; r < rounds; r++ {
		for shape := 0; shape < nshape; shape++ {
			mode := modes[(r+shape)%len(modes)]
			n := sizes[(r+3*shape)%len(sizes)]
			if thorough && r >= len(modes) {
				n = 1 + rng.Intn(48)
			}
			k1, k2 := kinds[(r+shape)%2], kinds[(r+shape+1)%2]
			M := c18AliasMap(n, 0)
			small := c18AliasMap(1+n%2, 1)
			var pre []hstep // a store that holds n+2 variables, some of which the map brings again
			for i, p := range sortedKVs(c18AliasMap(n+2, 0)) {
				pre = append(pre, hSet(p.K, p.V+fmt.Sprint(i)))
			}
			sc := hScribble(mode)
			var steps []hstep
			switch shape {
			case 0: // first configuration of a fresh object; the caller goes on using its map
				steps = []hstep{hSetAll(M), sc, hAll(0), hBuild(k1)}
			case 1: // the same, the script is built before anything reads the store
				steps = []hstep{hSetAll(M), sc, hBuild(k1), hAll(0), hBuild(k2)}
			case 2: // the object holds more than the map brings
				steps = append(append([]hstep{}, pre...), hSetAll(small), sc, hAll(0), hBuild(k1))
			case 3: // the object holds less than the map brings
				steps = []hstep{hSet("A", "first"), hSetAll(M), sc, hAll(0), hBuild(k1)}
			case 4: // a refused SetAll, a refused Set: the object is still empty when the map arrives
				steps = []hstep{hSetAll(map[string]string{"K": "never", "B-": "x"}), hSet("K ", "never"), hSetAll(M), sc, hAll(0), hBuild(k1), sc, hAll(0)}
			case 5: // an empty map on a fresh object, then ordinary use
				steps = []hstep{hSetAll(map[string]string{}), sc, hAll(0), hSet("A", "x'y"), sc, hAll(0), hBuild(k1)}
			case 6: // a map handed out
				steps = []hstep{hSetAll(M), hAll(0), sc, hAll(0), hBuild(k1), sc, hBuild(k2)}
			case 7: // handed out twice, a write in between, then the caller changes both
				steps = []hstep{hSet("A", "1"), hAll(0), hSet("B", "$HOME"), hAll(0), sc, hBuild(k1), hAll(0), hSet("A", "2"), sc, hAll(0)}
			case 8: // one map configures two objects; each is then changed on its own
				steps = []hstep{hSetAll(M), hReuse(0, 1), hSet("OWN_a", "of the first"), hOn(hSet("OWN_b", "of the second"), 1), hAll(1), hAll(0), hOn(hBuild(k1), 1), sc, hAll(0), hAll(1), hBuild(k2)}
			case 9: // the map meets a non-empty object first and a fresh one next
				steps = []hstep{hSet("A", "kept here"), hSetAll(M), hReuse(0, 1), hAll(1), hOn(hBuild(k1), 1), hOn(hSet(c18VarName(0), "changed in the second"), 1), hAll(0), hBuild(k2), sc, hAll(0), hAll(1)}
			case 10: // the caller changes its map and configures the same object with it again (legitimate)
				steps = []hstep{hSetAll(M), hScribble(strings.ReplaceAll(mode, "b", "")), hReuse(0, 0), hAll(0), hBuild(k1), sc, hAll(0)}
			case 11: // the object is written through Set after it met the map; the map meets a second object later
				steps = []hstep{hSetAll(M), hSet("LATER", "`: > canary`"), hSet(c18VarName(0), "overwritten"), hAll(0), hReuse(0, 1), hAll(1), hOn(hBuild(k1), 1), sc, hAll(0), hAll(1)}
			case 12: // two maps in, both kept
				steps = []hstep{hSetAll(small), hSetAll(M), sc, hAll(0), hBuild(k1), hReuse(1, 1), hOn(hSet("Z", "z"), 1), sc, hAll(1), hAll(0)}
			case 13: // a map handed out by one object configures another
				steps = []hstep{hSetAll(M), hAll(0), hSetAll(small), sc, hOn(hSetAll(small), 1), hAll(1), hAll(0), hOn(hBuild(k1), 1)}
			}
			run(steps)
		}
	}
	// random histories over all the step kinds
	nrand := 30
	if thorough {
		nrand = 600
	}
	names := []string{"A", "a", "A_", "B", "SOME_KEY", "k", "EOF", "export", "vB", "V_AA"}
	for i := 0; i < nrand; i++ {
		var steps []hstep
		two := rng.Chance(40)
		on := func() int {
			if two && rng.Bool() {
				return 1
			}
			return 0
		}
		nin := 0
		for j := 4 + rng.Intn(8); j > 0; j-- {
			switch r := rng.Intn(12); {
			case r < 2:
				steps = append(steps, hOn(hSet(names[rng.Intn(len(names))], c18CriticalValues[rng.Intn(len(c18CriticalValues))]), on()))
			case r < 5:
				m := c18AliasMap(rng.Intn(7), rng.Intn(4))
				if rng.Chance(15) {
					m[c18ScribbleNames[rng.Intn(len(c18ScribbleNames))]] = "x"
				}
				steps = append(steps, hOn(hSetAll(m), on()))
				nin++
			case r < 6 && nin > 0:
				steps = append(steps, hReuse(rng.Intn(nin), on()))
			case r < 8:
				steps = append(steps, hAll(on()))
			case r < 11:
				steps = append(steps, hScribble(modes[rng.Intn(len(modes))]), hAll(on()))
			default:
				steps = append(steps, hOn(hBuild(kinds[rng.Intn(2)]), on()))
			}
		}
		steps = append(steps, hAll(0), hOn(hBuild(kinds[rng.Intn(2)]), on()))
		if two {
			steps = append(steps, hAll(1))
		}
		run(steps)
	}
}
