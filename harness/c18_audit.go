package main

// C18 — generators and probes added by the coverage audit of the check against the property text.
//
//   histories   ONE Environments object driven through Set / SetAll (accepted and refused) / builds of
//               both kinds / changes AFTER a build; every build is judged against a reference map kept
//               by the harness (the "configured" values).  Set carries shell-significant values here
//               (elsewhere only SetAll does), a key is overwritten, a refused SetAll sits between.
//   long values sizes around 256 / 1 Ki / 4 Ki / 8 Ki / 64 Ki and 100 000 bytes: position-coded text,
//               only quotes, a quote + command that first appears after n quote-free bytes, random bytes
//   many        one environment of 700 variables
//   engine      dcmd.Engine.Run (the caller of InitSequence that joins the start-up script with the
//               task's input and feeds it to the container program) with a stand-in container program
//               that is the real /bin/sh; judged by the same L2 oracle

import (
	"bytes"
	"encoding/json"
	"fmt"
	"os"
	"os/exec"
	"path/filepath"
	"sort"
	"strings"
	"time"

	"github.com/goatcms/goatcore/app"
	"github.com/goatcms/goatcore/app/gio"
	"github.com/goatcms/goatcore/app/modules/commonm/commservices"
	"github.com/goatcms/goatcore/app/modules/commonm/commservices/envs"
	"github.com/goatcms/goatcore/app/modules/ocm/ocservices"
	"github.com/goatcms/goatcore/app/modules/ocm/ocservices/dcmd"
	"github.com/goatcms/goatcore/app/scope"
	"github.com/goatcms/goatcore/filesystem/filespace/memfs"
)

// scripts longer than this are judged by L2 only (a Coq list literal of that many numbers costs more
// than the comparison is worth; the builders are compared byte for byte on everything shorter)
const c18MaxL1Script = 1500

// ---------- histories

type hstep struct {
	Op   string     `json:"op"`             // set | setall | build | unit (first step: go through EnvironmentsUnit.Envs(scope)) | all | scribble | reuse (c18_alias.go)
	Kind string     `json:"kind,omitempty"` // build: ssh | dcmd
	KVs  [][2][]int `json:"kvs,omitempty"`  // set: one pair; setall: the map (sorted)
	On   int        `json:"on,omitempty"`   // which of the history's two Environments objects the step addresses
	Mode string     `json:"mode,omitempty"` // scribble: what the caller does to every map it handed in or got back
	Src  int        `json:"src,omitempty"`  // reuse: SetAll with the src-th map of an earlier SetAll (the same map object)
}

func hSet(k, v string) hstep {
	return hstep{Op: "set", KVs: descEnv([]kv{{k, v}})}
}
func hSetAll(m map[string]string) hstep {
	var l []kv
	for k, v := range m {
		l = append(l, kv{k, v})
	}
	sort.Slice(l, func(a, b int) bool { return l[a].K < l[b].K })
	return hstep{Op: "setall", KVs: descEnv(l)}
}
func hBuild(kind string) hstep { return hstep{Op: "build", Kind: kind} }

func intsToS(l []int) string {
	b := make([]byte, len(l))
	for i, x := range l {
		b[i] = byte(x)
	}
	return string(b)
}

// one Environments object of a history: the object, what the accepted calls configured on it (kept by the
// harness, entry by entry: it shares nothing with any map that crossed the API), and the calls as Coq terms
type hcont struct {
	e   commservices.Environments
	ref map[string]string
	scp app.Scope
	ops []string // env_op terms (Proofs/C18More.v) of the Set / SetAll calls made on this object
	oks []string // what each of them returned (nil = true)
}

// a map that the harness, playing the caller, handed to SetAll and kept: [m] is that very map object,
// [want] what the caller knows it to hold (its own writes to it, nothing else)
type hkept struct{ m, want map[string]string }

func sortedKVs(m map[string]string) []kv {
	l := make([]kv, 0, len(m))
	for k, v := range m {
		l = append(l, kv{k, v})
	}
	sort.Slice(l, func(a, b int) bool { return l[a].K < l[b].K })
	return l
}

func coqEnvOps(l []string) string { return coqList(l) }

// runHistory executes the steps on fresh Environments objects (one, or two when steps say on=1) and judges
// every build and every All() against the reference maps
func (c *c18) runHistory(steps []hstep) {
	o := c.o
	var conts [2]*hcont
	var unit *envs.Unit
	var ins []*hkept                // maps handed IN (SetAll arguments), kept by the caller
	var outs []map[string]string    // maps handed OUT (All() results), kept by the caller
	ghostNames := map[string]bool{} // plain names the caller wrote into its own maps only
	nscribble := 0
	for i, st := range steps {
		desc := map[string]interface{}{"op": "history", "steps": steps[:i+1]}
		if st.Op == "unit" {
			unit = &envs.Unit{}
			o.Stat("history_via_unit")
			continue
		}
		if st.Op == "scribble" {
			c.scribble(st.Mode, nscribble, ins, outs, ghostNames)
			nscribble++
			o.Stat("history_scribble")
			continue
		}
		on := st.On & 1
		if conts[on] == nil {
			conts[on] = &hcont{e: envs.NewEnvironments(), ref: map[string]string{}, scp: scope.New(scope.Params{})}
		}
		ct := conts[on]
		if unit != nil { // as the sandboxes do: the scope's Environments is fetched anew for every use
			var err error
			if ct.e, err = unit.Envs(ct.scp); err != nil || ct.e == nil {
				o.Fail("builder_total", fmt.Sprintf("history step %d: EnvironmentsUnit.Envs(scope) failed: %v", i, err), "builder", desc)
				return
			}
		}
		e, ref := ct.e, ct.ref
		switch st.Op {
		case "set":
			k, v := intsToS(st.KVs[0][0]), intsToS(st.KVs[0][1])
			accepted := e.Set(k, v) == nil
			ct.ops, ct.oks = append(ct.ops, "OSet "+coqStr(k)+" "+coqStr(v)), append(ct.oks, coqBool(accepted))
			if accepted != c18PlainIdent(k) {
				o.Fail("names", fmt.Sprintf("history step %d: Set(%q, ..) accepted=%v, plain identifier=%v", i, k, accepted, c18PlainIdent(k)), "names", desc)
				return
			}
			if accepted {
				ref[k] = v
			}
			o.Stat("history_set")
		case "setall", "reuse":
			var kept *hkept
			if st.Op == "reuse" {
				if len(ins) == 0 {
					continue
				}
				kept = ins[st.Src%len(ins)] // the SAME map object once more, as the caller now knows it
				o.Stat("history_setall_same_map_again")
			} else {
				kept = &hkept{m: map[string]string{}, want: map[string]string{}}
				for _, p := range st.KVs {
					kept.m[intsToS(p[0])] = intsToS(p[1])
					kept.want[intsToS(p[0])] = intsToS(p[1])
				}
				ins = append(ins, kept)
			}
			allPlain := true
			for k := range kept.want {
				allPlain = allPlain && c18PlainIdent(k)
			}
			ok := e.SetAll(kept.m) == nil
			ct.ops, ct.oks = append(ct.ops, "OSetAll "+coqEnv(sortedKVs(kept.want))), append(ct.oks, coqBool(ok))
			if ok != allPlain {
				o.Fail("setall_all_or_nothing", fmt.Sprintf("history step %d: SetAll(%q) ok=%v, all names plain=%v", i, kept.want, ok, allPlain), "setall", desc)
				return
			}
			if ok {
				for k, v := range kept.want {
					ref[k] = v
				}
			}
			o.Stat("history_setall")
		case "all":
			got := e.All()
			o.Stat("history_all")
			if diff := c18MapDiff(ref, got); diff != "" {
				o.Fail("configured_only", fmt.Sprintf("history step %d: the Environments object no longer holds what Set / SetAll configured on it: %s (the maps that the caller passed to SetAll or got from All() are the caller's: writing to them, or to another Environments object, is not a way to configure this one)", i, diff), "aliasing", desc)
				return
			}
			o.AddCase(fmt.Sprintf("CHist %s %s %s", coqEnvOps(ct.ops), coqList(ct.oks), coqEnv(sortedKVs(got))), desc, fmt.Sprint("h:", ct.ops, sortedKVs(got)), len(ct.ops) > 0)
			outs = append(outs, got)
		case "build":
			cur := map[string]string{}
			total := 0
			for k, v := range ref {
				cur[k] = v
				total += len(k)*2 + len(v) + 12
			}
			l := sortedKVs(cur)
			desc["kind"] = st.Kind
			desc["env"] = descEnv(l)
			desc["pub"], desc["sec"] = []int{}, []int{}
			o.Stat("history_build")
			c.ghosts = nil
			for g := range ghostNames {
				if _, configured := ref[g]; !configured {
					c.ghosts = append(c.ghosts, g)
				}
			}
			sort.Strings(c.ghosts)
			good := c.runBuilt(st.Kind, e, cur, "", "", desc, total <= c18MaxL1Script)
			c.ghosts = nil
			if !good {
				return // the first wrong build of a history is the report
			}
		}
	}
}

var c18CriticalValues = []string{"a\r\nb", "\r", "\r\n", " x", "x ", "\tx\t", "  ", "'", "'x", "x'", "$HOME", "`: > canary`", "$(: > canary)", "x\n\ny", "a\\", "%s%d%%", "\xe9\xff", "\"", "x\n", "\nx",
	"A=1", "#x", "~", "*", "-n", "a  b", "\x01\x7f", "\\'", "'\\''", "\x0b\x0c", "\x1b[0m", "\x85", "\xc2\xa0x\xc2\xa0"}

func (c *c18) histories(thorough bool) {
	rng := c.rng
	nh := 0
	run := func(steps []hstep) {
		if nh++; nh%3 == 0 {
			steps = append([]hstep{{Op: "unit"}}, steps...)
		}
		c.runHistory(steps)
	}
	kinds := []string{"ssh", "dcmd"}
	val := func(i int) string {
		if i < len(c18CriticalValues) {
			return c18CriticalValues[i]
		}
		return c.randomEnvValue()
	}
	// (a) the critical shapes, each with every critical value through Set
	for i := range c18CriticalValues {
		v, w := val(i), val((i+7)%len(c18CriticalValues))
		k1, k2 := kinds[i%2], kinds[(i+1)%2]
		switch i % 4 {
		case 0: // SetAll, build, change one key with Set, build again
			run([]hstep{hSetAll(map[string]string{"A": "first", "B": w}), hBuild(k1), hSet("A", v), hBuild(k2), hBuild(k1)})
		case 1: // Set, build, SetAll changes it and adds one, build again
			run([]hstep{hSet("A", v), hBuild(k1), hSetAll(map[string]string{"A": w, "C_c": v}), hBuild(k1), hBuild(k2)})
		case 2: // Set twice (overwrite), a refused SetAll and a refused Set in between
			run([]hstep{hSet("K", "old"), hSet("K", v), hSetAll(map[string]string{"K": "never", "B-": "x"}), hSet("K ", "never"), hSet("k", w), hBuild(k1), hBuild(k2)})
		case 3: // only Set, several variables, build, one more Set, build
			run([]hstep{hSet("A", v), hSet("A_", w), hSet("a", v+w), hBuild(k1), hSet("B", v), hBuild(k1), hBuild(k2)})
		}
	}
	// (b) random histories
	n := 25
	if thorough {
		n = 600
	}
	names := []string{"A", "a", "A_", "A__B", "B", "SOME_KEY", "k", "EOF", "export"}
	bad := []string{"", "A ", " A", "A-B", "1A", "_A", "A\n", "A=B", "A;B", "ſ", "A`"}
	for i := 0; i < n; i++ {
		var steps []hstep
		for j := 3 + rng.Intn(7); j > 0; j-- {
			switch r := rng.Intn(10); {
			case r < 4:
				k := names[rng.Intn(len(names))]
				if rng.Chance(12) {
					k = bad[rng.Intn(len(bad))]
				}
				steps = append(steps, hSet(k, val(rng.Intn(2*len(c18CriticalValues)))))
			case r < 7:
				m := map[string]string{}
				for q := rng.Intn(4); q > 0; q-- {
					m[names[rng.Intn(len(names))]] = val(rng.Intn(2 * len(c18CriticalValues)))
				}
				if rng.Chance(20) {
					m[bad[rng.Intn(len(bad))]] = "x"
				}
				steps = append(steps, hSetAll(m))
			default:
				steps = append(steps, hBuild(kinds[rng.Intn(2)]))
			}
		}
		steps = append(steps, hBuild(kinds[rng.Intn(2)]))
		run(steps)
	}
	// (c) the caller keeps the maps that crossed the API and goes on writing to them (c18_alias.go)
	c.aliasHistories(thorough, run)
}

// ---------- second exhaustive family: every single byte, and every word over the characters that matter
// to a shell OUTSIDE quotes (tilde, colon, =, #, ;, &, |, <, >, globbing, braces, !, blanks, CR) - the
// values that an "emit it unquoted when it looks harmless" shortcut would let through

var c18Alphabet2 = []byte("~:=#;&|<>*?[]{}!, \t\r./-+%@^0aA")

func (c *c18) secondAlphabet(thorough bool) {
	var values []string
	for b := 1; b < 256; b++ {
		values = append(values, string([]byte{byte(b)}))
	}
	maxLen := 2
	if thorough {
		maxLen = 3
	}
	var rec func(prefix []byte)
	rec = func(prefix []byte) {
		if len(prefix) >= 2 {
			values = append(values, string(prefix))
		}
		if len(prefix) == maxLen {
			return
		}
		for _, ch := range c18Alphabet2 {
			rec(append(append([]byte{}, prefix...), ch))
		}
	}
	rec(nil)
	values = append(values, "~/x", "~root", "a:~", "1:~/", "8080", "1.2.3", "-1", "+1", "/usr/bin:/bin", "a=~", "{a,b}", "[a-z]*", "!!", "a #b", "a\t#b", "x;: > canary", "x&: > canary", "x|: > canary", "x\n: > canary", "> canary", "2>canary", "<canary")
	c.o.Extra["second_alphabet"] = byteList(c18Alphabet2)
	c.o.Extra["second_alphabet_values"] = len(values)
	batch := 80
	if thorough {
		batch = 200
	}
	for lo := 0; lo < len(values); lo += batch {
		hi := lo + batch
		if hi > len(values) {
			hi = len(values)
		}
		m := map[string]string{}
		for i := lo; i < hi; i++ {
			m[c18VarName(i-lo)] = values[i]
		}
		l1 := thorough || (lo/batch)%4 == 0 // the real shells judge every batch, the model a quarter of them in the quick tier
		c.runEnvL("ssh", m, "", "", l1)
		c.runEnvL("dcmd", m, "", "", l1)
		if (lo/batch)%4 == 2 {
			c.runEnvL("dcmd", m, c18Pub, c18Sec, thorough)
		}
	}
}

// ---------- long values, many variables

func c18Coded(n int, nl bool) string { // position-coded: a lost, doubled or moved byte shows
	var sb strings.Builder
	for i := 0; sb.Len() < n; i++ {
		fmt.Fprintf(&sb, "%x,", i)
		if nl && i%11 == 10 {
			sb.WriteByte('\n')
		}
	}
	return sb.String()[:n]
}

func (c *c18) longValues(thorough bool) {
	rng := c.rng
	sizes := []int{256, 257, 1024, 1025, 4096, 4097, 8192, 8193, 65536, 65537, 100000} // 2^k and the first length past it
	if thorough {
		sizes = append(sizes, 255, 1023, 2048, 2049, 4095, 8191, 16384, 16385, 32768, 32769, 65535, 131072, 131073)
	}
	const inj = "'; : > canary; HOME=/x; '"
	for _, n := range sizes {
		rnd := make([]byte, n)
		for j := range rnd {
			rnd[j] = byte(1 + rng.Intn(255))
		}
		lateQuote := strings.Repeat("a", n) + inj + "b" // the first quote comes after n quote-free bytes
		envsList := []map[string]string{
			{"A": "before $HOME", "LONG": c18Coded(n, false), "Z": "after 'z'"},
			{"LONG": c18Coded(n, true) + "'", "Q": lateQuote},
			{"A": "'", "R": string(rnd), "QQ": strings.Repeat("'", n/4+1)},
		}
		for _, m := range envsList {
			for _, kind := range []string{"ssh", "dcmd"} {
				c.runLong(kind, m)
			}
		}
	}
	// many variables in one environment
	many := map[string]string{}
	nv := 700
	if thorough {
		nv = 3000
	}
	for i := 0; i < nv; i++ {
		many[c18VarName(i)] = c18CriticalValues[i%len(c18CriticalValues)] + fmt.Sprint(i)
	}
	c.runLong("ssh", many)
	c.runLong("dcmd", many)
}

func (c *c18) runLong(kind string, m map[string]string) {
	total := 0
	for k, v := range m {
		total += len(k)*2 + len(v) + 12
	}
	var l []kv
	for k, v := range m {
		l = append(l, kv{k, v})
	}
	sort.Slice(l, func(a, b int) bool { return l[a].K < l[b].K })
	desc := map[string]interface{}{"op": "env", "kind": kind, "pub": []int{}, "sec": []int{}, "env": descEnv(l)}
	e, err := newEnvs(m, "", "")
	if err != nil {
		c.o.Fail("names", "SetAll rejected a map of valid keys", "names", desc)
		return
	}
	c.o.Stat("long_or_many_env")
	c.runBuilt(kind, e, m, "", "", desc, total <= c18MaxL1Script)
}

// ---------- dcmd.Engine.Run with a stand-in container program

func (c *c18) engineProbe(thorough bool) {
	o, rng := c.o, c.rng
	envBin, err := exec.LookPath("env")
	if err != nil {
		o.Stat("engine_probe_skipped_no_env")
		return
	}
	q := func(s string) string { return "'" + strings.ReplaceAll(s, "'", "'\\''") + "'" }
	prog := filepath.Join(c.sh.dir, "fake-container-program")
	// ignores "run -i --rm --name .. image": what matters is what arrives on its standard input
	must(os.WriteFile(prog, []byte("#!/bin/sh\ncd "+q(c.sh.work)+" || exit 97\nexec "+q(envBin)+" -i HOME="+q(c.sh.home)+" PATH="+q(c.sh.bin)+" SENTINEL=sentinel-value /bin/sh\n"), 0o755))
	engine := dcmd.NewEngine(prog)
	cwd, err := memfs.NewFilespace()
	must(err)
	n := 14
	if thorough {
		n = 200
	}
	names := []string{"A", "a", "A_", "B", "SOME_KEY", "k", "EOF"}
	for i := 0; i < n; i++ {
		m := map[string]string{}
		for j := 1 + rng.Intn(4); j > 0; j-- {
			if i < len(c18CriticalValues)/2 {
				m[names[rng.Intn(len(names))]] = c18CriticalValues[(2*i+j)%len(c18CriticalValues)]
			} else {
				m[names[rng.Intn(len(names))]] = c.randomEnvValue()
			}
		}
		if i == 0 {
			m["LONG"] = c18Coded(70000, true) + "'; : > canary; '"
		}
		var l []kv
		for k, v := range m {
			l = append(l, kv{k, v})
		}
		sort.Slice(l, func(a, b int) bool { return l[a].K < l[b].K })
		keys := make([]string, len(l))
		for j, p := range l {
			keys[j] = p.K
		}
		desc := map[string]interface{}{"op": "engine", "kind": "dcmd", "pub": []int{}, "sec": []int{}, "env": descEnv(l)}
		e, err := newEnvs(m, "", "")
		if err != nil {
			o.Fail("names", "SetAll rejected a map of valid keys", "names", desc)
			continue
		}
		var outBuf, errBuf bytes.Buffer
		cio := gio.NewIO(gio.IOParams{
			In:  gio.NewAppInput(strings.NewReader(probeScript(keys) + "\n")),
			Out: gio.NewOutput(&outBuf),
			Err: gio.NewOutput(&errBuf),
			CWD: cwd,
		})
		c.sh.prepare()
		done := make(chan string, 1)
		go func() {
			defer func() {
				if r := recover(); r != nil {
					done <- fmt.Sprint("panic: ", r)
				}
			}()
			if err := engine.Run(ocservices.Container{IO: cio, Image: "verif/image", Entrypoint: "sh", Envs: e}); err != nil {
				done <- "err"
				return
			}
			done <- "ok"
		}()
		var how string
		select {
		case how = <-done:
		case <-time.After(30 * time.Second):
			o.Fail("sh_terminates", "dcmd.Engine.Run did not return within 30 s", "hang", desc)
			return
		}
		c.nsh++
		o.Stat("engine_run_" + strings.SplitN(how, ":", 2)[0])
		o.CountEval("engine:"+fmt.Sprint(l), true)
		if strings.HasPrefix(how, "panic") {
			o.Fail("builder_total", "dcmd.Engine.Run: "+how, "builder", desc)
			continue
		}
		res := c.sh.collect(len(keys))
		if c.oracle("dcmd engine", l, res, desc) && how != "ok" {
			o.Fail("verbatim", "dcmd engine: the container program (/bin/sh) ended with an error on the start-up script; its error output: "+trunc(errBuf.String(), 300), "verbatim", desc)
		}
	}
}

// reservedNames: names that are plain identifiers (accepted by Set) but that the shell itself gives a
// meaning to.  What /bin/sh and bash do with them is RECORDED only (extra.reserved_names): on the
// unchanged library some of them abort the start-up script (dash: OPTIND) or make bash evaluate the
// quoted value arithmetically, which can run a command (RANDOM, OPTIND, HISTCMD, SRANDOM) - reported
// as a finding by the audit.  For the property's own shell (/bin/sh) a name that does not receive its
// value is an oracle failure with the signature K-C18-reserved-<NAME> (OPTIND is a listed known
// finding); what bash does is recorded only.
func (c *c18) reservedNames() {
	obs := map[string]string{}
	shells := [][2]string{{"sh", "/bin/sh"}}
	if c.sh.bash != "" && !c.sh.shIsBash {
		shells = append(shells, [2]string{"bash", c.sh.bash})
	}
	const v = "x[$(: > canary)]"
	for _, name := range []string{"OPTIND", "RANDOM", "SRANDOM", "HISTCMD", "SECONDS", "LINENO", "UID", "EUID", "PPID", "SHELLOPTS", "BASHOPTS", "BASHPID", "IFS", "PATH", "HOME", "PWD", "ENV"} {
		e, err := newEnvs(map[string]string{name: v}, "", "")
		if err != nil {
			obs[name] = "refused by SetAll"
			continue
		}
		b := buildDcmd(e)
		if b.Kind != "ok" {
			obs[name] = "builder " + b.Kind
			continue
		}
		for _, sh := range shells {
			res := c.sh.runWith(sh[1], []byte(b.Script+probeScript([]string{name})+"\n"), 1)
			c.nsh++
			what := "verbatim"
			switch {
			case res.Kind != "ran":
				what = "hang"
			case res.Canary:
				what = "VALUE EXECUTED"
			case !res.Complete:
				what = "start-up aborted"
			case string(res.Values[0]) != v:
				what = "value replaced"
			}
			obs[name] += sh[0] + ": " + what + "; "
			c.o.Stat("reserved_name_" + strings.ReplaceAll(strings.ToLower(what), " ", "_"))
			if sh[0] == "sh" && what != "verbatim" {
				// the property's own shell: a plain identifier that Set accepts does not get its value
				c.o.Fail("verbatim", fmt.Sprintf("environment {%s: %q}: the real /bin/sh does not end up with the configured value (%s) - %s is a name the shell itself interprets", name, v, what, name),
					"K-C18-reserved-"+name, map[string]interface{}{"op": "reserved-name", "name": name, "value": v, "shell": sh[1], "outcome": what})
			}
		}
	}
	c.o.Extra["reserved_names"] = obs
}

func trunc(s string, n int) string {
	if len(s) > n {
		return s[:n] + "..."
	}
	return s
}

// replay of a history / engine case
func (c *c18) replayAudit(raw []byte) bool {
	var doc struct {
		Case struct {
			Op    string  `json:"op"`
			Steps []hstep `json:"steps"`
		} `json:"case"`
	}
	if json.Unmarshal(raw, &doc) != nil {
		return false
	}
	switch doc.Case.Op {
	case "history":
		c.runHistory(doc.Case.Steps)
		return true
	case "engine":
		c.engineProbe(false)
		return true
	}
	return false
}

var _ commservices.Environments = envs.NewEnvironments()
