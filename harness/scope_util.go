package main

// Shared machinery of the C11 / C12 harnesses: a "world" that mirrors the identifiers of
// coq/Model/Scope.v (contexts and scopes are numbered in creation order), a sequential executor
// (one operation at a time from the main goroutine, Close in a goroutine of its own, everything
// settled after every operation), the listener event log, and the Coq emitters.

import (
	"context"
	"encoding/json"
	"fmt"
	"os"
	"runtime"
	"strings"
	"sync"
	"sync/atomic"
	"time"

	"github.com/goatcms/goatcore/app"
	"github.com/goatcms/goatcore/app/gio"
	"github.com/goatcms/goatcore/app/scope"
	"github.com/goatcms/goatcore/app/scope/contextscope"
	"github.com/goatcms/goatcore/filesystem/filespace/memfs"
)

type idErr int

func (e idErr) Error() string { return fmt.Sprintf("E%d", int(e)) }

func errID(e error) int {
	if e == context.Canceled {
		return 0
	}
	if x, ok := e.(idErr); ok {
		return int(x)
	}
	return -1
}

var coqEvents = []string{"EKill", "EStop", "EError", "EBeforeCommit", "ECommit", "EAfterCommit",
	"EBeforeRollback", "ERollback", "EAfterRollback", "EBeforeClose", "EAfterClose"}
var goEvents = []interface{}{app.KillEvent, app.StopEvent, app.ErrorEvent, app.BeforeCommitEvent, app.CommitEvent,
	app.AfterCommitEvent, app.BeforeRollbackEvent, app.RollbackEvent, app.AfterRollbackEvent,
	app.BeforeCloseEvent, app.AfterCloseEvent}

const (
	evBCo = 3
	evCo  = 4
	evACo = 5
	evBR  = 6
	evR   = 7
	evAR  = 8
	evBC  = 9
	evAC  = 10
)

// sop: one operation of a history (kinds mirror Model/Scope.v op; "close" is HClose)
type sop struct {
	K    string `json:"k"`
	S    int    `json:"s"`
	Iso  bool   `json:"iso,omitempty"`
	Ev   int    `json:"ev,omitempty"`
	Lid  int    `json:"lid,omitempty"`
	Fail int    `json:"fail,omitempty"` // -1: listener never fails
	Es   []int  `json:"es,omitempty"`   // -1: nil error
	Via  int    `json:"via,omitempty"`  // newchild: 1 = through gio.NewChildIOContext (closed through IOContext.Close)
	N    int    `json:"n,omitempty"`    // add: AddTasks(N) (0 and 1: AddTasks(1)); emitted to Coq as N single additions
	// newchild / add in a hooked world (c11_midcall.go): End is a signalling operation that the harness
	// issues BETWEEN two instructions of this call, at the At-th hook point (2k-1: just before, 2k: right
	// after the k-th look of the calling goroutine at the context of scope S; End runs right after the
	// call when the call has fewer hook points).  Fired is an observation, not an input.
	End   *sop `json:"end,omitempty"`
	At    int  `json:"at,omitempty"`
	Fired bool `json:"fired,omitempty"`
}

func (p sop) delta() int {
	if p.K == "add" && p.N > 1 {
		return p.N
	}
	return 1
}

func coqOptErr(n int) string {
	if n < 0 {
		return "None"
	}
	return fmt.Sprintf("(Some %d)", n)
}

func (p sop) coq() string {
	s := coqNat(p.S)
	switch p.K {
	case "close":
		return "HClose " + s
	case "newctx":
		return "HOp ONewCtx"
	case "newiso":
		return "HOp (ONewIso " + s + ")"
	case "newroot":
		return "HOp ONewRoot"
	case "newchild":
		return fmt.Sprintf("HOp (ONewChild %s %s)", s, coqBool(p.Iso))
	case "on":
		return fmt.Sprintf("HOp (OOn %s %s %s %s)", s, coqEvents[p.Ev], coqNat(p.Lid), coqOptErr(p.Fail))
	case "add":
		// AddTasks(n) is one test of the done flag and one addition: the same as n accepted (or n
		// refused) single additions with nothing in between
		return strings.TrimSuffix(strings.Repeat("HOp (OAddTasks "+s+"); ", p.delta()), "; ")
	case "done":
		return "HOp (ODoneTask " + s + ")"
	case "apperr", "capp":
		items := make([]string, len(p.Es))
		for i, e := range p.Es {
			if e < 0 {
				items[i] = "None"
			} else {
				items[i] = fmt.Sprintf("Some %d", e)
			}
		}
		c := "OAppendError"
		if p.K == "capp" {
			c = "OCAppend"
		}
		return fmt.Sprintf("HOp (%s %s %s)", c, s, coqList(items))
	case "kill":
		return "HOp (OKill " + s + ")"
	case "stop":
		return "HOp (OStop " + s + ")"
	case "isdone":
		return "HOp (OIsDone " + s + ")"
	case "err":
		return "HOp (OErr " + s + ")"
	case "wait":
		return "HOp (OWait " + s + ")"
	case "ckill":
		return "HOp (OCKill " + s + ")"
	case "cstop":
		return "HOp (OCStop " + s + ")"
	case "cisdone":
		return "HOp (OCIsDone " + s + ")"
	case "cerr":
		return "HOp (OCErr " + s + ")"
	}
	panic("unknown op kind " + p.K)
}

type logEntry struct {
	Ev, By, Lid int
	NErr        int // len(Errors()) of the firing scope at the call (close events only; -1 unknown)
}

type closerRec struct {
	scope       int
	status      int32 // 1 running/blocked, 2 returned nil, 3 returned error, 4 panicked
	errAfter    int32 // len(Errors()) read right after Close returned
	logLenAt    int   // log length when the closer was started
	logLenAfter int   // ... and after the step that started it settled
	reported    bool
	first       bool // first Close of that scope
}

type stepObs struct {
	Main    []string `json:"main"`
	Closers []int    `json:"closers"`
	Ctxs    [][2]int `json:"ctxs"` // done(0/1), number of errors
}

type world struct {
	ctxs       []app.ContextScope
	ctxIso     []int
	scopes     []app.Scope
	scopeCtx   []int
	scopePar   []int
	scopeDepth []int
	sidIdx     map[string]int
	mu         sync.Mutex
	log        []logEntry
	closers    []*closerRec
	closerOf   map[int]int // scope -> index of its first closer
	alive      int32
	baseG      int
	sequential bool
	lastFiring int
	tasks      []int // harness bookkeeping: accepted AddTasks - DoneTask
	regOn      []int // parent on which the child registered (-1: none)
	createdAt  []int // number of Close calls issued before the scope was created
	hang       bool
	quiet      bool
	nextLid    int
	unsure     bool                  // a DoneTask without a task of its own was accepted (misuse stream)
	iocs       map[int]app.IOContext // scopes owned by a gio.IOContext (sop.Via == 1 children and their parents)
	lastFired  bool                  // the last apply issued its End at a hook point inside the call
	hooked     bool                  // every context is wrapped in a hookCtx (c11_midcall.go)
	arm        atomic.Value          // *hookArm: the signalling operation waiting for its hook point
	regMaybe   []int                 // parent whose context ended DURING the child's NewChild (-1: none): the property leaves open whether that child is registered
}

var scopeHarnessIO app.IO // one inert IO for every IOContext of the scope harnesses

func scopeIO() app.IO {
	if scopeHarnessIO == nil {
		cwd, err := memfs.NewFilespace()
		must(err)
		scopeHarnessIO = gio.NewIO(gio.IOParams{In: gio.NewInput(strings.NewReader("")), Out: gio.NewNilOutput(), Err: gio.NewNilOutput(), CWD: cwd})
	}
	return scopeHarnessIO
}

// ioCtx returns the IOContext standing for scope s (made on first use for a scope created directly).
func (w *world) ioCtx(s int) app.IOContext {
	if w.iocs == nil {
		w.iocs = map[int]app.IOContext{}
	}
	if c, ok := w.iocs[s]; ok {
		return c
	}
	c := gio.NewIOContext(w.scopes[s], scopeIO())
	w.iocs[s] = c
	return c
}

func newWorld(sequential bool) *world {
	return &world{sidIdx: map[string]int{}, closerOf: map[int]int{}, baseG: runtime.NumGoroutine(), sequential: sequential, lastFiring: -1}
}

func (w *world) liveWatchers() int {
	n := 0
	for i, p := range w.ctxIso {
		if p >= 0 && !w.ctxs[i].IsDone() {
			n++
		}
	}
	return n
}

// settleWatchers waits until every watcher that can act has acted and exited.
func (w *world) settleWatchers() {
	deadline := time.Now().Add(3 * time.Second)
	for spin := 0; ; spin++ {
		ok := true
		for i, p := range w.ctxIso {
			if p >= 0 && w.ctxs[p].IsDone() && !w.ctxs[i].IsDone() {
				ok = false
			}
		}
		if ok && runtime.NumGoroutine() > w.baseG+int(atomic.LoadInt32(&w.alive))+w.liveWatchers() {
			ok = false
		}
		if ok {
			return
		}
		if time.Now().After(deadline) {
			w.hang = true
			return
		}
		if spin < 50 {
			runtime.Gosched()
		} else {
			time.Sleep(20 * time.Microsecond)
		}
	}
}

func (w *world) outstanding(s int) int {
	n := w.tasks[s]
	for c, p := range w.regOn {
		if p == s {
			if ci, ok := w.closerOf[c]; ok && atomic.LoadInt32(&w.closers[ci].status) != 1 {
				continue // the child has been closed (signed off)
			}
			n++
		}
	}
	return n
}

// outstandingMax also counts the unclosed children whose registration is open (regMaybe): a Close
// MUST return when this is zero and must NOT return while outstanding() is positive.
func (w *world) outstandingMax(s int) int {
	n := w.outstanding(s)
	for c, p := range w.regMaybe {
		if p == s {
			if ci, ok := w.closerOf[c]; ok && atomic.LoadInt32(&w.closers[ci].status) != 1 {
				continue
			}
			n++
		}
	}
	return n
}

// parkedClosers counts the goroutines parked (not running, not runnable) in Scope.Wait below
// Scope.Close, whatever primitive the scope uses to wait (sync.WaitGroup, sync.Cond, ...).
func parkedClosers() int {
	buf := make([]byte, 1<<16)
	for {
		n := runtime.Stack(buf, true)
		if n < len(buf) {
			buf = buf[:n]
			break
		}
		buf = make([]byte, 2*len(buf))
	}
	cnt := 0
	for _, g := range strings.Split(string(buf), "\n\n") {
		hdr := g
		if i := strings.IndexByte(g, '\n'); i >= 0 {
			hdr = g[:i]
		}
		if strings.Contains(hdr, "[running") || strings.Contains(hdr, "[runnable") {
			continue
		}
		if strings.Contains(g, "scope.(*Scope).Wait(") && strings.Contains(g, "scope.(*Scope).Close(") {
			cnt++
		}
	}
	return cnt
}

// settle: watchers; every closer has either finished or is parked in the wait; and every closer
// that the harness's own bookkeeping says must finish (no outstanding task or child; or a second
// Close, which must be refused) has finished.
func (w *world) settle() {
	deadline := time.Now().Add(3 * time.Second)
	for spin := 0; ; spin++ {
		w.settleWatchers()
		ok := true
		running := 0
		for _, c := range w.closers {
			if atomic.LoadInt32(&c.status) == 1 {
				running++
				if !c.first || (!w.unsure && w.outstandingMax(c.scope) <= 0) {
					ok = false
				}
			}
		}
		if ok && running > 0 && parkedClosers() != running {
			ok = false
		}
		if ok {
			return
		}
		if time.Now().After(deadline) {
			w.hang = true
			return
		}
		if spin < 50 {
			runtime.Gosched()
		} else {
			time.Sleep(20 * time.Microsecond)
		}
	}
}

func (w *world) record(ev, by, lid, nerr int) {
	w.mu.Lock()
	if !w.quiet {
		w.log = append(w.log, logEntry{ev, by, lid, nerr})
	}
	w.mu.Unlock()
}

func (w *world) listener(ev, lid, fail int) app.EventCallback {
	return func(d interface{}) error {
		by, nerr := -1, -1
		if sc, ok := d.(app.Scope); ok && sc != nil {
			w.mu.Lock()
			if i, ok := w.sidIdx[sc.SID()]; ok {
				by = i
			}
			w.mu.Unlock()
			nerr = len(sc.Errors())
			if w.sequential {
				w.lastFiring = by
			}
		} else if w.sequential {
			by = w.lastFiring
		}
		if w.sequential {
			w.settleWatchers()
		}
		w.record(ev, by, lid, nerr)
		if fail >= 0 {
			return idErr(fail)
		}
		return nil
	}
}

func toErrs(es []int) []error {
	r := make([]error, len(es))
	for i, e := range es {
		if e >= 0 {
			r[i] = idErr(e)
		}
	}
	return r
}

func (w *world) addCtx(c app.ContextScope, iso int) int {
	w.ctxs = append(w.ctxs, c)
	w.ctxIso = append(w.ctxIso, iso)
	return len(w.ctxs) - 1
}

func (w *world) addScope(s app.Scope, ctx, par, reg int) int {
	w.scopes = append(w.scopes, s)
	w.scopeCtx = append(w.scopeCtx, ctx)
	w.scopePar = append(w.scopePar, par)
	d := 0
	if par >= 0 {
		d = w.scopeDepth[par] + 1
	}
	w.scopeDepth = append(w.scopeDepth, d)
	w.tasks = append(w.tasks, 0)
	w.regOn = append(w.regOn, reg)
	w.regMaybe = append(w.regMaybe, -1)
	w.createdAt = append(w.createdAt, len(w.closers))
	w.mu.Lock()
	w.sidIdx[s.SID()] = len(w.scopes) - 1
	w.mu.Unlock()
	return len(w.scopes) - 1
}

// apply runs one operation from the calling goroutine; a panic is the observable "SPanic".
func (w *world) apply(p sop) (out []string) {
	defer func() {
		if r := recover(); r != nil {
			out = []string{"SPanic"}
		}
	}()
	b := func(v bool) string { return "SBool " + coqBool(v) }
	w.lastFired = false
	switch p.K {
	case "newctx":
		w.addCtx(contextscope.New(), -1)
	case "newiso":
		w.addCtx(contextscope.NewIsolated(w.ctxs[p.S]), p.S)
	case "newroot":
		var s app.Scope
		if w.hooked {
			s = scope.New(scope.Params{ContextScope: w.wrapCtx(contextscope.New())})
		} else {
			s = scope.New(scope.Params{})
		}
		c := w.addCtx(s.BaseContextScope(), -1)
		w.addScope(s, c, -1, -1)
	case "newchild":
		par := w.scopes[p.S]
		reg := -1
		if !par.IsDone() {
			reg = p.S
		}
		mk := func(cp scope.ChildParams) app.Scope {
			if p.Via != 1 {
				return scope.NewChild(par, cp)
			}
			ioc := gio.NewChildIOContext(w.ioCtx(p.S), gio.ChildIOContextParams{Scope: cp})
			w.iocs[len(w.scopes)] = ioc
			return ioc.Scope()
		}
		var ch app.Scope
		c := w.scopeCtx[p.S]
		cp := scope.ChildParams{}
		if p.Iso {
			cp.ContextScope = contextscope.NewIsolated(par)
			if w.hooked {
				cp.ContextScope = w.wrapCtx(cp.ContextScope)
			}
			c = w.addCtx(cp.ContextScope, w.scopeCtx[p.S])
		}
		mid, eout := w.during(p, func() { ch = mk(cp) })
		n := w.addScope(ch, c, p.S, reg)
		if mid && reg >= 0 {
			// the parent's context ended between two instructions of NewChild: registered or not, both
			// are within the property; the two sides only have to agree
			w.regOn[n], w.regMaybe[n] = -1, reg
		}
		return eout
	case "on":
		w.scopes[p.S].On(goEvents[p.Ev], w.listener(p.Ev, p.Lid, p.Fail))
	case "add":
		var err error
		_, eout := w.during(p, func() { err = w.scopes[p.S].AddTasks(p.delta()) })
		if err == nil {
			w.tasks[p.S] += p.delta() // the caller was told "accepted": Close has to wait for its DoneTask
		}
		return append([]string{"SAdd " + coqBool(err == nil)}, eout...)
	case "done":
		stolen := w.tasks[p.S] <= 0 // misuse: none of the tasks accepted here is outstanding
		w.scopes[p.S].DoneTask()    // panics when the counter is zero
		w.tasks[p.S]--
		if stolen {
			// it did not panic: it used up a child's registration; from here on the bookkeeping does not
			// know the counter (the model does), so nothing is derived from it any more
			w.unsure = true
		}
	case "apperr":
		w.lastFiring = p.S
		w.scopes[p.S].AppendError(toErrs(p.Es)...)
	case "kill":
		w.lastFiring = p.S
		w.scopes[p.S].Kill()
	case "stop":
		w.lastFiring = p.S
		w.scopes[p.S].Stop()
	case "isdone":
		return []string{b(w.scopes[p.S].IsDone())}
	case "err":
		return []string{b(w.scopes[p.S].Err() != nil)}
	case "wait":
		// issued only when the bookkeeping says nothing is outstanding: it must not block
		ch := make(chan string, 1)
		sc := w.scopes[p.S]
		go func() {
			defer func() {
				if r := recover(); r != nil {
					ch <- "SPanic"
				}
			}()
			ch <- b(sc.Wait() != nil)
		}()
		select {
		case v := <-ch:
			return []string{v}
		case <-time.After(2 * time.Second):
			w.hang = true
			w.baseG++ // the stuck goroutine stays
			return []string{"SPanic"}
		}
	case "capp":
		w.ctxs[p.S].AppendError(toErrs(p.Es)...)
	case "ckill":
		w.ctxs[p.S].Kill()
	case "cstop":
		w.ctxs[p.S].Stop()
	case "cisdone":
		return []string{b(w.ctxs[p.S].IsDone())}
	case "cerr":
		return []string{b(w.ctxs[p.S].Err() != nil)}
	default:
		panic("harness: unknown op " + p.K)
	}
	return nil
}

func (w *world) startClose(s int) *closerRec {
	_, seen := w.closerOf[s]
	c := &closerRec{scope: s, status: 1, first: !seen}
	w.mu.Lock()
	c.logLenAt = len(w.log)
	w.mu.Unlock()
	if !seen {
		w.closerOf[s] = len(w.closers)
	}
	w.closers = append(w.closers, c)
	atomic.AddInt32(&w.alive, 1)
	sc := w.scopes[s]
	closeFn := sc.Close
	if ioc, ok := w.iocs[s]; ok {
		closeFn = ioc.Close // the scope belongs to an IOContext: closed the way its owner closes it
	}
	go func() {
		defer atomic.AddInt32(&w.alive, -1)
		defer func() {
			if r := recover(); r != nil {
				atomic.StoreInt32(&c.status, 4)
			}
		}()
		err := closeFn()
		atomic.StoreInt32(&c.errAfter, int32(len(sc.Errors())))
		if err != nil {
			atomic.StoreInt32(&c.status, 3)
		} else {
			atomic.StoreInt32(&c.status, 2)
		}
	}()
	return c
}

func (w *world) observe(main []string) stepObs {
	o := stepObs{Main: main, Closers: w.closerStatuses()}
	for _, c := range w.ctxs {
		d := 0
		if c.IsDone() {
			d = 1
		}
		o.Ctxs = append(o.Ctxs, [2]int{d, len(c.Errors())})
	}
	return o
}

func (o stepObs) coq() string {
	cl := make([]string, len(o.Closers))
	for i, c := range o.Closers {
		cl[i] = fmt.Sprint(c)
	}
	cx := make([]string, len(o.Ctxs))
	for i, c := range o.Ctxs {
		cx[i] = fmt.Sprintf("(%s, %s)", coqBool(c[0] == 1), coqNat(c[1]))
	}
	return fmt.Sprintf("{| so_main := %s; so_closers := %s; so_ctxs := %s |}", coqList(o.Main), coqList(cl), coqList(cx))
}

// seqResult is what a sequential history showed.
type seqResult struct {
	Hist       []sop
	Obs        []stepObs
	Errs       [][]int
	Log        []logEntry
	Hang       bool
	W          *world
	Ended      string // why the history was cut short ("" = ran to the end)
	CStatus    []int  // closer statuses when the history ended (before the world is released)
	CErrAfter  []int
	Violations []string // L2: a Close returned although the bookkeeping shows an outstanding task or child
}

// runSeq executes a history produced step by step by next (which sees the world so far and returns
// nil to stop).  The number of Close operations must be known up front for the status vector, so the
// history is generated first against a dry bookkeeping and then executed: next is called once per
// step and may inspect w.
func runSeq(next func(w *world, step int) *sop, maxSteps int) seqResult {
	w := newWorld(true)
	res := seqResult{W: w}
	var raws []stepObs
	for step := 0; step < maxSteps; step++ {
		p := next(w, step)
		if p == nil {
			break
		}
		res.Hist = append(res.Hist, *p)
		var main []string
		var cl *closerRec
		if p.K == "close" {
			cl = w.startClose(p.S)
		} else {
			main = w.apply(*p)
			res.Hist[len(res.Hist)-1].Fired = w.lastFired
		}
		// what the bookkeeping says before the step's effects on closers are looked at
		before := make([]int, len(w.closers))
		for i, c := range w.closers {
			before[i] = w.outstanding(c.scope)
		}
		w.settle()
		if cl != nil {
			w.mu.Lock()
			cl.logLenAfter = len(w.log)
			w.mu.Unlock()
		}
		for _, c := range w.closers {
			st := atomic.LoadInt32(&c.status)
			if c.first && !c.reported && (st == 2 || st == 3) {
				c.reported = true
				if n := w.outstanding(c.scope); n > 0 && !w.unsure {
					res.Violations = append(res.Violations, fmt.Sprintf("Close of scope %d returned with %d outstanding tasks/children (step %d)", c.scope, n, step))
				}
			}
		}
		_ = before
		raws = append(raws, w.observe(main))
		if w.hang {
			res.Hang = true
			res.Ended = "hang"
			break
		}
	}
	// pad the closer status vectors to the final number of closers
	total := len(w.closers)
	for i := range raws {
		for len(raws[i].Closers) < total {
			raws[i].Closers = append(raws[i].Closers, 0)
		}
	}
	res.Obs = raws
	for _, c := range w.ctxs {
		var l []int
		for _, e := range c.Errors() {
			l = append(l, errID(e))
		}
		res.Errs = append(res.Errs, l)
	}
	w.mu.Lock()
	res.Log = append([]logEntry{}, w.log...)
	w.mu.Unlock()
	for _, c := range w.closers {
		res.CStatus = append(res.CStatus, int(atomic.LoadInt32(&c.status)))
		res.CErrAfter = append(res.CErrAfter, int(atomic.LoadInt32(&c.errAfter)))
	}
	w.cleanup()
	return res
}

// cleanup releases every goroutine the world still owns (blocked closers, watchers) so that the
// next world starts from a quiet process.  Nothing is recorded any more.
func (w *world) cleanup() {
	w.mu.Lock()
	w.quiet = true
	w.mu.Unlock()
	w.sequential = false
	deadline := time.Now().Add(2 * time.Second)
	for time.Now().Before(deadline) {
		busy := false
		for _, c := range w.closers {
			if atomic.LoadInt32(&c.status) == 1 {
				busy = true
				func() {
					defer func() { recover() }()
					w.scopes[c.scope].DoneTask()
				}()
			}
		}
		if !busy {
			break
		}
		runtime.Gosched()
		time.Sleep(10 * time.Microsecond)
	}
	// stop the plain contexts only: every watcher then acts alone on its isolated context
	for i, p := range w.ctxIso {
		if p < 0 {
			func() { defer func() { recover() }(); w.ctxs[i].Stop() }()
		}
	}
	for i := 0; i < 2000 && runtime.NumGoroutine() > w.baseG; i++ {
		runtime.Gosched()
		if i > 100 {
			time.Sleep(10 * time.Microsecond)
		}
	}
}

func (r seqResult) coqHist() string {
	items := make([]string, len(r.Hist))
	for i, p := range r.Hist {
		items[i] = p.coq()
	}
	return coqList(items)
}
func (r seqResult) coqObs() string {
	items := make([]string, len(r.Obs))
	for i, o := range r.Obs {
		items[i] = strings.TrimSuffix(strings.Repeat(o.coq()+"; ", r.Hist[i].delta()), "; ")
	}
	return coqList(items)
}
func (r seqResult) coqErrs() string {
	items := make([]string, len(r.Errs))
	for i, l := range r.Errs {
		s := make([]string, len(l))
		for j, e := range l {
			s[j] = fmt.Sprint(e)
		}
		items[i] = coqList(s)
	}
	return coqList(items)
}
func (r seqResult) coqLog() string {
	items := make([]string, len(r.Log))
	for i, e := range r.Log {
		items[i] = fmt.Sprintf("(%s, %s, %s)", coqNat(e.Ev), coqNat(e.By), coqNat(e.Lid))
	}
	return coqList(items)
}
func (r seqResult) desc() map[string]interface{} {
	return map[string]interface{}{"history": r.Hist, "obs": r.Obs, "errors": r.Errs, "log": r.Log, "ended": r.Ended}
}
func (r seqResult) key() string {
	var sb strings.Builder
	for _, p := range r.Hist {
		fmt.Fprintf(&sb, "%s%d%v%d%d%v%d%d;", p.K, p.S, p.Iso, p.Ev, p.Fail, p.Es, p.Via, p.N)
		if p.End != nil {
			fmt.Fprintf(&sb, "<%s%d%v@%d>", p.End.K, p.End.S, p.End.Es, p.At)
		}
	}
	return sb.String()
}

func (w *world) closerStatuses() []int {
	r := make([]int, len(w.closers))
	for i, c := range w.closers {
		r[i] = int(atomic.LoadInt32(&c.status))
	}
	return r
}

// ---------- generator of sequential histories over small scope trees

type genCfg struct {
	listeners bool // register listeners (C11); otherwise bare scopes (C12)
	misuse    bool // allow operations whose expected outcome is a panic
	maxOps    int
	drain     bool // finish all tasks and close every scope at the end
	wide      bool // C11 audit: children through gio.NewChildIOContext, AddTasks(n) with n up to 3
	race      bool // C11: hooked world; NewChild / AddTasks with a signalling operation forced in mid-call (sop.End)
}

func (w *world) returned(s int) bool {
	ci, ok := w.closerOf[s]
	return ok && atomic.LoadInt32(&w.closers[ci].status) != 1
}
func (w *world) closeStarted(s int) bool { _, ok := w.closerOf[s]; return ok }

// genNext returns the generator closure for runSeq.
func genNext(rng *RNG, g genCfg, o *Out) func(w *world, step int) *sop {
	var pending []sop // set-up operations queued (roots, probe listeners)
	nroots := 1 + rng.Intn(2)
	for r := 0; r < nroots; r++ {
		pending = append(pending, sop{K: "newroot"})
	}
	setup := true
	ops := 0
	draining := false
	lid := 0
	newLid := func() int { lid++; return lid }
	var ons []sop // wide: the listeners registered so far by the random part
	nrace := 0    // race: pairs drawn so far
	return func(w *world, step int) *sop {
		if step == 0 && g.race {
			w.hooked = true
		}
		if setup && len(pending) == 0 {
			setup = false
			if g.listeners {
				for r := 0; r < nroots; r++ {
					for ev := 0; ev <= 10; ev++ {
						pending = append(pending, sop{K: "on", S: r, Ev: ev, Lid: newLid(), Fail: -1})
					}
				}
			}
		}
		if len(pending) > 0 {
			p := pending[0]
			pending = pending[1:]
			return &p
		}
		if ops >= g.maxOps {
			if !g.drain {
				return nil
			}
			draining = true
		}
		if draining {
			// finish tasks, then close children first
			for s := range w.scopes {
				if w.tasks[s] > 0 {
					return &sop{K: "done", S: s}
				}
			}
			for s := len(w.scopes) - 1; s >= 0; s-- {
				if !w.closeStarted(s) {
					return &sop{K: "close", S: s}
				}
			}
			return nil
		}
		ops++
		n := len(w.scopes)
		for try := 0; try < 40; try++ {
			s := rng.Intn(n)
			switch k := rng.Intn(100); {
			case k < 14:
				if n < 8 && w.scopeDepth[s] < 3 && !w.returned(s) {
					p := &sop{K: "newchild", S: s, Iso: rng.Chance(40)}
					if g.wide && rng.Chance(30) {
						p.Via = 1
					}
					if g.race && nrace < 3 && rng.Chance(60) {
						if p.End, p.At = pickEnd(rng, w, s), 1+rng.Intn(4); p.End != nil {
							nrace++
						}
					}
					return p
				}
			case k < 26:
				if g.listeners {
					if !w.returned(s) || (g.misuse && rng.Chance(5)) {
						f := -1
						l := newLid()
						if rng.Chance(25) {
							f = 100 + l
						}
						p := &sop{K: "on", S: s, Ev: rng.Intn(11), Lid: l, Fail: f}
						if g.wide {
							// several listeners on ONE event of ONE scope (a failing one in the middle) are
							// what "registration order" and "the first error stops the trigger" are about
							if len(ons) > 0 && rng.Chance(40) {
								q := ons[rng.Intn(len(ons))]
								if !w.returned(q.S) {
									p.S, p.Ev = q.S, q.Ev
								}
							}
							ons = append(ons, *p)
						}
						return p
					}
				}
			case k < 36:
				if g.wide && rng.Chance(25) {
					return &sop{K: "add", S: s, N: 2 + rng.Intn(2)}
				}
				if g.race && nrace < 3 && rng.Chance(40) {
					if e := pickEnd(rng, w, s); e != nil {
						nrace++ // at most 3 pairs in a history: 8 orders to evaluate in Coq
						return &sop{K: "add", S: s, End: e, At: 1 + rng.Intn(4)}
					}
				}
				return &sop{K: "add", S: s}
			case k < 48:
				if w.tasks[s] > 0 {
					return &sop{K: "done", S: s}
				}
				if g.misuse && rng.Chance(4) {
					return &sop{K: "done", S: s}
				}
			case k < 56:
				if !w.returned(s) || (g.misuse && rng.Chance(10)) {
					ne := 1 + rng.Intn(3)
					es := make([]int, ne)
					for i := range es {
						if rng.Chance(25) {
							es[i] = -1
						} else {
							es[i] = 1 + rng.Intn(50)
						}
					}
					return &sop{K: "apperr", S: s, Es: es}
				}
			case k < 61:
				if !w.returned(s) || (g.misuse && rng.Chance(10)) {
					return &sop{K: "kill", S: s}
				}
			case k < 66:
				if !w.returned(s) || (g.misuse && rng.Chance(10)) {
					return &sop{K: "stop", S: s}
				}
			case k < 82:
				if !w.closeStarted(s) {
					return &sop{K: "close", S: s}
				}
				if g.misuse && rng.Chance(15) {
					return &sop{K: "close", S: s}
				}
			case k < 88:
				return &sop{K: "isdone", S: s}
			case k < 94:
				return &sop{K: "err", S: s}
			default:
				if w.outstandingMax(s) == 0 && w.tasks[s] == 0 && !w.unsure {
					return &sop{K: "wait", S: s}
				}
			}
		}
		return &sop{K: "isdone", S: 0}
	}
}

// replayHistory re-runs the sequential history stored in a replay file (either the file written by
// bin/verif, whose "case" holds {"history": [...]}, or a bare {"history": [...]}) and prints what the
// implementation shows.
func replayHistory(path string) (seqResult, bool) {
	b, err := os.ReadFile(path)
	must(err)
	var outer struct {
		Case struct {
			History []sop `json:"history"`
		} `json:"case"`
		History       []sop `json:"history"`
		Disagreements []struct {
			Case struct {
				History []sop `json:"history"`
			} `json:"case"`
		} `json:"disagreements"`
	}
	must(json.Unmarshal(b, &outer))
	h := outer.Case.History
	if len(h) == 0 {
		h = outer.History
	}
	if len(h) == 0 && len(outer.Disagreements) > 0 {
		h = outer.Disagreements[0].Case.History
	}
	if len(h) == 0 {
		return seqResult{}, false
	}
	i := 0
	r := runSeq(func(w *world, step int) *sop {
		for _, p := range h {
			if step == 0 && p.End != nil {
				w.hooked = true
			}
		}
		if i >= len(h) {
			return nil
		}
		i++
		return &h[i-1]
	}, len(h)+1)
	for k, p := range r.Hist {
		what := p.coq()
		if p.End != nil {
			what += fmt.Sprintf(" <mid-call at hook point %d (reached: %v): %s>", p.At, p.Fired, p.End.coq())
		}
		fmt.Printf("%2d %-40s main=%v closers=%v ctxs=%v\n", k, what, r.Obs[k].Main, r.Obs[k].Closers, r.Obs[k].Ctxs)
	}
	fmt.Println("errors:", r.Errs, "ended:", r.Ended)
	for _, e := range r.Log {
		fmt.Printf("  log ev=%s by=%d lid=%d nerr=%d\n", coqEvents[e.Ev], e.By, e.Lid, e.NErr)
	}
	return r, true
}
