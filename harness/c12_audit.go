package main

// C12 — probe added by the coverage audit: the anchor app/terminal/termexec/run.go.  RunCommand
// creates a child scope of the calling context's scope, runs the command, closes the child - also
// when that scope has ended already, ends while the command runs, or is ended by another goroutine
// while several commands are dispatched at once.  Oracles: no call panics; when every command has
// returned the scope's counter is back at zero (Wait returns, Close returns and fires nothing
// twice); a command's own error comes back from RunCommand; Close reports an error iff the
// context holds one.

import (
	"fmt"
	"runtime"
	"strings"
	"sync"
	"sync/atomic"
	"time"

	"github.com/goatcms/goatcore/app"
	"github.com/goatcms/goatcore/app/gio"
	"github.com/goatcms/goatcore/app/goatapp"
	"github.com/goatcms/goatcore/app/scope"
	"github.com/goatcms/goatcore/app/scope/contextscope"
	"github.com/goatcms/goatcore/app/terminal"
	"github.com/goatcms/goatcore/app/terminal/termexec"
)

func c12TermexecProbe(o *Out, rng *RNG, rounds int) {
	mapp, err := goatapp.NewMockupApp(goatapp.Params{})
	must(err)
	var ran int32
	mk := func(name string, f func(ctx app.IOContext) error) app.TerminalCommand {
		return terminal.NewCommand(terminal.CommandParams{Name: name, Callback: func(a app.App, ctx app.IOContext) error {
			atomic.AddInt32(&ran, 1)
			return f(ctx)
		}})
	}
	cmds := terminal.NewCommands(
		mk("ok", func(app.IOContext) error { return nil }),
		mk("fail", func(app.IOContext) error { return idErr(11) }),
		mk("yield", func(app.IOContext) error { runtime.Gosched(); return nil }),
		// the command ends the scope it runs in (shared with the caller's scope)
		mk("kill", func(ctx app.IOContext) error { ctx.Scope().Kill(); return nil }),
		mk("stop", func(ctx app.IOContext) error { ctx.Scope().Stop(); return nil }),
		mk("apperr", func(ctx app.IOContext) error { ctx.Scope().AppendError(idErr(12)); return nil }),
	)
	names := []string{"ok", "fail", "yield", "kill", "stop", "apperr"}
	type callRes struct {
		Cmd   string `json:"cmd"`
		Err   bool   `json:"err"`
		Panic string `json:"panic,omitempty"`
	}
	call := func(rctx termexec.RunCtx, cmd string) (r callRes) {
		r.Cmd = cmd
		defer func() {
			if p := recover(); p != nil {
				r.Panic = fmt.Sprintf("%.120v", p)
			}
		}()
		r.Err = termexec.RunCommand(rctx, []string{cmd}) != nil
		return
	}
	old := runtime.GOMAXPROCS(0)
	defer runtime.GOMAXPROCS(old)
	for i := 0; i < rounds; i++ {
		runtime.GOMAXPROCS([]int{1, 2, 4, old}[i%4])
		endHow := rng.Intn(4)     // 0 Stop, 1 Kill, 2 AppendError, 3 nobody ends the scope from outside
		endWhen := rng.Intn(3)    // 0 before the commands, 1 while they run (own goroutine), 2 after them
		isoRoot := rng.Chance(25) // the calling scope is itself a child with an isolated context
		top := scope.New(scope.Params{})
		root := top
		if isoRoot {
			root = scope.NewChild(top, scope.ChildParams{ContextScope: contextscope.NewIsolated(top)})
		}
		g := 1 + rng.Intn(4)
		loop := rng.Chance(30) // one goroutine feeds its commands through RunLoop (a script on the context's input)
		progs := make([][]string, g)
		for gi := range progs {
			for k := 1 + rng.Intn(3); k > 0; k-- {
				progs[gi] = append(progs[gi], names[rng.Intn(len(names))])
			}
		}
		cio := scopeIO()
		if loop {
			for k := rng.Intn(3); k > 0; k-- {
				progs[0] = append(progs[0], names[rng.Intn(len(names))])
			}
			cio = gio.NewIO(gio.IOParams{In: gio.NewInput(strings.NewReader(strings.Join(progs[0], "\n") + "\n")), Out: gio.NewNilOutput(), Err: gio.NewNilOutput(), CWD: cio.CWD()})
		}
		rctx := termexec.NewRunCtx(termexec.RunCtxParams{Application: mapp, Ctx: gio.NewIOContext(root, cio), Commands: cmds})
		end := func() {
			defer func() { recover() }()
			switch endHow {
			case 0:
				root.Stop()
			case 1:
				root.Kill()
			case 2:
				root.AppendError(idErr(13))
			}
		}
		desc := map[string]interface{}{"family": "termexec", "end_how": endHow, "end_when": endWhen, "isolated_caller": isoRoot,
			"programs": progs, "first_program_through_RunLoop": loop, "round": i, "gomaxprocs": runtime.GOMAXPROCS(0)}
		o.CountEval(fmt.Sprintf("termexec:%d:%d:%v:%v:%v", endHow, endWhen, isoRoot, loop, progs), endHow != 3 || g > 1)
		o.Stat("termexec_rounds")
		if endWhen == 0 {
			end()
		}
		var wg sync.WaitGroup
		var mu sync.Mutex
		var results []callRes
		startCh := make(chan struct{})
		for gi := range progs {
			wg.Add(1)
			go func(gi int, prog []string) {
				defer wg.Done()
				<-startCh
				if loop && gi == 0 {
					r := callRes{Cmd: "RunLoop"}
					func() {
						defer func() {
							if p := recover(); p != nil {
								r.Panic = fmt.Sprintf("%.120v", p)
							}
						}()
						r.Err = termexec.RunLoop(rctx, "") != nil
					}()
					mu.Lock()
					results = append(results, r)
					mu.Unlock()
					return
				}
				for _, c := range prog {
					r := call(rctx, c)
					mu.Lock()
					results = append(results, r)
					mu.Unlock()
				}
			}(gi, progs[gi])
		}
		if endWhen == 1 {
			wg.Add(1)
			go func() { defer wg.Done(); <-startCh; end() }()
		}
		close(startCh)
		fin := make(chan struct{})
		go func() { wg.Wait(); close(fin) }()
		select {
		case <-fin:
		case <-time.After(10 * time.Second):
			o.Fail("no_hang", "RunCommand did not return", "termexec_hang", desc)
			return
		}
		if endWhen == 2 {
			end()
		}
		desc["results"] = results
		for _, r := range results {
			if r.Panic != "" {
				o.Fail("child_of_done", fmt.Sprintf("RunCommand(%s) panicked on a scope that ends (how %d, when %d): %s", r.Cmd, endHow, endWhen, r.Panic), "termexec_panic", desc)
				break
			}
			if r.Cmd == "fail" && !r.Err {
				o.Fail("errors_retained", "RunCommand returned nil for a command that returned an error", "termexec_result", desc)
			}
		}
		// every command has returned: nothing is registered on the caller's scope any more
		_, wpan, ok := callGuard(root.Wait, 5*time.Second)
		if !ok {
			o.Fail("child_of_done", "every command returned, yet Wait() on the calling scope blocks: a command's child scope never signed off", "termexec_counter", desc)
			return
		}
		if wpan != nil {
			o.Fail("no_panic", fmt.Sprintf("Wait() on the calling scope panicked: %.100v", wpan), "termexec_panic", desc)
		}
		nerr := len(root.Errors())
		cerr, cpan, ok := callGuard(root.Close, 5*time.Second)
		if !ok {
			o.Fail("child_of_done", "Close() of the calling scope blocks after every command returned", "termexec_counter", desc)
			return
		}
		if cpan != nil {
			o.Fail("no_panic", fmt.Sprintf("Close() of the calling scope panicked: %.100v", cpan), "termexec_panic", desc)
		} else if (cerr != nil) != (nerr != 0) && !isoRoot {
			o.Fail("close_iff_nonempty", fmt.Sprintf("Close() of the calling scope returned error=%v, it holds %d errors", cerr != nil, nerr), "termexec_close", desc)
		}
		if isoRoot {
			callGuard(top.Close, 2*time.Second)
		}
		func() { defer func() { recover() }(); top.BaseContextScope().Stop() }()
	}
}
