package main

// C15 — named resource locks (commservices/mutex.SharedMutex).
//
// (i)   black-box acquisition-order probe: for a lock map m and every name x of m, an outside
//       holder takes W(x), Lock(m) is started in a goroutine (it must block at x), and for every
//       other name y a third goroutine tries W(y) with a timeout: "y taken" means y is acquired
//       before x.  The prefix sets give the real acquisition order, emitted as COrder cases and
//       compared in Coq with the model's sort_rows.  L2: Lock(m) must not return while the outside
//       writer holds x (exclusion), and everything must finish (watchdog).
// (ii)  stress: 2..12 holders over a pool of 4 names, random maps/modes/durations; every holder
//       records "Lock returned" / "about to Unlock" in one global sequence.  L2: exclusion oracle
//       on the recorded intervals, watchdog (= deadlock), panics.  L1: the trace is emitted as a
//       CTrace case and must be accepted by the Coq model.
// (ii') no-serialisation: a family of pairwise compatible holders must all be inside their
//       critical sections at the same time (barrier inside the critical section, timeout = Fail).
// (ii-b..e) see c15_audit.go: bystanders of a parked holder, crowds, critical name shapes (look-alikes,
//       long common prefixes, large maps) in the order probe and in the stress, first use of a name.
// (iii) pip:run lock-list parsing (markBoolMapForNamespace through the pip:run command with a
//       recording runner), differential against the pure Coq model.

import (
	"bytes"
	"fmt"
	"os"
	"os/exec"
	"sort"
	"strings"
	"sync"
	"sync/atomic"
	"time"

	"github.com/goatcms/goatcore/app/modules/commonm/commservices"
	"github.com/goatcms/goatcore/app/modules/commonm/commservices/mutex"
)

func init() { runners["C15"] = runC15 }

type c15Row struct {
	Name string
	W    bool
}

func c15Rows(m commservices.LockMap) []c15Row {
	rows := make([]c15Row, 0, len(m))
	for k, v := range m {
		rows = append(rows, c15Row{k, v})
	}
	return rows
}

func coqRows(rows []c15Row) string {
	items := make([]string, len(rows))
	for i, r := range rows {
		items[i] = fmt.Sprintf("(%s, %s)", coqStr(r.Name), coqBool(r.W))
	}
	return coqList(items)
}

func descRows(rows []c15Row) []map[string]interface{} {
	out := make([]map[string]interface{}, len(rows))
	for i, r := range rows {
		mode := "R"
		if r.W {
			mode = "W"
		}
		out[i] = map[string]interface{}{"name": byteList([]byte(r.Name)), "mode": mode}
	}
	return out
}

// c15TryLock: does sm.Lock(m) complete within d?  (The goroutine unlocks at once whenever it
// gets the lock; wg lets the caller wait for the stragglers.)
func c15TryLock(sm commservices.SharedMutex, m commservices.LockMap, d time.Duration, wg *sync.WaitGroup) bool {
	got := make(chan struct{})
	wg.Add(1)
	go func() {
		defer wg.Done()
		h := sm.Lock(m)
		close(got)
		h.Unlock()
	}()
	select {
	case <-got:
		return true
	case <-time.After(d):
		return false
	}
}

type c15Probe struct {
	Order      []string
	Consistent bool
	Hang       bool
	Excl       bool // Lock(m) returned while the outside writer held one of its names
	Panic      bool
}

// probeOrder decides the acquisition order of sm.Lock(m) black-box.
func c15ProbeOrder(m commservices.LockMap, settle, tmo time.Duration) (res c15Probe) {
	names := make([]string, 0, len(m))
	for k := range m {
		names = append(names, k)
	}
	sort.Strings(names) // only to make the probing deterministic; not used for the result
	prefix := map[string]map[string]bool{}
	for _, x := range names {
		sm := mutex.NewSharedMutex()
		var wg sync.WaitGroup
		hx := sm.Lock(commservices.LockMap{x: commservices.LockRW})
		var returned int32
		var panicked int32
		wg.Add(1)
		go func() {
			defer wg.Done()
			defer func() {
				if r := recover(); r != nil {
					atomic.StoreInt32(&panicked, 1)
				}
			}()
			h := sm.Lock(m)
			atomic.StoreInt32(&returned, 1)
			h.Unlock()
		}()
		time.Sleep(settle)
		taken := map[string]bool{}
		var mu sync.Mutex
		var pw sync.WaitGroup
		for _, y := range names {
			if y == x {
				continue
			}
			pw.Add(1)
			go func(y string) {
				defer pw.Done()
				ok := c15TryLock(sm, commservices.LockMap{y: commservices.LockRW}, tmo, &wg)
				mu.Lock()
				taken[y] = !ok
				mu.Unlock()
			}(y)
		}
		pw.Wait()
		if atomic.LoadInt32(&returned) == 1 {
			res.Excl = true
		}
		hx.Unlock()
		done := make(chan struct{})
		go func() { wg.Wait(); close(done) }()
		select {
		case <-done:
		case <-time.After(10 * time.Second):
			res.Hang = true
			return res
		}
		if atomic.LoadInt32(&panicked) == 1 {
			res.Panic = true
			return res
		}
		p := map[string]bool{}
		for y, t := range taken {
			if t {
				p[y] = true
			}
		}
		prefix[x] = p
	}
	order := append([]string(nil), names...)
	sort.SliceStable(order, func(i, j int) bool { return len(prefix[order[i]]) < len(prefix[order[j]]) })
	res.Order = order
	res.Consistent = true
	for i, x := range order {
		if len(prefix[x]) != i {
			res.Consistent = false
		}
		for _, y := range order[:i] {
			if !prefix[x][y] {
				res.Consistent = false
			}
		}
	}
	return res
}

var c15NamePool = []string{"a", "b", "ab", "B", "_", "a0", "A", "z", "aa", "b_", "Z9", "res", "resource", "db", "\xc3\xa9", "a\x00", "~",
	"@a", "@b", "a ", " a", "a/", "./a", "@res", "a.b"}

// c15Aliases: spellings that a careless normalisation (trimming a marker or blanks, folding case, cleaning
// a path) would map onto the plain name x. They are DIFFERENT resource names and must behave so.
func c15Aliases(x string) []string {
	return []string{"@" + x, x + " ", " " + x, strings.ToUpper(x), x + "/", "./" + x, x + "\x00", "@@" + x, x + ".", "/" + x}
}

func c15RandMap(rng *RNG, pool []string, maxSize int, pctW int) commservices.LockMap {
	m := commservices.LockMap{}
	n := rng.Intn(maxSize + 1)
	if n == 0 && rng.Chance(80) {
		n = 1
	}
	for len(m) < n && len(m) < len(pool) {
		m[pool[rng.Intn(len(pool))]] = rng.Chance(pctW)
	}
	return m
}

type c15Event struct {
	Acq bool
	I   int
}

func c15EventsCoq(tr []c15Event) string {
	items := make([]string, len(tr))
	for i, e := range tr {
		if e.Acq {
			items[i] = fmt.Sprintf("EAcq %d%%nat", e.I)
		} else {
			items[i] = fmt.Sprintf("ERel %d%%nat", e.I)
		}
	}
	return coqList(items)
}

func c15EventsDesc(tr []c15Event) string {
	var sb strings.Builder
	for _, e := range tr {
		if e.Acq {
			fmt.Fprintf(&sb, "A%d ", e.I)
		} else {
			fmt.Fprintf(&sb, "R%d ", e.I)
		}
	}
	return sb.String()
}

// c15Stress runs one round; returns the trace, hang flag, panic flag.
func c15Stress(maps []commservices.LockMap, durs []int, jitter []int) (tr []c15Event, hang bool, panics int) {
	sm := mutex.NewSharedMutex()
	var mu sync.Mutex
	var wg sync.WaitGroup
	var pc int32
	start := make(chan struct{})
	for i := range maps {
		wg.Add(1)
		go func(i int) {
			defer wg.Done()
			defer func() {
				if r := recover(); r != nil {
					atomic.AddInt32(&pc, 1)
				}
			}()
			<-start
			c15Spin(jitter[i])
			h := sm.Lock(maps[i])
			mu.Lock()
			tr = append(tr, c15Event{true, i})
			mu.Unlock()
			c15Spin(durs[i])
			mu.Lock()
			tr = append(tr, c15Event{false, i})
			mu.Unlock()
			h.Unlock()
		}(i)
	}
	close(start)
	done := make(chan struct{})
	go func() { wg.Wait(); close(done) }()
	select {
	case <-done:
	case <-time.After(8 * time.Second):
		mu.Lock()
		cp := append([]c15Event(nil), tr...)
		mu.Unlock()
		return cp, true, int(atomic.LoadInt32(&pc))
	}
	return tr, false, int(atomic.LoadInt32(&pc))
}

// duration code: 0 none, 1 Gosched, n>1: sleep n microseconds
func c15Spin(code int) {
	switch {
	case code == 0:
	case code == 1:
		for k := 0; k < 3; k++ {
			time.Sleep(0)
		}
	default:
		time.Sleep(time.Duration(code) * time.Microsecond)
	}
}

func c15Compatible(a, b commservices.LockMap) bool {
	for k, va := range a {
		if vb, ok := b[k]; ok && (va || vb) {
			return false
		}
	}
	return true
}

func c15Shares(a, b commservices.LockMap) bool {
	for k := range a {
		if _, ok := b[k]; ok {
			return true
		}
	}
	return false
}

// runC15 supervises: the real work runs in a child process (same binary, C15_CHILD=1) because a
// broken lock implementation typically dies with an unrecoverable Go runtime error
// ("fatal error: sync: Unlock of unlocked RWMutex", "all goroutines are asleep"), which must be
// reported as a property failure and not as a crash of the machinery.
func runC15(o *Out, rng *RNG, tier string, replay string) {
	if os.Getenv("C15_CHILD") == "1" {
		runC15Child(o, rng, tier, replay)
		return
	}
	cmd := exec.Command(os.Args[0], os.Args[1:]...)
	cmd.Env = append(os.Environ(), "C15_CHILD=1")
	var errb bytes.Buffer
	cmd.Stderr = &errb
	cmd.Stdout = os.Stdout
	err := cmd.Run()
	if err == nil {
		os.Exit(0) // the child wrote the shards and result.json
	}
	msg := errb.String()
	first := msg
	if i := strings.IndexByte(first, '\n'); i >= 0 {
		first = first[:i]
	}
	if len(msg) > 3000 {
		msg = msg[:3000]
	}
	o.Rule = "supervisor: the harness child process died"
	o.Stat("child_crash")
	o.CountEval("crash", true)
	o.Fail("no_crash", "the process running SharedMutex under stress died: "+first, "fatal",
		map[string]interface{}{"op": "stress", "stderr": msg, "note": "replay with the same seed"})
}

func runC15Child(o *Out, rng *RNG, tier string, replay string) {
	o.Imports = "From GC Require Import Common.Base Model.Locks Corr.C15."
	o.CaseType = "case"
	o.CheckFn = "check"
	o.ShardSize = 150
	o.Rule = "(i) acquisition-order probes of SharedMutex.Lock on random maps of 1..4 names from a 25-name pool, on every look-alike pair of a name, " +
		"on names with a common prefix of 9..300 bytes and on maps of 9, 17, 24 and 40 names (order observed black-box vs the model's byte-wise sort); " +
		"(ii) stress rounds of 2..12 concurrent holders over 4 names with random maps, modes, hold times and start jitter, plus rounds on look-alike / " +
		"long-prefix pools, on pools of 10..24 names and with 24..48 holders - exclusion oracle on the recorded intervals, watchdog for deadlock, trace " +
		"accepted by the Coq model; (ii') families of pairwise compatible holders (2..6, and crowds of 40..100) must all be inside at once; look-alike " +
		"names are different resources; (ii-b) holders compatible with everybody get in and out while an incompatible holder is parked inside Lock; " +
		"(ii-e) the first requests for a new name exclude each other; (ii-r) the real pipeline runner: bodies respect the lock maps (also against a " +
		"direct holder of the shared mutex service), compatible tasks run together, a bystander task is not held up by a parked one, the locks of a " +
		"FAILED body are given back; (iii) pip:run rlock/wlock parsing vs the pure model, and the number of read / write entries vs what was asked for. " +
		"Non-trivial: order probe with >= 2 names; stress round in which at least two holders share a name; distinct by maps(+trace)."

	nOrder, nStress, nHot, nBarrier, nParse := 120, 260, 60, 80, 250
	nShaped, nBystander, nCrowd, nFirstUse := 120, 90, 3, 1500
	if tier == "thorough" {
		nOrder, nStress, nHot, nBarrier, nParse = 1200, 12000, 3000, 1500, 6000
		nShaped, nBystander, nCrowd, nFirstUse = 4000, 2000, 40, 40000
	}

	// ---------- (i) acquisition order
	type orderJob struct {
		m    commservices.LockMap
		rows []c15Row
		res  c15Probe
	}
	jobs := make([]*orderJob, nOrder)
	for i := range jobs {
		pset := map[string]bool{}
		for len(pset) < 5 {
			pset[c15NamePool[rng.Intn(len(c15NamePool))]] = true
		}
		pool := make([]string, 0, 5)
		for k := range pset {
			pool = append(pool, k)
		}
		sort.Strings(pool)
		m := c15RandMap(rng, pool, 4, 50)
		for len(m) < 2 && rng.Chance(85) {
			m = c15RandMap(rng, pool, 4, 50)
		}
		jobs[i] = &orderJob{m: m, rows: c15Rows(m)}
	}
	// the critical shapes, every run: a name with each of its look-alike spellings, names with a
	// long common prefix, maps of 9..40 names (the order must be ONE order for all of them)
	{
		add := func(m commservices.LockMap) { jobs = append(jobs, &orderJob{m: m, rows: c15Rows(m)}) }
		for _, x := range []string{"a", "res"} {
			for _, y := range append(c15Aliases(x), x+x) {
				add(commservices.LockMap{x: rng.Bool(), y: rng.Bool()})
			}
		}
		nShape := 12
		if tier == "thorough" {
			nShape = 120
		}
		for i := 0; i < nShape; i++ {
			pool := c15ShapePool(rng, i%2, 3+rng.Intn(3))
			m := commservices.LockMap{}
			for _, nm := range pool {
				m[nm] = rng.Bool()
			}
			add(m)
		}
		for _, size := range []int{9, 17, 24, 40} {
			m := commservices.LockMap{}
			for _, nm := range c15ShapePool(rng, 2, size) {
				m[nm] = rng.Bool()
			}
			add(m)
		}
	}
	{
		sem := make(chan struct{}, 8)
		var wg sync.WaitGroup
		for _, j := range jobs {
			wg.Add(1)
			sem <- struct{}{}
			go func(j *orderJob) {
				defer wg.Done()
				defer func() { <-sem }()
				settle, tmo := 1*time.Millisecond, 4*time.Millisecond
				for attempt := 0; attempt < 3; attempt++ {
					j.res = c15ProbeOrder(j.m, settle, tmo)
					if j.res.Hang || j.res.Panic || j.res.Excl {
						return
					}
					want := make([]string, 0, len(j.m))
					for k := range j.m {
						want = append(want, k)
					}
					sort.Strings(want)
					if j.res.Consistent && sameArgs(want, j.res.Order) {
						return
					}
					// slow machine or a real difference: look again, more slowly
					settle *= 8
					tmo *= 6
				}
			}(j)
		}
		wg.Wait()
	}
	for _, j := range jobs {
		desc := map[string]interface{}{"op": "order", "map": descRows(j.rows), "observed": strsBytes(j.res.Order),
			"consistent": j.res.Consistent}
		key := "o:" + fmt.Sprint(j.rows)
		switch {
		case j.res.Hang:
			o.Stat("order_hang")
			o.Fail("no_deadlock", "Lock/Unlock did not finish within 10 s in the acquisition-order probe", "hang", desc)
			o.CountEval(key, true)
			continue
		case j.res.Panic:
			o.Stat("order_panic")
			o.Fail("no_panic", "Lock/Unlock panicked in the acquisition-order probe", "panic", desc)
			o.CountEval(key, true)
			continue
		}
		if j.res.Excl {
			o.Fail("exclusion", "Lock(map) returned while another holder had a write lock on one of its names", "excl-probe", desc)
		}
		if !j.res.Consistent {
			o.Stat("order_inconsistent")
		}
		o.Stat(fmt.Sprintf("order_size_%d", len(j.rows)))
		o.AddCase(fmt.Sprintf("COrder %s %s", coqRows(j.rows), coqStrList(j.res.Order)), desc, key, len(j.rows) >= 2)
	}

	// ---------- (ii) stress
	hung := false
	stress := func(hot bool, shaped []string, holders int) {
		if hung {
			return
		}
		pool := map[string]bool{}
		for len(pool) < 4 {
			pool[c15NamePool[rng.Intn(len(c15NamePool))]] = true
		}
		names := make([]string, 0, 4)
		for k := range pool {
			names = append(names, k)
		}
		if shaped != nil {
			names = append([]string(nil), shaped...)
		}
		sort.Strings(names)
		n := 2 + rng.Intn(11)
		if holders > 0 {
			n = holders
		}
		maps := make([]commservices.LockMap, n)
		durs := make([]int, n)
		jit := make([]int, n)
		pctW := []int{15, 40, 70}[rng.Intn(3)]
		hotW := 80
		if len(names) > 8 { // large maps: with fewer writers the holders get further before they wait
			hotW = []int{30, 50, 80}[rng.Intn(3)]
		}
		for i := range maps {
			if hot {
				maps[i] = commservices.LockMap{}
				for _, nm := range names {
					if rng.Chance(75) {
						maps[i][nm] = rng.Chance(hotW)
					}
				}
				durs[i] = rng.Intn(2)
				jit[i] = 0
			} else {
				maps[i] = c15RandMap(rng, names, len(names), pctW)
				switch rng.Intn(4) {
				case 0:
					durs[i] = 0
				case 1:
					durs[i] = 1
				default:
					durs[i] = 10 + rng.Intn(190)
				}
				jit[i] = []int{0, 0, 1, 20, 100}[rng.Intn(5)]
			}
		}
		rows := make([][]c15Row, n)
		for i := range maps {
			rows[i] = c15Rows(maps[i])
		}
		tr, hang, panics := c15Stress(maps, durs, jit)
		mapsDesc := make([]interface{}, n)
		mapsCoq := make([]string, n)
		for i := range rows {
			mapsDesc[i] = descRows(rows[i])
			mapsCoq[i] = coqRows(rows[i])
		}
		desc := map[string]interface{}{"op": "stress", "pool": strsBytes(names), "maps": mapsDesc, "hold": durs, "jitter": jit,
			"trace": c15EventsDesc(tr), "hot": hot}
		key := "s:" + fmt.Sprint(rows) + c15EventsDesc(tr)
		contended := false
		for i := 0; i < n; i++ {
			for j := i + 1; j < n; j++ {
				if c15Shares(maps[i], maps[j]) {
					contended = true
				}
			}
		}
		if panics > 0 {
			o.Stat("stress_panic")
			o.Fail("no_panic", "Lock/Unlock panicked under stress", "panic", desc)
			o.CountEval(key, true)
			return
		}
		if hang {
			hung = true
			o.Stat("stress_hang")
			o.Fail("no_deadlock", fmt.Sprintf("%d holders did not all finish within 8 s: acquisition deadlocked (events so far: %s)", n, c15EventsDesc(tr)), "deadlock", desc)
			o.CountEval(key, true)
			return
		}
		// L2: exclusion on the recorded intervals + overlap statistics
		active := map[int]bool{}
		bad := ""
		for _, e := range tr {
			if e.Acq {
				for j := range active {
					if !c15Compatible(maps[e.I], maps[j]) && bad == "" {
						bad = fmt.Sprintf("holders %d and %d were inside at the same time with conflicting maps", j, e.I)
					}
					if c15Compatible(maps[e.I], maps[j]) {
						o.Stat("overlap_compatible_pairs")
						if c15Shares(maps[e.I], maps[j]) {
							o.Stat("overlap_shared_read_pairs")
						}
					}
				}
				active[e.I] = true
			} else {
				delete(active, e.I)
			}
		}
		if len(tr) != 2*n || len(active) != 0 {
			bad = "trace incomplete"
		}
		if bad != "" {
			o.Fail("exclusion", bad, "exclusion", desc)
		}
		if hot {
			o.Stat("stress_hot_rounds")
		} else {
			o.Stat("stress_rounds")
		}
		o.Stat(fmt.Sprintf("holders_%02d", n))
		o.AddCase(fmt.Sprintf("CTrace %s %s %s", coqStrList(names), coqList(mapsCoq), c15EventsCoq(tr)), desc, key, contended)
	}
	// plain and hot rounds on random 4-name pools, interleaved (so that the Coq shards stay
	// balanced) with hot and plain rounds on the critical name shapes (look-alikes, long common
	// prefixes, maps of up to 24 names) and with up to 48 holders
	shapedRound := func(i int) {
		switch i % 4 {
		case 0:
			stress(true, c15ShapePool(rng, 0, 4), 0)
		case 1:
			stress(true, c15ShapePool(rng, 1, 4), 0)
		case 2:
			stress(true, c15ShapePool(rng, 2, 10+rng.Intn(15)), 2+rng.Intn(7))
		default:
			stress(i%8 == 3, c15ShapePool(rng, rng.Intn(3), 5), 24+rng.Intn(25))
		}
	}
	shapedDone := 0
	for i := 0; i < nStress+nHot; i++ {
		stress(i >= nStress, nil, 0)
		for shapedDone*(nStress+nHot) < (i+1)*nShaped {
			shapedRound(shapedDone)
			shapedDone++
		}
	}

	// ---------- (ii') no serialisation: compatible families all inside at once
	serialised := 0
	for b := 0; b < nBarrier && !hung && serialised < 3; b++ {
		names := []string{"a", "b", "c", "d", "e", "f"}
		k := 2 + rng.Intn(5)
		maps := make([]commservices.LockMap, k)
		for i := range maps {
			maps[i] = commservices.LockMap{}
		}
		for _, nm := range names {
			switch rng.Intn(3) {
			case 0: // shared by several readers
				for i := range maps {
					if rng.Chance(60) {
						maps[i][nm] = commservices.LockR
					}
				}
			case 1: // owned by one holder, read or write
				maps[rng.Intn(k)][nm] = rng.Chance(70)
			}
		}
		ok := true
		for i := 0; i < k; i++ {
			for j := i + 1; j < k; j++ {
				if !c15Compatible(maps[i], maps[j]) {
					ok = false
				}
			}
		}
		if !ok {
			panic("c15: generator produced an incompatible family")
		}
		sm := mutex.NewSharedMutex()
		var inside int32
		all := make(chan struct{})
		giveup := make(chan struct{})
		var wg sync.WaitGroup
		for i := range maps {
			wg.Add(1)
			go func(i int) {
				defer wg.Done()
				h := sm.Lock(maps[i])
				if int(atomic.AddInt32(&inside, 1)) == k {
					close(all)
				}
				select {
				case <-all:
				case <-giveup:
				}
				h.Unlock()
			}(i)
		}
		mapsDesc := make([]interface{}, k)
		for i := range maps {
			mapsDesc[i] = descRows(c15Rows(maps[i]))
		}
		desc := map[string]interface{}{"op": "all-inside", "maps": mapsDesc}
		select {
		case <-all:
			o.Stat("all_inside_ok")
		case <-time.After(3 * time.Second):
			close(giveup)
			serialised++
			o.Stat("all_inside_timeout")
			o.Fail("no_serialisation", fmt.Sprintf("%d pairwise compatible holders were not all inside their critical sections within 3 s (only %d got in)", k, atomic.LoadInt32(&inside)), "serialised", desc)
		}
		done := make(chan struct{})
		go func() { wg.Wait(); close(done) }()
		select {
		case <-done:
		case <-time.After(8 * time.Second):
			hung = true
			o.Fail("no_deadlock", "compatible holders did not finish", "deadlock", desc)
		}
		shared := false
		for i := 0; i < k; i++ {
			for j := i + 1; j < k; j++ {
				if c15Shares(maps[i], maps[j]) {
					shared = true
				}
			}
		}
		o.CountEval("b:"+fmt.Sprint(mapsDesc), shared)
	}

	// ---------- (ii'') look-alike names are different resources
	for _, x := range []string{"a", "res", "db"} {
		if hung {
			break
		}
		for _, y := range c15Aliases(x) {
			if y == x {
				continue
			}
			for _, modes := range [][2]bool{{true, false}, {true, true}, {false, true}} {
				desc := map[string]interface{}{"op": "alias", "names": strsBytes([]string{x, y}), "modes": modes}
				// (a) one holder naming both never waits for itself
				sm := mutex.NewSharedMutex()
				got := make(chan struct{})
				go func() {
					h := sm.Lock(commservices.LockMap{x: modes[0], y: modes[1]})
					h.Unlock()
					close(got)
				}()
				select {
				case <-got:
					o.Stat("alias_single_ok")
				case <-time.After(5 * time.Second):
					hung = true
					o.Fail("no_deadlock", fmt.Sprintf("a single holder of the map {%q:%v, %q:%v} never acquired its locks (the two names share one mutex)", x, modes[0], y, modes[1]), "alias-self-deadlock", desc)
				}
				o.CountEval(fmt.Sprintf("al1:%q:%q:%v", x, y, modes), true)
				if hung {
					break
				}
				// (b) writers of the two names are inside at the same time
				sm = mutex.NewSharedMutex()
				var inside int32
				all := make(chan struct{})
				giveup := make(chan struct{})
				var wg sync.WaitGroup
				for _, nm := range []string{x, y} {
					wg.Add(1)
					go func(nm string) {
						defer wg.Done()
						h := sm.Lock(commservices.LockMap{nm: commservices.LockRW})
						if atomic.AddInt32(&inside, 1) == 2 {
							close(all)
						}
						select {
						case <-all:
						case <-giveup:
						}
						h.Unlock()
					}(nm)
				}
				select {
				case <-all:
					o.Stat("alias_pair_ok")
				case <-time.After(3 * time.Second):
					close(giveup)
					o.Fail("no_serialisation", fmt.Sprintf("writers of the different names %q and %q were serialised against each other", x, y), "alias-serialised", desc)
				}
				wg.Wait()
				o.CountEval(fmt.Sprintf("al2:%q:%q", x, y), true)
			}
		}
	}

	// ---------- (ii-b) bystanders of a parked holder, (ii-c) crowds, (ii-e) first use of a name
	if !hung {
		hung = c15Bystander(o, rng.Fork(), nBystander)
	}
	if !hung {
		hung = c15Crowd(o, rng.Fork(), nCrowd)
	}
	if !hung {
		hung = c15FirstUse(o, rng.Fork(), nFirstUse, 6)
	}

	// ---------- (ii-r) the pipeline runner holds a task's locks around its whole body
	nRunner := 60
	if tier == "thorough" {
		nRunner = 1500
	}
	if !hung {
		c15RunnerProbe(o, rng.Fork(), nRunner)
	}

	// ---------- (ii-m) the caller changes its map object while holding
	if !hung {
		c15CallerMapProbe(o)
	}

	// ---------- (iii) lock-list parsing of pip:run
	c15Parse(o, rng, nParse)
}
