package main

import (
	"bytes"
	"encoding/json"
	"fmt"
	"io"
	"os"
	"strconv"
	"strings"
	"time"

	"github.com/goatcms/goatcore/app"
	"github.com/goatcms/goatcore/app/scope/argscope"
	"github.com/goatcms/goatcore/app/scope/datascope"
	"github.com/goatcms/goatcore/varutil"
)

func init() { runners["C17"] = runC17 }

type readObs struct {
	Kind string   `json:"kind"` // ok | err | panic
	Args []string `json:"-"`
	EOF  bool     `json:"eof"`
	Rest []byte   `json:"-"`
}

// c17Hangs counts ReadArguments calls that did not return within c17HangLimit. A call that hangs
// keeps spinning in its goroutine, so after c17MaxHangs of them the direct-call generators stop
// (every hang has been reported as an oracle failure by then; the run still finishes and reports).
var (
	c17Hangs     int
	c17HangLimit = 15 * time.Second
)

const c17MaxHangs = 3

func implReadFrom(rd io.Reader) readObs {
	ch := make(chan readObs, 1)
	go func() {
		defer func() {
			if r := recover(); r != nil {
				ch <- readObs{Kind: "panic"}
			}
		}()
		args, eof, err := varutil.ReadArguments(rd)
		if err != nil {
			ch <- readObs{Kind: "err"}
			return
		}
		ch <- readObs{Kind: "ok", Args: args, EOF: eof}
	}()
	t := time.NewTimer(c17HangLimit)
	defer t.Stop()
	select {
	case o := <-ch:
		return o
	case <-t.C:
		c17Hangs++
		return readObs{Kind: "hang"}
	}
}

func implRead(input []byte) readObs {
	rd := bytes.NewReader(input)
	o := implReadFrom(rd)
	if o.Kind == "ok" {
		o.Rest, _ = io.ReadAll(rd)
	}
	return o
}

func (o readObs) coq() string {
	switch o.Kind {
	case "ok":
		return fmt.Sprintf("(OOk %s %s %s)", coqStrList(o.Args), coqBool(o.EOF), coqBytes(o.Rest))
	case "err":
		return "OErr"
	}
	return "OPanic"
}

func (o readObs) desc(input []byte) map[string]interface{} {
	return map[string]interface{}{"op": "read", "input": byteList(input), "kind": o.Kind,
		"args": strsBytes(o.Args), "eof": o.EOF, "rest": byteList(o.Rest)}
}

// reference quoting function — identical to Model/Args.v [quote]
func refQuote1(a string) string {
	var sb strings.Builder
	sb.WriteByte('"')
	for i := 0; i < len(a); i++ {
		switch a[i] {
		case '"':
			sb.WriteString("\\\"")
		case '\\':
			sb.WriteString("\"\\\\\"")
		default:
			sb.WriteByte(a[i])
		}
	}
	sb.WriteByte('"')
	return sb.String()
}

func sameArgs(a, b []string) bool {
	if len(a) != len(b) {
		return false
	}
	for i := range a {
		if a[i] != b[i] {
			return false
		}
	}
	return true
}

// recorder implements app.DataScope and records SetValue calls in order.
type recorder struct {
	sets [][2]interface{}
}

func (r *recorder) SetValue(k, v interface{})       { r.sets = append(r.sets, [2]interface{}{k, v}) }
func (r *recorder) Value(k interface{}) interface{} { return nil }
func (r *recorder) Keys() []interface{}             { return nil }
func (r *recorder) LockData() app.DataScopeLocker   { return nil }

func expBytes(e [][]string) [][][]int {
	r := make([][][]int, len(e))
	for i, c := range e {
		r[i] = strsBytes(c)
	}
	return r
}

var c17Alphabet = []byte{' ', '\t', '\n', '"', '\\', '=', '<', 'a', 0xC3}

func runC17(o *Out, rng *RNG, tier string, replay string) {
	o.Imports = "From GC Require Import Common.Base Model.Args Corr.C17."
	o.CaseType = "case"
	o.CheckFn = "check"
	o.ShardSize = 700
	o.Rule = "inputs: (1) every byte string over {SP,TAB,NL,\",\\,=,<,a,0xC3} up to the tier's length bound (exhaustive); " +
		"(2) random strings up to length 200 over a weighted alphabet; (3) token commands: plain words, reference-quoted arguments, " +
		"heredocs, backslash-newline continuations, several commands per reader; (4) argument lists for InjectArgs; (5) terminal-loop scripts; " +
		"(6) every byte value 0..255 in a word / quoted argument / heredoc body; (7) heredoc bodies that look like their marker (random + exhaustive over {NL,a,b,SP}); " +
		"(8) everything that can follow k=<< over a token alphabet (exhaustive); (9) continuations between arguments and backslashes that do not continue the line; " +
		"(10) argument lists over all byte values through the reference quoting; (11) arguments of 255..65537 bytes, commands of 3000 arguments (L2 only); " +
		"(12) InjectArgs with up to 1200 positional arguments, SeparateArgs, InjectString; (13) RunCommandFromReader / RunString / RunCommand. " +
		"Non-trivial: the implementation returned at least one argument or an error/panic; distinct by input bytes."

	addRead := func(input []byte) readObs {
		if c17Hangs >= c17MaxHangs {
			o.Stat("skipped_after_hangs")
			return readObs{Kind: "hang"}
		}
		ob := implRead(input)
		if ob.Kind == "hang" { // no Coq observation stands for "did not return"
			o.Fail("terminates", fmt.Sprintf("ReadArguments did not return within %v", c17HangLimit), "hang", ob.desc(input))
			o.CountEval("r:"+string(input), true)
			o.Stat("read_hang")
			return ob
		}
		nontrivial := ob.Kind != "ok" || len(ob.Args) > 0
		o.AddCase(fmt.Sprintf("CRead %s %s", coqBytes(input), ob.coq()), ob.desc(input), "r:"+string(input), nontrivial)
		o.Stat("read_" + ob.Kind)
		if ob.Kind == "panic" {
			o.Fail("no_panic", "ReadArguments panicked", "panic", ob.desc(input))
		}
		// SplitArguments (the string entry point of the same file) is ReadArguments on the string
		if sp := c17Split(string(input)); sp.Kind != ob.Kind || !sameArgs(sp.Args, ob.Args) || sp.EOF != ob.EOF {
			o.Fail("split_equals_read", fmt.Sprintf("SplitArguments: kind=%s args=%q eof=%v, ReadArguments on the same bytes: kind=%s args=%q eof=%v",
				sp.Kind, sp.Args, sp.EOF, ob.Kind, ob.Args, ob.EOF), "split", ob.desc(input))
		}
		return ob
	}

	// checkTokensOpt: successive reads from ONE reader return the successive commands.
	// noL1: the input is too long for the in-Coq evaluation (L2 only). looseFirst: the arguments of
	// command 0 are left open (only that it ends at its newline is judged, by what follows).
	checkTokensOpt := func(all []byte, expected [][]string, tail string, noL1, looseFirst bool) bool {
		if c17Hangs >= c17MaxHangs {
			o.Stat("skipped_after_hangs")
			return false
		}
		if !noL1 {
			addRead(append([]byte{}, all...)) // L1 on the first command
		} else {
			o.CountEval("t:"+string(all), true)
		}
		desc := func() map[string]interface{} {
			d := map[string]interface{}{"op": "tokens", "input": byteList(all), "expected": expBytes(expected), "tail": byteList([]byte(tail)),
				"nol1": noL1, "loose": looseFirst}
			return d
		}
		rd := bytes.NewReader(all)
		for ci, exp := range expected {
			ob := implReadFrom(rd)
			if ob.Kind == "hang" {
				o.Fail("terminates", fmt.Sprintf("command %d: ReadArguments did not return within %v", ci, c17HangLimit), "hang", desc())
				return false
			}
			oracle := "tokens_roundtrip"
			bad := ob.Kind != "ok" || ob.EOF || !sameArgs(ob.Args, exp)
			if ci == 0 && looseFirst {
				oracle = "stops_at_newline"
				bad = ob.Kind != "ok" || ob.EOF
			} else if ci > 0 && looseFirst {
				oracle = "stops_at_newline"
			}
			if bad {
				o.Fail(oracle, fmt.Sprintf("command %d: expected %s eof=false, got kind=%s args=%s eof=%v", ci, c17Short(exp), ob.Kind, c17Short(ob.Args), ob.EOF),
					"tokens", desc())
				return false
			}
		}
		ob := implReadFrom(rd)
		var exp []string
		if tail != "" {
			exp = []string{tail}
		}
		if ob.Kind != "ok" || !ob.EOF || !sameArgs(ob.Args, exp) {
			o.Fail("eof", fmt.Sprintf("after the last command expected %s eof=true, got kind=%s args=%s eof=%v", c17Short(exp), ob.Kind, c17Short(ob.Args), ob.EOF),
				"eof", desc())
			return false
		}
		return true
	}
	checkTokens := func(all []byte, expected [][]string, tail string) {
		checkTokensOpt(all, expected, tail, false, false)
	}

	// judgeInject: args = the argument list the mapping is about; call performs it on the recorder
	// (InjectArgs(args...) itself, or InjectString(src) for a src that splits into args).
	judgeInject := func(args []string, desc map[string]interface{}, key string, call func(scp app.DataScope) error) {
		r := &recorder{}
		var panicked bool
		var callErr error
		func() {
			defer func() {
				if recover() != nil {
					panicked = true
				}
			}()
			callErr = call(r)
		}()
		if panicked || callErr != nil || len(r.sets) == 0 || r.sets[0][0] != "--" {
			o.Fail("inject_shape", fmt.Sprintf("%v(%s) panicked (%v), returned an error (%v) or did not set \"--\" first", desc["op"], c17Short(args), panicked, callErr), "inject", desc)
			return
		}
		sep, _ := r.sets[0][1].([]string)
		var items []string
		expSets, expSep := c17ExpectInject(args) // L2: independent expectation
		ok := sameArgs(sep, expSep) && len(expSets) == len(r.sets)-1
		for j, s := range r.sets[1:] {
			k, _ := s[0].(string)
			v, _ := s[1].(string)
			keyTerm := fmt.Sprintf("KName %s", coqStr(k))
			// a key "$n" stands for position n unless the expectation says that this set is a named
			// one (an argument such as `$0=x`)
			if strings.HasPrefix(k, "$") && !(j < len(expSets) && expSets[j][2] == "named") {
				if n, err := strconv.Atoi(k[1:]); err == nil && k[1:] == strconv.Itoa(n) {
					keyTerm = fmt.Sprintf("KPos %d%%nat", n)
				}
			}
			items = append(items, fmt.Sprintf("(%s, %s)", keyTerm, coqStr(v)))
		}
		if ok {
			for j, e := range expSets {
				k, kok := r.sets[j+1][0].(string)
				v, vok := r.sets[j+1][1].(string)
				if !kok || !vok || k != e[0] || v != e[1] {
					ok = false
				}
			}
		}
		if !ok {
			o.Fail("inject", fmt.Sprintf("%v(%s): sets=%s, expected \"--\"=%s then %s", desc["op"], c17Short(args), c17ShortSets(r.sets), c17Short(expSep), c17ShortPairs(expSets)), "inject", desc)
		}
		if len(args) <= 64 {
			o.AddCase(fmt.Sprintf("CInject %s %s %s", coqStrList(args), coqList(items), coqStrList(sep)), desc, key, len(args) > 0)
		} else { // positions are unary numbers in the model: very long lists are judged by L2 only
			o.CountEval(key, true)
		}
		// the same call on a real data scope: every key ends with the value of its LAST expected set
		ds := datascope.New(make(map[interface{}]interface{}))
		if err := call(ds); err != nil {
			o.Fail("inject_shape", fmt.Sprintf("%v(%s) on a datascope returned %v", desc["op"], c17Short(args), err), "inject", desc)
			return
		}
		last := map[string]string{}
		for _, e := range expSets {
			last[e[0]] = e[1]
		}
		for k, v := range last {
			if got, _ := ds.Value(k).(string); got != v || ds.Value(k) == nil {
				o.Fail("inject", fmt.Sprintf("%v(%s): data scope has %q=%v, expected %q", desc["op"], c17Short(args), k, ds.Value(k), v), "inject", desc)
				break
			}
		}
		if _, clash := last["--"]; !clash { // (an argument `----=x` is a named one with the key "--")
			if got, _ := ds.Value("--").([]string); !sameArgs(got, expSep) {
				o.Fail("inject", fmt.Sprintf("%v(%s): data scope has \"--\"=%q, expected %q", desc["op"], c17Short(args), got, expSep), "inject", desc)
			}
			if n := len(ds.Keys()); n != len(last)+1 {
				o.Fail("inject", fmt.Sprintf("%v(%s): data scope has %d keys, expected %d", desc["op"], c17Short(args), n, len(last)+1), "inject", desc)
			}
		}
	}
	doInject := func(args []string) {
		judgeInject(args, map[string]interface{}{"op": "inject", "args": strsBytes(args)}, "i:"+strings.Join(args, "\x00"),
			func(scp app.DataScope) error { return argscope.InjectArgs(scp, append([]string{}, args...)...) })
		// SeparateArgs (helpers.go) on its own: the arguments before the first "--" and those after it
		_, expSep := c17ExpectInject(args)
		before, after := argscope.SeparateArgs(append([]string{}, args...))
		nb := len(args)
		for j, a := range args {
			if a == "--" {
				nb = j
				break
			}
		}
		if !sameArgs(before, args[:nb]) || !sameArgs(after, expSep) {
			o.Fail("separate", fmt.Sprintf("SeparateArgs(%q) = %q, %q; expected %q, %q", args, before, after, args[:nb], expSep), "inject", map[string]interface{}{"op": "inject", "args": strsBytes(args)})
		}
		o.Stat("inject")
	}
	// InjectString(src): the first command of src, mapped like InjectArgs maps it
	doInjectString := func(src string, args []string) {
		judgeInject(args, map[string]interface{}{"op": "injectstr", "input": byteList([]byte(src)), "args": strsBytes(args)}, "is:"+src,
			func(scp app.DataScope) error { return argscope.InjectString(scp, src) })
		o.Stat("inject_string")
	}

	if replay != "" { // re-run the one input of a replay file
		b, err := os.ReadFile(replay)
		must(err)
		var rp struct {
			Case struct {
				Op       string    `json:"op"`
				Input    []int     `json:"input"`
				Args     [][]int   `json:"args"`
				Expected [][][]int `json:"expected"`
				Tail     []int     `json:"tail"`
				NoL1     bool      `json:"nol1"`
				Loose    bool      `json:"loose"`
			} `json:"case"`
		}
		must(json.Unmarshal(b, &rp))
		toB := func(l []int) []byte {
			r := make([]byte, len(l))
			for i, v := range l {
				r[i] = byte(v)
			}
			return r
		}
		switch rp.Case.Op {
		case "inject":
			args := make([]string, len(rp.Case.Args))
			for i, a := range rp.Case.Args {
				args[i] = string(toB(a))
			}
			doInject(args)
		case "injectstr":
			args := make([]string, len(rp.Case.Args))
			for i, a := range rp.Case.Args {
				args[i] = string(toB(a))
			}
			doInjectString(string(toB(rp.Case.Input)), args)
		case "tokens":
			var exp [][]string
			for _, c := range rp.Case.Expected {
				var cmd []string
				for _, a := range c {
					cmd = append(cmd, string(toB(a)))
				}
				exp = append(exp, cmd)
			}
			checkTokensOpt(toB(rp.Case.Input), exp, string(toB(rp.Case.Tail)), rp.Case.NoL1, rp.Case.Loose)
		default:
			addRead(toB(rp.Case.Input))
		}
		return
	}

	// (1) exhaustive
	maxLen := 4
	if tier == "thorough" {
		maxLen = 6
	}
	var rec func(prefix []byte)
	rec = func(prefix []byte) {
		addRead(append([]byte{}, prefix...))
		if len(prefix) == maxLen {
			return
		}
		for _, c := range c17Alphabet {
			rec(append(prefix, c))
		}
	}
	rec(nil)
	o.Extra["exhaustive_alphabet"] = byteList(c17Alphabet)
	o.Extra["exhaustive_max_len"] = maxLen

	// (2) random strings
	nRandom := 1500
	if tier == "thorough" {
		nRandom = 40000
	}
	wide := []byte{' ', ' ', '\t', '\n', '"', '"', '\\', '\\', '=', '<', '<', 'a', 'b', 'E', 'O', 'F', '_', '-', '$', 0xC3, 0xA9, 0xFF, 0x80, 0, '\r', 'z'}
	for i := 0; i < nRandom; i++ {
		n := rng.Intn(40)
		if rng.Chance(10) {
			n = rng.Intn(200)
		}
		b := make([]byte, n)
		for j := range b {
			if rng.Chance(5) {
				b[j] = byte(rng.Intn(256))
			} else {
				b[j] = wide[rng.Intn(len(wide))]
			}
		}
		addRead(b)
	}

	// (3) token commands with an independent expectation (L2)
	nTok := 800
	if tier == "thorough" {
		nTok = 20000
	}
	plainPool := []byte{'a', 'b', 'z', '=', '<', '-', '$', '\'', 0xC3, 0xA9, 0xFF, 0x80, 1, '_', '.', '/'}
	anyPool := append([]byte{' ', '\t', '\n', '"', '\\', 0}, plainPool...)
	genWord := func() string {
		for {
			n := 1 + rng.Intn(8)
			b := make([]byte, n)
			for j := range b {
				b[j] = plainPool[rng.Intn(len(plainPool))]
			}
			if !strings.Contains(string(b), "=<<") {
				return string(b)
			}
		}
	}
	genAny := func() string {
		n := rng.Intn(10)
		b := make([]byte, n)
		for j := range b {
			b[j] = anyPool[rng.Intn(len(anyPool))]
		}
		return string(b)
	}
	markers := []string{"EOF", "E", "end_x", "Zz"}
	for i := 0; i < nTok; i++ {
		ncmd := 1 + rng.Intn(3)
		var input bytes.Buffer
		var expected [][]string
		kinds := map[string]bool{}
		for c := 0; c < ncmd; c++ {
			ntok := rng.Intn(5)
			var args []string
			for t := 0; t < ntok; t++ {
				if t > 0 {
					if rng.Chance(20) {
						input.WriteString(" \t ")
					} else {
						input.WriteByte(' ')
					}
				}
				switch k := rng.Intn(10); {
				case k < 4:
					w := genWord()
					input.WriteString(w)
					args = append(args, w)
					kinds["word"] = true
				case k < 7:
					a := genAny()
					input.WriteString(refQuote1(a))
					args = append(args, a)
					kinds["quoted"] = true
				case k < 9:
					key := genWord()
					if strings.ContainsAny(key, "=<") {
						key = "k"
					}
					m := markers[rng.Intn(len(markers))]
					var text string
					for {
						text = genAny()
						if rng.Chance(50) {
							text = strings.Repeat(" ", rng.Intn(3)) + text + strings.Repeat("\t", rng.Intn(2))
						}
						if c17HeredocBodyOK(text, m) { // no line of the text is a terminator line
							break
						}
					}
					input.WriteString(key + "=<<" + m + "\n" + text + "\n" + m)
					args = append(args, key+"="+strings.Trim(text, " \t"))
					kinds["heredoc"] = true
				default:
					w1, w2 := genWord(), genWord()
					if strings.Contains(w1+w2, "=<<") {
						w1, w2 = "x", "y"
					}
					input.WriteString(w1 + "\\\n" + w2)
					args = append(args, w1+w2)
					kinds["continuation"] = true
				}
			}
			input.WriteByte('\n')
			expected = append(expected, args)
		}
		tail := ""
		if rng.Chance(30) {
			tail = genWord()
			input.WriteString(tail)
		}
		all := input.Bytes()
		for k := range kinds {
			o.Stat("tok_" + k)
		}
		checkTokens(all, expected, tail)
	}

	// (4) InjectArgs
	nInj := 600
	if tier == "thorough" {
		nInj = 10000
	}
	argPool := []string{"a", "b", "--", "-", "k=v", "--k=v", "-k=v", "---k=v", "=x", "k=", "k=v=w", "--flag", "x y", "", "=", "--=", "$0"}
	for i := 0; i < nInj; i++ {
		n := rng.Intn(7)
		args := make([]string, n)
		for j := range args {
			if rng.Chance(15) {
				args[j] = genAny()
			} else {
				args[j] = argPool[rng.Intn(len(argPool))]
			}
		}
		doInject(args)
	}

	// (5) the terminal loop shares its input with the commands it runs
	nLoop := 150
	if tier == "thorough" {
		nLoop = 4000
	}
	c17LoopProbe(o, rng.Fork(), nLoop)

	// (6)-(12) the shapes the generators above do not reach (harness/c17_audit.go)
	c17Audit(o, rng.Fork(), tier, c17Hooks{addRead: addRead, checkTokens: checkTokensOpt, doInject: doInject, doInjectString: doInjectString})
	// (13) the other entry points of the terminal anchor: RunString, RunCommandFromReader, RunCommand
	nExec := 120
	if tier == "thorough" {
		nExec = 3000
	}
	c17TermExecProbe(o, rng.Fork(), nExec)
}
