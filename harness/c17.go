package main

import (
	"bytes"
	"encoding/json"
	"fmt"
	"io"
	"os"
	"strconv"
	"strings"

	"github.com/goatcms/goatcore/app"
	"github.com/goatcms/goatcore/app/scope/argscope"
	"github.com/goatcms/goatcore/varutil"
)

func init() { runners["C17"] = runC17 }

type readObs struct {
	Kind string   `json:"kind"` // ok | err | panic
	Args []string `json:"-"`
	EOF  bool     `json:"eof"`
	Rest []byte   `json:"-"`
}

func implReadFrom(rd *bytes.Reader) (o readObs) {
	defer func() {
		if r := recover(); r != nil {
			o = readObs{Kind: "panic"}
		}
	}()
	args, eof, err := varutil.ReadArguments(rd)
	if err != nil {
		return readObs{Kind: "err"}
	}
	return readObs{Kind: "ok", Args: args, EOF: eof}
}

func implRead(input []byte) readObs {
	rd := bytes.NewReader(input)
	o := implReadFrom(rd)
	if o.Kind == "ok" {
		o.Rest, _ = io.ReadAll(rd)
	}
	return o
}

func (o readObs) coq() string {
	switch o.Kind {
	case "ok":
		return fmt.Sprintf("(OOk %s %s %s)", coqStrList(o.Args), coqBool(o.EOF), coqBytes(o.Rest))
	case "err":
		return "OErr"
	}
	return "OPanic"
}

func (o readObs) desc(input []byte) map[string]interface{} {
	return map[string]interface{}{"op": "read", "input": byteList(input), "kind": o.Kind,
		"args": strsBytes(o.Args), "eof": o.EOF, "rest": byteList(o.Rest)}
}

// reference quoting function — identical to Model/Args.v [quote]
func refQuote1(a string) string {
	var sb strings.Builder
	sb.WriteByte('"')
	for i := 0; i < len(a); i++ {
		switch a[i] {
		case '"':
			sb.WriteString("\\\"")
		case '\\':
			sb.WriteString("\"\\\\\"")
		default:
			sb.WriteByte(a[i])
		}
	}
	sb.WriteByte('"')
	return sb.String()
}

func sameArgs(a, b []string) bool {
	if len(a) != len(b) {
		return false
	}
	for i := range a {
		if a[i] != b[i] {
			return false
		}
	}
	return true
}

// recorder implements app.DataScope and records SetValue calls in order.
type recorder struct {
	sets [][2]interface{}
}

func (r *recorder) SetValue(k, v interface{})       { r.sets = append(r.sets, [2]interface{}{k, v}) }
func (r *recorder) Value(k interface{}) interface{} { return nil }
func (r *recorder) Keys() []interface{}             { return nil }
func (r *recorder) LockData() app.DataScopeLocker   { return nil }

func expBytes(e [][]string) [][][]int {
	r := make([][][]int, len(e))
	for i, c := range e {
		r[i] = strsBytes(c)
	}
	return r
}

var c17Alphabet = []byte{' ', '\t', '\n', '"', '\\', '=', '<', 'a', 0xC3}

func runC17(o *Out, rng *RNG, tier string, replay string) {
	o.Imports = "From GC Require Import Common.Base Model.Args Corr.C17."
	o.CaseType = "case"
	o.CheckFn = "check"
	o.ShardSize = 700
	o.Rule = "inputs: (1) every byte string over {SP,TAB,NL,\",\\,=,<,a,0xC3} up to the tier's length bound (exhaustive); " +
		"(2) random strings up to length 200 over a weighted alphabet; (3) token commands: plain words, reference-quoted arguments, " +
		"heredocs, backslash-newline continuations, several commands per reader; (4) argument lists for InjectArgs. " +
		"Non-trivial: the implementation returned at least one argument or an error/panic; distinct by input bytes."

	addRead := func(input []byte) readObs {
		ob := implRead(input)
		nontrivial := ob.Kind != "ok" || len(ob.Args) > 0
		o.AddCase(fmt.Sprintf("CRead %s %s", coqBytes(input), ob.coq()), ob.desc(input), "r:"+string(input), nontrivial)
		o.Stat("read_" + ob.Kind)
		if ob.Kind == "panic" {
			o.Fail("no_panic", "ReadArguments panicked", "panic", ob.desc(input))
		}
		return ob
	}

	checkTokens := func(all []byte, expected [][]string, tail string) {
		// L1 on the first command
		addRead(append([]byte{}, all...))
		// L2: successive reads from ONE reader return the successive commands
		rd := bytes.NewReader(all)
		okAll := true
		for ci, exp := range expected {
			ob := implReadFrom(rd)
			if ob.Kind != "ok" || ob.EOF || !sameArgs(ob.Args, exp) {
				okAll = false
				o.Fail("tokens_roundtrip", fmt.Sprintf("command %d: expected %q eof=false, got kind=%s args=%q eof=%v", ci, exp, ob.Kind, ob.Args, ob.EOF),
					"tokens", map[string]interface{}{"op": "tokens", "input": byteList(all), "expected": expBytes(expected)})
				break
			}
		}
		if okAll {
			ob := implReadFrom(rd)
			var exp []string
			if tail != "" {
				exp = []string{tail}
			}
			if ob.Kind != "ok" || !ob.EOF || !sameArgs(ob.Args, exp) {
				o.Fail("eof", fmt.Sprintf("after the last command expected %q eof=true, got kind=%s args=%q eof=%v", exp, ob.Kind, ob.Args, ob.EOF),
					"eof", map[string]interface{}{"op": "tokens", "input": byteList(all), "expected": expBytes(expected), "tail": byteList([]byte(tail))})
			}
		}
	}

	doInject := func(args []string) {
		r := &recorder{}
		var panicked bool
		func() {
			defer func() {
				if recover() != nil {
					panicked = true
				}
			}()
			argscope.InjectArgs(r, args...)
		}()
		if panicked || len(r.sets) == 0 || r.sets[0][0] != "--" {
			o.Fail("inject_shape", "InjectArgs panicked or did not set \"--\" first", "inject", map[string]interface{}{"op": "inject", "args": strsBytes(args)})
			return
		}
		sep, _ := r.sets[0][1].([]string)
		var items []string
		// L2: independent expectation
		var expSets [][2]string
		pos := 0
		var expSep []string
		sepIdx := -1
		for j, a := range args {
			if a == "--" {
				sepIdx = j
				break
			}
		}
		before := args
		if sepIdx >= 0 {
			before = args[:sepIdx]
			expSep = args[sepIdx+1:]
		}
		for _, a := range before {
			if idx := strings.Index(a, "="); idx >= 0 {
				t := strings.TrimPrefix(strings.TrimPrefix(a, "-"), "-")
				idx = strings.Index(t, "=")
				expSets = append(expSets, [2]string{t[:idx], t[idx+1:]})
			} else {
				expSets = append(expSets, [2]string{"$" + strconv.Itoa(pos), a})
				pos++
			}
		}
		ok := sameArgs(sep, expSep) && len(expSets) == len(r.sets)-1
		for _, s := range r.sets[1:] {
			k, _ := s[0].(string)
			v, _ := s[1].(string)
			if strings.HasPrefix(k, "$") && !strings.Contains(v+"=", "=x=") { // positional keys rendered as KPos
			}
			keyTerm := fmt.Sprintf("KName %s", coqStr(k))
			if strings.HasPrefix(k, "$") {
				if n, err := strconv.Atoi(k[1:]); err == nil && !strings.Contains(k, "=") {
					keyTerm = fmt.Sprintf("KPos %d%%nat", n)
				}
			}
			items = append(items, fmt.Sprintf("(%s, %s)", keyTerm, coqStr(v)))
		}
		if ok {
			for j, e := range expSets {
				k, _ := r.sets[j+1][0].(string)
				v, _ := r.sets[j+1][1].(string)
				if k != e[0] || v != e[1] {
					ok = false
				}
			}
		}
		desc := map[string]interface{}{"op": "inject", "args": strsBytes(args)}
		if !ok {
			o.Fail("inject", fmt.Sprintf("InjectArgs(%q): sets=%v", args, r.sets), "inject", desc)
		}
		o.AddCase(fmt.Sprintf("CInject %s %s %s", coqStrList(args), coqList(items), coqStrList(sep)), desc, "i:"+strings.Join(args, "\x00"), len(args) > 0)
		o.Stat("inject")
	}

	if replay != "" { // re-run the one input of a replay file
		b, err := os.ReadFile(replay)
		must(err)
		var rp struct {
			Case struct {
				Op       string    `json:"op"`
				Input    []int     `json:"input"`
				Args     [][]int   `json:"args"`
				Expected [][][]int `json:"expected"`
				Tail     []int     `json:"tail"`
			} `json:"case"`
		}
		must(json.Unmarshal(b, &rp))
		toB := func(l []int) []byte {
			r := make([]byte, len(l))
			for i, v := range l {
				r[i] = byte(v)
			}
			return r
		}
		switch rp.Case.Op {
		case "inject":
			args := make([]string, len(rp.Case.Args))
			for i, a := range rp.Case.Args {
				args[i] = string(toB(a))
			}
			doInject(args)
		case "tokens":
			var exp [][]string
			for _, c := range rp.Case.Expected {
				var cmd []string
				for _, a := range c {
					cmd = append(cmd, string(toB(a)))
				}
				exp = append(exp, cmd)
			}
			checkTokens(toB(rp.Case.Input), exp, string(toB(rp.Case.Tail)))
		default:
			addRead(toB(rp.Case.Input))
		}
		return
	}

	// (1) exhaustive
	maxLen := 4
	if tier == "thorough" {
		maxLen = 6
	}
	var rec func(prefix []byte)
	rec = func(prefix []byte) {
		addRead(append([]byte{}, prefix...))
		if len(prefix) == maxLen {
			return
		}
		for _, c := range c17Alphabet {
			rec(append(prefix, c))
		}
	}
	rec(nil)
	o.Extra["exhaustive_alphabet"] = byteList(c17Alphabet)
	o.Extra["exhaustive_max_len"] = maxLen

	// (2) random strings
	nRandom := 1500
	if tier == "thorough" {
		nRandom = 40000
	}
	wide := []byte{' ', ' ', '\t', '\n', '"', '"', '\\', '\\', '=', '<', '<', 'a', 'b', 'E', 'O', 'F', '_', '-', '$', 0xC3, 0xA9, 0xFF, 0x80, 0, '\r', 'z'}
	for i := 0; i < nRandom; i++ {
		n := rng.Intn(40)
		if rng.Chance(10) {
			n = rng.Intn(200)
		}
		b := make([]byte, n)
		for j := range b {
			if rng.Chance(5) {
				b[j] = byte(rng.Intn(256))
			} else {
				b[j] = wide[rng.Intn(len(wide))]
			}
		}
		addRead(b)
	}

	// (3) token commands with an independent expectation (L2)
	nTok := 800
	if tier == "thorough" {
		nTok = 20000
	}
	plainPool := []byte{'a', 'b', 'z', '=', '<', '-', '$', '\'', 0xC3, 0xA9, 0xFF, 0x80, 1, '_', '.', '/'}
	anyPool := append([]byte{' ', '\t', '\n', '"', '\\', 0}, plainPool...)
	genWord := func() string {
		for {
			n := 1 + rng.Intn(8)
			b := make([]byte, n)
			for j := range b {
				b[j] = plainPool[rng.Intn(len(plainPool))]
			}
			if !strings.Contains(string(b), "=<<") {
				return string(b)
			}
		}
	}
	genAny := func() string {
		n := rng.Intn(10)
		b := make([]byte, n)
		for j := range b {
			b[j] = anyPool[rng.Intn(len(anyPool))]
		}
		return string(b)
	}
	markers := []string{"EOF", "E", "end_x", "Zz"}
	for i := 0; i < nTok; i++ {
		ncmd := 1 + rng.Intn(3)
		var input bytes.Buffer
		var expected [][]string
		kinds := map[string]bool{}
		for c := 0; c < ncmd; c++ {
			ntok := rng.Intn(5)
			var args []string
			for t := 0; t < ntok; t++ {
				if t > 0 {
					if rng.Chance(20) {
						input.WriteString(" \t ")
					} else {
						input.WriteByte(' ')
					}
				}
				switch k := rng.Intn(10); {
				case k < 4:
					w := genWord()
					input.WriteString(w)
					args = append(args, w)
					kinds["word"] = true
				case k < 7:
					a := genAny()
					input.WriteString(refQuote1(a))
					args = append(args, a)
					kinds["quoted"] = true
				case k < 9:
					key := genWord()
					if strings.ContainsAny(key, "=<") {
						key = "k"
					}
					m := markers[rng.Intn(len(markers))]
					var text string
					for {
						text = genAny()
						if rng.Chance(50) {
							text = strings.Repeat(" ", rng.Intn(3)) + text + strings.Repeat("\t", rng.Intn(2))
						}
						if !strings.Contains(text+"\n"+m[:len(m)-1], "\n"+m) { // first terminator match is at the very end
							break
						}
					}
					input.WriteString(key + "=<<" + m + "\n" + text + "\n" + m)
					args = append(args, key+"="+strings.Trim(text, " \t"))
					kinds["heredoc"] = true
				default:
					w1, w2 := genWord(), genWord()
					if strings.Contains(w1+w2, "=<<") {
						w1, w2 = "x", "y"
					}
					input.WriteString(w1 + "\\\n" + w2)
					args = append(args, w1+w2)
					kinds["continuation"] = true
				}
			}
			input.WriteByte('\n')
			expected = append(expected, args)
		}
		tail := ""
		if rng.Chance(30) {
			tail = genWord()
			input.WriteString(tail)
		}
		all := input.Bytes()
		for k := range kinds {
			o.Stat("tok_" + k)
		}
		checkTokens(all, expected, tail)
	}

	// (4) InjectArgs
	nInj := 600
	if tier == "thorough" {
		nInj = 10000
	}
	argPool := []string{"a", "b", "--", "-", "k=v", "--k=v", "-k=v", "---k=v", "=x", "k=", "k=v=w", "--flag", "x y", "", "=", "--=", "$0"}
	for i := 0; i < nInj; i++ {
		n := rng.Intn(7)
		args := make([]string, n)
		for j := range args {
			if rng.Chance(15) {
				args[j] = genAny()
			} else {
				args[j] = argPool[rng.Intn(len(argPool))]
			}
		}
		doInject(args)
	}

	// (5) the terminal loop shares its input with the commands it runs
	nLoop := 150
	if tier == "thorough" {
		nLoop = 4000
	}
	c17LoopProbe(o, rng.Fork(), nLoop)
}
