package main

// C09 — the in-memory filespace stays consistent under concurrent use.
//
// (i)   schedule replay: two or three goroutines are driven through a fixed interleaving with the
//       verif yield points memfs.remove.gap / memfs.create.gap / memfs.mkdir.gap (park thread t at
//       its gap, let thread u run to the end, ...).  The explicit F28 schedules (remover parked
//       while the creator completes; creator parked holding the *Dir while the remover completes)
//       come first.  Every run is emitted as a Coq case (CSched): the model is run on the same
//       schedule and must give the same results and the same final tree.
// (ii)  stress: 2-32 goroutines x random op mixes on 2 shared directories / 3 shared files, a
//       private (never removed) area per goroutine, tagged values, GOMAXPROCS in {1,2,4,16},
//       seeded Gosched/sleeps in the hook callback; L2 oracles on everything observed.
// (iii) small histories (<= 3 threads x <= 2 ops, no handles): the final tree must be the result
//       of some sequential order of the successful operations that respects real-time precedence
//       (searched here with the Go plain tree, and again by the Coq acceptor final_serialisable).

import (
	"encoding/json"
	"fmt"
	"os"
	"runtime"
	"sort"
	"strconv"
	"strings"
	"sync"
	"sync/atomic"
	"time"

	"github.com/goatcms/goatcore/filesystem"
	"github.com/goatcms/goatcore/filesystem/filespace/memfs"
	"github.com/goatcms/goatcore/varutil/verifhook"
)

func init() { runners["C09"] = runC09 }

// ---------- operations and results

type c9Op struct {
	Kind   string   `json:"kind"` // Write Writer Mkdir Read Reader List Exist Remove RemoveAll Copy CopyDir CopyFile
	P      []string `json:"p"`
	Q      []string `json:"q,omitempty"`
	Data   []byte   `json:"-"`
	Chunks [][]byte `json:"-"`
	Tag    int      `json:"tag,omitempty"`
}

type c9Res struct {
	Kind  string `json:"kind"` // ok err data list bool panic hang
	Data  []byte `json:"-"`
	Len   int    `json:"len,omitempty"`
	List  []Ent  `json:"list,omitempty"`
	B     bool   `json:"b,omitempty"`
	Msg   string `json:"msg,omitempty"`
	Begin uint64 `json:"begin"`
	End   uint64 `json:"end"`
}

func c9Path(c []string) string { return strings.Join(c, "/") }

func c9Err(err error) c9Res {
	if err != nil {
		return c9Res{Kind: "err", Msg: err.Error()}
	}
	return c9Res{Kind: "ok"}
}

func c9Exec(fs filesystem.Filespace, op c9Op) (r c9Res) {
	defer func() {
		if x := recover(); x != nil {
			r = c9Res{Kind: "panic", Msg: fmt.Sprint(x)}
		}
	}()
	p := c9Path(op.P)
	switch op.Kind {
	case "Write":
		buf := append([]byte{}, op.Data...)
		err := fs.WriteFile(p, buf, 0o644)
		for i := range buf {
			buf[i] ^= 0x5a
		}
		return c9Err(err)
	case "Writer":
		w, err := fs.Writer(p)
		if err != nil {
			return c9Err(err)
		}
		for _, c := range op.Chunks {
			if n, werr := w.Write(append([]byte{}, c...)); werr != nil || n != len(c) {
				w.Close()
				return c9Res{Kind: "err", Msg: "short write"}
			}
		}
		return c9Err(w.Close())
	case "Mkdir":
		return c9Err(fs.MkdirAll(p, 0o777))
	case "Read":
		d, err := fs.ReadFile(p)
		if err != nil {
			return c9Err(err)
		}
		return c9Res{Kind: "data", Data: d, Len: len(d)}
	case "Reader":
		rd, err := fs.Reader(p)
		if err != nil {
			return c9Err(err)
		}
		var all []byte
		buf := make([]byte, 97)
		for i := 0; i < 100; i++ {
			n, rerr := rd.Read(buf)
			all = append(all, buf[:n]...)
			if rerr != nil {
				break
			}
		}
		if cerr := rd.Close(); cerr != nil {
			return c9Err(cerr)
		}
		return c9Res{Kind: "data", Data: all, Len: len(all)}
	case "List":
		infos, err := fs.ReadDir(p)
		if err != nil {
			return c9Err(err)
		}
		res := c9Res{Kind: "list"}
		for _, i := range infos {
			res.List = append(res.List, Ent{Name: i.Name(), IsDir: i.IsDir()})
		}
		return res
	case "Exist":
		return c9Res{Kind: "bool", B: fs.IsExist(p)}
	case "Remove":
		return c9Err(fs.Remove(p))
	case "RemoveAll":
		return c9Err(fs.RemoveAll(p))
	case "Copy":
		return c9Err(fs.Copy(p, c9Path(op.Q)))
	case "CopyDir":
		return c9Err(fs.CopyDirectory(p, c9Path(op.Q)))
	case "CopyFile":
		return c9Err(fs.CopyFile(p, c9Path(op.Q)))
	}
	panic("c09: unknown op " + op.Kind)
}

func (op c9Op) coq() string {
	p := coqStrList(op.P)
	switch op.Kind {
	case "Write":
		return fmt.Sprintf("CWrite %s %s", p, coqBytes(op.Data))
	case "Writer":
		items := make([]string, len(op.Chunks))
		for i, c := range op.Chunks {
			items[i] = coqBytes(c)
		}
		return fmt.Sprintf("CWriter %s %s", p, coqList(items))
	case "Mkdir":
		return "CMkdir " + p
	case "Read":
		return "CRead " + p
	case "Reader":
		return "CReader " + p
	case "List":
		return "CList " + p
	case "Exist":
		return "CExist " + p
	case "Remove":
		return "CRemove " + p + " false"
	case "RemoveAll":
		return "CRemove " + p + " true"
	case "Copy":
		return fmt.Sprintf("CCopy CAny %s %s", p, coqStrList(op.Q))
	case "CopyDir":
		return fmt.Sprintf("CCopy CDirOnly %s %s", p, coqStrList(op.Q))
	case "CopyFile":
		return fmt.Sprintf("CCopy CFileOnly %s %s", p, coqStrList(op.Q))
	}
	panic("c09: coq of " + op.Kind)
}

func (r c9Res) coq() string {
	switch r.Kind {
	case "ok":
		return "QOk"
	case "data":
		return "QData " + coqBytes(r.Data)
	case "bool":
		return "QBool " + coqBool(r.B)
	case "list":
		items := make([]string, len(r.List))
		for i, e := range r.List {
			items[i] = fmt.Sprintf("(%s, %s)", coqStr(e.Name), coqBool(e.IsDir))
		}
		return "QList " + coqList(items)
	}
	return "QErr"
}

func c9CoqOps(l []c9Op) string {
	items := make([]string, len(l))
	for i, o := range l {
		items[i] = o.coq()
	}
	return coqList(items)
}

func (op c9Op) fsop() FsOp {
	k := map[string]string{"Write": "WriteFile", "Mkdir": "MkdirAll", "Remove": "Remove", "RemoveAll": "RemoveAll",
		"Copy": "Copy", "CopyDir": "CopyDir", "CopyFile": "CopyFile", "Writer": "Writer"}[op.Kind]
	f := FsOp{Kind: k, P: c9Path(op.P), Q: c9Path(op.Q), Data: op.Data, Chunks: op.Chunks}
	return f
}

func c9IsCreator(k string) bool {
	switch k {
	case "Write", "Writer", "Mkdir", "Copy", "CopyDir", "CopyFile":
		return true
	}
	return false
}
func c9IsRemove(k string) bool { return k == "Remove" || k == "RemoveAll" }
func c9IsMut(k string) bool    { return c9IsCreator(k) || c9IsRemove(k) }
func (op c9Op) target() []string {
	if op.Kind == "Copy" || op.Kind == "CopyDir" || op.Kind == "CopyFile" {
		return op.Q
	}
	return op.P
}

// ---------- tagged values: everything derives from the first byte, so a torn value is detectable

func c9Val(tag int) []byte {
	n := 64 + (tag*37)%449
	v := make([]byte, n)
	v[0] = byte(tag)
	for i := 1; i < n; i++ {
		v[i] = byte(tag) ^ byte(i*7+3)
	}
	return v
}

func c9ValOK(v []byte) bool {
	if len(v) == 0 {
		return false
	}
	w := c9Val(int(v[0]))
	return string(w) == string(v)
}

// short values for the forced schedules and the small histories (they end up in Coq terms)
func c9Short(tag int) []byte { return c9Val(tag)[:8+tag%5] }
func c9ShortOK(v []byte) bool {
	return len(v) > 0 && string(c9Short(int(v[0]))) == string(v)
}

func c9Chunks(rng *RNG, v []byte) [][]byte {
	a := 1 + rng.Intn(len(v)-1)
	if rng.Bool() {
		return [][]byte{v[:a], v[a:]}
	}
	b := a + rng.Intn(len(v)-a)
	return [][]byte{v[:a], v[a:b], v[b:]}
}

// ---------- goroutine identity for the hook callback

func c9Goid() uint64 {
	var buf [64]byte
	n := runtime.Stack(buf[:], false)
	s := strings.TrimPrefix(string(buf[:n]), "goroutine ")
	if i := strings.IndexByte(s, ' '); i > 0 {
		id, _ := strconv.ParseUint(s[:i], 10, 64)
		return id
	}
	return 0
}

// ---------- (i) forced schedules

type c9Item struct {
	Kind string `json:"kind"` // rm cr mk fin
	T    int    `json:"t"`
	K    int    `json:"k,omitempty"` // mk: components still to be created when the thread is parked
}

func (it c9Item) coq() string {
	switch it.Kind {
	case "rm":
		return fmt.Sprintf("SGapRemove %d%%nat", it.T)
	case "cr":
		return fmt.Sprintf("SGapCreate %d%%nat", it.T)
	case "mk":
		return fmt.Sprintf("SGapMkdir %d%%nat %d%%nat", it.T, it.K)
	}
	return fmt.Sprintf("SFinish %d%%nat", it.T)
}

type c9Plan struct {
	point  string
	nth    int
	count  int
	armed  bool
	parked chan struct{}
	resume chan struct{}
}

type c9Thread struct {
	prog    []c9Op
	res     []c9Res
	done    chan struct{}
	started bool
	plan    *c9Plan
}

type c9Ctl struct {
	mu    sync.Mutex
	byGid map[uint64]*c9Thread
}

func (c *c9Ctl) callback(point string) {
	gid := c9Goid()
	c.mu.Lock()
	th := c.byGid[gid]
	var pl *c9Plan
	park := false
	if th != nil && th.plan != nil && th.plan.armed && th.plan.point == point {
		pl = th.plan
		pl.count++
		if pl.count == pl.nth {
			pl.armed = false
			park = true
		}
	}
	c.mu.Unlock()
	if park {
		close(pl.parked)
		<-pl.resume
	}
}

func c9DirLen(op c9Op) int { // number of components walked by mkdirAllNodes of this operation
	switch op.Kind {
	case "Mkdir":
		return len(op.P)
	case "Write", "Writer":
		return len(op.P) - 1
	case "Copy", "CopyDir", "CopyFile":
		return len(op.Q) - 1
	}
	return 0
}

type c9Forced struct {
	Setup  []c9Op     `json:"setup"`
	Progs  [][]c9Op   `json:"progs"`
	Sched  []c9Item   `json:"sched"`
	Res    [][]c9Res  `json:"results"`
	Final  []WalkEnt  `json:"-"`
	FinalD []string   `json:"final"`
	Init   []WalkEnt  `json:"-"`
	Hang   bool       `json:"hang,omitempty"`
	Why    string     `json:"why,omitempty"`
	Label  string     `json:"label,omitempty"`
}

func c9WalkDesc(w []WalkEnt) []string {
	var l []string
	for _, e := range sortedWalk(w) {
		if e.IsDir {
			l = append(l, key(e.Path)+"/")
		} else {
			l = append(l, fmt.Sprintf("%s(%d bytes, tag %d)", key(e.Path), len(e.Data), c9TagOf(e.Data)))
		}
	}
	return l
}
func c9TagOf(d []byte) int {
	if len(d) == 0 {
		return -1
	}
	return int(d[0])
}

func c9RunForced(f *c9Forced) {
	fs, err := memfs.NewFilespace()
	must(err)
	for _, op := range f.Setup {
		c9Exec(fs, op)
	}
	f.Init, _, _ = walkFs(fs)
	ctl := &c9Ctl{byGid: map[uint64]*c9Thread{}}
	ths := make([]*c9Thread, len(f.Progs))
	for i := range ths {
		ths[i] = &c9Thread{prog: f.Progs[i], done: make(chan struct{})}
	}
	var seq uint64
	verifhook.SetCallback(ctl.callback)
	defer verifhook.SetCallback(nil)
	start := func(th *c9Thread) {
		th.started = true
		ready := make(chan struct{})
		go func() {
			ctl.mu.Lock()
			ctl.byGid[c9Goid()] = th
			ctl.mu.Unlock()
			close(ready)
			for _, op := range th.prog {
				b := atomic.AddUint64(&seq, 1)
				r := c9Exec(fs, op)
				r.Begin, r.End = b, atomic.AddUint64(&seq, 1)
				th.res = append(th.res, r)
			}
			close(th.done)
		}()
		<-ready
	}
	tmo := 5 * time.Second
	for _, it := range f.Sched {
		th := ths[it.T]
		switch it.Kind {
		case "fin":
			if !th.started {
				start(th)
			} else if th.plan != nil {
				ctl.mu.Lock()
				th.plan.armed = false
				ctl.mu.Unlock()
				select {
				case <-th.plan.resume:
				default:
					close(th.plan.resume)
				}
			}
			select {
			case <-th.done:
			case <-time.After(tmo):
				f.Hang, f.Why = true, fmt.Sprintf("thread %d did not finish", it.T)
			}
		default:
			if th.started {
				continue
			}
			pl := &c9Plan{nth: 1, armed: true, parked: make(chan struct{}), resume: make(chan struct{})}
			switch it.Kind {
			case "rm":
				pl.point = "memfs.remove.gap"
			case "cr":
				pl.point = "memfs.create.gap"
			case "mk":
				pl.point = "memfs.mkdir.gap"
				pl.nth = c9DirLen(th.prog[0]) - it.K + 1
			}
			th.plan = pl
			start(th)
			select {
			case <-pl.parked:
			case <-th.done:
			case <-time.After(tmo):
				f.Hang, f.Why = true, fmt.Sprintf("thread %d neither parked nor finished", it.T)
			}
		}
		if f.Hang {
			break
		}
	}
	// release whatever is still parked (only after a hang)
	for _, th := range ths {
		if th.plan != nil {
			select {
			case <-th.plan.resume:
			default:
				close(th.plan.resume)
			}
		}
	}
	if !f.Hang {
		for _, th := range ths {
			if !th.started {
				start(th)
			}
			select {
			case <-th.done:
			case <-time.After(tmo):
				f.Hang, f.Why = true, "a thread did not finish after the schedule"
			}
		}
	}
	f.Res = make([][]c9Res, len(ths))
	if f.Hang {
		return
	}
	for i, th := range ths {
		f.Res[i] = th.res
	}
	var ok bool
	var why string
	f.Final, ok, why = walkFs(fs)
	if !ok {
		f.Hang, f.Why = true, "final walk failed: "+why
	}
	f.FinalD = c9WalkDesc(f.Final)
}

func (f *c9Forced) coq() string {
	progs := make([]string, len(f.Progs))
	for i, p := range f.Progs {
		progs[i] = c9CoqOps(p)
	}
	sched := make([]string, len(f.Sched))
	for i, it := range f.Sched {
		sched[i] = it.coq()
	}
	res := make([]string, len(f.Res))
	for i, l := range f.Res {
		items := make([]string, len(l))
		for j, r := range l {
			items[j] = r.coq()
		}
		res[i] = coqList(items)
	}
	return fmt.Sprintf("CSched %s %s %s %s %s", c9CoqOps(f.Setup), coqList(progs), coqList(sched), coqList(res), coqWalk(f.Final))
}

// ---------- serialisability search over the successful mutations (L2, plain Go tree)

type c9Hop struct {
	Op         c9Op
	Begin, End uint64
}

func c9RefFrom(w []WalkEnt) *RefFS {
	r := NewRefFS()
	for _, e := range w {
		r.m[key(e.Path)] = refEnt{dir: e.IsDir, data: e.Data}
	}
	return r
}

func c9Serialisable(init []WalkEnt, succ []c9Hop, final []WalkEnt) bool {
	n := len(succ)
	used := make([]bool, n)
	var rec func(ref *RefFS, left int) bool
	rec = func(ref *RefFS, left int) bool {
		if left == 0 {
			ok, _ := walkEqual(final, ref.Walk())
			return ok
		}
		for i := 0; i < n; i++ {
			if used[i] {
				continue
			}
			blocked := false
			for j := 0; j < n; j++ {
				if !used[j] && j != i && succ[j].End < succ[i].Begin {
					blocked = true
					break
				}
			}
			if blocked {
				continue
			}
			r2 := ref.Clone()
			if msg := r2.Apply(memPolicy, nil, succ[i].Op.fsop(), FsOut{Kind: "unit"}); msg != "" {
				continue
			}
			used[i] = true
			if rec(r2, left-1) {
				used[i] = false
				return true
			}
			used[i] = false
		}
		return false
	}
	return rec(c9RefFrom(init), n)
}

func isPrefixOrEq(p, q []string) bool {
	if len(p) > len(q) {
		return false
	}
	for i := range p {
		if p[i] != q[i] {
			return false
		}
	}
	return true
}

// c9Hazard: histories in which "mkdir -p is not atomic" can legitimately show (see
// C09_mkdir_p_not_atomic): a successful removal of a node that did not exist initially, or two
// successful removals on the path of one creator.  They are not checked for serialisability.
func c9Hazard(init []WalkEnt, progs [][]c9Op, res [][]c9Res) bool {
	exists := map[string]bool{}
	for _, e := range init {
		exists[key(e.Path)] = true
	}
	var rem [][]string
	for i, p := range progs {
		for j, op := range p {
			if c9IsRemove(op.Kind) && res[i][j].Kind == "ok" {
				if !exists[key(op.P)] {
					return true
				}
				rem = append(rem, op.P)
			}
		}
	}
	// a copy whose source is changed by another operation of the history: Copy* takes its snapshot
	// and inserts it in two separate steps (and copyDir locks directory by directory), so the call
	// is not atomic with respect to writers into its source
	for i, p := range progs {
		for j, op := range p {
			if op.Kind != "Copy" && op.Kind != "CopyDir" && op.Kind != "CopyFile" {
				continue
			}
			for i2, p2 := range progs {
				for j2, op2 := range p2 {
					if (i2 != i || j2 != j) && c9IsMut(op2.Kind) &&
						(isPrefixOrEq(op.P, op2.target()) || isPrefixOrEq(op2.target(), op.P)) {
						return true
					}
				}
			}
		}
	}
	for _, p := range progs {
		for _, op := range p {
			if c9IsCreator(op.Kind) {
				n := 0
				for _, r := range rem {
					if isPrefixOrEq(r, op.target()) {
						n++
					}
				}
				if n >= 2 {
					return true
				}
			}
		}
	}
	return false
}

func c9Succ(progs [][]c9Op, res [][]c9Res) []c9Hop {
	var l []c9Hop
	for i, p := range progs {
		for j, op := range p {
			if c9IsMut(op.Kind) && res[i][j].Kind == "ok" {
				l = append(l, c9Hop{Op: op, Begin: res[i][j].Begin, End: res[i][j].End})
			}
		}
	}
	return l
}

func c9CoqHist(init []WalkEnt, succ []c9Hop, final []WalkEnt) string {
	items := make([]string, len(succ))
	for i, h := range succ {
		items[i] = fmt.Sprintf("mkHop (%s) %d %d", h.Op.coq(), h.Begin, h.End)
	}
	return fmt.Sprintf("CHist %s %s %s", coqWalk(init), coqList(items), coqWalk(final))
}

// ---------- generic checks on results

func c9Listing(o *Out, where string, r c9Res, desc interface{}) {
	if r.Kind != "list" {
		return
	}
	seen := map[string]bool{}
	for _, e := range r.List {
		if seen[e.Name] {
			o.Fail("listing_distinct", where+": a listing contains the name "+strconv.Quote(e.Name)+" twice", "dup-listing", desc)
			return
		}
		seen[e.Name] = true
	}
}

func c9Basic(o *Out, where string, progs [][]c9Op, res [][]c9Res, desc interface{}) bool {
	ok := true
	for i, l := range res {
		for j, r := range l {
			o.Stat("op_" + progs[i][j].Kind)
			o.Stat("out_" + r.Kind)
			if r.Kind == "panic" {
				o.Fail("no_panic", fmt.Sprintf("%s: %s panicked: %s", where, progs[i][j].Kind, r.Msg), "panic", desc)
				ok = false
			}
			c9Listing(o, where, r, desc)
		}
	}
	return ok
}

// ---------- scenario generation for (i)

var c9D, c9E, c9X, c9Y, c9Z, c9S, c9T = "d", "e", "x", "y", "z", "s", "t"

func c9W(tag int, p ...string) c9Op { return c9Op{Kind: "Write", P: p, Data: c9Short(tag), Tag: tag} }
func c9Mk(p ...string) c9Op        { return c9Op{Kind: "Mkdir", P: p} }
func c9Rm(all bool, p ...string) c9Op {
	if all {
		return c9Op{Kind: "RemoveAll", P: p}
	}
	return c9Op{Kind: "Remove", P: p}
}
func c9Cp(kind string, src []string, dst ...string) c9Op { return c9Op{Kind: kind, P: src, Q: dst} }
func c9Wr(tag int, p ...string) c9Op {
	v := c9Short(tag)
	return c9Op{Kind: "Writer", P: p, Chunks: [][]byte{v[:4], v[4:]}, Tag: tag}
}

func c9GapFor(rng *RNG, t int, op c9Op) (c9Item, bool) {
	switch op.Kind {
	case "Remove", "RemoveAll":
		return c9Item{Kind: "rm", T: t}, true
	case "Write", "Writer", "Copy", "CopyDir", "CopyFile":
		if l := c9DirLen(op); l > 0 && rng.Chance(35) {
			return c9Item{Kind: "mk", T: t, K: 1 + rng.Intn(l)}, true
		}
		return c9Item{Kind: "cr", T: t}, true
	case "Mkdir":
		if l := c9DirLen(op); l > 0 {
			return c9Item{Kind: "mk", T: t, K: 1 + rng.Intn(l)}, true
		}
	}
	return c9Item{}, false
}

func c9F28Cases() []*c9Forced {
	setup := []c9Op{c9Mk(c9D), c9W(1, c9S), c9W(2, c9T, c9S)}
	var l []*c9Forced
	creators := []c9Op{c9W(5, c9D, c9X), c9Mk(c9D, c9Y), c9Wr(6, c9D, c9X), c9Cp("Copy", []string{c9S}, c9D, c9X),
		c9Cp("CopyFile", []string{c9S}, c9D, c9X), c9Cp("CopyDir", []string{c9T}, c9D, c9X)}
	for _, all := range []bool{false, true} {
		for _, cr := range creators {
			gap := c9Item{Kind: "cr", T: 1}
			if cr.Kind == "Mkdir" {
				gap = c9Item{Kind: "mk", T: 1, K: 1}
			}
			rm := c9Rm(all, c9D)
			// A: the remover is parked at memfs.remove.gap, the creator completes, the remover goes on
			l = append(l, &c9Forced{Label: "F28-A", Setup: setup, Progs: [][]c9Op{{rm}, {cr}},
				Sched: []c9Item{{Kind: "rm", T: 0}, {Kind: "fin", T: 1}, {Kind: "fin", T: 0}}})
			// B: the creator is parked holding the *Dir of d, the remover completes, the creator goes on
			l = append(l, &c9Forced{Label: "F28-B", Setup: setup, Progs: [][]c9Op{{rm}, {cr}},
				Sched: []c9Item{gap, {Kind: "fin", T: 0}, {Kind: "fin", T: 1}}})
			// C: both parked, remover first / creator first
			l = append(l, &c9Forced{Label: "F28-C", Setup: setup, Progs: [][]c9Op{{rm}, {cr}},
				Sched: []c9Item{{Kind: "rm", T: 0}, gap, {Kind: "fin", T: 0}, {Kind: "fin", T: 1}}})
			l = append(l, &c9Forced{Label: "F28-C", Setup: setup, Progs: [][]c9Op{{rm}, {cr}},
				Sched: []c9Item{gap, {Kind: "rm", T: 0}, {Kind: "fin", T: 1}, {Kind: "fin", T: 0}}})
		}
	}
	return l
}

func c9RandomForced(rng *RNG) *c9Forced {
	tg := func() int { return 3 + rng.Intn(200) }
	setups := [][]c9Op{
		{c9Mk(c9D), c9W(1, c9S), c9W(2, c9T, c9S)},
		{c9Mk(c9D, c9E), c9W(1, c9S), c9W(2, c9T, c9S)},
		{c9W(9, c9D, c9Z), c9W(1, c9S), c9Mk(c9T)},
		{c9Mk(c9D, c9E), c9W(9, c9D, c9Z), c9W(1, c9S), c9W(2, c9T, c9S), c9W(3, c9T, c9E, c9X)},
		{c9W(1, c9S)},
	}
	f := &c9Forced{Setup: setups[rng.Intn(len(setups))]}
	pool := func() c9Op {
		switch rng.Intn(24) {
		case 0:
			return c9Rm(false, c9D)
		case 1:
			return c9Rm(true, c9D)
		case 2:
			return c9Rm(rng.Bool(), c9D, c9E)
		case 3:
			return c9Rm(false, c9D, c9Z)
		case 4, 5:
			return c9W(tg(), c9D, c9X)
		case 6:
			return c9W(tg(), c9D, c9E, c9X)
		case 7:
			return c9W(tg(), c9D, c9Z)
		case 8, 9:
			return c9Mk(c9D, c9Y)
		case 10:
			return c9Mk(c9D, c9E, c9Y)
		case 11:
			return c9Mk(c9D)
		case 12:
			return c9Wr(tg(), c9D, c9X)
		case 13:
			return c9Cp("Copy", []string{c9S}, c9D, c9X)
		case 14:
			return c9Cp("CopyFile", []string{c9S}, c9D, c9X)
		case 15:
			return c9Cp("CopyDir", []string{c9T}, c9D, c9X)
		case 16:
			return c9Cp("Copy", []string{c9T}, c9D, c9E, c9X)
		case 17:
			return c9Op{Kind: "Read", P: []string{c9D, c9Z}}
		case 18:
			return c9Op{Kind: "List", P: []string{c9D}}
		case 19:
			return c9Op{Kind: "Exist", P: []string{c9D, c9X}}
		case 20:
			return c9Op{Kind: "Reader", P: []string{c9D, c9Z}}
		case 21:
			return c9W(tg(), c9S)
		case 22:
			return c9Cp("Copy", []string{c9D}, c9T, c9D)
		}
		return c9Wr(tg(), c9D, c9Z)
	}
	nt := 2
	if rng.Chance(25) {
		nt = 3
	}
	for t := 0; t < nt; t++ {
		p := []c9Op{pool()}
		f.Progs = append(f.Progs, p)
	}
	order := rng.Fork()
	perm := make([]int, nt)
	for i := range perm {
		perm[i] = i
	}
	for i := nt - 1; i > 0; i-- {
		j := order.Intn(i + 1)
		perm[i], perm[j] = perm[j], perm[i]
	}
	for _, t := range perm {
		if rng.Chance(75) {
			if it, ok := c9GapFor(rng, t, f.Progs[t][0]); ok {
				f.Sched = append(f.Sched, it)
			}
		}
	}
	for i := nt - 1; i > 0; i-- {
		j := order.Intn(i + 1)
		perm[i], perm[j] = perm[j], perm[i]
	}
	for _, t := range perm {
		f.Sched = append(f.Sched, c9Item{Kind: "fin", T: t})
		// a second operation is appended only to threads that are not parked at a mkdir gap
	}
	for t := 0; t < nt; t++ {
		mk := false
		for _, it := range f.Sched {
			if it.T == t && it.Kind == "mk" {
				mk = true
			}
		}
		if !mk && rng.Chance(30) {
			f.Progs[t] = append(f.Progs[t], pool())
		}
	}
	return f
}

func c9CheckForced(o *Out, f *c9Forced) {
	desc := map[string]interface{}{"kind": "forced-schedule", "label": f.Label, "setup": f.Setup, "progs": f.Progs, "sched": f.Sched,
		"results": f.Res, "final": f.FinalD}
	o.Stat("forced_runs")
	if f.Hang {
		o.Fail("no_hang", "forced schedule: "+f.Why, "hang", desc)
		o.CountEval("hang", false)
		return
	}
	c9Basic(o, "forced schedule", f.Progs, f.Res, desc)
	// L2: the outcome is explained by a sequential order of the successful operations
	succ := c9Succ(f.Progs, f.Res)
	hasW := false
	for _, p := range f.Progs {
		for _, op := range p {
			if op.Kind == "Writer" {
				hasW = true
			}
		}
	}
	_ = hasW
	if c9Hazard(f.Init, f.Progs, f.Res) {
		o.Stat("forced_hazard_skipped")
	} else if !c9Serialisable(f.Init, succ, f.Final) {
		sig := "not-serialisable"
		what := "forced schedule: the final tree is not the result of any sequential order of the successful operations"
		if strings.HasPrefix(f.Label, "F28") {
			what = "F28 schedule (" + f.Label + "): both calls returned nil but the created node is lost / the outcome matches neither sequential order"
		}
		o.Fail("final_serialisable", what, sig, desc)
	} else {
		o.Stat("forced_serialisable")
	}
	keyb, _ := json.Marshal([]interface{}{f.Setup, f.Progs, f.Sched})
	o.AddCase(f.coq(), desc, "F:"+string(keyb), len(succ) > 0)
}

// ---------- (iii) small histories

type c9Small struct {
	Progs [][]c9Op  `json:"progs"`
	Res   [][]c9Res `json:"results"`
	Procs int       `json:"gomaxprocs"`
	Init  []WalkEnt `json:"-"`
	Final []WalkEnt `json:"-"`
	FinD  []string  `json:"final"`
	Hang  bool      `json:"hang,omitempty"`
	Why   string    `json:"why,omitempty"`
}

func c9Jitter(seed uint64) func(string) {
	var ctr uint64
	return func(point string) {
		n := atomic.AddUint64(&ctr, 1)
		z := (seed ^ n*0x9E3779B97F4A7C15) * 0xBF58476D1CE4E5B9
		z ^= z >> 29
		switch v := z % 100; {
		case v < 50:
		case v < 88:
			runtime.Gosched()
		case v < 98:
			time.Sleep(time.Duration(1+z%30) * time.Microsecond)
		default:
			time.Sleep(150 * time.Microsecond)
		}
	}
}

func c9RunConcurrent(fs filesystem.Filespace, progs [][]c9Op, procs int, seed uint64, watchdog time.Duration) (res [][]c9Res, hang bool) {
	old := runtime.GOMAXPROCS(procs)
	defer runtime.GOMAXPROCS(old)
	verifhook.SetCallback(c9Jitter(seed))
	defer verifhook.SetCallback(nil)
	res = make([][]c9Res, len(progs))
	var seq uint64
	var wg sync.WaitGroup
	gate := make(chan struct{})
	for i := range progs {
		res[i] = make([]c9Res, 0, len(progs[i]))
		wg.Add(1)
		go func(i int) {
			defer wg.Done()
			<-gate
			for _, op := range progs[i] {
				b := atomic.AddUint64(&seq, 1)
				r := c9Exec(fs, op)
				r.Begin, r.End = b, atomic.AddUint64(&seq, 1)
				res[i] = append(res[i], r)
			}
		}(i)
	}
	close(gate)
	done := make(chan struct{})
	go func() { wg.Wait(); close(done) }()
	select {
	case <-done:
		return res, false
	case <-time.After(watchdog):
		return nil, true
	}
}

func c9SmallGen(rng *RNG) [][]c9Op {
	tg := func() int { return 3 + rng.Intn(200) }
	pool := func() c9Op {
		switch rng.Intn(20) {
		case 0, 1:
			return c9W(tg(), "d", "x")
		case 2:
			return c9W(tg(), "d", "z")
		case 3:
			return c9W(tg(), "d", "e", "x")
		case 4, 5:
			return c9Mk("d", "y")
		case 6:
			return c9Mk("d", "e", "y")
		case 7:
			return c9Mk("n", "m")
		case 8:
			return c9Rm(false, "d", "z")
		case 9:
			return c9Rm(rng.Bool(), "d", "e")
		case 10, 11:
			return c9Rm(true, "d")
		case 12:
			return c9Rm(false, "d")
		case 13:
			return c9Cp("Copy", []string{"src", "f"}, "d", "c")
		case 14:
			return c9Cp("CopyDir", []string{"src", "t"}, "d", "ct")
		case 15:
			return c9Cp("Copy", []string{"src", "t"}, "n", "ct")
		case 16:
			return c9W(tg(), "n", "x")
		case 17:
			return c9Cp("CopyFile", []string{"src", "f"}, "d", "x")
		case 18:
			return c9Op{Kind: "List", P: []string{"d"}}
		}
		return c9Op{Kind: "Read", P: []string{"d", "z"}}
	}
	nt := 2 + rng.Intn(2)
	progs := make([][]c9Op, nt)
	for i := range progs {
		n := 1 + rng.Intn(2)
		for j := 0; j < n; j++ {
			progs[i] = append(progs[i], pool())
		}
	}
	return progs
}

var c9SmallSetup = []c9Op{c9Mk("d", "e"), c9W(1, "d", "z"), c9W(2, "src", "f"), c9W(3, "src", "t", "a"), c9Mk("src", "t", "b")}

func c9RunSmall(o *Out, rng *RNG, procs int) {
	fs, err := memfs.NewFilespace()
	must(err)
	for _, op := range c9SmallSetup {
		c9Exec(fs, op)
	}
	s := &c9Small{Progs: c9SmallGen(rng), Procs: procs}
	s.Init, _, _ = walkFs(fs)
	res, hang := c9RunConcurrent(fs, s.Progs, procs, rng.Next(), 10*time.Second)
	desc := map[string]interface{}{"kind": "small-history", "progs": s.Progs, "gomaxprocs": procs}
	o.Stat("small_runs")
	if hang {
		o.Fail("no_hang", "small history did not finish within 10 s", "hang", desc)
		o.CountEval("hang", false)
		return
	}
	s.Res = res
	desc["results"] = res
	var ok bool
	var why string
	s.Final, ok, why = walkFs(fs)
	desc["final"] = c9WalkDesc(s.Final)
	if !ok {
		o.Fail("final_walk", "the sequential walk after the run failed: "+why, "walk", desc)
		return
	}
	c9Basic(o, "small history", s.Progs, res, desc)
	for i, l := range res {
		for j, r := range l {
			if r.Kind == "data" && !c9ShortOK(r.Data) {
				o.Fail("read_values", fmt.Sprintf("%s %s returned %d bytes that are not a complete written value", s.Progs[i][j].Kind, c9Path(s.Progs[i][j].P), len(r.Data)), "torn-read", desc)
			}
		}
	}
	succ := c9Succ(s.Progs, res)
	keyb, _ := json.Marshal([]interface{}{s.Progs, res})
	if c9Hazard(s.Init, s.Progs, res) {
		o.Stat("small_hazard_skipped")
		o.CountEval("S:"+string(keyb), false)
		return
	}
	if !c9Serialisable(s.Init, succ, s.Final) {
		o.Fail("final_serialisable", "small history: the final tree is not the result of any sequential order (respecting real-time precedence) of the successful operations", "not-serialisable", desc)
	} else {
		o.Stat("small_serialisable")
	}
	o.AddCase(c9CoqHist(s.Init, succ, s.Final), desc, "S:"+string(keyb), len(succ) > 1)
}

// ---------- (ii) stress

func c9RunStress(o *Out, rng *RNG, round int, procs int) {
	fs, err := memfs.NewFilespace()
	must(err)
	setup := []c9Op{
		{Kind: "Write", P: []string{"sa", "f1"}, Data: c9Val(1)}, {Kind: "Write", P: []string{"sb", "f2"}, Data: c9Val(2)},
		{Kind: "Write", P: []string{"f3"}, Data: c9Val(3)}, {Kind: "Write", P: []string{"src", "file"}, Data: c9Val(4)},
		{Kind: "Write", P: []string{"src", "dir", "a"}, Data: c9Val(5)}, {Kind: "Write", P: []string{"src", "dir", "sub", "b"}, Data: c9Val(6)},
		{Kind: "Mkdir", P: []string{"p"}},
	}
	for _, op := range setup {
		c9Exec(fs, op)
	}
	g := 2 + rng.Intn(31)
	per := 4 + rng.Intn(20)
	shared := [][]string{{"sa", "f1"}, {"sb", "f2"}, {"f3"}}
	rname := fmt.Sprintf("r%d", round)
	progs := make([][]c9Op, g)
	type want struct {
		kind string // file dir
		path []string
		data []byte
		gi   int
		oi   int
	}
	var wants []want
	for i := 0; i < g; i++ {
		r := rng.Fork()
		gd := fmt.Sprintf("g%d", i)
		for j := 0; j < per; j++ {
			tag := 7 + r.Intn(240)
			var op c9Op
			switch r.Intn(26) {
			case 0, 1, 2:
				op = c9Op{Kind: "Write", P: shared[r.Intn(3)], Data: c9Val(tag), Tag: tag}
			case 3:
				op = c9Op{Kind: "Writer", P: shared[r.Intn(3)], Chunks: c9Chunks(r, c9Val(tag)), Tag: tag}
			case 4, 5, 6:
				op = c9Op{Kind: "Read", P: shared[r.Intn(3)]}
			case 7:
				op = c9Op{Kind: "Reader", P: shared[r.Intn(3)]}
			case 8, 9:
				op = c9Op{Kind: "List", P: [][]string{{"sa"}, {"sb"}, {}, {"p", rname}}[r.Intn(4)]}
			case 10:
				op = c9Op{Kind: "Mkdir", P: []string{"sa", fmt.Sprintf("m%d", r.Intn(3))}}
			case 11, 12:
				op = c9Op{Kind: "Write", P: []string{[]string{"sa", "sb"}[r.Intn(2)], fmt.Sprintf("n%d", r.Intn(4))}, Data: c9Val(tag), Tag: tag}
			case 13:
				op = c9Op{Kind: "Remove", P: []string{[]string{"sa", "sb"}[r.Intn(2)], fmt.Sprintf("n%d", r.Intn(4))}}
			case 14:
				op = c9Op{Kind: []string{"Remove", "RemoveAll"}[r.Intn(2)], P: []string{"sa", fmt.Sprintf("m%d", r.Intn(3))}}
			case 15:
				if r.Chance(30) {
					op = c9Op{Kind: "RemoveAll", P: []string{"sb"}}
				} else {
					op = c9Op{Kind: "RemoveAll", P: []string{"sb", fmt.Sprintf("k%d", r.Intn(3))}}
				}
			case 16:
				op = c9Op{Kind: "Copy", P: []string{"src", "dir"}, Q: []string{"sa", fmt.Sprintf("m%d", r.Intn(3)), fmt.Sprintf("c%d", r.Intn(3))}}
			case 17:
				op = c9Op{Kind: "Copy", P: []string{"sa"}, Q: []string{"sb", fmt.Sprintf("k%d", r.Intn(3))}}
			case 18:
				op = c9Op{Kind: "CopyFile", P: shared[r.Intn(3)], Q: []string{"sa", fmt.Sprintf("n%d", r.Intn(4))}}
			case 19:
				op = c9Op{Kind: "Exist", P: []string{"sa", fmt.Sprintf("n%d", r.Intn(4))}}
			case 20, 21, 22:
				p := []string{"p", rname, gd, fmt.Sprintf("w%d", j)}
				op = c9Op{Kind: "Write", P: p, Data: c9Val(tag), Tag: tag}
				wants = append(wants, want{"file", p, op.Data, i, j})
			case 23:
				p := []string{"p", rname, gd, fmt.Sprintf("m%d", j), "q"}
				op = c9Op{Kind: "Mkdir", P: p}
				wants = append(wants, want{"dir", p, nil, i, j})
			case 24:
				p := []string{"p", rname, gd, fmt.Sprintf("c%d", j)}
				op = c9Op{Kind: "CopyFile", P: []string{"src", "file"}, Q: p}
				wants = append(wants, want{"file", p, c9Val(4), i, j})
			default:
				p := []string{"p", rname, gd, fmt.Sprintf("s%d", j)}
				op = c9Op{Kind: "Writer", P: p, Chunks: c9Chunks(r, c9Val(tag)), Tag: tag}
				wants = append(wants, want{"file", p, c9Val(tag), i, j})
			}
			progs[i] = append(progs[i], op)
		}
	}
	seed := rng.Next()
	desc := map[string]interface{}{"kind": "stress", "goroutines": g, "ops_per_goroutine": per, "gomaxprocs": procs, "jitter_seed": seed, "round": round}
	o.Stat("stress_runs")
	o.Stat(fmt.Sprintf("stress_gomaxprocs_%d", procs))
	res, hang := c9RunConcurrent(fs, progs, procs, seed, 10*time.Second)
	if hang {
		o.Fail("no_hang", fmt.Sprintf("stress run (%d goroutines x %d ops) did not finish within 10 s", g, per), "hang", desc)
		o.CountEval("hang", false)
		return
	}
	hist := func(i, j int) map[string]interface{} {
		return map[string]interface{}{"run": desc, "goroutine": i, "index": j, "op": progs[i][j], "result": res[i][j], "program": progs[i]}
	}
	c9Basic(o, "stress", progs, res, desc)
	for i, l := range res {
		for j, r := range l {
			if r.Kind == "data" {
				if len(r.Data) == 0 {
					o.Fail("read_values", fmt.Sprintf("%s %s: a reader saw an empty content nobody wrote", progs[i][j].Kind, c9Path(progs[i][j].P)), "empty-read", hist(i, j))
					continue
				}
				if !c9ValOK(r.Data) {
					o.Fail("read_values", fmt.Sprintf("%s %s returned %d bytes (tag %d) that are not a complete written value", progs[i][j].Kind, c9Path(progs[i][j].P), len(r.Data), c9TagOf(r.Data)), "torn-read", hist(i, j))
				}
			}
		}
	}
	final, ok, why := walkFs(fs)
	if !ok {
		o.Fail("final_walk", "the sequential walk after the run failed: "+why, "walk", desc)
		return
	}
	have := map[string]WalkEnt{}
	names := map[string]bool{}
	for _, e := range final {
		k := key(e.Path)
		if names[k] {
			o.Fail("listing_distinct", "the final walk lists "+k+" twice", "dup-listing", desc)
		}
		names[k] = true
		have[k] = e
		if !e.IsDir && !c9ValOK(e.Data) {
			o.Fail("file_values", fmt.Sprintf("after the run %s holds %d bytes that are not a complete written value", k, len(e.Data)), "torn-file", desc)
		}
	}
	for _, w := range wants {
		r := res[w.gi][w.oi]
		if r.Kind != "ok" {
			o.Fail("distinct_paths", fmt.Sprintf("%s on the private path %s failed: %s", progs[w.gi][w.oi].Kind, c9Path(w.path), r.Msg), "private-op-failed", hist(w.gi, w.oi))
			continue
		}
		e, present := have[key(w.path)]
		switch {
		case !present:
			o.Fail("distinct_paths", fmt.Sprintf("%s %s returned nil, nobody removes below p/, but the node is absent afterwards", progs[w.gi][w.oi].Kind, c9Path(w.path)), "lost-create", hist(w.gi, w.oi))
		case w.kind == "dir" && !e.IsDir:
			o.Fail("distinct_paths", c9Path(w.path)+" is not a directory afterwards", "lost-create", hist(w.gi, w.oi))
		case w.kind == "file" && (e.IsDir || string(e.Data) != string(w.data)):
			o.Fail("distinct_paths", fmt.Sprintf("%s does not hold the value written to it (tag %d, %d bytes)", c9Path(w.path), c9TagOf(e.Data), len(e.Data)), "lost-write", hist(w.gi, w.oi))
		}
	}
	o.CountEval(fmt.Sprintf("X:%d:%d:%d:%d", g, per, procs, seed), len(wants) > 0)
	o.Stat(fmt.Sprintf("stress_goroutines_%02d_%02d", g/8*8, g/8*8+7))
}

// c9ListingProbe: a listing handed out earlier must keep distinct names while the directory changes.
func c9ListingProbe(o *Out, rng *RNG) {
	fs, err := memfs.NewFilespace()
	must(err)
	n := 3 + rng.Intn(5)
	for i := 0; i < n; i++ {
		c9Exec(fs, c9W(10+i, "q", fmt.Sprintf("f%d", i)))
	}
	infos, err := fs.ReadDir("q")
	if err != nil {
		return
	}
	victim := rng.Intn(n - 1)
	for phase := 0; phase < 2; phase++ {
		if phase == 0 {
			c9Exec(fs, c9Rm(false, "q", fmt.Sprintf("f%d", victim)))
		} else {
			c9Exec(fs, c9W(99, "q", fmt.Sprintf("f%d", (victim+1)%n)))
			c9Exec(fs, c9Rm(false, "q", fmt.Sprintf("f%d", (victim+2)%n)))
		}
		seen := map[string]bool{}
		for _, i := range infos {
			if seen[i.Name()] {
				o.Fail("listing_distinct", "a listing returned by ReadDir shows the name "+i.Name()+" twice after a later Remove in the same directory (the listing aliases the directory's node slice)", "dup-listing",
					map[string]interface{}{"kind": "listing-probe", "files": n, "removed": victim, "phase": phase})
				return
			}
			seen[i.Name()] = true
		}
	}
	o.Stat("listing_probes")
}

// c9WriterWindow: targeted stress for the repaired creation window of Writer (288e3e2): many
// rounds of Writer(new file) running against goroutines that poll ReadFile / Reader of that
// path.  The first content a poller gets must be the whole value: an empty content was written
// by nobody (C09_writer_creation_window_refuted is the model witness for the old order).
func c9WriterWindow(o *Out, rng *RNG, rounds int, procs int) {
	fs, err := memfs.NewFilespace()
	must(err)
	old := runtime.GOMAXPROCS(procs)
	defer runtime.GOMAXPROCS(old)
	verifhook.SetCallback(nil)
	pollers := 3
	for i := 0; i < rounds; i++ {
		p := fmt.Sprintf("w/%d", i)
		tag := 7 + rng.Intn(240)
		val := c9Val(tag)
		var wg sync.WaitGroup
		var bad int32
		var badLen int32 = -1
		startCh := make(chan struct{})
		for k := 0; k < pollers; k++ {
			wg.Add(1)
			go func(k int) {
				defer wg.Done()
				<-startCh
				for n := 0; n < 200000; n++ {
					var d []byte
					var err error
					if k == 2 {
						var rd filesystem.Reader
						if rd, err = fs.Reader(p); err == nil {
							buf := make([]byte, 600)
							m, _ := rd.Read(buf)
							d = buf[:m]
							rd.Close()
						}
					} else {
						d, err = fs.ReadFile(p)
					}
					if err == nil {
						if string(d) != string(val) {
							atomic.StoreInt32(&bad, 1)
							atomic.StoreInt32(&badLen, int32(len(d)))
						}
						return
					}
					if procs == 1 || n%64 == 63 {
						runtime.Gosched()
					}
				}
			}(k)
		}
		wg.Add(1)
		go func() {
			defer wg.Done()
			<-startCh
			w, err := fs.Writer(p)
			if err == nil {
				w.Write(val)
				w.Close()
			}
		}()
		close(startCh)
		done := make(chan struct{})
		go func() { wg.Wait(); close(done) }()
		select {
		case <-done:
		case <-time.After(10 * time.Second):
			o.Fail("no_hang", "Writer(new file) against polling readers did not finish within 10 s", "hang", map[string]interface{}{"kind": "writer-window", "round": i, "gomaxprocs": procs})
			return
		}
		o.Stat("writer_window_rounds")
		if atomic.LoadInt32(&bad) == 1 {
			what := fmt.Sprintf("Writer(%s) on a new file against polling ReadFile/Reader: a reader saw %d bytes instead of the %d bytes written", p, atomic.LoadInt32(&badLen), len(val))
			sig := "torn-read"
			if atomic.LoadInt32(&badLen) == 0 {
				what = fmt.Sprintf("Writer(%s) on a new file against polling ReadFile/Reader: a reader saw an empty content nobody wrote", p)
				sig = "empty-read"
			}
			o.Fail("read_values", what, sig, map[string]interface{}{"kind": "writer-window", "round": i, "gomaxprocs": procs, "path": p, "tag": tag})
			return
		}
	}
	o.CountEval(fmt.Sprintf("W:%d:%d", rounds, procs), true)
}

// c9CopyDuringSession: one goroutine keeps STREAM Writer sessions on a shared file open for a while
// (Write part 1; yield / short sleep; Write part 2; Close; whole value = both parts) while other
// goroutines Copy / CopyFile that file and CopyDirectory its parent to fresh destinations and read
// the copies back.  Every copy must hold a complete written (or the initial) value, never a
// prefix or the truncated (empty) content: copyFile has to wait for the session's data lock.
func c9CopyDuringSession(o *Out, rng *RNG, sessions int, procs int) {
	fs, err := memfs.NewFilespace()
	must(err)
	old := runtime.GOMAXPROCS(procs)
	defer runtime.GOMAXPROCS(old)
	verifhook.SetCallback(nil)
	c9Exec(fs, c9Op{Kind: "Write", P: []string{"h", "f"}, Data: c9Val(1)})
	seed := rng.Next()
	var stop int32
	var wg sync.WaitGroup
	type bad struct {
		what string
		c    map[string]interface{}
	}
	var mu sync.Mutex
	var found *bad
	var checked int64
	report := func(b *bad) {
		mu.Lock()
		if found == nil {
			found = b
		}
		mu.Unlock()
		atomic.StoreInt32(&stop, 1)
	}
	wg.Add(1)
	go func() { // the session holder
		defer wg.Done()
		defer atomic.StoreInt32(&stop, 1)
		r := NewRNG(seed)
		for i := 0; i < sessions && atomic.LoadInt32(&stop) == 0; i++ {
			v := c9Val(7 + r.Intn(240))
			cut := 1 + r.Intn(len(v)-1)
			w, err := fs.Writer("h/f")
			if err != nil {
				report(&bad{"Writer(h/f) failed: " + err.Error(), map[string]interface{}{"kind": "copy-during-session", "session": i}})
				return
			}
			w.Write(v[:cut])
			switch r.Intn(3) {
			case 0:
				runtime.Gosched()
			case 1:
				time.Sleep(time.Duration(5+r.Intn(40)) * time.Microsecond)
			default:
				for k := 0; k < 3; k++ {
					runtime.Gosched()
				}
			}
			w.Write(v[cut:])
			w.Close()
			if i%3 == 0 {
				runtime.Gosched()
			}
		}
	}()
	for k := 0; k < 3; k++ {
		wg.Add(1)
		go func(k int) { // the copiers
			defer wg.Done()
			for n := 0; atomic.LoadInt32(&stop) == 0 && n < 1000000; n++ {
				kind := []string{"Copy", "CopyFile", "CopyDir"}[(k+n)%3]
				var res c9Res
				var rd string
				switch kind {
				case "Copy", "CopyFile":
					rd = fmt.Sprintf("c%d/%d", k, n)
					res = c9Exec(fs, c9Op{Kind: kind, P: []string{"h", "f"}, Q: []string{fmt.Sprintf("c%d", k), fmt.Sprint(n)}})
				default:
					rd = fmt.Sprintf("c%d/%d/f", k, n)
					res = c9Exec(fs, c9Op{Kind: "CopyDir", P: []string{"h"}, Q: []string{fmt.Sprintf("c%d", k), fmt.Sprint(n)}})
				}
				c := map[string]interface{}{"kind": "copy-during-session", "copy": kind, "copier": k, "n": n, "gomaxprocs": procs, "seed": seed}
				if res.Kind != "ok" {
					report(&bad{fmt.Sprintf("%s of h/f to a fresh destination failed (%s %s)", kind, res.Kind, res.Msg), c})
					return
				}
				d, err := fs.ReadFile(rd)
				if err != nil {
					report(&bad{fmt.Sprintf("%s returned nil but %s cannot be read: %v", kind, rd, err), c})
					return
				}
				if !c9ValOK(d) {
					report(&bad{fmt.Sprintf("%s of h/f taken while a Writer session on it was open: the copy %s holds %d bytes (tag %d), a partly written value, not a complete written or initial value", kind, rd, len(d), c9TagOf(d)), c})
					return
				}
				atomic.AddInt64(&checked, 1)
				c9Exec(fs, c9Rm(true, fmt.Sprintf("c%d", k), fmt.Sprint(n))) // keep the directories small
			}
		}(k)
	}
	done := make(chan struct{})
	go func() { wg.Wait(); close(done) }()
	select {
	case <-done:
	case <-time.After(180 * time.Second):
		atomic.StoreInt32(&stop, 1)
		o.Fail("no_hang", "copies against an open Writer session did not finish within 180 s", "hang", map[string]interface{}{"kind": "copy-during-session", "gomaxprocs": procs})
		return
	}
	o.Stat("session_copy_runs")
	o.Stats["session_copies_checked"] += int(atomic.LoadInt64(&checked))
	if found != nil {
		o.Fail("copy_values", found.what, "torn-copy", found.c)
		return
	}
	o.CountEval(fmt.Sprintf("CS:%d:%d:%d", sessions, procs, seed), true)
}

func runC09(o *Out, rng *RNG, tier string, replay string) {
	if replay != "" {
		if b, err := os.ReadFile(replay); err == nil {
			var rp struct {
				Seed uint64 `json:"seed"`
				Tier string `json:"tier"`
			}
			if json.Unmarshal(b, &rp) == nil && rp.Seed != 0 {
				rng = NewRNG(rp.Seed)
				if rp.Tier != "" {
					tier = rp.Tier
				}
			}
		}
	}
	o.Imports = "From GC Require Import Common.Base Model.Paths Model.Fs Model.MemConc Corr.C09."
	o.CaseType = "case"
	o.CheckFn = "check"
	o.ShardSize = 120
	o.Rule = "(i) forced schedules through the verif yield points (the explicit F28 schedules for Remove/RemoveAll x 6 creators x 4 park orders, then random 2-3 thread programs with random park points), each compared with the Coq model run on the same schedule (results + final tree) and checked for serialisability; (ii) stress runs of 2-32 goroutines x 4-23 ops on 2 shared directories, 3 shared files and a private never-removed area, tagged values of 64-512 bytes, GOMAXPROCS 1/2/4/16, seeded yields in the hook callback: no panic, no hang (10 s), every read is a whole written value, listings have distinct names, the final walk succeeds and every file holds a whole value, every successful private-path creation is present with its value; (iv) targeted stress of the Writer creation window (288e3e2): rounds of Writer(new file) against 3 goroutines polling ReadFile/Reader of that path, GOMAXPROCS 1/2/4/16 - the first content seen must be the whole value, an empty content is an oracle failure; (v) copies against open stream sessions: one goroutine keeps Writer sessions on a shared file open (Write part 1; yield/sleep; Write part 2; Close) while 3 goroutines Copy/CopyFile it and CopyDirectory its parent to fresh destinations and read the copies back - every copy must be a whole value, never a prefix; (iii) small histories (2-3 threads x 1-2 ops, no handles) whose final tree must be explained by a sequential order of the successful operations respecting real-time precedence (Go plain tree + Coq acceptor). Non-trivial: at least one (forced) / two (small) successful mutations; distinct by programs+schedule / programs+results. Added by the coverage audit (c09_audit.go): (vi) session mixes - Writer sessions that yield between chunks and Reader sessions that yield between chunk reads against WriteFile/ReadFile/Copy*/Remove+re-create of shared, single-writer and volatile files, values with a 16-bit identity: every read is a whole value written to THAT file and not one that a write completed before the read began had replaced; (vii) commons - 2-16 goroutines x 10-39 calls (all 16 entry points incl. IsFile/IsDir/Lstat) on names of their own inside the same two shared directories: every result and every listing of the caller's own names as on a plain tree for that goroutine alone, final tree = union; (viii) creation storms - 2-5 goroutines released together on one new node (same kind / mixed kinds / Remove or RemoveAll of the parent among them): results AND final tree explained by a sequential order (a WriteFile/Writer refused by an overlapping successful Copy* is left open and counted), successful calls also sent to the Coq acceptor; (ix) listing storm - 4 goroutines remove/re-create their own 40 names in one directory of 160 and list it in between (own names exactly once, the removed one absent, no duplicates); (x) race loop, 18000 rounds with persistent workers released together: two of three rounds Remove of an empty directory against three creators inside it with a feedback-controlled start offset (every creator that returned nil is visible afterwards, whatever Remove answered), every third round four WriteFile/Writer calls on the same new file (all succeed, one node, one of their values). Added after the fifth round of seeded changes (c09_big.go): (xi) the SIZE of the values - 60 runs of 4-8 goroutines x 24-47 calls on files that exist all the time, overwritten by WriteFile and Writer sessions (1-3 chunks) with values of 24 bytes to 2 MiB (many of the same length with different bytes at every position, shorter ones that fit the buffer of the longer ones, longer ones again) while ReadFile, Reader sessions (5 chunk sizes) and Copy/CopyFile/CopyDirectory to fresh destinations run; two thirds of the calls of a run are of one reading x one writing entry point (all 10 pairs), GOMAXPROCS 4/16/2/8/1, units 1 MiB/512 KiB/256 KiB; every value carries the number of the writing call at head and tail and a body whose every byte names its pool value: no panic, no error, every value read / found in a copy / left in the file is ONE complete value written by a successful call to that file and not one that a later complete write had replaced before the call began; buffers passed in or handed out are scribbled over after the call."
	nForced, nSmall, nLarge, nWindow, nSess := 300, 400, 40, 1500, 400
	if tier == "thorough" {
		nForced, nSmall, nLarge, nWindow, nSess = 1500, 10000, 1000, 20000, 4000
	}
	if os.Getenv("VERIF_C09_ONLY") == "big" { // debugging aid: only the family of c09_big.go
		c9BigFamily(o, rng.Fork(), tier)
		return
	}
	if os.Getenv("VERIF_C09_ONLY") == "audit" { // debugging aid: only the families of c09_audit.go
		c9AuditFamilies(o, rng.Fork(), tier)
		return
	}
	for _, f := range c9F28Cases() {
		c9RunForced(f)
		c9CheckForced(o, f)
	}
	for i := 0; i < nForced; i++ {
		f := c9RandomForced(rng.Fork())
		c9RunForced(f)
		c9CheckForced(o, f)
	}
	for i := 0; i < 20; i++ {
		c9ListingProbe(o, rng.Fork())
	}
	for _, pr := range []int{1, 2, 4, 16} {
		c9WriterWindow(o, rng.Fork(), nWindow, pr)
		c9CopyDuringSession(o, rng.Fork(), nSess, pr)
	}
	procs := []int{1, 2, 4, 16}
	for i := 0; i < nSmall; i++ {
		c9RunSmall(o, rng.Fork(), procs[i%4])
	}
	for i := 0; i < nLarge; i++ {
		c9RunStress(o, rng.Fork(), i, procs[i%4])
	}
	c9AuditFamilies(o, rng.Fork(), tier)
	if os.Getenv("VERIF_C09_ONLY") != "nobig" { // debugging aid: the check as it was before c09_big.go
		c9BigFamily(o, rng.Fork(), tier)
	}
	keys := make([]string, 0)
	for k := range o.Stats {
		keys = append(keys, k)
	}
	sort.Strings(keys)
	o.Extra["note"] = "hazard_skipped = histories in which mkdir -p non-atomicity may legitimately show (C09_mkdir_p_not_atomic); they are excluded from the serialisability oracle only"
}
