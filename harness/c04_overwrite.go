package main

// C04, "... whether or not a file existed there before" for the copy helpers: the destination state
// a copy meets is not only empty / shorter / longer.  A destination that was filled by an earlier
// copy, or that holds records of a fixed size, has at the very paths the copy writes files of
// EXACTLY the source's length whose bytes differ (everywhere, or in one byte at the start, in the
// middle or at the end), older or younger than the source.  A helper that decides from what it can
// see without reading both files to the end (size, times, a leading block, what it remembers of an
// earlier run) that "there is nothing to do" returns nil and leaves a destination that is not a copy.
//
// Every copy entry point is driven over such destinations:
//
//	copy        fshelper.Copy(src, dst, nil)                               16 backend pairs
//	copierdir   fshelper.Copier{src, "www", dst, "backup/www"}.Do()        16 backend pairs
//	copierfile  fshelper.Copier{src, p, dst, p}.Do() for every file        16 backend pairs
//	stream      fshelper.StreamCopy(src, dst, p) for every file            16 backend pairs
//	fs-*        the filespace's own Copy / CopyDirectory / CopyFile ("www" -> "backup/www" inside ONE
//	            filespace) for the five backends; the cache's are the stream helpers (Copier) and
//	            must succeed, for the others only "nil => complete" is asked (their own semantics is
//	            the subject of C01 / C02 / C05)
//	commit      fscache Commit (StreamCopy buffer -> remote) over a remote holding the old files
//
// in four scenarios:
//
//	old-first   the destination's files were written BEFORE the source's
//	old-later   ... AFTER the source's
//	restore     copy into the destination (must be complete), then damage the destination's files in
//	            place, copy AGAIN: the second copy must repair them
//	update      copy, then change the SOURCE's files in place (same lengths), copy again
//
// with and without a pause longer than the time stamp granularity between the steps.  Oracles (L2):
// no panic / hang; nothing in the way => nil (`nofault_ok`); nil => every source file is in the
// destination byte for byte, bystanders untouched, and for a cache the remote after Commit as well
// (`ok_implies_complete`).  The same destination states enter the generated copy cases (c04Old), so
// they reach the model (L1, CCopy) and the fault enumeration too.

import (
	"fmt"
	"path"
	"sort"
	"time"

	"github.com/goatcms/goatcore/filesystem"
	"github.com/goatcms/goatcore/filesystem/fshelper"
)

type c04OverFile struct {
	Path string `json:"path"`
	Len  int    `json:"len"`
	Old  string `json:"old"` // what the other side holds/gets at this path (c04OldKinds, "absent")
}

type c04Over struct {
	Seed     uint64        `json:"case_seed"`
	Section  string        `json:"section"`
	Entry    string        `json:"entry"`
	SrcBE    string        `json:"src_backend"`
	DstBE    string        `json:"dst_backend"`
	Scenario string        `json:"scenario"`
	GapMs    int           `json:"gap_ms"`
	Variant  int           `json:"variant"`
	Files    []c04OverFile `json:"files"`
	Step     string        `json:"step,omitempty"`
}

// hangs seen by this family (its own count: the fault enumeration's hangs do not stop it)
var c04OverHangs int

var c04OverScenarios = []string{"old-first", "old-later", "restore", "update"}

// the old states tried at a path; every file meets every one of them as the runs rotate
var c04OverKinds = []string{"samelen-last", "samelen", "samelen-first", "identical", "samelen-mid", "shorter", "longer", "absent"}

func c04OverTree(rng *RNG) (files []c04Node, dirs []string) {
	files = []c04Node{
		c04File("config.ini", 16, 31),
		c04File("empty", 0, 32),
		c04File("one", 1, 33),
		c04File("data/table.bin", 300, 34),
		c04File("data/big.bin", 40000, 35), // more than one io.Copy buffer, more than any "leading block"
		c04File("site/index.html", 15, 36),
		c04File("site/deep/.a", 4096, 37),
	}
	for i := 0; i < 1+rng.Intn(3); i++ {
		sz := []int{2, 15, 64, 512, 513, 1024, 32768, 32769}[rng.Intn(8)]
		files = append(files, c04File(fmt.Sprintf("data/r%d.rec", i), sz, byte(40+i)))
	}
	dirs = []string{"data", "site", "site/deep", "emptydir"}
	return
}

// c04OverRun runs one scenario; every failure goes to the oracle list with the case description.
func c04OverRun(o *Out, c *c04Over, rng *RNG) {
	fail := func(oracle, step, what string) {
		cc := *c
		cc.Step = step
		o.Fail(oracle, fmt.Sprintf("%s [%s, %s -> %s, %s, step %s]: %s", c.Entry, c.Scenario, c.SrcBE, c.DstBE, map[bool]string{true: "with a pause", false: "no pause"}[c.GapMs > 0], step, what), "C04-"+oracle, cc)
	}
	files, dirs := c04OverTree(rng)
	inside := c.Entry == "commit" || len(c.Entry) > 3 && c.Entry[:3] == "fs-" // one filespace: www -> backup/www
	src := c04New(c.SrcBE, c.Variant)
	defer src.cleanup()
	dst := src
	if !inside {
		dst = c04New(c.DstBE, c.Variant+1+(c.Variant/2)%2) // two encrypted ends: every other time the same cipher
		defer dst.cleanup()
	}
	// where the tree lives on either side
	sroot, droot := "", ""
	switch {
	case c.Entry == "copierdir":
		sroot, droot = "www/", "backup/www/"
	case inside && c.Entry != "commit":
		sroot, droot = "www/", "backup/www/"
	}
	var srcFS, dstFS filesystem.Filespace = src.fs, dst.fs
	if c.Entry == "commit" { // the cache view is the source, its remote the destination
		dstFS = src.remote
	}
	current := map[string][]byte{} // what the source holds now
	for _, f := range files {
		current[f.Path] = f.Data
	}
	c.Files = nil
	olds := map[string]c04Node{}
	for i, f := range files {
		kind := c04OverKinds[(i+c.Variant)%len(c04OverKinds)]
		if kind == "absent" {
			c.Files = append(c.Files, c04OverFile{f.Path, len(f.Data), kind})
			continue
		}
		old := c04Old(f, f.Path, kind, rng, byte(60+i))
		olds[f.Path] = old
		c.Files = append(c.Files, c04OverFile{f.Path, len(f.Data), old.Old})
	}
	pause := func() {
		if c.GapMs > 0 {
			time.Sleep(time.Duration(c.GapMs) * time.Millisecond)
		}
	}
	guard := func(step string, f func() error) bool {
		cl, msg := c04Watch(c04Watchdog, f)
		if cl == "panic" || cl == "hang" {
			fail("no-panic-no-hang", step, cl+" "+msg)
			if cl == "hang" {
				c04OverHangs++
			}
			return false
		}
		if cl == "err" {
			fail("setup", step, "a plain write of the harness failed: "+msg)
			return false
		}
		return true
	}
	writeSrc := func(step string) bool {
		return guard(step, func() error {
			for _, d := range dirs {
				if err := srcFS.MkdirAll(sroot+d, 0o777); err != nil {
					return err
				}
			}
			for _, f := range files {
				if err := srcFS.MkdirAll(path.Dir(sroot+f.Path), 0o777); err != nil {
					return err
				}
				if err := srcFS.WriteFile(sroot+f.Path, append([]byte{}, current[f.Path]...), 0o644); err != nil {
					return err
				}
			}
			if inside && c.Entry != "commit" {
				if err := srcFS.MkdirAll("backup", 0o777); err != nil {
					return err
				}
			}
			if sroot != "" {
				return srcFS.WriteFile("junk.txt", []byte("not below the source root"), 0o644)
			}
			return nil
		})
	}
	bystanders := map[string][]byte{}
	writeOld := func(step string) bool { // the destination's previous content + bystanders
		return guard(step, func() error {
			for _, d := range dirs {
				if err := dstFS.MkdirAll(droot+d, 0o777); err != nil {
					return err
				}
			}
			for _, f := range files {
				old, has := olds[f.Path]
				if !has {
					continue
				}
				if err := dstFS.WriteFile(droot+f.Path, append([]byte{}, old.Data...), 0o644); err != nil {
					return err
				}
			}
			bystanders[droot+"data/zz.keep"] = []byte("a bystander in a copied directory")
			if droot != "" {
				bystanders["keep.txt"] = []byte("outside the destination root")
			}
			for p, d := range bystanders {
				if err := dstFS.WriteFile(p, append([]byte{}, d...), 0o644); err != nil {
					return err
				}
			}
			return nil
		})
	}
	// the copy under test; must: an error where nothing is in the way is a failure
	required := !inside || c.SrcBE == "cache"
	doCopy := func(step string) (ok bool, went bool) {
		cl, msg := c04Watch(c04Watchdog, func() error {
			switch c.Entry {
			case "copy":
				return fshelper.Copy(srcFS, dstFS, nil)
			case "copierdir":
				return fshelper.Copier{SrcFS: srcFS, SrcPath: "www", DestFS: dstFS, DestPath: "backup/www"}.Do()
			case "copierfile":
				for _, f := range files {
					if err := (fshelper.Copier{SrcFS: srcFS, SrcPath: f.Path, DestFS: dstFS, DestPath: f.Path}).Do(); err != nil {
						return fmt.Errorf("%s: %w", f.Path, err)
					}
				}
			case "stream":
				for _, f := range files {
					if err := fshelper.StreamCopy(srcFS, dstFS, f.Path); err != nil {
						return fmt.Errorf("%s: %w", f.Path, err)
					}
				}
			case "fs-copy":
				return srcFS.Copy("www", "backup/www")
			case "fs-copydirectory":
				return srcFS.CopyDirectory("www", "backup/www")
			case "fs-copyfile", "fs-copy-file":
				for _, f := range files {
					var err error
					if c.Entry == "fs-copyfile" {
						err = srcFS.CopyFile(sroot+f.Path, droot+f.Path)
					} else {
						err = srcFS.Copy(sroot+f.Path, droot+f.Path)
					}
					if err != nil {
						return fmt.Errorf("%s: %w", f.Path, err)
					}
				}
			case "commit":
				return src.cache.Commit()
			}
			return nil
		})
		o.Stat("overwrite_" + c.Entry + "_" + cl)
		switch cl {
		case "panic", "hang":
			fail("no-panic-no-hang", step, "the copy ended in "+cl+" "+msg)
			if cl == "hang" {
				c04OverHangs++
			}
			return false, false
		case "err":
			if required {
				fail("nofault_ok", step, "nothing is in the way of this copy and it returned an error: "+msg)
			}
			return false, true
		}
		return true, true
	}
	// nil => complete
	verify := func(step string, fs filesystem.Filespace, where string) bool {
		var bad []string
		cl, msg := c04Watch(c04Watchdog, func() error {
			for _, f := range files {
				d, err := fs.ReadFile(droot + f.Path)
				want := current[f.Path]
				switch {
				case err != nil:
					bad = append(bad, fmt.Sprintf("%q cannot be read (%v)", droot+f.Path, err))
				case string(d) != string(want):
					k := 0
					for k < len(d) && k < len(want) && d[k] == want[k] {
						k++
					}
					was := "previous destination content: nothing"
					if old, has := olds[f.Path]; has {
						was = "previous destination content: " + old.Old
						if c.Scenario == "update" && step != "first copy" {
							was = "the source was changed in place: " + old.Old + " relative to what the first copy sent"
						} else if string(old.Data) == string(d) {
							was += ", still there"
						}
					}
					bad = append(bad, fmt.Sprintf("%q holds %d bytes, the source %d bytes, first difference at byte %d (%s)", droot+f.Path, len(d), len(want), k, was))
				}
			}
			for _, d := range dirs {
				if !fs.IsDir(droot + d) {
					bad = append(bad, fmt.Sprintf("directory %q is missing", droot+d))
				}
			}
			for p, want := range bystanders {
				if d, err := fs.ReadFile(p); err != nil || string(d) != string(want) {
					bad = append(bad, fmt.Sprintf("the bystander %q changed", p))
				}
			}
			if sroot != "" && fs.IsExist(droot+"junk.txt") {
				bad = append(bad, "a file from outside the source root was copied")
			}
			return nil
		})
		if cl != "ok" {
			fail("ok_implies_complete", step, "the copy returned nil but "+where+" cannot be read back: "+cl+" "+msg)
			return false
		}
		if len(bad) > 0 {
			sort.Strings(bad)
			more := ""
			if len(bad) > 1 {
				more = fmt.Sprintf(" (and %d more)", len(bad)-1)
			}
			fail("ok_implies_complete", step, "the copy returned nil but "+where+" is not a copy of the source: "+bad[0]+more)
			return false
		}
		return true
	}
	copyAndVerify := func(step string) bool {
		ok, went := doCopy(step)
		if !ok {
			if went {
				o.Stat("overwrite_refused_" + c.Entry + "_" + c.SrcBE)
			}
			return false
		}
		if !verify(step, dstFS, "the destination") {
			return false
		}
		if dst.cache != nil && c.Entry != "commit" {
			cl, msg := c04Watch(c04Watchdog, dst.cache.Commit)
			if cl != "ok" {
				fail("cache_commit", step, "Commit of the destination cache: "+cl+" "+msg)
				return false
			}
			if !verify(step+"+commit", dst.remote, "the remote of the destination cache after Commit") {
				return false
			}
			o.Stat("overwrite_committed")
		}
		return true
	}
	// in-place change of one side's files (same lengths unless the kind says otherwise)
	damage := func(step string, fs filesystem.Filespace, root string, becomesTruth bool) bool {
		return guard(step, func() error {
			for _, f := range files {
				old, has := olds[f.Path]
				if !has {
					if becomesTruth {
						continue // the source keeps the file
					}
					if err := fs.Remove(root + f.Path); err != nil {
						return err
					}
					continue
				}
				if err := fs.WriteFile(root+f.Path, append([]byte{}, old.Data...), 0o644); err != nil {
					return err
				}
				if becomesTruth {
					current[f.Path] = old.Data
				}
			}
			return nil
		})
	}
	key := fmt.Sprintf("overwrite/%s/%s>%s/%s/%d/%d", c.Entry, c.SrcBE, c.DstBE, c.Scenario, c.GapMs, c.Variant%len(c04OverKinds))
	defer o.CountEval(key, true)
	o.Stat("overwrite_scenario_" + c.Scenario)
	switch c.Scenario {
	case "old-first":
		if !writeOld("old") {
			return
		}
		pause()
		if !writeSrc("source") {
			return
		}
		copyAndVerify("copy")
	case "old-later":
		if !writeSrc("source") {
			return
		}
		pause()
		if !writeOld("old") {
			return
		}
		copyAndVerify("copy")
	case "restore":
		if !writeSrc("source") {
			return
		}
		if c.Entry != "copy" && c.Entry != "copierdir" && c.Entry != "fs-copy" && c.Entry != "fs-copydirectory" && c.Entry != "commit" {
			// the per-file entry points need the directories (a disk Writer makes no parents)
			saved := olds
			olds = map[string]c04Node{}
			okk := writeOld("directories")
			olds = saved
			if !okk {
				return
			}
		}
		if !copyAndVerify("first copy") {
			return
		}
		pause()
		if c.Entry == "commit" {
			return // damaging the remote behind the cache is not a state the property speaks of
		}
		if !damage("damage", dstFS, droot, false) {
			return
		}
		pause()
		copyAndVerify("second copy")
	case "update":
		if !writeSrc("source") {
			return
		}
		if c.Entry != "copy" && c.Entry != "copierdir" && c.Entry != "fs-copy" && c.Entry != "fs-copydirectory" && c.Entry != "commit" {
			saved := olds
			olds = map[string]c04Node{}
			okk := writeOld("directories")
			olds = saved
			if !okk {
				return
			}
		}
		if !copyAndVerify("first copy") {
			return
		}
		pause()
		if !damage("change of the source", srcFS, sroot, true) {
			return
		}
		pause()
		copyAndVerify("second copy")
	}
}

// c04Overwrite: the whole family (quick tier: every entry point x every backend pair x every
// scenario once; the old kinds and the pause rotate with the seed and the run number).
func c04Overwrite(o *Out, seed uint64, tier string) {
	rng := NewRNG(seed)
	rot := int(seed % 64)
	n := 0
	rounds := 1
	if tier == "thorough" {
		rounds = 8
	}
	run := func(entry, sbe, dbe, scen string) {
		if c04OverHangs >= 3 {
			o.Stat("overwrite_stopped_after_hangs")
			return
		}
		c := &c04Over{Seed: seed, Section: "overwrite", Entry: entry, SrcBE: sbe, DstBE: dbe, Scenario: scen, Variant: rot + n}
		if (rot+n/3)%2 == 0 {
			c.GapMs = c04Gap
		}
		n++
		c04OverRun(o, c, rng.Fork())
	}
	for r := 0; r < rounds; r++ {
		for _, entry := range []string{"copy", "copierdir", "copierfile", "stream"} {
			for _, sbe := range c04CopyBackends {
				for _, dbe := range c04CopyBackends {
					for _, scen := range c04OverScenarios {
						run(entry, sbe, dbe, scen)
					}
				}
			}
		}
		for _, entry := range []string{"fs-copy", "fs-copydirectory", "fs-copyfile", "fs-copy-file"} {
			for _, be := range c04AllBackends {
				for _, scen := range c04OverScenarios {
					run(entry, be, be, scen)
				}
			}
		}
		for _, scen := range c04OverScenarios {
			run("commit", "cache", "cache", scen)
			run("commit", "cache", "cache", scen)
		}
	}
}
