package main

// C05, tagged multi-cipher with MORE THAN ONE cipher in its map ("4-byte cipher tag dispatch"):
// a file carries the tag of the cipher that wrote it, so a filespace whose DEFAULT cipher is
// another one of the same map must read it back identically through both read paths - the reader
// dispatches on the stored tag, not on its own default.  The second cipher is AES-GCM under a
// differently derived key (a wrapper around the real cipher), so using the wrong one cannot decrypt.

import (
	"bytes"
	"fmt"
	"io"

	"github.com/goatcms/goatcore/filesystem"
	"github.com/goatcms/goatcore/filesystem/filespace/encryptfs"
	"github.com/goatcms/goatcore/filesystem/filespace/encryptfs/cipherfs"
	"github.com/goatcms/goatcore/filesystem/filespace/encryptfs/cipherfs/aesgcm256cfs"
	"github.com/goatcms/goatcore/filesystem/filespace/encryptfs/cipherfs/extcfs"
	"github.com/goatcms/goatcore/filesystem/filespace/memfs"
)

type c05Tweaked struct{ inner cipherfs.Cipher }

func (t c05Tweaked) k(key []byte) []byte { return append([]byte("second-cipher:"), key...) }
func (t c05Tweaked) DecryptReader(key []byte, r filesystem.Reader) (filesystem.Reader, error) {
	return t.inner.DecryptReader(t.k(key), r)
}
func (t c05Tweaked) EncryptWriter(key []byte, w filesystem.Writer) (filesystem.Writer, error) {
	return t.inner.EncryptWriter(t.k(key), w)
}
func (t c05Tweaked) Encrypt(key []byte, d []byte) ([]byte, error) {
	return t.inner.Encrypt(t.k(key), d)
}
func (t c05Tweaked) Decrypt(key []byte, d []byte) ([]byte, error) {
	return t.inner.Decrypt(t.k(key), d)
}

func c05MultiCipherProbe(o *Out, rng *RNG) {
	const second = extcfs.CipherKey(7)
	m := extcfs.CipherMap{extcfs.AESGCM256CFS: aesgcm256cfs.NewCipher(), second: c05Tweaked{aesgcm256cfs.NewCipher()}}
	cA, errA := extcfs.NewCipher(extcfs.AESGCM256CFS, m)
	cB, errB := extcfs.NewCipher(second, m)
	if errA != nil || errB != nil {
		o.Fail("structure", fmt.Sprintf("extcfs.NewCipher refused a two-cipher map: %v %v", errA, errB), "multi-new", nil)
		return
	}
	plains := [][]byte{{}, []byte("x"), c05Rand(rng, 17), c05Rand(rng, 4096), c05Rand(rng, 70000)}
	for wi, wc := range []cipherfs.Cipher{cA, cB} {
		for ri, rc := range []cipherfs.Cipher{cA, cB} {
			for pi, plain := range plains {
				for _, stream := range []bool{false, true} {
					base, _ := memfs.NewFilespace()
					set := encryptfs.Settings{Secret: []byte("multi-secret"), Salt: []byte("multi-salt")}
					set.Cipher = wc
					wfs, err := encryptfs.NewEncryptFS(base, set)
					must(err)
					set.Cipher = rc
					rfs, err := encryptfs.NewEncryptFS(base, set)
					must(err)
					desc := map[string]interface{}{"op": "multi-cipher", "writer_default": wi, "reader_default": ri, "len": len(plain), "stream_write": stream}
					func() {
						defer func() {
							if r := recover(); r != nil {
								o.Fail("no_panic", fmt.Sprintf("multi-cipher map: panic %v", r), "multi-panic", desc)
							}
						}()
						if stream {
							w, err := wfs.Writer("f")
							if err == nil {
								_, err = w.Write(plain)
								if e := w.Close(); err == nil {
									err = e
								}
							}
							if err != nil {
								o.Fail("roundtrip", "multi-cipher map: stream write failed: "+err.Error(), "multi-write", desc)
								return
							}
						} else if err := wfs.WriteFile("f", plain, 0o644); err != nil {
							o.Fail("roundtrip", "multi-cipher map: WriteFile failed: "+err.Error(), "multi-write", desc)
							return
						}
						got, err := rfs.ReadFile("f")
						if err != nil || !bytes.Equal(got, plain) {
							o.Fail("roundtrip", fmt.Sprintf("a file written under cipher tag %d is not read back by ReadFile of a filespace with the same settings whose default cipher is %d (err=%v, %d bytes of %d)", wi, ri, err, len(got), len(plain)), "multi-readfile", desc)
						}
						r, err := rfs.Reader("f")
						var got2 []byte
						if err == nil {
							got2, err = io.ReadAll(r)
							r.Close()
						}
						if err != nil || !bytes.Equal(got2, plain) {
							o.Fail("roundtrip", fmt.Sprintf("a file written under cipher tag %d is not read back by Reader of a filespace whose default cipher is %d (err=%v)", wi, ri, err), "multi-reader", desc)
						}
					}()
					o.CountEval(fmt.Sprintf("multi:%d:%d:%d:%v", wi, ri, pi, stream), true)
				}
			}
		}
	}
	o.Stat("multi_cipher_probe")
}
