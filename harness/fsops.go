package main

// Shared machinery for the filespace properties (C01, C02, C03, C04, C06, C07):
// operation generator over raw path spellings, executor with panic/hang capture, tree walker,
// Coq emitters, and a reference "plain tree of named nodes" used as the property-level oracle.

import (
	"fmt"
	"io"
	"sort"
	"strings"
	"time"

	"github.com/goatcms/goatcore/filesystem"
)

type FsOp struct {
	Kind   string   `json:"kind"`
	P      string   `json:"p"`
	Q      string   `json:"q,omitempty"`
	Data   []byte   `json:"-"`
	DataI  []int    `json:"data,omitempty"`
	Bufs   []int    `json:"bufs,omitempty"`
	Chunks [][]byte `json:"-"`
	ChunkI [][]int  `json:"chunks,omitempty"`
	View   []string `json:"view,omitempty"` // chain of Filespace(b) calls before the op
}

type Ent struct {
	Name  string `json:"name"`
	IsDir bool   `json:"dir"`
}

type Chunk struct {
	Data []byte
	EOF  bool
}

type FsOut struct {
	Kind   string  `json:"kind"` // unit err bool data list stat chunks panic hang
	B      bool    `json:"b,omitempty"`
	Data   []byte  `json:"-"`
	DataI  []int   `json:"data,omitempty"`
	List   []Ent   `json:"list,omitempty"`
	IsDir  bool    `json:"isdir,omitempty"`
	Size   int64   `json:"size,omitempty"`
	Chunks []Chunk `json:"-"`
	Msg    string  `json:"msg,omitempty"`
}

type WalkEnt struct {
	Path  []string
	IsDir bool
	Data  []byte
}

var fsOpKinds = []string{"Copy", "CopyDir", "CopyFile", "ReadDir", "IsExist", "IsFile", "IsDir", "MkdirAll",
	"ReadFile", "WriteFile", "Filespace", "Reader", "Writer", "Remove", "RemoveAll", "Lstat"}

func isMutating(k string) bool {
	switch k {
	case "Copy", "CopyDir", "CopyFile", "MkdirAll", "WriteFile", "Writer", "Remove", "RemoveAll":
		return true
	}
	return false
}

// ---------- generator

type FsGen struct {
	Names      []string
	MaxDepth   int
	Contents   [][]byte
	ClimbPct   int      // share of deliberately climbing / root-addressing paths
	ViewPct    int      // share of ops issued through a (nested) view
	Kinds      []string // op kinds to draw from (weights by repetition)
	NoSpelling bool
	known      [][]string // component lists used by earlier mutating operations of this history
}

// Reset forgets the paths of the previous history.
func (g *FsGen) Reset() { g.known = nil }

func defaultFsGen() *FsGen {
	big := make([]byte, 300)
	for i := range big {
		big[i] = byte(i*7 + 3)
	}
	return &FsGen{
		// "ab", "a.b" and "a2": siblings whose names are string prefixes of one another (a/ab, a/a2 …)
		// exercise every place that compares paths as strings instead of by component
		// ".a": a name with a leading dot is an ordinary name (a normalisation that trims "./" as a
		// character set, or treats dot files specially, would alias it with "a")
		Names:    []string{"a", "b", "c", "d", "ab", "a.b", "a2", ".a"},
		MaxDepth: 3,
		Contents: [][]byte{{}, []byte("a"), []byte("hello"), {0, 255, 195, 169, 10, 47, 46, 46, 92, 34, 1, 2, 3, 4, 5, 6, 7}, big, []byte("0123456789")},
		ClimbPct: 12,
		ViewPct:  30,
		Kinds: []string{"Copy", "CopyDir", "CopyFile", "ReadDir", "IsExist", "IsFile", "IsDir", "MkdirAll", "MkdirAll",
			"ReadFile", "WriteFile", "WriteFile", "WriteFile", "Filespace", "Reader", "Writer", "Writer", "Remove", "Remove", "RemoveAll", "Lstat"},
	}
}

// canonical component list → one of several spellings of the same relative path
func (g *FsGen) spell(rng *RNG, comps []string) string {
	s := strings.Join(comps, "/")
	if g.NoSpelling {
		return s
	}
	switch rng.Intn(10) {
	case 0:
		return "./" + s
	case 1:
		return s + "/"
	case 2:
		return "/" + s
	case 3:
		return strings.Join(comps, "//")
	case 4:
		if len(comps) > 0 {
			i := rng.Intn(len(comps))
			c := append([]string{}, comps[:i]...)
			c = append(c, g.Names[rng.Intn(len(g.Names))], "..")
			c = append(c, comps[i:]...)
			return strings.Join(c, "/")
		}
		return s
	case 5:
		return strings.Join(comps, "/./")
	case 6:
		if len(comps) > 0 {
			return s + "/."
		}
		return "."
	}
	return s
}

func (g *FsGen) comps(rng *RNG) []string {
	if len(g.known) > 0 && rng.Chance(75) { // revisit a path that an earlier mutation addressed
		k := g.known[rng.Intn(len(g.known))]
		switch rng.Intn(6) {
		case 0:
			if len(k) > 1 {
				return append([]string{}, k[:1+rng.Intn(len(k)-1)]...)
			}
		case 1:
			if len(k) < g.MaxDepth+1 {
				return append(append([]string{}, k...), g.Names[rng.Intn(len(g.Names))])
			}
		}
		return append([]string{}, k...)
	}
	n := 1 + rng.Intn(g.MaxDepth)
	c := make([]string, n)
	for i := range c {
		c[i] = g.Names[rng.Intn(len(g.Names))]
	}
	return c
}

var climbPool = []string{"", ".", "/", "./", "..", "../a", "a/..", "a/../..", "a/../../b", "/..", "/../a", "../..", "a/./..", ".//", "b/../../a", "...", "a/.../b", ".a", "a/..b"}

func (g *FsGen) path(rng *RNG) string {
	if rng.Chance(g.ClimbPct) {
		return climbPool[rng.Intn(len(climbPool))]
	}
	return g.spell(rng, g.comps(rng))
}

func (g *FsGen) Op(rng *RNG) FsOp {
	op := FsOp{Kind: g.Kinds[rng.Intn(len(g.Kinds))], P: g.path(rng)}
	if isMutating(op.Kind) && op.Kind != "Remove" && op.Kind != "RemoveAll" {
		if c, climbs := refNorm(op.P); !climbs && len(c) > 0 && len(g.known) < 40 {
			g.known = append(g.known, c)
		}
	}
	switch op.Kind {
	case "Copy", "CopyDir", "CopyFile":
		op.Q = g.path(rng)
		if c, climbs := refNorm(op.Q); !climbs && len(c) > 0 && len(g.known) < 40 {
			g.known = append(g.known, c)
		}
	case "WriteFile":
		op.Data = g.Contents[rng.Intn(len(g.Contents))]
	case "Writer":
		n := rng.Intn(4)
		for i := 0; i < n; i++ {
			c := g.Contents[rng.Intn(len(g.Contents))]
			if len(c) > 40 {
				c = c[:40]
			}
			op.Chunks = append(op.Chunks, c)
		}
	case "Reader":
		n := 1 + rng.Intn(5)
		for i := 0; i < n; i++ {
			op.Bufs = append(op.Bufs, []int{0, 1, 2, 3, 5, 16, 64, 400}[rng.Intn(8)])
		}
		op.Bufs = append(op.Bufs, 1000)
	}
	if rng.Chance(g.ViewPct) {
		if len(g.known) > 0 && rng.Chance(75) {
			// address a known path through a view chain that splits it: Filespace(k[:i]).Filespace(k[i:j]) … op(k[j:])
			k := g.known[rng.Intn(len(g.known))]
			if rng.Chance(25) {
				k = append(append([]string{}, k...), g.Names[rng.Intn(len(g.Names))])
			}
			i := 1
			if len(k) > 1 {
				i = 1 + rng.Intn(len(k)-1)
			}
			if len(k) > 0 {
				if i > 1 && rng.Chance(40) {
					j := 1 + rng.Intn(i-1)
					op.View = []string{g.spell(rng, k[:j]), g.spell(rng, k[j:i])}
				} else {
					op.View = []string{g.spell(rng, k[:i])}
				}
				if rng.Chance(85) {
					op.P = g.spell(rng, k[i:])
				}
			}
		} else {
			d := 1 + rng.Intn(3)
			for i := 0; i < d; i++ {
				if rng.Chance(8) {
					op.View = append(op.View, climbPool[rng.Intn(len(climbPool))])
				} else {
					op.View = append(op.View, g.spell(rng, g.comps(rng)[:1]))
				}
			}
		}
	}
	op.fillJSON()
	return op
}

func (op *FsOp) fillJSON() {
	op.DataI = byteList(op.Data)
	op.ChunkI = nil
	for _, c := range op.Chunks {
		op.ChunkI = append(op.ChunkI, byteList(c))
	}
}

// ---------- executor

func withTimeout(d time.Duration, f func() FsOut) FsOut {
	ch := make(chan FsOut, 1)
	go func() {
		defer func() {
			if r := recover(); r != nil {
				ch <- FsOut{Kind: "panic", Msg: fmt.Sprint(r)}
			}
		}()
		ch <- f()
	}()
	select {
	case o := <-ch:
		return o
	case <-time.After(d):
		return FsOut{Kind: "hang"}
	}
}

func errOut(err error) FsOut {
	if err != nil {
		return FsOut{Kind: "err", Msg: err.Error()}
	}
	return FsOut{Kind: "unit"}
}

// resolveView follows op.View from root; (nil, false) if a view cannot be created.
func resolveView(root filesystem.Filespace, chain []string) (fs filesystem.Filespace, ok bool) {
	fs = root
	for _, b := range chain {
		child, err := fs.Filespace(b)
		if err != nil || child == nil {
			return nil, false
		}
		fs = child
	}
	return fs, true
}

func execFsOp(root filesystem.Filespace, op FsOp) FsOut {
	return withTimeout(20*time.Second, func() FsOut {
		fs, ok := resolveView(root, op.View)
		if !ok {
			return FsOut{Kind: "err", Msg: "view creation failed"}
		}
		return execOn(fs, op)
	})
}

func execOn(fs filesystem.Filespace, op FsOp) FsOut {
	switch op.Kind {
	case "Copy":
		return errOut(fs.Copy(op.P, op.Q))
	case "CopyDir":
		return errOut(fs.CopyDirectory(op.P, op.Q))
	case "CopyFile":
		return errOut(fs.CopyFile(op.P, op.Q))
	case "ReadDir":
		infos, err := fs.ReadDir(op.P)
		if err != nil {
			return errOut(err)
		}
		o := FsOut{Kind: "list"}
		for _, i := range infos {
			o.List = append(o.List, Ent{Name: i.Name(), IsDir: i.IsDir()})
		}
		return o
	case "IsExist":
		return FsOut{Kind: "bool", B: fs.IsExist(op.P)}
	case "IsFile":
		return FsOut{Kind: "bool", B: fs.IsFile(op.P)}
	case "IsDir":
		return FsOut{Kind: "bool", B: fs.IsDir(op.P)}
	case "MkdirAll":
		return errOut(fs.MkdirAll(op.P, 0o777))
	case "ReadFile":
		d, err := fs.ReadFile(op.P)
		if err != nil {
			return errOut(err)
		}
		return FsOut{Kind: "data", Data: d}
	case "WriteFile":
		buf := append([]byte{}, op.Data...)
		err := fs.WriteFile(op.P, buf, 0o644)
		for i := range buf { // the caller may reuse its buffer: must not change the stored file
			buf[i] ^= 0x5a
		}
		return errOut(err)
	case "Filespace":
		child, err := fs.Filespace(op.P)
		if err != nil {
			return errOut(err)
		}
		if child == nil {
			return FsOut{Kind: "err", Msg: "nil filespace"}
		}
		return FsOut{Kind: "unit"}
	case "Reader":
		r, err := fs.Reader(op.P)
		if err != nil {
			return errOut(err)
		}
		o := FsOut{Kind: "chunks"}
		for _, n := range op.Bufs {
			buf := make([]byte, n)
			k, rerr := r.Read(buf)
			if rerr != nil && rerr != io.EOF {
				r.Close()
				return errOut(rerr)
			}
			o.Chunks = append(o.Chunks, Chunk{Data: append([]byte{}, buf[:k]...), EOF: rerr == io.EOF})
			if rerr == io.EOF {
				break
			}
		}
		if cerr := r.Close(); cerr != nil {
			return errOut(cerr)
		}
		return o
	case "Writer":
		w, err := fs.Writer(op.P)
		if err != nil {
			return errOut(err)
		}
		for _, c := range op.Chunks {
			buf := append([]byte{}, c...)
			n, werr := w.Write(buf)
			for i := range buf {
				buf[i] ^= 0x33
			}
			if werr != nil || n != len(c) {
				w.Close()
				return FsOut{Kind: "err", Msg: fmt.Sprintf("write: n=%d err=%v", n, werr)}
			}
		}
		return errOut(w.Close())
	case "Remove":
		return errOut(fs.Remove(op.P))
	case "RemoveAll":
		return errOut(fs.RemoveAll(op.P))
	case "Lstat":
		info, err := fs.Lstat(op.P)
		if err != nil {
			return errOut(err)
		}
		if info == nil {
			return FsOut{Kind: "err", Msg: "nil info"}
		}
		o := FsOut{Kind: "stat", IsDir: info.IsDir()}
		if !info.IsDir() {
			o.Size = info.Size()
		}
		return o
	}
	panic("unknown op " + op.Kind)
}

// walkFs: depth-first walk through ReadDir/ReadFile of the whole tree below the filespace root.
// Returns ok=false when the walk itself fails or does not terminate (bounded).
func walkFs(fs filesystem.Filespace) (ents []WalkEnt, ok bool, why string) {
	budget := 20000
	var rec func(prefix []string) bool
	rec = func(prefix []string) bool {
		infos, err := fs.ReadDir(strings.Join(prefix, "/"))
		if err != nil {
			why = "ReadDir(" + strings.Join(prefix, "/") + "): " + err.Error()
			return false
		}
		for _, i := range infos {
			budget--
			if budget < 0 {
				why = "walk does not terminate"
				return false
			}
			p := append(append([]string{}, prefix...), i.Name())
			if i.IsDir() {
				ents = append(ents, WalkEnt{Path: p, IsDir: true})
				if i.Name() == "" || i.Name() == "." || i.Name() == ".." || strings.Contains(i.Name(), "/") {
					continue // phantom: recorded, not descended (it would loop)
				}
				if !rec(p) {
					return false
				}
			} else {
				d, err := fs.ReadFile(strings.Join(p, "/"))
				if err != nil {
					if i.Name() == "" || i.Name() == "." || i.Name() == ".." {
						ents = append(ents, WalkEnt{Path: p, Data: nil})
						continue
					}
					why = "ReadFile(" + strings.Join(p, "/") + "): " + err.Error()
					return false
				}
				ents = append(ents, WalkEnt{Path: p, Data: d})
			}
		}
		return true
	}
	res := withTimeout(10*time.Second, func() FsOut {
		if rec(nil) {
			return FsOut{Kind: "unit"}
		}
		return FsOut{Kind: "err"}
	})
	if res.Kind == "hang" || res.Kind == "panic" {
		return ents, false, "walk " + res.Kind + " " + res.Msg
	}
	return ents, res.Kind == "unit", why
}

// ---------- Coq emitters (GC.Model.Fs)

func (op FsOp) coq() string {
	p, q := coqStr(op.P), coqStr(op.Q)
	switch op.Kind {
	case "Copy":
		return fmt.Sprintf("OCopy %s %s", p, q)
	case "CopyDir":
		return fmt.Sprintf("OCopyDir %s %s", p, q)
	case "CopyFile":
		return fmt.Sprintf("OCopyFile %s %s", p, q)
	case "WriteFile":
		return fmt.Sprintf("OWriteFile %s %s", p, coqBytes(op.Data))
	case "Reader":
		items := make([]string, len(op.Bufs))
		for i, n := range op.Bufs {
			items[i] = coqNat(n)
		}
		return fmt.Sprintf("OReader %s %s", p, coqList(items))
	case "Writer":
		items := make([]string, len(op.Chunks))
		for i, c := range op.Chunks {
			items[i] = coqBytes(c)
		}
		return fmt.Sprintf("OWriter %s %s", p, coqList(items))
	}
	return fmt.Sprintf("O%s %s", op.Kind, p)
}

func (op FsOp) coqView() string { return coqStrList(op.View) }

func (o FsOut) coq() string {
	switch o.Kind {
	case "unit":
		return "RUnit"
	case "err":
		return "RErr"
	case "bool":
		return "RBool " + coqBool(o.B)
	case "data":
		return "RData " + coqBytes(o.Data)
	case "list":
		items := make([]string, len(o.List))
		for i, e := range o.List {
			items[i] = fmt.Sprintf("(%s, %s)", coqStr(e.Name), coqBool(e.IsDir))
		}
		return "RList " + coqList(items)
	case "stat":
		return fmt.Sprintf("RStat %s %d", coqBool(o.IsDir), o.Size)
	case "chunks":
		items := make([]string, len(o.Chunks))
		for i, c := range o.Chunks {
			items[i] = fmt.Sprintf("(%s, %s)", coqBytes(c.Data), coqBool(c.EOF))
		}
		return "RChunks " + coqList(items)
	}
	return "RErr" // panic / hang never agree with the model: flagged by L2 before
}

func coqWalk(w []WalkEnt) string {
	items := make([]string, len(w))
	for i, e := range w {
		ent := "D"
		if !e.IsDir {
			ent = "F " + coqBytes(e.Data)
		}
		items[i] = fmt.Sprintf("(%s, %s)", coqStrList(e.Path), ent)
	}
	return coqList(items)
}

func (o *FsOut) fillJSON() {
	o.DataI = byteList(o.Data)
}

// ---------- reference: the plain tree of named nodes (property-level oracle, L2)

type refEnt struct {
	dir  bool
	data []byte
}

type RefFS struct {
	m map[string]refEnt // key: components joined by "/" ; root "" is implicit
}

func NewRefFS() *RefFS { return &RefFS{m: map[string]refEnt{}} }

func (r *RefFS) Clone() *RefFS {
	c := NewRefFS()
	for k, v := range r.m {
		c.m[k] = v
	}
	return c
}

// refNorm: the abstract normalisation: (components, climbs)
func refNorm(s string) (comps []string, climbs bool) {
	for _, v := range strings.Split(s, "/") {
		switch v {
		case "", ".":
		case "..":
			if len(comps) == 0 {
				return nil, true
			}
			comps = comps[:len(comps)-1]
		default:
			comps = append(comps, v)
		}
	}
	return comps, false
}

func key(c []string) string { return strings.Join(c, "/") }

func (r *RefFS) get(c []string) (refEnt, bool) {
	if len(c) == 0 {
		return refEnt{dir: true}, true
	}
	e, ok := r.m[key(c)]
	return e, ok
}

func (r *RefFS) parentsOK(c []string) bool { // every proper prefix absent or a directory
	for i := 1; i < len(c); i++ {
		if e, ok := r.get(c[:i]); ok && !e.dir {
			return false
		}
	}
	return true
}

func (r *RefFS) mkParents(c []string) {
	for i := 1; i < len(c); i++ {
		r.m[key(c[:i])] = refEnt{dir: true}
	}
}

func (r *RefFS) childrenOf(c []string) []Ent {
	pre := key(c)
	if pre != "" {
		pre += "/"
	}
	var l []Ent
	for k, v := range r.m {
		if strings.HasPrefix(k, pre) && !strings.Contains(k[len(pre):], "/") && k != key(c) {
			l = append(l, Ent{Name: k[len(pre):], IsDir: v.dir})
		}
	}
	sort.Slice(l, func(i, j int) bool { return l[i].Name < l[j].Name })
	return l
}

func (r *RefFS) removeTree(c []string) {
	pre := key(c)
	for k := range r.m {
		if k == pre || strings.HasPrefix(k, pre+"/") {
			delete(r.m, k)
		}
	}
}

func (r *RefFS) Walk() []WalkEnt {
	keys := make([]string, 0, len(r.m))
	for k := range r.m {
		keys = append(keys, k)
	}
	sort.Strings(keys)
	var w []WalkEnt
	for _, k := range keys {
		e := r.m[k]
		w = append(w, WalkEnt{Path: strings.Split(k, "/"), IsDir: e.dir, Data: e.data})
	}
	return w
}

func sortedWalk(w []WalkEnt) []WalkEnt {
	s := append([]WalkEnt{}, w...)
	sort.Slice(s, func(i, j int) bool { return key(s[i].Path) < key(s[j].Path) })
	return s
}

func walkEqual(a, b []WalkEnt) (bool, string) {
	a, b = sortedWalk(a), sortedWalk(b)
	for i := 0; i < len(a) || i < len(b); i++ {
		if i >= len(a) {
			return false, "missing in implementation: " + key(b[i].Path)
		}
		if i >= len(b) {
			return false, "unexpected node in implementation: " + fmt.Sprintf("%q", a[i].Path)
		}
		if key(a[i].Path) != key(b[i].Path) || len(a[i].Path) != len(b[i].Path) {
			return false, fmt.Sprintf("node %q (implementation) vs %q (plain tree)", a[i].Path, b[i].Path)
		}
		if a[i].IsDir != b[i].IsDir {
			return false, "kind differs at " + key(a[i].Path)
		}
		if !a[i].IsDir && string(a[i].Data) != string(b[i].Data) {
			return false, fmt.Sprintf("content differs at %s: %d bytes vs %d bytes", key(a[i].Path), len(a[i].Data), len(b[i].Data))
		}
	}
	return true, ""
}

// RefPolicy: the corners the property leaves open, fixed per backend.
type RefPolicy struct {
	RemoveAllMissingOK bool                          // RemoveAll of a missing path may return nil
	CopyOverwriteFile  bool                          // CopyFile/Copy of a file onto an existing file may overwrite
	CopyMergeDir       bool                          // Copy/CopyDirectory onto an existing directory may merge
	WriterNeedsParent  bool                          // Writer may fail when the parent directory is missing (disk)
	RootCopySourceOK   bool                          // Copy/CopyDirectory with the root as source is allowed (memfs) — otherwise any result class
	ClimbMayClamp      bool                          // a climbing path may be resolved inside the root instead of rejected
	Norm               func(string) ([]string, bool) // path normalisation of this backend (nil: refNorm)
}

// Apply checks the observed outcome of op (already resolved relative to the view base `base`,
// given as components) against the plain-tree contract and advances the reference. It returns
// "" when the outcome is allowed, otherwise a description of the contradiction.
func (r *RefFS) Apply(pol RefPolicy, base []string, op FsOp, o FsOut) string {
	if o.Kind == "panic" || o.Kind == "hang" {
		return "operation " + o.Kind + ": " + o.Msg
	}
	isBoolOp := op.Kind == "IsExist" || op.Kind == "IsFile" || op.Kind == "IsDir"
	rejected := func() string { // expected: error (false for boolean queries), tree unchanged
		if isBoolOp {
			if o.Kind == "bool" && !o.B {
				return ""
			}
			return "expected false"
		}
		if o.Kind == "err" {
			return ""
		}
		return "expected an error, got " + o.Kind
	}
	norm := pol.Norm
	if norm == nil {
		norm = refNorm
	}
	pc, pclimb := norm(op.P)
	var qc []string
	qclimb := false
	two := op.Kind == "Copy" || op.Kind == "CopyDir" || op.Kind == "CopyFile"
	if two {
		qc, qclimb = norm(op.Q)
	}
	if pclimb || qclimb {
		if op.Kind == "RemoveAll" && pol.RemoveAllMissingOK && o.Kind == "unit" {
			return "" // nothing can exist there: reported as "nothing to remove"
		}
		if pol.ClimbMayClamp && o.Kind != "err" {
			return "" // resolved inside the root: the caller checks confinement separately
		}
		return rejected()
	}
	p := append(append([]string{}, base...), pc...)
	q := append(append([]string{}, base...), qc...)
	pRoot := len(pc) == 0 // addresses the view's own root
	qRoot := len(qc) == 0
	e, ok := r.get(p)
	switch op.Kind {
	case "IsExist":
		if o.Kind != "bool" || o.B != ok {
			return fmt.Sprintf("IsExist: tree says %v", ok)
		}
	case "IsFile":
		if pRoot && rejected() == "" {
			return ""
		}
		if o.Kind != "bool" || o.B != (ok && !e.dir) {
			return fmt.Sprintf("IsFile: tree says %v", ok && !e.dir)
		}
	case "IsDir":
		if o.Kind != "bool" || o.B != (ok && e.dir) {
			return fmt.Sprintf("IsDir: tree says %v", ok && e.dir)
		}
	case "Lstat":
		if !ok {
			return rejected()
		}
		if o.Kind != "stat" || o.IsDir != e.dir || (!e.dir && o.Size != int64(len(e.data))) {
			return fmt.Sprintf("Lstat: tree says dir=%v size=%d", e.dir, len(e.data))
		}
	case "ReadDir":
		if !ok || !e.dir {
			return rejected()
		}
		if o.Kind != "list" {
			return "ReadDir of an existing directory failed"
		}
		got := append([]Ent{}, o.List...)
		sort.Slice(got, func(i, j int) bool { return got[i].Name < got[j].Name })
		want := r.childrenOf(p)
		if len(got) != len(want) {
			return fmt.Sprintf("ReadDir: %d entries, tree has %d", len(got), len(want))
		}
		for i := range got {
			if got[i] != want[i] {
				return fmt.Sprintf("ReadDir: entry %v vs tree %v", got[i], want[i])
			}
		}
	case "ReadFile":
		if pRoot && rejected() == "" {
			return "" // a view whose own root is a file: name-requiring operations on "" are refused
		}
		if !ok || e.dir {
			return rejected()
		}
		if o.Kind != "data" || string(o.Data) != string(e.data) {
			return "ReadFile: content differs from the tree"
		}
	case "Reader":
		if pRoot && rejected() == "" {
			return ""
		}
		if !ok || e.dir {
			if o.Kind == "chunks" && ok && e.dir && pol.WriterNeedsParent {
				return "" // disk opens directories; outside the contract
			}
			return rejected()
		}
		if o.Kind != "chunks" {
			return "Reader on an existing file failed"
		}
		var all []byte
		sawEOF := false
		for i, c := range o.Chunks {
			if i < len(op.Bufs) && len(c.Data) > op.Bufs[i] {
				return "Read returned more than the buffer size"
			}
			all = append(all, c.Data...)
			if c.EOF {
				sawEOF = true
			}
		}
		if !strings.HasPrefix(string(e.data), string(all)) {
			return "Reader: bytes differ from the stored content"
		}
		if sawEOF && len(all) != len(e.data) {
			return "Reader: EOF before the end of the content"
		}
		if !sawEOF && len(op.Bufs) > 0 && op.Bufs[len(op.Bufs)-1] >= 1000 && len(e.data) < 900 {
			return "Reader: no EOF although the last buffer exceeds the content"
		}
	case "Filespace":
		// creation of a view never changes anything; any result class is allowed for a non-climbing path
	case "MkdirAll":
		if !ok && r.parentsOK(append(p, "x")) { // creatable
			if o.Kind != "unit" {
				return "MkdirAll failed although no file is in the way"
			}
			r.mkParents(append(p, "x"))
		} else if ok && e.dir {
			if o.Kind != "unit" {
				return "MkdirAll on an existing directory must succeed (idempotent)"
			}
		} else {
			return rejected()
		}
	case "WriteFile", "Writer":
		data := op.Data
		if op.Kind == "Writer" {
			data = nil
			for _, c := range op.Chunks {
				data = append(data, c...)
			}
		}
		if pRoot || (ok && e.dir) || !r.parentsOK(p) {
			return rejected()
		}
		if o.Kind == "err" && op.Kind == "Writer" && pol.WriterNeedsParent {
			if _, pok := r.get(p[:len(p)-1]); !pok {
				return ""
			}
		}
		if o.Kind != "unit" {
			return op.Kind + " failed although nothing is in the way"
		}
		r.mkParents(p)
		r.m[key(p)] = refEnt{data: append([]byte{}, data...)}
	case "Remove":
		if pRoot || !ok {
			return rejected()
		}
		if e.dir && len(r.childrenOf(p)) > 0 {
			return rejected()
		}
		if o.Kind != "unit" {
			return "Remove of a file / empty directory failed"
		}
		delete(r.m, key(p))
	case "RemoveAll":
		if pRoot {
			return rejected()
		}
		if !ok {
			if o.Kind == "err" || (o.Kind == "unit" && pol.RemoveAllMissingOK) {
				return ""
			}
			return "RemoveAll of a missing path: unexpected " + o.Kind
		}
		if o.Kind != "unit" {
			return "RemoveAll of an existing node failed"
		}
		r.removeTree(p)
	case "Copy", "CopyDir", "CopyFile":
		if qRoot && ok && e.dir && !pRoot && pol.CopyMergeDir && o.Kind == "unit" {
			r.copyTree(p, q) // a directory merged into the (existing) root directory
			return ""
		}
		if qRoot || !ok || (op.Kind == "CopyDir" && !e.dir) || (op.Kind == "CopyFile" && e.dir) || !r.parentsOK(q) {
			return rejected()
		}
		if pRoot && !pol.RootCopySourceOK {
			if o.Kind == "err" {
				return ""
			}
		}
		if de, dok := r.get(q); dok {
			if o.Kind == "err" {
				return ""
			}
			if !e.dir && !de.dir && pol.CopyOverwriteFile && o.Kind == "unit" {
				r.m[key(q)] = refEnt{data: append([]byte{}, e.data...)}
				return ""
			}
			if e.dir && de.dir && pol.CopyMergeDir && o.Kind == "unit" {
				r.mkParents(q)
				r.copyTree(p, q)
				return ""
			}
			return "copy onto an existing destination: unexpected " + o.Kind
		}
		if e.dir && isPrefixComps(p, q) {
			// destination inside the source: backends differ (memfs copies the pre-state); accept error,
			// or success with the deep copy of the state after the parents were created
			if o.Kind == "err" {
				return ""
			}
		}
		if o.Kind != "unit" {
			return op.Kind + " failed although source exists and destination is free"
		}
		r.mkParents(q)
		if e.dir {
			r.copyTree(p, q)
		} else {
			r.m[key(q)] = refEnt{data: append([]byte{}, e.data...)}
		}
	}
	return ""
}

func isPrefixComps(p, q []string) bool {
	if len(p) > len(q) {
		return false
	}
	for i := range p {
		if p[i] != q[i] {
			return false
		}
	}
	return true
}

// copyTree: deep copy of the subtree at p (as it is now) to q.
func (r *RefFS) copyTree(p, q []string) {
	pre := key(p)
	type kv struct {
		k string
		v refEnt
	}
	var add []kv
	for k, v := range r.m {
		var rel string
		if pre == "" {
			rel = k
		} else if strings.HasPrefix(k, pre+"/") {
			rel = k[len(pre)+1:]
		} else {
			continue
		}
		add = append(add, kv{key(q) + "/" + rel, refEnt{dir: v.dir, data: append([]byte{}, v.data...)}})
	}
	if _, ok := r.m[key(q)]; !ok && len(q) > 0 {
		r.m[key(q)] = refEnt{dir: true}
	}
	for _, a := range add {
		r.m[strings.TrimPrefix(a.k, "/")] = a.v
	}
}

// phantomNames reports any entry of the walk whose name is "", ".", ".." or contains '/'.
func phantomNames(w []WalkEnt) string {
	for _, e := range w {
		n := e.Path[len(e.Path)-1]
		if n == "" || n == "." || n == ".." || strings.Contains(n, "/") {
			return fmt.Sprintf("phantom node named %q at %q", n, e.Path)
		}
	}
	return ""
}

func descOps(ops []FsOp, outs []FsOut) []map[string]interface{} {
	l := make([]map[string]interface{}, len(ops))
	for i := range ops {
		m := map[string]interface{}{"op": ops[i]}
		if i < len(outs) {
			o := outs[i]
			o.fillJSON()
			m["out"] = o
		}
		l[i] = m
	}
	return l
}
