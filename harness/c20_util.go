package main

// Helpers of the C20 harness: Coq emitters for maps / trees, guarded calls of the implementation,
// the reference decoder (encoding/json), and the generator of JSON documents (valid subset with
// arbitrary whitespace and character forms, plus a malformed stream).

import (
	"bytes"
	"encoding/json"
	"fmt"
	"io"
	"os"
	"sort"
	"strconv"
	"strings"
	"sync/atomic"
	"time"

	"github.com/goatcms/goatcore/varutil/plainmap"
)

// ---------- small helpers

func c20q(s string) string { return strconv.QuoteToASCII(s) }

func c20SortedKeys(m map[string]string) []string {
	keys := make([]string, 0, len(m))
	for k := range m {
		keys = append(keys, k)
	}
	sort.Strings(keys)
	return keys
}

func c20Pairs(m map[string]string) [][2]string {
	keys := c20SortedKeys(m)
	r := make([][2]string, len(keys))
	for i, k := range keys {
		r[i] = [2]string{c20q(k), c20q(m[k])}
	}
	return r
}

func c20MapKey(m map[string]string) string {
	var sb strings.Builder
	for _, k := range c20SortedKeys(m) {
		sb.WriteString(strconv.Itoa(len(k)))
		sb.WriteByte(':')
		sb.WriteString(k)
		sb.WriteString(strconv.Itoa(len(m[k])))
		sb.WriteByte(':')
		sb.WriteString(m[k])
	}
	return sb.String()
}

func c20MapsEqual(a, b map[string]string) bool {
	if len(a) != len(b) {
		return false
	}
	for k, v := range a {
		if w, ok := b[k]; !ok || w != v {
			return false
		}
	}
	return true
}

// flat map as a Coq list of pairs sorted by key (bytewise)
func c20Flat(m map[string]string) string {
	keys := c20SortedKeys(m)
	items := make([]string, len(keys))
	for i, k := range keys {
		items[i] = "(" + coqStr(k) + "," + coqStr(m[k]) + ")"
	}
	return coqList(items)
}

// nested map as Coq [children], sorted by key at every level; ok=false when a leaf is not a string
func c20Children(m map[string]interface{}) (string, bool) {
	keys := make([]string, 0, len(m))
	for k := range m {
		keys = append(keys, k)
	}
	sort.Strings(keys)
	ok := true
	items := make([]string, len(keys))
	for i, k := range keys {
		switch v := m[k].(type) {
		case string:
			items[i] = "(" + coqStr(k) + ", Leaf " + coqStr(v) + ")"
		case map[string]interface{}:
			s, ok2 := c20Children(v)
			ok = ok && ok2
			items[i] = "(" + coqStr(k) + ", Obj " + s + ")"
		default:
			ok = false
			items[i] = "(" + coqStr(k) + ", Leaf " + coqStr(fmt.Sprintf("?%T", v)) + ")"
		}
	}
	return coqList(items), ok
}

func c20TreeDesc(m map[string]interface{}) interface{} {
	keys := make([]string, 0, len(m))
	for k := range m {
		keys = append(keys, k)
	}
	sort.Strings(keys)
	r := make([]interface{}, len(keys))
	for i, k := range keys {
		switch v := m[k].(type) {
		case string:
			r[i] = []interface{}{c20q(k), c20q(v)}
		case map[string]interface{}:
			r[i] = []interface{}{c20q(k), c20TreeDesc(v)}
		default:
			r[i] = []interface{}{c20q(k), fmt.Sprintf("?%T", v)}
		}
	}
	return r
}

// own depth-first flattening of a nested map (independent restatement of the naming rule):
// returns the dotted key of every leaf path; collision = two different leaf paths, same dotted key
func c20OwnFlatten(m map[string]interface{}) (out map[string]string, collision bool) {
	out = map[string]string{}
	var rec func(prefix string, top bool, n map[string]interface{})
	rec = func(prefix string, top bool, n map[string]interface{}) {
		for k, v := range n {
			key := k
			if !top {
				key = prefix + "." + k
			}
			switch x := v.(type) {
			case map[string]interface{}:
				rec(key, false, x)
			case string:
				if _, dup := out[key]; dup {
					collision = true
				}
				out[key] = x
			}
		}
	}
	rec("", true, m)
	return
}

// well-formed nested map: dot-free non-empty keys, no empty sub-map
func c20WellFormedTree(m map[string]interface{}) bool {
	for k, v := range m {
		if k == "" || strings.Contains(k, ".") {
			return false
		}
		if sub, ok := v.(map[string]interface{}); ok {
			if len(sub) == 0 || !c20WellFormedTree(sub) {
				return false
			}
		}
	}
	return true
}

// some key's dot-split path is a proper prefix of another key's path
func c20PrefixConflict(keys []string) bool {
	paths := make([][]string, len(keys))
	for i, k := range keys {
		paths[i] = strings.Split(k, ".")
	}
	for i := range paths {
		for j := range paths {
			if i == j || len(paths[i]) >= len(paths[j]) {
				continue
			}
			same := true
			for x := range paths[i] {
				if paths[i][x] != paths[j][x] {
					same = false
					break
				}
			}
			if same {
				return true
			}
		}
	}
	return false
}

// keep the keys that are non-empty and do not conflict with an earlier kept key
func c20MakePrefixFree(keys []string) []string {
	var kept []string
	for _, k := range keys {
		if k == "" {
			continue
		}
		dup := false
		for _, x := range kept {
			if x == k {
				dup = true
			}
		}
		if dup || c20PrefixConflict(append(append([]string{}, kept...), k)) {
			continue
		}
		kept = append(kept, k)
	}
	return kept
}

// ---------- guarded calls of the implementation (a panic is an observable)

func c20ImplFlatten(src map[string]interface{}) (kind string, out map[string]string) {
	c20Begin(func() string { return "RecursiveMapToPlainMap " + fmt.Sprint(c20TreeDesc(src)) })
	defer c20End()
	defer func() {
		if r := recover(); r != nil {
			kind, out = "panic", nil
		}
	}()
	res, err := plainmap.RecursiveMapToPlainMap(src)
	if err != nil {
		return "err", nil
	}
	out = map[string]string{}
	for k, v := range res {
		s, ok := v.(string)
		if !ok {
			return "badtype", nil
		}
		out[k] = s
	}
	return "ok", out
}

func c20ImplUnflatS(src map[string]string) (kind string, out map[string]interface{}) {
	c20Begin(func() string { return "StringMapToRecursiveMap " + fmt.Sprint(c20Pairs(src)) })
	defer c20End()
	defer func() {
		if r := recover(); r != nil {
			kind, out = "panic", nil
		}
	}()
	res, err := plainmap.StringMapToRecursiveMap(src)
	if err != nil {
		return "err", nil
	}
	return "ok", res
}

func c20ImplUnflatI(src map[string]interface{}) (kind string, out map[string]interface{}) {
	c20Begin(func() string { return "ToRecursiveMap " + fmt.Sprint(c20Pairs(c20EncFlat(src))) })
	defer c20End()
	defer func() {
		if r := recover(); r != nil {
			kind, out = "panic", nil
		}
	}()
	res, err := plainmap.ToRecursiveMap(src)
	if err != nil {
		return "err", nil
	}
	return "ok", res
}

func c20ImplRead(data []byte) (kind string, out map[string]string) {
	c20Begin(func() string { return "JSONToPlainStringMap " + c20q(string(data)) })
	defer c20End()
	defer func() {
		if r := recover(); r != nil {
			kind, out = "panic", nil
		}
	}()
	res, err := plainmap.JSONToPlainStringMap(append([]byte{}, data...))
	if err != nil {
		return "err", nil
	}
	return "ok", res
}

func c20ImplEmit(fm bool, m map[string]string) (kind string, text string) {
	c20Begin(func() string { return fmt.Sprintf("PlainStringMapToJSON formatted=%v %v", fm, c20Pairs(m)) })
	defer c20End()
	defer func() {
		if r := recover(); r != nil {
			kind, text = "panic", ""
		}
	}()
	var err error
	if fm {
		text, err = plainmap.PlainStringMapToFormattedJSON(m)
	} else {
		text, err = plainmap.PlainStringMapToJSON(m)
	}
	if err != nil {
		return "err", ""
	}
	return "ok", text
}

func c20Fobs(kind string, m map[string]string) string {
	switch kind {
	case "ok":
		return "(FOk " + c20Flat(m) + ")"
	case "err":
		return "FErr"
	}
	return "FPanic"
}

// ---------- reference decoder: encoding/json

// c20RefDecode: the whole text must be exactly one JSON value (an object) for encoding/json;
// the decoded object is flattened with plain "." joins of the member names.
func c20RefDecode(text string) (flat map[string]string, err error) {
	if !json.Valid([]byte(text)) {
		return nil, fmt.Errorf("json.Valid = false")
	}
	dec := json.NewDecoder(strings.NewReader(text))
	dec.UseNumber()
	var v map[string]interface{}
	if err := dec.Decode(&v); err != nil {
		return nil, err
	}
	if _, err := dec.Token(); err != io.EOF {
		return nil, fmt.Errorf("trailing data after the value")
	}
	flat = map[string]string{}
	var bad error
	var rec func(path []string, n map[string]interface{})
	rec = func(path []string, n map[string]interface{}) {
		for k, x := range n {
			p := append(append([]string{}, path...), k)
			switch y := x.(type) {
			case map[string]interface{}:
				rec(p, y)
			case string:
				flat[strings.Join(p, ".")] = y
			default:
				bad = fmt.Errorf("unexpected member type %T", x)
			}
		}
	}
	rec(nil, v)
	return flat, bad
}

// c20RefLeaves decodes the FIRST JSON value of data with encoding/json (UseNumber): it must be an
// object accepted by Decode into map[string]interface{}; the string / number leaves are collected
// with the naming rule of the property (path = parent + "." + key if parent != "" else key), in
// document order (token walk).  dup = some object has two members with the same (decoded) name;
// empty = some member name is "".
func c20RefLeaves(data []byte) (flat map[string]string, dup, empty bool, err error) {
	d0 := json.NewDecoder(bytes.NewReader(data))
	d0.UseNumber()
	var v map[string]interface{}
	if err = d0.Decode(&v); err != nil {
		return nil, false, false, err
	}
	dec := json.NewDecoder(bytes.NewReader(data))
	dec.UseNumber()
	tok, err := dec.Token()
	if err != nil {
		return nil, false, false, err
	}
	if d, ok := tok.(json.Delim); !ok || d != '{' {
		return nil, false, false, fmt.Errorf("not an object")
	}
	flat = map[string]string{}
	var skip func() error
	skip = func() error { // consume the rest of an array / object (the opening delimiter is already read)
		depth := 1
		for depth > 0 {
			t, e := dec.Token()
			if e != nil {
				return e
			}
			if d, ok := t.(json.Delim); ok {
				if d == '{' || d == '[' {
					depth++
				} else {
					depth--
				}
			}
		}
		return nil
	}
	var obj func(parent string) error
	obj = func(parent string) error {
		seen := map[string]bool{}
		for dec.More() {
			kt, e := dec.Token()
			if e != nil {
				return e
			}
			key, ok := kt.(string)
			if !ok {
				return fmt.Errorf("member name is not a string")
			}
			if seen[key] {
				dup = true
			}
			seen[key] = true
			if key == "" {
				empty = true
			}
			path := parent + key // parent = dotted path of the enclosing object followed by "." ("" for the document)
			vt, e := dec.Token()
			if e != nil {
				return e
			}
			switch x := vt.(type) {
			case json.Delim:
				if x == '{' {
					if e := obj(path + "."); e != nil {
						return e
					}
				} else if e := skip(); e != nil {
					return e
				}
			case string:
				flat[path] = x
			case json.Number:
				flat[path] = x.String()
			}
		}
		_, e := dec.Token() // closing brace
		return e
	}
	if err = obj(""); err != nil {
		return nil, false, false, err
	}
	return flat, dup, empty, nil
}

// ---------- generator of JSON documents

type c20Gen struct {
	rng   *RNG
	raw   bool // raw control characters / invalid UTF-8 inside strings (L1 only)
	dots  bool // keys may contain "."
	empty bool // the empty key "" may occur
	dups  bool // duplicate member names may occur
	wsPct int  // chance of whitespace at each legal position
}

func (g *c20Gen) ws() string {
	if !g.rng.Chance(g.wsPct) {
		return ""
	}
	n := 1 + g.rng.Intn(3)
	b := make([]byte, n)
	for i := range b {
		b[i] = " \n\r\t"[g.rng.Intn(4)]
	}
	return string(b)
}

func (g *c20Gen) hex4(r int) string {
	s := []byte(fmt.Sprintf("%04x", r))
	mode := g.rng.Intn(3) // lower / upper / mixed
	for i, c := range s {
		if c >= 'a' && c <= 'f' && (mode == 1 || (mode == 2 && g.rng.Bool())) {
			s[i] = c - 32
		}
	}
	return string(s)
}

var c20AsciiPool = []byte("abcxyzABZ0189 _-/:,{}[]'<>&=+~!?#")
var c20MultiPool = []string{"é", "€", "😀", "ż", "\u00a0", "日"}
var c20EscPool = []string{`\"`, `\\`, `\/`, `\b`, `\f`, `\n`, `\r`, `\t`}
var c20UniPool = []int{0x41, 0xe9, 0x20ac, 0x0000, 0x001f, 0x0022, 0x005c, 0x002e, 0xfffd, 0xd7ff, 0xe000, 0xffff, 0x007f, 0x0080, 0x07ff, 0x0800}
var c20RawBad = []string{"\x01", "\xff", "\x7f", "\x80", "\xc3", "\x1f", "\x00", "\xed\xa0\x80", "\x0b", "\xf8"}

// the content of a string literal (between the quotes)
func (g *c20Gen) strBody(isKey bool, minChars int) string {
	rng := g.rng
	n := minChars + rng.Intn(7-minChars)
	if rng.Chance(8) {
		n = minChars + rng.Intn(20)
	}
	var sb strings.Builder
	for i := 0; i < n; i++ {
		k := rng.Intn(100)
		switch {
		case k < 40:
			c := c20AsciiPool[rng.Intn(len(c20AsciiPool))]
			sb.WriteByte(c)
		case k < 44:
			if !isKey || g.dots {
				sb.WriteByte('.')
			} else {
				sb.WriteByte('d')
			}
		case k < 54:
			sb.WriteString(c20MultiPool[rng.Intn(len(c20MultiPool))])
		case k < 68:
			sb.WriteString(c20EscPool[rng.Intn(len(c20EscPool))])
		case k < 82:
			r := c20UniPool[rng.Intn(len(c20UniPool))]
			if rng.Chance(30) {
				r = rng.Intn(0x10000)
			}
			if (r >= 0xd800 && r <= 0xdfff) || r == '%' || (r == '.' && isKey && !g.dots) {
				r = 0x263a
			}
			sb.WriteString(`\u` + g.hex4(r))
		case k < 90:
			hi, lo := 0xd83d, 0xde00
			if rng.Chance(50) {
				hi, lo = 0xd800+rng.Intn(0x400), 0xdc00+rng.Intn(0x400)
			}
			sb.WriteString(`\u` + g.hex4(hi) + `\u` + g.hex4(lo))
		case k < 95:
			if g.raw {
				sb.WriteString(c20RawBad[rng.Intn(len(c20RawBad))])
			} else {
				sb.WriteByte("uU"[rng.Intn(2)]) // the letters u / U next to escapes
			}
		default:
			sb.WriteByte(byte('a' + rng.Intn(26)))
		}
	}
	if rng.Chance(8) {
		sb.WriteString(`\\`) // the literal ends with an escaped backslash before the closing quote
		if rng.Chance(30) {
			sb.WriteString(`\\`)
		}
	}
	return sb.String()
}

var c20KeyPool = []string{"a", "b", "c", "k1", "id", "name", "é", "x y"}
var c20NumPool = []string{"0", "-1", "12.5", "1e3", "-0.5E-2", "1E+2", "123456789012345678901234567890", "-0", "0.0", "1.5e-10", "3", "42", "-7.25", "6.02e23", "9E-1"}

func (g *c20Gen) number() string {
	if g.rng.Chance(25) {
		return strconv.Itoa(g.rng.Intn(100000) - 500)
	}
	return c20NumPool[g.rng.Intn(len(c20NumPool))]
}

func (g *c20Gen) value(depth int) string {
	k := g.rng.Intn(100)
	switch {
	case k < 45:
		return `"` + g.strBody(false, 0) + `"`
	case k < 60:
		return g.number()
	case k < 68:
		return []string{"true", "false", "null"}[g.rng.Intn(3)]
	case k < 80:
		return g.array(0)
	case k < 95:
		if depth >= 4 {
			return `"` + g.strBody(false, 0) + `"`
		}
		return g.object(depth + 1)
	default:
		return "{" + g.ws() + "}"
	}
}

func (g *c20Gen) array(adepth int) string {
	rng := g.rng
	n := rng.Intn(5)
	var sb strings.Builder
	sb.WriteByte('[')
	for i := 0; i < n; i++ {
		if i > 0 {
			sb.WriteByte(',')
		}
		sb.WriteString(g.ws())
		k := rng.Intn(100)
		switch {
		case k < 30:
			sb.WriteString(g.number())
		case k < 50:
			sb.WriteString(`"` + g.strBody(false, 0) + `"`)
		case k < 65:
			sb.WriteString([]string{`"]"`, `"}"`, `"\"]"`, `"[{"`, `"\\"`, `"a\\\"]"`, `"]}\\"`}[rng.Intn(7)])
		case k < 75:
			sb.WriteString([]string{"true", "false", "null"}[rng.Intn(3)])
		case k < 87:
			if adepth < 2 {
				sb.WriteString(g.array(adepth + 1))
			} else {
				sb.WriteString("[]")
			}
		default:
			if adepth < 2 {
				sb.WriteString(g.object(3)) // a small object; contributes no leaves
			} else {
				sb.WriteString("{}")
			}
		}
		sb.WriteString(g.ws())
	}
	if n == 0 {
		sb.WriteString(g.ws())
	}
	sb.WriteByte(']')
	return sb.String()
}

func (g *c20Gen) object(depth int) string {
	rng := g.rng
	n := rng.Intn(4)
	if depth == 0 {
		n = 1 + rng.Intn(5)
		if rng.Chance(3) {
			n = 0
		}
	}
	var sb strings.Builder
	sb.WriteByte('{')
	var prev []string
	used := map[string]bool{}
	for i := 0; i < n; i++ {
		if i > 0 {
			sb.WriteByte(',')
		}
		sb.WriteString(g.ws())
		var key string
		switch {
		case g.dups && len(prev) > 0 && rng.Chance(35):
			key = prev[rng.Intn(len(prev))]
			if key == "a" && rng.Bool() {
				key = `\u0061` // the same name, written differently
			}
		case g.empty && rng.Chance(15):
			key = ""
		case rng.Chance(60):
			key = c20KeyPool[rng.Intn(len(c20KeyPool))]
			for tries := 0; used[key] && tries < 10; tries++ {
				key = c20KeyPool[rng.Intn(len(c20KeyPool))]
			}
			if used[key] {
				key = "m" + strconv.Itoa(i)
			}
			if g.dots && rng.Chance(30) {
				key = key + "." + c20KeyPool[rng.Intn(3)]
			}
		default:
			key = g.strBody(true, 1)
		}
		used[key] = true
		prev = append(prev, key)
		sb.WriteString(`"` + key + `"`)
		sb.WriteString(g.ws())
		sb.WriteByte(':')
		sb.WriteString(g.ws())
		sb.WriteString(g.value(depth))
		sb.WriteString(g.ws())
	}
	if n == 0 {
		sb.WriteString(g.ws())
	}
	sb.WriteByte('}')
	return sb.String()
}

var c20Trailers = []string{" ", "\n", " x", "}", "{}", ",", `garbage"`, "\x00", "]", `{"zz":"1"}`, "\t\r\n "}

// a document of the subset (size-capped), with optional leading whitespace and trailing garbage
func (g *c20Gen) document() string {
	var body string
	for tries := 0; tries < 30; tries++ {
		body = g.object(0)
		if len(body) <= 420 {
			break
		}
	}
	if len(body) > 420 {
		body = `{"a":"b"}`
	}
	var sb strings.Builder
	if g.rng.Chance(30) {
		n := 1 + g.rng.Intn(3)
		for i := 0; i < n; i++ {
			sb.WriteByte(" \n\r\t"[g.rng.Intn(4)])
		}
	}
	sb.WriteString(body)
	if g.rng.Chance(25) {
		sb.WriteString(c20Trailers[g.rng.Intn(len(c20Trailers))])
	}
	return sb.String()
}

var c20BadFixed = []string{
	`{"a":1{}}`, `{"a":tru}`, `{"a":+1}`, `{"a":[1,2}`, `{"a":{"b":1]`, `{"a":1,}`, `{,}`, `{"a" 1}`, `{"a":1 "b":2}`,
	``, ` `, `[]`, `"x"`, `{`, `{"a"`, `{"a":`, `{"a":"`, `{"a":1`, `{"a":nul}`, `{"a":undefined}`, `{"a":u}`, `{"a":-}`,
	`{"a":1.2.3}`, `{"a":0x10}`, `{"a":1e}`, `{"a":--1}`, `{"a":truefalse}`, `{"a":true false}`, `{"a":"x"}}`, `{"a":[}]}`,
	`{"a":["]"]}`, `{"a":{"b":"}"}}`, `{"a":{"b":"\"}"}}`, `{"a":[ "\\" ]}`, `{'a':1}`, `{a:1}`, `{"a":'x'}`, `{"a":1;"b":2}`,
	`{"a":{}`, `{"a":{"b" 1}}`, `{"a":{"b":1}{"c":2}}`, `{"a":[1]]}`, "\xef\xbb\xbf{\"a\":\"b\"}", "{\"a\":\"b\x00\"}", "\x00{\"a\":1}",
	"\v{\"a\":1}", "\f{\"a\":1}", `{"a":1}}`, `{{"a":1}}`, `{"a":{"b":{"c":{"d":{"e":"f"}}}}`, `{"a":"b",,"c":"d"}`, `{"a":"b" , }`,
	`{"a"::1}`, `{"a":,}`, `{"a":}`, `{"a":]`, `{"a":"\"}`, `{"a":"\\"}`, `{"a":"\\\"}`, `{"a\":"b"}`, `{"a\\":"b"}`, `{"":""}`,
	`{"a":tRue}`, `{"a":TRUE}`, `{"a":nullx}`, `{"a":null,"b":fals}`, `{"a":1 2}`, `{"a":1	,"b":2}`, `{"a":-1e+5x}`, `{"a":9}x`,
	`{"a":["\ud800"]}`, `{"a":{"b":["\x"]}}`, `{"a":[{]}`, `{"a":{[}}`, `{"a":{"b":"c"}`, `{"a":{"b":"c"}}}`, `{"a":[[[]]}`, `{"a":"b"]`,
	`{"a":{"b":"\ud800"}}`, `{"a":{"\ud800":"b"}}`, `{"a":{"b":tru}}`, `{"a":{"b":1 "c":2}}`, `{"a":{} "b":1}`, `{"a":[] "b":1}`,
	`{"a":{"":{"":"x"}}}`, `{"a.b":{"c.d":"x"}}`, `{"a":"1","a":"2"}`, `{"a":{"b":"1"},"a":{"c":"2"}}`, `{ "a" : { } , "b" : [ ] }`,
	`{"a":"ééé"}`, `{"a":"😀"}`, `{"a":"\ud83d\ud83d"}`, `{"a":"\ud83dA"}`, `{"a":"\ude00\ude00"}`,
	`{"a":"\ud83dxx0041"}`, `{"a":"\ud83dxxde00"}`, `{"a":"\ud83d\ude0"}`, `{"a":"\ud83d\ude"}`, `{"a":"\ud83d\u"}`, `{"a":"\ud83d\"}`,
	`{"a":"\ud83d"}`, `{"a":"\ud83d\ude00x"}`, `{"a":"\udbff\udfff"}`, `{"a":"\udbff\ue000"}`, `{"a":"\ud800\udbff"}`, `{"a":"\u"}`,
	`{"a":"\u1"}`, `{"a":"\u12"}`, `{"a":"\u123"}`, `{"a":"\u123g"}`, `{"a":"\U0041"}`, `{"a":"\a"}`, `{"a":"\0"}`, `{"a":"\'"}`, `{"a":"\ "}`,
}

var c20HexDigits = "0123456789abcdefABCDEF"

// the malformed stream; valid() supplies a fresh valid document to damage
func c20Malformed(rng *RNG, valid func() string) (doc string, kind string) {
	wrap := func(lit string) string { // put a string literal body somewhere in a small document
		pre := []string{"", "x", "é", `\n`, `A`}[rng.Intn(5)]
		post := []string{"", "y", `\\`, `\"`, "A"}[rng.Intn(5)]
		body := pre + lit + post
		switch rng.Intn(6) {
		case 0:
			return `{"` + body + `":"v"}`
		case 1:
			return `{"o":{"k":"` + body + `"}}`
		case 2:
			return `{"k":"ok","z":"` + body + `"}`
		case 3:
			return `{"k":["` + body + `"],"z":"1"}`
		case 4:
			return `{"o":{"` + body + `":1},"z":"1"}`
		}
		return `{"k":"` + body + `"}`
	}
	switch k := rng.Intn(100); {
	case k < 12:
		lit := []string{`\ud800`, `\ud800A`, `\udc00\udc00`, `\udbff`, `\udfff`, `\ud83d\n`, `\ud800A`, `\uD800\uD800`, `\udc00`}[rng.Intn(9)]
		return wrap(lit), "lone_surrogate"
	case k < 24:
		pool := []string{"xy", `\u`, `\n`, `\\`, "  ", `u\`, "\\\x00", "\xc3\xa9", "__", `\U`, `/u`}
		two := pool[rng.Intn(len(pool))]
		if rng.Chance(30) {
			two = string([]byte{byte(rng.Intn(256)), byte(rng.Intn(256))})
		}
		var hx string
		switch rng.Intn(4) {
		case 0:
			hx = "de00"
		case 1:
			hx = "DFFF"
		case 2:
			hx = "0041"
		default:
			b := make([]byte, 4)
			for i := range b {
				b[i] = c20HexDigits[rng.Intn(len(c20HexDigits))]
			}
			if rng.Chance(20) {
				b[rng.Intn(4)] = 'g'
			}
			hx = string(b)
		}
		hi := []string{`\ud83d`, `\uD800`, `\udbff`, `\udc00`}[rng.Intn(4)]
		return wrap(hi + two + hx), "surrogate_unchecked_prefix"
	case k < 32:
		lit := []string{`\x`, `\u12`, `\u12G4`, `\u`, `\U0041`, `\a`, `\0`, `\u00`, `\u+123`, `\v`, `\'`}[rng.Intn(11)]
		return wrap(lit), "bad_escape"
	case k < 47:
		d := valid()
		if len(d) == 0 {
			return d, "truncated"
		}
		return d[:rng.Intn(len(d))], "truncated"
	case k < 62:
		d := []byte(valid())
		structural := `{}[]":,\`
		var idx []int
		for i, c := range d {
			if strings.IndexByte(structural, c) >= 0 {
				idx = append(idx, i)
			}
		}
		if len(idx) == 0 {
			return string(d), "structural"
		}
		i := idx[rng.Intn(len(idx))]
		switch rng.Intn(3) {
		case 0: // delete
			d = append(d[:i:i], d[i+1:]...)
		case 1: // insert
			c := structural[rng.Intn(len(structural))]
			d = append(d[:i:i], append([]byte{c}, d[i:]...)...)
		default: // replace
			d[i] = structural[rng.Intn(len(structural))]
		}
		return string(d), "structural"
	case k < 74:
		return c20BadFixed[rng.Intn(len(c20BadFixed))], "fixed"
	case k < 87:
		d := []byte(valid())
		n := 1 + rng.Intn(3)
		for i := 0; i < n && len(d) > 0; i++ {
			p := rng.Intn(len(d))
			if rng.Bool() {
				d[p] = byte(rng.Intn(256))
			} else {
				d[p] = `{}[]"\:,a1tn `[rng.Intn(13)]
			}
		}
		return string(d), "mutated"
	default:
		alpha := `{}[]"\:,a1tn `
		n := rng.Intn(13)
		b := make([]byte, n)
		for i := range b {
			b[i] = alpha[rng.Intn(len(alpha))]
		}
		s := string(b)
		switch rng.Intn(4) {
		case 0:
			s = `{"a":` + s
		case 1:
			s = `{` + s + `}`
		case 2:
			s = `{"a":"b",` + s
		}
		return s, "random_alphabet"
	}
}

// ---------- typed leaves (flatten / ToRecursiveMap take and return interface{} values)

type c20Leaf struct{ N int }

func c20TypedLeaf(rng *RNG, str func(int) string) interface{} {
	switch rng.Intn(20) {
	case 0:
		return nil
	case 1:
		return rng.Intn(5) - 2
	case 2:
		return float64(rng.Intn(7) - 3) // a whole float64 is not an int
	case 3:
		return float64(rng.Intn(1000)) / 8
	case 4:
		return rng.Bool()
	case 5:
		return int64(rng.Intn(3))
	case 6:
		return []interface{}{}
	case 7:
		return []interface{}{float64(1), str(3), nil}
	case 8:
		return []string{"a.b", str(2)}
	case 9:
		return map[string]string{"x": str(2)} // a map of another type is a leaf
	case 10:
		return map[string]string{}
	case 11:
		return json.Number([]string{"1e3", "0", "-1.50"}[rng.Intn(3)])
	case 12:
		return c20Leaf{N: rng.Intn(3)}
	case 13:
		return map[interface{}]interface{}{"k": 1}
	case 14:
		return ""
	case 15:
		return 0
	}
	return str(6)
}

// rendering of a leaf: Go type (short code for the types of the pool) and value
var c20TypeCode = map[string]string{"<nil>": "0", "string": "s", "int": "i", "int64": "l", "float64": "f", "bool": "b", "[]interface {}": "A", "[]string": "S",
	"map[string]string": "M", "json.Number": "N", "main.c20Leaf": "L", "map[interface {}]interface {}": "I"}

func c20EncLeaf(v interface{}) string {
	t := fmt.Sprintf("%T", v)
	if c, ok := c20TypeCode[t]; ok {
		t = c
	}
	if s, ok := v.(string); ok {
		return t + "=" + s
	}
	return t + "=" + fmt.Sprintf("%#v", v)[len(fmt.Sprintf("%T", v))*c20Composite(v):]
}

// %#v repeats the type name in front of composite values: cut it off (the code carries the type)
func c20Composite(v interface{}) int {
	switch v.(type) {
	case []interface{}, []string, map[string]string, map[interface{}]interface{}, c20Leaf:
		return 1
	}
	return 0
}

func c20EncTree(m map[string]interface{}) map[string]interface{} {
	if m == nil {
		return nil
	}
	out := make(map[string]interface{}, len(m))
	for k, v := range m {
		if sub, ok := v.(map[string]interface{}); ok {
			out[k] = c20EncTree(sub)
		} else {
			out[k] = c20EncLeaf(v)
		}
	}
	return out
}

func c20EncFlat(m map[string]interface{}) map[string]string {
	out := make(map[string]string, len(m))
	for k, v := range m {
		out[k] = c20EncLeaf(v)
	}
	return out
}

func c20ImplFlattenAny(src map[string]interface{}) (kind string, out map[string]interface{}) {
	c20Begin(func() string { return "RecursiveMapToPlainMap " + fmt.Sprint(c20TreeDesc(src)) })
	defer c20End()
	defer func() {
		if r := recover(); r != nil {
			kind, out = "panic", nil
		}
	}()
	res, err := plainmap.RecursiveMapToPlainMap(src)
	if err != nil {
		return "err", nil
	}
	return "ok", res
}

// ---------- watchdog: a call of the pure functions that does not return is reported (no_hang)
// instead of running into the time limit of the orchestrator

var (
	c20InCall int32
	c20Ticks  int64
	c20What   atomic.Value // func() string
)

func c20Begin(what func() string) {
	c20What.Store(what)
	atomic.AddInt64(&c20Ticks, 1)
	atomic.StoreInt32(&c20InCall, 1)
}

func c20End() { atomic.StoreInt32(&c20InCall, 0) }

// the main goroutine is stuck inside the library when this fires, so nothing else touches o
func c20Watchdog(o *Out, limit time.Duration) {
	go func() {
		last, since := int64(-1), time.Now()
		for {
			time.Sleep(250 * time.Millisecond)
			t := atomic.LoadInt64(&c20Ticks)
			if atomic.LoadInt32(&c20InCall) == 0 || t != last {
				last, since = t, time.Now()
				continue
			}
			if time.Since(since) < limit {
				continue
			}
			what := "a call"
			if f, ok := c20What.Load().(func() string); ok {
				what = f()
			}
			if len(what) > 600 {
				what = what[:600] + "..."
			}
			o.Fail("no_hang", fmt.Sprintf("%s did not return within %v", what, limit), "hang", map[string]interface{}{"op": "hang", "call": what})
			o.Stat("hang")
			o.Finish()
			os.Exit(0)
		}
	}()
}
